"""Writes spec/MC_SampleRouting_*.cfg (X05). Run once after changing the constants; the cfg files are committed."""
import os
import sys
sys.path.insert(0, os.path.join(os.path.dirname(os.path.abspath(__file__)), '..', 'harness'))
from vlib import SPEC, Raw, write_cfg  # noqa: E402

INVS = ['Inv_X05_NoCrash', 'Inv_X05_Refused', 'Inv_X05_Files', 'Inv_X05_ExactlyOnce', 'Inv_X05_Unselected', 'Inv_X05_Head',
        'Inv_X05_Order', 'Inv_X05_Content', 'Inv_X05_RecordRG', 'Inv_X05_HeaderRG', 'Inv_X05_Closed', 'Inv_X05_Step']
SINVS = ['Inv_X05s_Refused', 'Inv_X05s_NoCrash', 'Inv_X05s_Files', 'Inv_X05s_ExactlyOnce', 'Inv_X05s_Unselected', 'Inv_X05s_Content',
         'Inv_X05s_Sorted', 'Inv_X05s_Header', 'Inv_X05s_Indexed', 'Inv_X05s_Closed']
BASE = dict(SampleNames=Raw('{"a", "b", "c"}'), NoSM=True, AsgSamples=Raw('{"a", "b"}'), GroupNames=Raw('{"g", "h"}'),
            MaxRecs=3, MaxGroups=2, MaxPerGroup=2, HeadMax=2, WRGs=Raw('{TRUE, FALSE}'), Prefix='P_', StemWithBam=False,
            Mode='api', MaxLines=0, Variant='design',
            NoCols=Raw('{FALSE}'), AddChrs=Raw('{FALSE}'), DupFlags=Raw('{FALSE}'), LowQFlags=Raw('{FALSE}'), PosMax=1, MapqReading='ignored')


def cfg(name, gen=False, **kw):
    c = dict(BASE)
    c.update(kw)
    # negative controls are judged by the clauses of the property alone (the step invariant would always be the first to fail)
    invs = () if gen else SINVS if c['Mode'] == 'split' else (INVS if c['Variant'] == 'design' else INVS[:-1])
    write_cfg(os.path.join(SPEC, 'MC_SampleRouting_%s.cfg' % name), constants=c, invariants=invs,
              constraints=('Emit',) if gen else ())


# design runs (must pass, every action covered)
cfg('design_api_q', WRGs=Raw('{TRUE}'))
cfg('design_norg_q', WRGs=Raw('{FALSE}'), MaxRecs=2, Prefix='', GroupNames=Raw('{"", "g"}'))
cfg('design_cli_q', Mode='cli', MaxLines=3, MaxRecs=1, HeadMax=0, WRGs=Raw('{FALSE}'), SampleNames=Raw('{"a", "b"}'))
cfg('design_bam_q', StemWithBam=True, MaxRecs=2, MaxGroups=1, HeadMax=0)
cfg('design_api_t', MaxRecs=4, HeadMax=3)
cfg('design_cli_t', Mode='cli', MaxLines=3, MaxRecs=2, HeadMax=1)
cfg('design_3groups_t', GroupNames=Raw('{"", "g", "h"}'), MaxGroups=3, MaxPerGroup=1, AsgSamples=Raw('{"a", "b", "c"}'), MaxRecs=3,
    WRGs=Raw('{TRUE}'))
# negative controls (must fail)
SMALL = dict(MaxRecs=2, HeadMax=1, WRGs=Raw('{TRUE}'))
for v in ('missing_sm_crash', 'dup_same_group', 'head_after_write', 'head_per_group', 'head_off_by_one', 'first_group_wins',
          'last_group_wins', 'write_before_rg', 'rg_without_prefix', 'header_rg_kept', 'unselected_to_first', 'impl'):
    cfg('%s_q' % v, Variant=v, **SMALL)
cfg('replace_all_bam_q', Variant='replace_all_bam', StemWithBam=True, MaxRecs=1, MaxGroups=1, HeadMax=0)
for v in ('cli_no_clean', 'cli_group_as_sample'):
    cfg('%s_q' % v, Variant=v, Mode='cli', MaxLines=2, MaxRecs=2, HeadMax=0, WRGs=Raw('{FALSE}'))
# scenario generators (spec -> code)
cfg('gen_api_q', gen=True, MaxRecs=2, HeadMax=1)
cfg('gen_bam_q', gen=True, StemWithBam=True, MaxRecs=1, MaxPerGroup=1, HeadMax=0)
cfg('gen_cli_q', gen=True, Mode='cli', MaxLines=2, MaxRecs=2, HeadMax=1, WRGs=Raw('{TRUE}'), SampleNames=Raw('{"a", "b"}'))
cfg('gen_api_t', gen=True, MaxRecs=3, HeadMax=2)
cfg('gen_cli_t', gen=True, Mode='cli', MaxLines=3, MaxRecs=2, HeadMax=1, SampleNames=Raw('{"a", "b"}'))

# Mode = "split": split_bam_by_cluster.py
SPLIT = dict(Mode='split', MaxRecs=2, MaxLines=2, NoCols=Raw('{TRUE, FALSE}'), AddChrs=Raw('{TRUE}'), DupFlags=Raw('{TRUE, FALSE}'), PosMax=2)
cfg('design_split_q', **dict(SPLIT, SampleNames=Raw('{"a", "b"}')))
cfg('design_splitmq_q', **dict(SPLIT, MapqReading='filter', LowQFlags=Raw('{TRUE, FALSE}'), DupFlags=Raw('{FALSE}'), NoCols=Raw('{TRUE}'),
                               AddChrs=Raw('{FALSE}'), SampleNames=Raw('{"a", "b"}')))
cfg('design_split_t', **dict(SPLIT, MaxRecs=3, NoCols=Raw('{FALSE}')))
cfg('design_split3_t', **dict(SPLIT, MaxLines=3, SampleNames=Raw('{"a", "b"}')))
SNEG = dict(SPLIT, SampleNames=Raw('{"a", "b"}'), DupFlags=Raw('{FALSE}'), NoCols=Raw('{FALSE}'), PosMax=1)
for v, kw in (('split_skip_always', dict(NoCols=Raw('{TRUE, FALSE}'))), ('split_skip_never', dict(NoCols=Raw('{TRUE, FALSE}'))),
              ('split_dup_last_wins', {}), ('split_keep_dups', dict(DupFlags=Raw('{TRUE, FALSE}'))), ('split_no_missing_name', {}),
              ('split_no_sort', dict(PosMax=2)), ('split_no_cleanup', {}), ('split_no_index', {}), ('split_prefix_some', {}),
              ('split_first_cluster_all', {})):
    cfg('%s_q' % v, Variant=v, **dict(SNEG, **kw))
cfg('gen_split_q', gen=True, **dict(SPLIT, SampleNames=Raw('{"a", "b"}'), AddChrs=Raw('{TRUE, FALSE}')))
cfg('gen_split_t', gen=True, **dict(SPLIT, AddChrs=Raw('{TRUE, FALSE}'), MaxLines=3, SampleNames=Raw('{"a", "b"}')))
