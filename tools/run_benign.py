#!/usr/bin/env python3
"""tools/run_benign.py <patch-dir> <ID> [<ID>...]: apply a behaviour-preserving change in a scratch worktree and run the listed
checks against it: every one must exit 0 (a 1 would be a FALSE ALARM, a 2 a machinery failure)."""
import os, re, shutil, subprocess, sys, tempfile
from concurrent.futures import ThreadPoolExecutor
V = os.path.dirname(os.path.dirname(os.path.abspath(__file__)))
d, ids = sys.argv[1], sys.argv[2:]
def sh(c, **kw): return subprocess.run(c, shell=True, stdout=subprocess.PIPE, stderr=subprocess.STDOUT, text=True, **kw)
wt = tempfile.mkdtemp(prefix='bn_', dir='/tmp'); os.rmdir(wt)
assert sh('git -C /repo worktree add -q --detach %s HEAD' % wt).returncode == 0
try:
    a = sh('git -C %s apply %s/patch.diff' % (wt, d))
    if a.returncode:
        print('PATCH-DOES-NOT-APPLY', d, a.stdout[-200:]); sys.exit(3)
    def one(i):
        ev = tempfile.mkdtemp(prefix='bnev_', dir='/tmp')
        c = sh('%s/check %s --tier quick' % (V, i), env=dict(os.environ, VERIF_REPO=wt, VERIF_EVIDENCE_DIR=ev, VERIF_REPLAY_DIR=ev), timeout=7200)
        shutil.rmtree(ev, True)
        return i, c.returncode, re.findall(r'violation key=(\S+)', c.stdout)[:3], c.stdout[-300:] if c.returncode == 2 else ''
    with ThreadPoolExecutor(3) as ex:
        for i, rc, keys, tail in ex.map(one, ids):
            print('%s %s rc=%d %s %s %s' % (os.path.basename(d), i, rc, {0: 'quiet', 1: 'ALARM'}.get(rc, 'MACHINERY'), keys, tail))
finally:
    sh('git -C /repo worktree remove --force %s' % wt); shutil.rmtree(wt, True)
