"""Writes the TLC configurations spec/MC_MolAssign_*.cfg (C06 / C07). usage: gen_molassign_cfgs.py /verif/spec
The .cfg files are committed; this script only documents how they were produced."""
import sys
INV0 = ['Inv_Conservation','Inv_C06_Homogeneous','Inv_C06_Linked','Inv_C06_Exact','Inv_C06_ExactHD','Inv_C06_OnePrimary','Inv_C06_Counts','Inv_C06_Idempotent',
       'Inv_C07_ExactlyOnce','Inv_C07_SamePartition','Inv_C07_NoPremature','Inv_C07_PoolingAgnostic']
BASE = dict(Kind='"nla"', HD=0, Radius=0, Cap=0, CacheSize=4, ReadLens='{9}', Cells='{1}', Contigs='{1}', Strands='{0}', Sites='{0,1}',
            Lens='{1}', Umis='{0}', Valids='{TRUE}', MaxFrags=4, Scheds='{1000}', Poolings='{0, 1}', Variant='"design"')
def cfg(name, extra_lines=(), inv=None, **kw):
    d = dict(BASE); d.update(kw)
    INV = inv or INV0
    lines = ['INIT Init','NEXT Next','CONSTANTS'] + ['  %s = %s' % (k, v) for k, v in d.items()] + ['INVARIANT %s' % i for i in INV] + list(extra_lines) + ['CHECK_DEADLOCK FALSE']
    open('%s/MC_MolAssign_%s.cfg' % (sys.argv[1], name), 'w').write('\n'.join(lines) + '\n')
C07INV = ['Inv_C07_ExactlyOnce','Inv_C07_SamePartition','Inv_C07_NoPremature']
C07NLA = dict(Strands='{0, 1}', Sites='{0,1,2,3}', Lens='{1, 2}', Scheds='{1000, 0}')
cfg('c07nla_q', **C07NLA)
cfg('c07nla_pop', Variant='"impl_pop"', **C07NLA)
cfg('c07nla_beyond', inv=C07INV, **dict(C07NLA, Lens='{1, 4}', Poolings='{1}', Scheds='{1000, 0}'))
C07CHIC = dict(Kind='"chic"', Radius=1, CacheSize=6, Sites='{0,1,2,3}', Lens='{1, 2}', Umis='{0, 1}', Scheds='{1000, 0}', Poolings='{1}', ReadLens='{9}')
cfg('c07chic_q', **C07CHIC)
cfg('c07chic_pop', Variant='"impl_pop"', **C07CHIC)
cfg('c07chic_beyond', inv=C07INV, **dict(C07CHIC, Lens='{1, 4}', Sites='{0,1,2,3}'))
cfg('c07contig_q', ReadLens='{1}', Contigs='{1, 2}', Strands='{0}', Sites='{0,1,2}', Lens='{1, 2}', Scheds='{1000, 0, 1}', Poolings='{0, 1}', MaxFrags=4)
# C06
cfg('c06hd1_q', HD=1, Umis='{0, 1, 6, 4}', Sites='{0, 1}', MaxFrags=5)
cfg('c06hd2_q', HD=2, Umis='{0, 6, 4, 25}', Sites='{0}', MaxFrags=5)
cfg('c06hd0_q', HD=0, Cells='{1, 2}', Strands='{0, 1}', Sites='{0, 1}', Umis='{0, 1}', Valids='{TRUE, FALSE}', MaxFrags=3)
cfg('c06cap_q', Cap=2, Umis='{0, 1}', Sites='{0, 1}', MaxFrags=5, Scheds='{1000, 0}')
cfg('c06cap1_q', Cap=1, Umis='{0, 1}', Sites='{0, 1}', MaxFrags=4, Scheds='{1000, 0}')      # cap 1: every copy is turned away
cfg('c06cap_dup', Cap=2, Umis='{0, 1}', Sites='{0, 1}', MaxFrags=4, Variant='"impl_dup"')
cfg('c06chicr_q', Kind='"chic"', Radius=1, Strands='{0, 1}', Sites='{0,1,2,3}', MaxFrags=4)
PLAIN = dict(Kind='"plain"', Contigs='{1, 2}', Sites='{0,1,2}', Lens='{1, 2}', MaxFrags=3, Scheds='{1000, 0}', CacheSize=4)
cfg('c06plain_q', **PLAIN)
cfg('c06plain_contig', Variant='"impl_contig"', **PLAIN)
cfg('c06plainr_q', **dict(PLAIN, Radius=1, CacheSize=6, Contigs='{1}', Sites='{0,1,2,3}', MaxFrags=4, Strands='{0}', Lens='{1,2}', Scheds='{1000}'))

# thorough
cfg('c07nla_t', **dict(C07NLA, Sites='{0,1,2,3,4}', Scheds='{1000, 0, 1, 2}', ReadLens='{1, 9}'))
cfg('c07nla5_t', **dict(C07NLA, Sites='{0,1,2}', Scheds='{1000, 0, 1}', MaxFrags=5))
cfg('c07chic_t', **dict(C07CHIC, Sites='{0,1,2,3,4}', Poolings='{0, 1}', ReadLens='{1, 9}', Scheds='{1000, 0, 1}'))
cfg('c07plain_t', Kind='"plain"', Radius=1, CacheSize=6, Strands='{0, 1}', Sites='{0,1,2,3}', Lens='{1, 2}', Scheds='{1000, 0, 1}', MaxFrags=4)
cfg('c07contig_t', ReadLens='{1, 9}', Contigs='{1, 2}', Strands='{0, 1}', Sites='{0,1,2}', Lens='{1, 2}', Scheds='{1000, 0, 1}', MaxFrags=4)
cfg('c06hd1_t', HD=1, Cells='{1, 2}', Umis='{0, 1, 6, 4}', Sites='{0, 1}', MaxFrags=4, Strands='{0, 1}')
cfg('c06hd2_t', HD=2, Umis='{0, 1, 6, 4, 25}', Sites='{0, 1}', MaxFrags=5)
cfg('c06hd0_t', HD=0, Cells='{1, 2}', Strands='{0, 1}', Sites='{0, 1}', Umis='{0, 1}', Valids='{TRUE, FALSE}', MaxFrags=4, Poolings='{1}')
cfg('c06cap_t', Cap=2, HD=1, Umis='{0, 1, 6}', Sites='{0, 1}', MaxFrags=6, Scheds='{1000, 0}')
# scenario generators (spec -> code): design model, every final state prints its scenario
GEN = ['CONSTRAINT Emit']
cfg('gen3_q', extra_lines=GEN, inv=['Inv_Conservation'], **dict(C07NLA, Scheds='{0, 1}', MaxFrags=3, ReadLens='{1, 9}'))
cfg('gen4_q', extra_lines=GEN, inv=['Inv_Conservation'], **dict(C07NLA, Sites='{0,1,2}', Scheds='{0}', Poolings='{0}', MaxFrags=4))
cfg('genchic_q', extra_lines=GEN, inv=['Inv_Conservation'], **dict(C07CHIC, Sites='{0,1,2}', Scheds='{0}', MaxFrags=4))
cfg('genplain_t', extra_lines=GEN, inv=['Inv_Conservation'], Kind='"plain"', Radius=1, CacheSize=6, Strands='{0, 1}', Sites='{0,1,2}', Lens='{1, 2}', Scheds='{0, 1}', Poolings='{0, 1}', MaxFrags=3)
cfg('gen4_t', extra_lines=GEN, inv=['Inv_Conservation'], **dict(C07NLA, Sites='{0,1,2,3}', Scheds='{0, 1}', Poolings='{0}', MaxFrags=4))

# one bucket holding ejectable / open / ejectable molecules + a later fragment joining the open one (5 fragments), and
# a molecule whose second fragment extends its right border + unrelated fragment + late joiner (4 fragments): plain
# fragments (start-or-end matching lets a later fragment join by its END), cache 6, lengths {1,3}
PLAIN5 = dict(Kind='"plain"', CacheSize=6, Strands='{0}', Sites='{0,2}', Lens='{1, 3}', Umis='{0, 1, 6}', MaxFrags=5, Scheds='{1000, 0}', Poolings='{0, 1}')
cfg('c07plain5_t', **PLAIN5)
cfg('genplain5_t', extra_lines=GEN, inv=['Inv_Conservation'], **dict(PLAIN5, Scheds='{0}', Poolings='{0}'))   # the driver runs both pooling methods

# a tie (fragment accepted by two open molecules: end of the older, start of the newer) after an ejection that happens while
# both are open: the survivors must keep their order.  plain, cache 4, check_eject_every = 2
TIE = dict(Kind='"plain"', CacheSize=4, Strands='{0}', Sites='{0,1,2,3}', Lens='{1, 2}', Umis='{0}', MaxFrags=4, Poolings='{0}')
cfg('c07tie_q', **dict(TIE, Scheds='{1000, 2}', Poolings='{0, 1}'))
cfg('gentie_q', extra_lines=GEN, inv=['Inv_Conservation'], **dict(TIE, Scheds='{2}'))

# paired-end release order (by the second mate): a molecule opened by A, joined through an end match by B that starts further
# upstream, then C matching only via B's start.  plain, cache 8, lengths {2,3,4}, release position = end - 1
UP = dict(Kind='"plain"', CacheSize=8, ReadLens='{1}', Strands='{0}', Sites='{0,1}', Lens='{2, 3, 4}', Umis='{0}', MaxFrags=4)
cfg('c07upstream_q', **dict(UP, Scheds='{1000, 0}', Poolings='{0, 1}'))
cfg('genupstream_q', extra_lines=GEN, inv=['Inv_Conservation'], **dict(UP, Scheds='{0}', Poolings='{0}'))
