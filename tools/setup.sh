#!/bin/sh
# Offline setup: nothing to build (specs are interpreted by TLC, the repository is pure Python).
# Verifies the tools the checks need and that the shared spec modules parse.
set -e
cd "$(dirname "$0")/.."
command -v java >/dev/null
test -f /opt/veriftools/tla/tla2tools.jar
test -x /venv/bin/python
mkdir -p evidence replays
/venv/bin/python -c "import pysam, numpy, pandas" 
(cd spec && java -cp /opt/veriftools/tla/tla2tools.jar:/opt/veriftools/tla/CommunityModules-deps.jar tla2sany.SANY TraceLib.tla >/dev/null)
echo setup ok
