#!/usr/bin/env python3
"""tools/coverage_report.py <ID> [tier]: run ./check <ID> with every driver process measured by coverage.py (branch coverage,
subprocesses and pool workers included via COVERAGE_PROCESS_START) and report, for the property's ANCHOR FILES only, the
lines/branches of the repository the check's real executions never reach. Uncovered code inside the anchored mechanisms is
where a seeded change cannot be seen by any oracle. Output: docs/coverage/<ID>.txt (+ summary on stdout)."""
import json, os, subprocess, sys, tempfile, shutil
V = os.path.dirname(os.path.dirname(os.path.abspath(__file__)))
pid = sys.argv[1]; tier = sys.argv[2] if len(sys.argv) > 2 else 'quick'
props = {json.loads(l)['id']: json.loads(l) for l in open(os.path.join(V, 'properties.jsonl')) if l.strip()}
anchors = props[pid]['anchors']['files']
d = tempfile.mkdtemp(prefix='cov_%s_' % pid, dir='/tmp')
rc = os.path.join(d, 'coveragerc')
open(rc, 'w').write('[run]\nbranch = True\nparallel = True\nsource = /repo/singlecellmultiomics\ndata_file = %s/.coverage\nconcurrency = multiprocessing,thread\nsigterm = True\n' % d)
env = dict(os.environ, COVERAGE_PROCESS_START=rc, VERIF_EVIDENCE_DIR=d, VERIF_REPLAY_DIR=d)
p = subprocess.run([os.path.join(V, 'check'), pid, '--tier', tier], env=env, stdout=subprocess.PIPE, stderr=subprocess.STDOUT, text=True)
print('check rc=%d %s' % (p.returncode, p.stdout.strip().splitlines()[-1][:160] if p.stdout.strip() else ''))
cov = '/venv/bin/python -m coverage'
subprocess.run('%s combine --rcfile=%s -q' % (cov, rc), shell=True, cwd=d, stdout=subprocess.DEVNULL, stderr=subprocess.DEVNULL)
inc = ','.join('/repo/' + a for a in anchors)
r = subprocess.run('%s report --rcfile=%s -m --include=%s --skip-empty' % (cov, rc, inc), shell=True, cwd=d, stdout=subprocess.PIPE, stderr=subprocess.STDOUT, text=True)
os.makedirs(os.path.join(V, 'docs', 'coverage'), exist_ok=True)
out = os.path.join(V, 'docs', 'coverage', pid + '.txt')
open(out, 'w').write('# %s (%s tier): repository lines/branches in the anchor files NOT reached by the check\'s real executions\n'
                     '# (coverage.py branch coverage over all driver processes; "a->b" = branch from line a to line b never taken)\n%s' % (pid, tier, r.stdout))
print(r.stdout[-1500:])
shutil.rmtree(d, True)
