"""Writes spec/MC_MethylationMatrix_*.cfg (X04). Re-run after changing the constants; the cfg files are committed."""
import os
SPEC = os.path.join(os.path.dirname(os.path.dirname(os.path.abspath(__file__))), 'spec')
INVS = ['NoCrash', 'Counted', 'Conserved', 'SplitIndependent', 'JobPrune', 'SitesCoverCells', 'PostOp']


def s(xs):
    return '{' + ', '.join(('TRUE' if x else 'FALSE') if isinstance(x, bool) else str(x) for x in xs) + '}'


def cfg(name, *, samples=(1, 2), maxpos=3, contiglen=4, binsize=2, jobspan=2, maxobs=3, maxtouch=0, dyad=False, revs=(False,),
        jobk=0, jobmv=-1, maxpost=0, postks=(0, 1, 2), variant='design', gen=False):
    neg = lambda v: str(v) if v >= 0 else 'MinusOne'
    L = ['INIT Init', 'NEXT Next', 'CONSTANTS', '  Samples = %s' % s(samples), '  MaxPos = %d' % maxpos, '  ContigLen = %d' % contiglen,
         '  BinSize = %d' % binsize, '  JobSpan = %d' % jobspan, '  MaxObs = %d' % maxobs, '  MaxTouch = %d' % maxtouch,
         '  Dyad = %s' % ('TRUE' if dyad else 'FALSE'), '  Revs = %s' % s(revs),
         '  JobK <- %s' % ('K%s' % ('m1' if jobk < 0 else jobk)), '  JobMV <- %s' % ('K%s' % ('m1' if jobmv < 0 else jobmv)),
         '  MaxPost = %d' % maxpost, '  PostKs <- %s' % ('PostKsAll' if -1 in postks else 'PostKsPlain'),
         '  TrackHist = %s' % ('TRUE' if gen else 'FALSE'), '  Variant = "%s"' % variant]
    if gen:
        L.append('CONSTRAINT Emit')
    else:
        L += ['INVARIANT Inv_X04_%s' % i for i in INVS]
    L.append('CHECK_DEADLOCK FALSE')
    with open(os.path.join(SPEC, name), 'w') as f:
        f.write('\n'.join(L) + '\n')


# design
cfg('MC_MethylationMatrix_count_q.cfg', maxobs=4, maxtouch=1)                                   # counting + merge orders, 2 jobs
cfg('MC_MethylationMatrix_dyad_q.cfg', maxobs=4, dyad=True, revs=(False, True), maxpos=2)        # dyad shift across the job boundary
cfg('MC_MethylationMatrix_prune_q.cfg', maxobs=4, maxtouch=1, jobk=1, jobmv=0)                  # per-job prune(1, 0)
cfg('MC_MethylationMatrix_post_q.cfg', maxobs=3, maxtouch=1, maxpost=1, postks=(-1, 0, 1, 2))     # post-processing operations
cfg('MC_MethylationMatrix_count_t.cfg', maxobs=5, maxtouch=1, maxpos=5, contiglen=6, jobspan=2)  # 3 jobs
cfg('MC_MethylationMatrix_dyad_t.cfg', maxobs=5, dyad=True, revs=(False, True), maxpos=4, contiglen=6, jobspan=2, jobk=1)
cfg('MC_MethylationMatrix_post_t.cfg', maxobs=3, maxtouch=2, maxpost=2, postks=(-1, 0, 1, 2), jobk=-1)
cfg('MC_MethylationMatrix_span4_t.cfg', maxobs=5, maxtouch=1, maxpos=7, contiglen=7, binsize=2, jobspan=4)   # clipped last bin
# negative controls
cfg('MC_MethylationMatrix_dyad_after_bounds_q.cfg', maxobs=2, dyad=True, revs=(False, True), maxpos=2, variant='dyad_after_bounds')
cfg('MC_MethylationMatrix_setitem_no_site_q.cfg', maxobs=1, maxpost=1, variant='setitem_no_site')
cfg('MC_MethylationMatrix_ctor_no_sites_q.cfg', maxobs=1, maxpost=1, variant='ctor_no_sites')
cfg('MC_MethylationMatrix_prune_none_q.cfg', maxobs=1, jobk=-1, variant='prune_none')
cfg('MC_MethylationMatrix_unaligned_q.cfg', maxobs=2, jobspan=1, variant='unaligned')
cfg('MC_MethylationMatrix_mut_swap_um_q.cfg', maxobs=1, variant='mut_swap_um')
cfg('MC_MethylationMatrix_mut_prune_le_q.cfg', maxobs=2, jobk=1, variant='mut_prune_le')
cfg('MC_MethylationMatrix_impl_q.cfg', maxobs=2, dyad=True, revs=(False, True), maxpos=2, maxpost=1, postks=(-1, 0, 1, 2), variant='impl')
cfg('MC_MethylationMatrix_impl_asfound_q.cfg', maxobs=1, maxpost=1, postks=(-1, 0, 1, 2), variant='impl_asfound')
# scenario generators (spec -> code): _q small exhaustive sets, _t larger ones (sampled by the check)
cfg('MC_MethylationMatrix_gen_count_q.cfg', maxobs=3, maxtouch=0, gen=True)
cfg('MC_MethylationMatrix_gen_prune_q.cfg', maxobs=2, maxtouch=1, jobk=1, jobmv=0, gen=True)
cfg('MC_MethylationMatrix_gen_post_q.cfg', maxobs=2, maxtouch=0, maxpost=1, postks=(-1, 0, 1, 2), gen=True)
cfg('MC_MethylationMatrix_gen_post2_q.cfg', samples=(1,), maxobs=1, maxtouch=0, maxpost=2, postks=(0, 1, 2), gen=True)
cfg('MC_MethylationMatrix_gen_count_t.cfg', maxobs=3, maxtouch=1, gen=True)
cfg('MC_MethylationMatrix_gen_prune_t.cfg', maxobs=3, maxtouch=1, jobk=1, jobmv=0, gen=True)
cfg('MC_MethylationMatrix_gen_post_t.cfg', maxobs=2, maxtouch=1, maxpost=1, postks=(-1, 0, 1, 2), gen=True)
cfg('MC_MethylationMatrix_gen_post2_t.cfg', samples=(1, 2), maxobs=2, maxtouch=0, maxpost=2, postks=(0, 1, 2), gen=True)
print('ok')
