#!/usr/bin/env python3
"""tools/confirm_mutants.py <property-id> <dir with m*/patch.diff,demo.py,meta.json> [--tier quick]
For every candidate seeded change: confirm IN A FRESH SCRATCH WORKTREE (never /repo) that (1) the patch applies,
(2) the repository test-suite still passes (81), (3) demo.py exits 0 without and non-zero with the patch,
(4) run the property's check against the patched worktree (VERIF_REPO) -> CAUGHT / MISSED.
Confirmed ones are copied to /verif/seeded/<id>-<name>/ (patch.diff, demo.py, meta.json augmented with what was run)."""
import json, os, shutil, subprocess, sys, tempfile, re

pid, src = sys.argv[1], sys.argv[2]
tier = sys.argv[4] if len(sys.argv) > 4 and sys.argv[3] == '--tier' else 'quick'
V = os.path.dirname(os.path.dirname(os.path.abspath(__file__)))
PY = '/venv/bin/python'


def sh(cmd, **kw):
    return subprocess.run(cmd, shell=True, stdout=subprocess.PIPE, stderr=subprocess.STDOUT, text=True, **kw)


for name in sorted(os.listdir(src)):
    d = os.path.join(src, name)
    if not os.path.isfile(os.path.join(d, 'patch.diff')):
        continue
    wt = tempfile.mkdtemp(prefix='mutwt_', dir='/tmp'); os.rmdir(wt)
    assert sh('git -C /repo worktree add -q --detach %s HEAD' % wt).returncode == 0
    res = {'candidate': d}
    try:
        env = dict(os.environ, PYTHONPATH=wt, PYTHONHASHSEED='0')
        r0 = sh('%s %s/demo.py' % (PY, d), env=env, cwd=wt, timeout=900)
        res['demo_rc_without_patch'] = r0.returncode
        ap = sh('git -C %s apply %s/patch.diff' % (wt, d))
        res['applies'] = ap.returncode == 0
        if not res['applies']:
            print('DROP %s: patch does not apply: %s' % (d, ap.stdout[-300:])); continue
        r1 = sh('%s %s/demo.py' % (PY, d), env=env, cwd=wt, timeout=900)
        res['demo_rc_with_patch'] = r1.returncode
        t = sh('%s -m pytest -q -p no:cacheprovider --timeout=900 2>&1 | tail -3' % PY, env=env, cwd=wt, timeout=3000)
        m = re.search(r'(\d+) passed', t.stdout); f = re.search(r'(\d+) failed', t.stdout)
        res['tests_passed'] = int(m.group(1)) if m else 0
        res['tests_failed'] = int(f.group(1)) if f else 0
        ev = tempfile.mkdtemp(prefix='mutev_', dir='/tmp')
        c = sh('%s/check %s --tier %s' % (V, pid, tier), env=dict(os.environ, VERIF_REPO=wt, VERIF_EVIDENCE_DIR=ev, VERIF_REPLAY_DIR=ev), timeout=900)
        res['check_rc'] = c.returncode
        res['check_verdict'] = {0: 'MISSED', 1: 'CAUGHT'}.get(c.returncode, 'MACHINERY')
        res['check_keys'] = re.findall(r'violation key=(\S+)', c.stdout)[:6]
        res['check_tail'] = c.stdout[-400:] if c.returncode not in (0, 1) else ''
        shutil.rmtree(ev, True)
        ok = res['demo_rc_without_patch'] == 0 and res['demo_rc_with_patch'] != 0 and res['tests_passed'] >= 81 and res['tests_failed'] == 0
        res['confirmed'] = ok
        print('%s %s %s: demo %d->%d tests %d/%d keys=%s %s' % ('KEEP' if ok else 'DROP', res['check_verdict'], d, res['demo_rc_without_patch'],
              res['demo_rc_with_patch'], res['tests_passed'], res['tests_failed'], res['check_keys'][:2], res['check_tail'][-200:]))
        if ok:
            dst = os.path.join(V, 'seeded', '%s-%s%s' % (pid, os.environ.get('MUT_PREFIX', ''), name))
            os.makedirs(dst, exist_ok=True)
            shutil.copy(os.path.join(d, 'patch.diff'), dst); shutil.copy(os.path.join(d, 'demo.py'), dst)
            meta = json.load(open(os.path.join(d, 'meta.json'))) if os.path.exists(os.path.join(d, 'meta.json')) else {}
            meta.update({'property': pid, 'confirmed_by_integrator': {
                'ran': ['git apply in fresh worktree of /repo HEAD', 'repo test-suite (pytest, 81 tests)', 'demo.py without/with patch',
                        'VERIF_REPO=<worktree> ./check %s --tier %s' % (pid, tier)],
                'repo_head': sh('git -C /repo rev-parse --short HEAD').stdout.strip(),
                'tests_passed': res['tests_passed'], 'demo_rc_without_patch': res['demo_rc_without_patch'],
                'demo_rc_with_patch': res['demo_rc_with_patch'], 'check_verdict': res['check_verdict'], 'check_tier': tier,
                'violation_keys': res['check_keys']}})
            json.dump(meta, open(os.path.join(dst, 'meta.json'), 'w'), indent=1)
    finally:
        sh('git -C /repo worktree remove --force %s' % wt)
        shutil.rmtree(wt, True)
