#!/bin/sh
# tools/run_all.sh [tier] [jobs]  - run every registered check (MANIFEST.json) and summarise; logs in $OUT (default a temp dir)
tier="${1:-quick}"; jobs="${2:-3}"
out="${OUT:-$(mktemp -d /tmp/runall_XXXXXX)}"
cd /verif || exit 2
ids=$(python3 -c "import json;print(' '.join(c['property_id'] for c in json.load(open('MANIFEST.json'))['checks']))")
echo "$ids" | tr ' ' '\n' | xargs -P "$jobs" -I{} sh -c "start=\$(date +%s); ./check {} --tier $tier > $out/{}.log 2>&1; rc=\$?; echo \"{} rc=\$rc \$((\$(date +%s)-start))s \$(grep -c '^VIOLATION' $out/{}.log) violations \$(grep -c '^KNOWN-FINDING' $out/{}.log) known\""
echo "logs: $out"
