#!/usr/bin/env python3
"""Regenerates MANIFEST.json from the META dict of every checks/Cxx.py (single source of truth)."""
import ast
import json
import os
import sys

V = os.path.dirname(os.path.dirname(os.path.abspath(__file__)))
props = [json.loads(l)['id'] for l in open(os.path.join(V, 'properties.jsonl')) if l.strip()]


def meta_of(path):
    tree = ast.parse(open(path).read())
    for n in tree.body:
        if isinstance(n, ast.Assign) and getattr(n.targets[0], 'id', None) == 'META':
            return ast.literal_eval(n.value)
    return None


ready = set(open(os.path.join(V, 'tools', 'ready.txt')).read().split())
checks, na = [], []
for pid in props:
    p = os.path.join(V, 'checks', pid + '.py')
    m = meta_of(p) if os.path.exists(p) and pid in ready else None
    if not m or m.get('not_applicable'):
        na.append({'property_id': pid, 'reason': (m or {}).get('not_applicable') or
                   'check not built yet (planned: DESIGN.md section 3.%d); nothing is claimed for it' % int(pid[1:])})
        continue
    checks.append({
        'property_id': pid,
        'quick_cmd': './check %s --tier quick' % pid,
        'thorough_cmd': './check %s --tier thorough' % pid,
        'evidence_file': '/verif/evidence/%s.json' % pid,
        'replay_cmd_template': './check %s --replay {path}' % pid,
        'engine': 'tlc',
        'level_claimed': {'category': m.get('level', 'model_checking'), 'text': m['level_text'],
                          'design_ref': 'DESIGN.md section ' + m.get('design_ref', '3')},
        'level_note': m['level_note'],
        'technique': m['technique'],
    })
hooks_path = os.path.join(V, 'tools', 'hook_commits.txt')
hook_commits = [l.strip() for l in open(hooks_path)] if os.path.exists(hooks_path) else []
man = {
    'version': 1,
    'setup_cmd': 'sh tools/setup.sh',
    'hooks': {
        'guard': 'SCMO_VERIF',
        'enable': 'drivers are started with SCMO_VERIF=1 and PYTHONPATH=$VERIF_REPO (default /repo): the package is pure Python '
                  'and is imported from the working tree, nothing is built; hooks (if any) only act when SCMO_VERIF=1',
        'baseline_off_cmd': 'cd /repo && env -u SCMO_VERIF /venv/bin/python -m pytest -ra -q -p no:cacheprovider --timeout=900 --continue-on-collection-errors',
        'source_commits': hook_commits,
        'add_only': True,
    },
    'engines': [{'name': 'tlc', 'path': '/verif/check', 'serves_properties': [c['property_id'] for c in checks],
                 'kind_free_text': 'explicit TLA+ specifications (spec/*.tla) model-checked with TLC; drivers (harness/drive_*.py) run the '
                                   'real code and record ndjson observations that TLC validates against the specifications '
                                   '(spec/Trace_*.tla); TLC-generated scenarios are replayed into the real code'}],
    'checks': checks,
    'not_applicable': na,
    'notes': 'Every verdict is a TLA+ formula evaluated by TLC; Python only drives the implementation and records observations. '
             'exit 2 = machinery failure (never a property verdict). VERIF_REPO selects the tree under test (default /repo).',
}
json.dump(man, open(os.path.join(V, 'MANIFEST.json'), 'w'), indent=1)
print('MANIFEST.json: %d checks, %d not_applicable' % (len(checks), len(na)))
