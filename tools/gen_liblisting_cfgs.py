"""Writes spec/MC_LibraryListing_*.cfg (X03). Re-run after changing the constants; the cfg files are committed."""
import os
SPEC = os.path.join(os.path.dirname(os.path.dirname(os.path.abspath(__file__))), 'spec')
INVS = ['Outcome', 'Placement', 'MateKey', 'LibraryName', 'LaneGrouping', 'SlotOrder', 'Pairing', 'IgnoreWhole',
        'IgnoreReported', 'Terminates', 'OrderIndependent']
B2 = '{TRUE, FALSE}'


def s(xs):
    return '{' + ', '.join('"%s"' % x if isinstance(x, str) else str(x) for x in xs) + '}'


def cfg(name, *, schemes, lib='one', lanes=1, chunks=1, maxfiles=2, repl=(1,), slib=(0,), merges=(0,), se=B2, ignore=B2,
        verbose='{FALSE}', glob='{FALSE}', variant='design', gen=False):
    L = ['INIT Init', 'NEXT Next', 'CONSTANTS',
         '  Schemes = %s' % s(schemes), '  LibChoice = "%s"' % lib, '  NLanes = %d' % lanes, '  NChunks = %d' % chunks,
         '  MaxFiles = %d' % maxfiles, '  ReplIdx = %s' % s(repl), '  SlibIdx = %s' % s(slib), '  Merges = %s' % s(merges),
         '  SEs = %s' % se, '  Ignores = %s' % ignore, '  Verboses = %s' % verbose, '  Globs = %s' % glob,
         '  Variant = "%s"' % variant]
    if gen:
        L.append('CONSTRAINT Emit')
    else:
        L += ['INVARIANT Inv_X03_%s' % i for i in INVS]
    L.append('CHECK_DEADLOCK FALSE')
    with open(os.path.join(SPEC, name), 'w') as f:
        f.write('\n'.join(L) + '\n')


PAIR = dict(schemes=['ill'], lib='one', lanes=1, chunks=2, maxfiles=4, glob=B2)
NAME = dict(schemes=['ill', 'filt', 'und', 'pln', 'srr'], lib='repl', lanes=1, chunks=1, maxfiles=2, repl=(1, 2, 3, 4),
            slib=(0, 1, 2), merges=(0, 1, 2), se='{TRUE}', ignore='{FALSE}')
LANE = dict(schemes=['ill', 'und', 'srr'], lib='small', lanes=2, chunks=1, maxfiles=3)

# design (must pass, every action covered)
cfg('MC_LibraryListing_pair_q.cfg', **PAIR)
cfg('MC_LibraryListing_name_q.cfg', **dict(NAME, slib=(0, 2), lib='repl3'))
cfg('MC_LibraryListing_lane_q.cfg', **LANE)
cfg('MC_LibraryListing_design_t.cfg', schemes=['ill', 'und', 'srr'], lib='one', lanes=1, chunks=2, maxfiles=4, glob=B2)
cfg('MC_LibraryListing_name_t.cfg', **dict(NAME, maxfiles=3, lib='repl', verbose=B2, repl=(1, 2, 4), slib=(0, 2), merges=(0, 2),
                                           schemes=['ill', 'und', 'srr']))
cfg('MC_LibraryListing_merge_t.cfg', schemes=['ill', 'filt'], lib='merge', lanes=1, chunks=1, maxfiles=3, merges=(0, 1, 2), slib=(0, 2))
# negative controls (each must violate the named invariant)
cfg('MC_LibraryListing_replace_verbose_q.cfg', schemes=['ill'], lib='repl', repl=(2,), verbose='{TRUE}', variant='replace_verbose')
cfg('MC_LibraryListing_replace_verbose_empty_q.cfg', schemes=['ill'], lib='repl', repl=(3,), verbose='{TRUE}', variant='replace_verbose')
cfg('MC_LibraryListing_merge_nojoin_q.cfg', schemes=['ill'], lib='merge', merges=(2,), variant='merge_nojoin')
cfg('MC_LibraryListing_slib_suffix_q.cfg', schemes=['und', 'pln'], lib='small', slib=(1,), variant='slib_suffix')
cfg('MC_LibraryListing_slib_merged_q.cfg', schemes=['ill'], lib='small', slib=(2,), merges=(1,), variant='slib_merged')
cfg('MC_LibraryListing_glob_unsorted_q.cfg', **dict(PAIR, glob='{TRUE}', variant='glob_unsorted'))
cfg('MC_LibraryListing_mut_half_lane_q.cfg', **dict(LANE, variant='mut_half_lane'))
cfg('MC_LibraryListing_mut_partial_return_q.cfg', **dict(LANE, variant='mut_partial_return'))
cfg('MC_LibraryListing_mut_prepend_q.cfg', **dict(PAIR, glob='{FALSE}', variant='mut_prepend'))
cfg('MC_LibraryListing_impl_q.cfg', **dict(NAME, variant='impl', verbose=B2, lib='repl3', maxfiles=1, slib=(0, 2), merges=(0, 2)))
cfg('MC_LibraryListing_impl_asfound_q.cfg', **dict(NAME, variant='impl_asfound', verbose='{TRUE}', repl=(2,), lib='repl3', maxfiles=1, slib=(0, 2), merges=(0, 2)))
# scenario generators (spec -> code)
cfg('MC_LibraryListing_gen_pair.cfg', **dict(PAIR, schemes=['ill'], lanes=2, gen=True))
cfg('MC_LibraryListing_gen_pairsfx.cfg', schemes=['und', 'srr'], lib='one', lanes=1, chunks=2, maxfiles=4, glob=B2, gen=True)
cfg('MC_LibraryListing_gen_name.cfg', **dict(NAME, gen=True))
cfg('MC_LibraryListing_gen_nameverbose.cfg', **dict(NAME, maxfiles=1, verbose='{TRUE}', gen=True))
cfg('MC_LibraryListing_gen_lane.cfg', **dict(LANE, schemes=['ill', 'filt', 'und', 'pln', 'srr'], gen=True))
cfg('MC_LibraryListing_gen_lane4.cfg', **dict(LANE, maxfiles=4, gen=True))
cfg('MC_LibraryListing_gen_merge.cfg', schemes=['ill', 'filt'], lib='merge', lanes=1, chunks=1, maxfiles=3, merges=(0, 1, 2), slib=(0, 2),
    se='{TRUE}', ignore='{FALSE}', gen=True)
print('ok')
