#!/usr/bin/env python3
"""tools/rerun_seeded.py [names...] [--tier quick|thorough] [-j N]: re-run the property check of every kept seeded change
(/verif/seeded/<id>-m<k>/patch.diff) in a scratch worktree of /repo HEAD; writes seeded/RERUN.json. Never touches /repo's tree."""
import json, os, re, shutil, subprocess, sys, tempfile
from concurrent.futures import ThreadPoolExecutor
V = os.path.dirname(os.path.dirname(os.path.abspath(__file__)))
args = sys.argv[1:]
tier = 'quick'; jobs = 3
if '--tier' in args:
    i = args.index('--tier'); tier = args[i + 1]; del args[i:i + 2]
if '-j' in args:
    i = args.index('-j'); jobs = int(args[i + 1]); del args[i:i + 2]
names = args or sorted(d for d in os.listdir(os.path.join(V, 'seeded')) if os.path.isfile(os.path.join(V, 'seeded', d, 'patch.diff')))


def sh(c, **kw):
    return subprocess.run(c, shell=True, stdout=subprocess.PIPE, stderr=subprocess.STDOUT, text=True, **kw)


def one(name):
    pid = name.split('-')[0]
    wt = tempfile.mkdtemp(prefix='rs_', dir='/tmp'); os.rmdir(wt)
    ev = tempfile.mkdtemp(prefix='rsev_', dir='/tmp')
    try:
        if sh('git -C /repo worktree add -q --detach %s HEAD' % wt).returncode:
            return name, {'verdict': 'WORKTREE-FAILED', 'tier': tier}
        if sh('git -C %s apply %s/seeded/%s/patch.diff' % (wt, V, name)).returncode:
            return name, {'verdict': 'PATCH-DOES-NOT-APPLY', 'tier': tier}
        c = sh('%s/check %s --tier %s' % (V, pid, tier), env=dict(os.environ, VERIF_REPO=wt, VERIF_EVIDENCE_DIR=ev, VERIF_REPLAY_DIR=ev), timeout=7200)
        return name, {'verdict': {0: 'MISSED', 1: 'CAUGHT'}.get(c.returncode, 'MACHINERY rc=%d' % c.returncode), 'tier': tier,
                      'keys': re.findall(r'violation key=(\S+)', c.stdout)[:4], 'tail': c.stdout[-300:] if c.returncode not in (0, 1) else ''}
    finally:
        sh('git -C /repo worktree remove --force %s' % wt); shutil.rmtree(wt, True); shutil.rmtree(ev, True)


p = os.path.join(V, 'seeded', 'RERUN.json')
res = json.load(open(p)) if os.path.exists(p) else {}
with ThreadPoolExecutor(jobs) as ex:
    for name, r in ex.map(one, names):
        res[name] = r
        print(name, r['verdict'], r.get('keys', [])[:1], r.get('tail', '')[-150:])
json.dump(res, open(p, 'w'), indent=1, sort_keys=True)
