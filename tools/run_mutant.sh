#!/bin/sh
# tools/run_mutant.sh <property-id> <dir-with-patch.diff> [tier]
# Applies a seeded change in a scratch worktree of /repo (never in /repo itself), runs the property's check against it
# with VERIF_REPO, prints CAUGHT / MISSED / MACHINERY, removes the worktree. Evidence/replays go to a scratch dir.
id="$1"; dir="$2"; tier="${3:-quick}"
wt=$(mktemp -d /tmp/mutwt_XXXXXX); rmdir "$wt"
git -C /repo worktree add -q --detach "$wt" HEAD || exit 3
if ! git -C "$wt" apply "$dir/patch.diff"; then echo "PATCH-DOES-NOT-APPLY $dir"; git -C /repo worktree remove --force "$wt"; exit 3; fi
ev=$(mktemp -d /tmp/mutev_XXXXXX)
VERIF_REPO="$wt" VERIF_EVIDENCE_DIR="$ev" VERIF_REPLAY_DIR="$ev" /verif/check "$id" --tier "$tier" > "$ev/out.txt" 2>&1
rc=$?
case $rc in
 1) echo "CAUGHT $id $dir: $(grep -c '^VIOLATION' "$ev/out.txt") violation line(s): $(grep -m2 'violation key=' "$ev/out.txt" | cut -c1-300)";;
 0) echo "MISSED $id $dir";;
 *) echo "MACHINERY rc=$rc $id $dir: $(tail -5 "$ev/out.txt" | cut -c1-600)";;
esac
git -C /repo worktree remove --force "$wt"
rm -rf "$ev"
exit $rc
