INIT Init
NEXT Next
CONSTANTS
  Variant = "design"
  LenA = 6
  LenB = 2
  BinSizes = {2, 3}
  Bpjs = {1, 2, 4}
  Mfss = {0, 2}
  KindSet = {"good", "dup", "notr1", "unpaired", "qcfail", "lowmq", "mp_multi", "good_s2"}
  KwargsSet = {"none", "empty", "ignore_mp"}
  UseKeySet = {TRUE, FALSE}
  NFiles = 1
  MaxRecs = 1
  Threads = 2
INVARIANT Inv_C12_Total_NoRaise
INVARIANT Inv_C12_Matrix
INVARIANT Inv_C12_Invariant
INVARIANT Inv_C12_Total
INVARIANT Inv_D_Partial
INVARIANT Inv_D_BinHasOneJob
CHECK_DEADLOCK FALSE
