INIT Init
NEXT Next
CONSTANTS
  A = 4
  L = 2
  MaxLines = 3
  Ks = {0, 1, 2}
  Fmts = {"bc", "idx_bc"}
  NFiles = {1}
  Lazy = {"none", "this"}
  ProbeMax = 5
  Touches = {"lookup"}
  Variant = "design"
CONSTRAINT Emit
CONSTRAINT OnlyInit
CHECK_DEADLOCK FALSE
