----------------------------------------- MODULE BinCounts -----------------------------------------
(* C12 - binned molecule counting is independent of how the genome is split into jobs.             *)
(*                                                                                                 *)
(* Subsystem: singlecellmultiomics/bamProcessing/bamBinCounts.py                                   *)
(*   generate_jobs / generate_commands   job = (contig, start, start + bin*bins_per_job), the last  *)
(*                                        job of a contig overhangs the contig end                  *)
(*   count_fragments_binned (a worker)   fetch [max(0,start-mfs), min(end+mfs,len)), read_counts    *)
(*                                        filter, ownership start <= site < end, bin id             *)
(*                                        (key.., contig, k*bin, min((k+1)*bin, len))               *)
(*   obtain_counts                       imap_unordered: results arrive in ANY order; merge per bin  *)
(*                                        id: first result is stored, later ones dict.update() it    *)
(*                                                                                                 *)
(* P-level : Qualifies(r,c), BinOf(r,c), ExpectedMatrix = one count per qualifying record in the    *)
(*           bin containing its site; no jobs, no schedule.                                        *)
(* D-level : Jobs, RunJob (a worker finishes a job), Merge (the parent consumes one result); every  *)
(*           interleaving of runs and merges = every worker schedule / thread count.                *)
(*   Variant = "design"            the code as intended                                             *)
(*   Variant = "impl_kwargs_none"  generate_commands(kwargs=None) is the default and                *)
(*                                 count_fragments_binned calls kwargs.get(): every job raises      *)
(*   Variant = "impl_own_fetch"    the widened fetch start is reused as ownership bound and results  *)
(*                                 are added (get_binned_counts with user regions, D15): double     *)
(*                                 counts. (With dict.update the doubled cell would be overwritten,  *)
(*                                 which hides the double count while one record is involved.)      *)
(*   Variant = "impl_plain_update" obtain_counts merges with counts.update(result): a bin reported by   *)
(*                                 several jobs (several BAMs of different cells) keeps only the     *)
(*                                 cells of the job merged last (seeded change C12-r2m1)             *)
(*   Variant = "impl_r1only_read2" read1_only rejects only records flagged read 2: unpaired records   *)
(*                                 (neither mate flag) are counted (seeded change C12-r3m1)          *)
(*   Variant = "impl_ignore_qcfail" ignore_qcfail taken from kwargs['ignore_mp'] (seeded change C12-r4m2)              *)
(*   Variant = "impl_no_precond"   records whose site is farther than mfs from the alignment are    *)
(*                                 admitted: shows that the precondition is necessary               *)
(*                                                                                                 *)
(* (paired = FALSE: single-end record, neither read-1 nor read-2 flag, never a "read-1 record")         *)
(* record r: file (index of the BAM in the list given to generate_commands), contig, site, rstart, rend (half open alignment), sample, r1, dup, qcfail : BOOLEAN,    *)
(*           mapq, mp ("" = no mp tag), key (value of the key tag, "" = no key tags in use)          *)
(* config c: bin, bpj, mfs, minmq, dedup, kwargs \in {"none","empty"}, usekey : BOOLEAN              *)
EXTENDS Integers, Sequences, FiniteSets, TLC, Util, Json

CONSTANTS Variant,
          LenA, LenB,    \* lengths of the two contigs "a" and "b" of the bounded model (header order a, b)
          BinSizes, Bpjs, Mfss,   \* sets of bin sizes, bins-per-job and max fragment sizes
          KindSet,       \* which kinds of records (see MkRec) the BAM of the bounded model may hold
          KwargsSet, UseKeySet,   \* values of the kwargs / key_tags arguments explored
          NFiles,        \* number of BAM files handed to generate_commands as a list (cells of different files are disjoint)
          MaxRecs,       \* number of records in the BAM(s)
          Threads        \* size of the worker pool: at most this many finished-but-unmerged results

ContigNames == << "a", "b" >>
ContigLens  == << LenA, LenB >>
LenOf(cn) == ContigLens[CHOOSE k \in DOMAIN ContigNames : ContigNames[k] = cn]
Contigs == SeqSet(ContigNames)

---------------------------------------------------------------------------------------------------
(* P-level *)
Qualifies(r, c) == /\ r.r1 /\ ~r.qcfail /\ (c.dedup => ~r.dup)
                   /\ r.mapq >= c.minmq
                   /\ (c.kwargs = "ignore_mp" \/ r.mp \in {"", "unique"})      \* kwargs={'ignore_mp': True}: mappability tag not consulted
(* the statement's (implicit) domain: the site is a coordinate of the contig, and lies within the maximum
   fragment size of the record's alignment (otherwise no bin contains it / the fragment is longer than allowed) *)
InPrecondition(r, c, len) == /\ 0 <= r.site /\ r.site < len
                             /\ r.rstart - c.mfs <= r.site /\ r.site <= r.rend - 1 + c.mfs
BinOf(r, c, len) == LET k == r.site \div c.bin
                    IN << (IF c.usekey THEN r.key ELSE ""), r.contig, k * c.bin, IF (k + 1) * c.bin < len THEN (k + 1) * c.bin ELSE len >>
CellOf(r, c, len) == << BinOf(r, c, len), r.sample >>
(* one count per qualifying record, in the bin that contains its site *)
ExpectedMatrixOver(recs, c, lenOf(_)) ==
    LET q == SelectSeq(recs, LAMBDA r : Qualifies(r, c))
        cells == { CellOf(q[k], c, lenOf(q[k].contig)) : k \in DOMAIN q }
    IN [cell \in cells |-> Cardinality({ k \in DOMAIN q : CellOf(q[k], c, lenOf(q[k].contig)) = cell })]
ExpectedTotalOver(recs, c) == Len(SelectSeq(recs, LAMBDA r : Qualifies(r, c)))
(* several BAMs: the statement speaks of "the BAM"; the union of several libraries is well defined as long as no cell
   occurs in two of them (the per-bin merge of obtain_counts is per cell) *)
CellsDisjoint(rs) == \A a, b \in DOMAIN rs : rs[a].sample = rs[b].sample => rs[a].file = rs[b].file

---------------------------------------------------------------------------------------------------
(* D-level *)
JobWidth(c) == c.bin * c.bpj
JobStarts(c, cn) == { k * JobWidth(c) : k \in 0 .. ((LenOf(cn) - 1) \div JobWidth(c)) }       \* range(0, length, width)
Jobs(c) == UNION { { [file |-> f, contig |-> cn, start |-> st, end |-> st + JobWidth(c)] : st \in JobStarts(c, cn) } :
                     cn \in Contigs, f \in 1 .. NFiles }                  \* for alignments_path in iterfiles: for job in ...

FetchStart(j, c) == IF j.start - c.mfs > 0 THEN j.start - c.mfs ELSE 0
FetchEnd(j, c)   == IF j["end"] + c.mfs < LenOf(j.contig) THEN j["end"] + c.mfs ELSE LenOf(j.contig)
Fetched(recs, j, c) == SelectSeq(recs, LAMBDA r : r.file = j.file /\ r.contig = j.contig /\ r.rstart < FetchEnd(j, c) /\ r.rend > FetchStart(j, c))

(* read_counts(read, min_mq, dedup, read1_only=True, ignore_mp=False) in code order *)
ReadCounts(r, c) ==
    IF (IF Variant = "impl_r1only_read2" THEN r.paired /\ ~r.r1 ELSE ~r.r1) THEN FALSE      \* not read.is_read1
    ELSE IF r.qcfail /\ ~(Variant = "impl_ignore_qcfail" /\ c.kwargs = "ignore_mp") THEN FALSE      \* ignore_qcfail is never set
    ELSE IF c.dedup /\ r.dup THEN FALSE
    ELSE IF c.kwargs # "ignore_mp" /\ r.mp # "" /\ r.mp # "unique" THEN FALSE
    ELSE IF r.mapq < c.minmq THEN FALSE
    ELSE TRUE

Owned(r, j, c) == LET lo == IF Variant = "impl_own_fetch" THEN FetchStart(j, c) ELSE j.start
                  IN ~(r.site < lo \/ r.site >= j["end"])

Inc(d, bid, s) == IF bid \in DOMAIN d
                  THEN [d EXCEPT ![bid] = IF s \in DOMAIN @ THEN [@ EXCEPT ![s] = @ + 1] ELSE @ @@ (s :> 1)]
                  ELSE d @@ (bid :> (s :> 1))

(* count_fragments_binned: the dict one worker returns for one job *)
CountJob(recs, j, c) ==
    LET len == LenOf(j.contig) IN
    FoldLeft(LAMBDA acc, r :
                IF ReadCounts(r, c) /\ Owned(r, j, c)
                THEN LET bi == r.site \div c.bin
                         be == IF c.bin * (bi + 1) < len THEN c.bin * (bi + 1) ELSE len
                     IN Inc(acc, << (IF c.usekey THEN r.key ELSE ""), j.contig, c.bin * bi, be >>, r.sample)
                ELSE acc,
             <<>>, Fetched(recs, j, c))

JobRaises(c) == Variant = "impl_kwargs_none" /\ c.kwargs = "none"          \* None.get('ignore_mp', False)

(* obtain_counts: counts[bin_id] = sample_dict  or  counts[bin_id].update(sample_dict) *)
MergeInto(cnt, res) ==
    [bid \in DOMAIN cnt \cup DOMAIN res |->
        IF bid \notin DOMAIN res THEN cnt[bid]
        ELSE IF bid \notin DOMAIN cnt THEN res[bid]
        ELSE IF Variant = "impl_plain_update" THEN res[bid]              \* counts.update(result)
        ELSE IF Variant = "impl_own_fetch"      \* get_binned_counts merges with Counter addition: cut_counts[k] += v
             THEN [s \in DOMAIN cnt[bid] \cup DOMAIN res[bid] |->
                      (IF s \in DOMAIN res[bid] THEN res[bid][s] ELSE 0) + (IF s \in DOMAIN cnt[bid] THEN cnt[bid][s] ELSE 0)]
        ELSE [s \in DOMAIN cnt[bid] \cup DOMAIN res[bid] |-> IF s \in DOMAIN res[bid] THEN res[bid][s] ELSE cnt[bid][s]]]

Flatten(cnt) == LET cells == UNION { { << bid, s >> : s \in DOMAIN cnt[bid] } : bid \in DOMAIN cnt }
                IN [cell \in cells |-> cnt[cell[1]][cell[2]]]
TotalOf(m) == LET g(cell) == m[cell] IN SumSetF(DOMAIN m, g)

(* the whole computation, jobs run and merged one after the other in a fixed order (a serial schedule) *)
SerialResult(recs, c) ==
    LET js == SetToSeq(Jobs(c)) IN Flatten(FoldLeft(LAMBDA acc, j : MergeInto(acc, CountJob(recs, j, c)), <<>>, js))

---------------------------------------------------------------------------------------------------
(* record universe of the bounded model: sites everywhere, alignments at the extreme offsets *)
Kinds == { "nosm", "unpaired", "good", "dup", "qcfail", "notr1", "lowmq", "mp_multi", "good_s2", "good_k2", "mp_unique" }
(* sample "" = the record has no SM tag: it belongs to no cell (the code books it under a placeholder column) *)
SampleOf(kind, f) == IF kind = "nosm" THEN "" ELSE (IF kind = "good_s2" THEN "s2" ELSE "s1") \o (IF f = 1 THEN "" ELSE "_lib" \o ToString(f))
MkRec(cn, site, rstart, kind, f) ==
    [file |-> f, contig |-> cn, site |-> site, rstart |-> rstart, rend |-> rstart + 2,
     sample |-> SampleOf(kind, f), r1 |-> kind \notin {"notr1", "unpaired"}, paired |-> kind # "unpaired", dup |-> kind = "dup",
     qcfail |-> kind = "qcfail", mapq |-> IF kind = "lowmq" THEN 49 ELSE 50,
     mp |-> IF kind = "mp_multi" THEN "multi" ELSE IF kind = "mp_unique" THEN "unique" ELSE "",
     key |-> IF kind = "good_k2" THEN "k2" ELSE "k1"]
Offsets(mfs) == IF Variant = "impl_no_precond" THEN { -mfs - 3, -mfs - 2, 0, mfs + 1, mfs + 2 }
                ELSE { -mfs - 1, 0, mfs }      \* rstart - site: alignment ends mfs before / starts mfs after the site
MaxLen == MaxOf(SeqSet(ContigLens))
RecU(c) == { r \in { MkRec(cn, site, site + off, kind, f) :
                       cn \in Contigs, site \in 0 .. (MaxLen - 1), off \in Offsets(c.mfs), kind \in KindSet, f \in 1 .. NFiles } :
               r.site < LenOf(r.contig) /\ r.rstart >= 0 /\ r.rend <= LenOf(r.contig) }

Configs == [bin : BinSizes, bpj : Bpjs, mfs : Mfss, minmq : {50}, dedup : {TRUE}, kwargs : KwargsSet, usekey : UseKeySet]

VARIABLES cfg, recs, pending, results, merged, counts, status
vars == << cfg, recs, pending, results, merged, counts, status >>

Init == /\ cfg \in Configs
        /\ LET u == SetToSeq(RecU(cfg))
           IN recs \in { [k \in 1 .. MaxRecs |-> u[ix[k]]] :
                          ix \in { f \in [1 .. MaxRecs -> DOMAIN u] : \A a, b \in 1 .. MaxRecs : a <= b => f[a] <= f[b] } }
        /\ pending = Jobs(cfg)
        /\ results = <<>>
        /\ merged = {}
        /\ counts = <<>>
        /\ status = "running"

(* a worker finishes count_fragments_binned for one job *)
RunJob(j) == /\ status = "running" /\ j \in pending
             /\ Cardinality(DOMAIN results \ merged) < Threads
             /\ IF JobRaises(cfg) THEN status' = "raised" /\ UNCHANGED << pending, results >>
                ELSE /\ results' = results @@ (j :> CountJob(recs, j, cfg))
                     /\ pending' = pending \ {j}
                     /\ UNCHANGED status
             /\ UNCHANGED << cfg, recs, merged, counts >>

(* the parent takes one finished result off imap_unordered and merges it *)
Merge(j) == /\ status = "running" /\ j \in DOMAIN results /\ j \notin merged
            /\ counts' = MergeInto(counts, results[j])
            /\ merged' = merged \cup {j}
            /\ UNCHANGED << cfg, recs, pending, results, status >>

Finish == /\ status = "running" /\ pending = {} /\ merged = DOMAIN results
          /\ status' = "done"
          /\ UNCHANGED << cfg, recs, pending, results, merged, counts >>

Run   == \E j \in Jobs(cfg) : RunJob(j)
Merg  == \E j \in Jobs(cfg) : Merge(j)
Next == Run \/ Merg \/ Finish
Spec == Init /\ [][Next]_vars

---------------------------------------------------------------------------------------------------
(* Properties *)
AllInPre == CellsDisjoint(recs) /\ (Variant = "impl_no_precond" \/ \A k \in DOMAIN recs : Qualifies(recs[k], cfg) => InPrecondition(recs[k], cfg, LenOf(recs[k].contig)))

(* a job function must not raise on a legal configuration *)
Inv_C12_Total_NoRaise == status # "raised"

(* the matrix counts each qualifying record exactly once in the bin containing its site *)
Inv_C12_Matrix == (status = "done" /\ AllInPre) => Flatten(counts) = ExpectedMatrixOver(recs, cfg, LenOf)

(* ... and is identical for every number of bins per job and every schedule: equal to the serial one-bin-per-job run *)
Inv_C12_Invariant == (status = "done" /\ AllInPre) => Flatten(counts) = SerialResult(recs, [cfg EXCEPT !.bpj = 1])

(* its total equals the number of qualifying records *)
Inv_C12_Total == (status = "done" /\ AllInPre) => TotalOf(Flatten(counts)) = ExpectedTotalOver(recs, cfg)

(* never more than the final matrix at any time (no transient double count), D-level *)
Inv_D_Partial == AllInPre =>
    LET m == Flatten(counts) e == ExpectedMatrixOver(recs, cfg, LenOf)
    IN \A cell \in DOMAIN m : cell \in DOMAIN e /\ m[cell] <= e[cell]

(* within one BAM a bin id is produced by exactly one job; jobs of different BAMs do share bin ids, which is why the
   merge has to be per bin id AND per cell *)
Inv_D_BinHasOneJob ==
    \A j1, j2 \in DOMAIN results : (j1 # j2 /\ j1.file = j2.file) => DOMAIN results[j1] \cap DOMAIN results[j2] = {}

(* scenario generator (spec -> code): every initial state of the bounded model is a test case *)
Emit == IF pending = Jobs(cfg) /\ results = <<>>
        THEN PrintT("@@SCENARIO " \o ToJson([cfg |-> cfg, recs |-> recs, contigs |-> ContigNames, lens |-> ContigLens]))
        ELSE FALSE
=====================================================================================================
