INIT Init
NEXT Next
CONSTANTS
  MinCoord = 0
  MaxCoord = 4
  BinSizes = {1,2,3,5}
  FragSizes = {0,2}
  AllowNoFrag = TRUE
  BLPad = 1
  MaxBL = 2
  Variant = "impl"
INVARIANT Inv_C17_Partition
INVARIANT Inv_C17_Size
INVARIANT Inv_C17_Clean
INVARIANT Inv_C17_Window
INVARIANT Inv_C17_Prefix
INVARIANT Inv_C17_Verdict
CHECK_DEADLOCK FALSE
