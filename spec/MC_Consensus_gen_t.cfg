INIT Init
NEXT Next
CONSTANTS
  Pos = {1, 2, 3}
  Bases = {"A", "C", "N"}
  Quals = {1, 2}
  MaxFrags = 1
  R1Revs = {FALSE}
  QPerBase = FALSE
  KeepFrags = TRUE
  Variant = "design"
CONSTRAINT Emit
CHECK_DEADLOCK FALSE
