INIT Init
NEXT Next
CONSTANTS
  Contigs = {"c1"}
  AbsentContigs = {"cx"}
  NoCacheContigs = {}
  Positions = {0}
  Samples = {"s1", "s2"}
  GTSet = "full"
  ConfigSet = "allph"
  MaxRuns = 1
  MaxOps = 1
  Variant = "design"
  Record = FALSE
INVARIANT Inv_C18_Truth
INVARIANT Inv_C18_ModeEq
INVARIANT Inv_C18_CacheSound
INVARIANT Inv_C18_RuleAgrees
INVARIANT Inv_C18_OneContig
CHECK_DEADLOCK FALSE
