------------------------------------------ MODULE Util ------------------------------------------
(* Helpers shared by the specifications: sums/folds, sequences-as-sets, Hamming distance,       *)
(* interval algebra on half-open integer intervals <<lo,hi>>.                                   *)
EXTENDS Integers, Sequences, FiniteSets, SequencesExt, FiniteSetsExt, Functions

SumSeqF(q, f(_)) == FoldLeft(LAMBDA acc, x : acc + f(x), 0, q)
SumSetF(S, f(_)) == FoldSet(LAMBDA x, acc : acc + f(x), 0, S)
SeqSet(q) == { q[i] : i \in DOMAIN q }
NoDup(q) == \A i, j \in DOMAIN q : q[i] = q[j] => i = j
CountIn(q, x) == Cardinality({ i \in DOMAIN q : q[i] = x })
SameBag(p, q) == Len(p) = Len(q) /\ \A x \in SeqSet(p) \cup SeqSet(q) : CountIn(p, x) = CountIn(q, x)
MinOf(S) == CHOOSE x \in S : \A y \in S : x <= y
MaxOf(S) == CHOOSE x \in S : \A y \in S : x >= y
Abs(x) == IF x < 0 THEN -x ELSE x
FloorDiv(a, d) == a \div d
CeilDiv(a, d)  == -((-a) \div d)

(* Hamming distance of two equally long sequences *)
Hamming(a, b) == Cardinality({ i \in DOMAIN a : a[i] # b[i] })

(* half-open intervals *)
Points(iv) == iv[1] .. (iv[2] - 1)
Overlap(a, b) == a[1] < b[2] /\ b[1] < a[2]
=================================================================================================
