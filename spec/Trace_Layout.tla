--------------------------------------- MODULE Trace_Layout ---------------------------------------
(* Observations of the real strategy.demultiplex() judged by the P-level of Layout.tla.            *)
(*   {"ev":"registry","tid":n,"strategies":[shortName..]}                                           *)
(*   {"ev":"demux","tid":n,"s":shortName,"nm":1|2,"r1","q1","r2","q2": texts as character codes,     *)
(*    "acc":bool,"raised":"<ExceptionType>"|"","shape":""|"<type of a non-list result>",            *)
(*    "out":[{"seq":[..],"qual":[..],"tags":{"bc":[..],"RX":[..],...}}], "inj":0|1,                  *)
(*    "fq": optional, same shape as out: asFastq() of every returned record parsed back,             *)
(*    "via": "direct" | "cross:<generated for>" | "files:<variant>", "call": keyword arguments}      *)
(*   {"ev":"summary","tid":n,"per":[{"s","branch","inj","wl","wl_n","attempts","accepted"}]}         *)
(* Every tag and every emitted slice is recomputed here from the recorded INPUT texts and the table  *)
(* L; nothing computed by the driver is trusted.  The implementation's reported result is bound to   *)
(* the variables of Layout (s, reads, recs, pc) so that the state the code reported is visible.      *)
EXTENDS TraceLib, Layout

VARIABLE l

(* header representation of a phred+33 quality character: string.ascii_letters[phred] (the C04 table; 0..51 only) *)
Enc(c) == IF c - 33 < 26 THEN 97 + (c - 33) ELSE 65 + (c - 33 - 26)
Comp(c) == CASE c = 65 -> 84 [] c = 84 -> 65 [] c = 67 -> 71 [] c = 71 -> 67                 \* A<->T C<->G, case preserved
              [] c = 97 -> 116 [] c = 116 -> 97 [] c = 99 -> 103 [] c = 103 -> 99 [] OTHER -> c
IsT(c) == c = 84

InR(e) == IF e.nm = 2 THEN <<e.r1, e.r2>> ELSE <<e.r1>>
InQ(e) == IF e.nm = 2 THEN <<e.q1, e.q2>> ELSE <<e.q1>>
InQuantifier(e) == \A k \in DOMAIN InQ(e) : \A i \in DOMAIN InQ(e)[k] : InQ(e)[k][i] \in 33 .. 84   \* qualities 0..51

(* the data type the strategy reports on the first returned record (recorded verbatim in out[1].meta.dt) *)
ReportedDt(e) == IF Len(e.out) > 0 /\ "meta" \in DOMAIN e.out[1] /\ "dt" \in DOMAIN e.out[1].meta THEN e.out[1].meta.dt ELSE ""

DemuxVerdict(e) ==
    IF e.s \notin Strategies THEN "ok"                     \* no layout pinned for it: reported as a note
    \* a crash (anything but NonMultiplexable) on a pair with a record count the table lists is not a refusal: the strategy
    \* neither rejected the pair nor produced the records the layout prescribes
    \* (calls with probe=True are exempt: the loader discards ANY exception of a probing call - `if probe: continue`)
    ELSE IF ~ e.acc /\ e.raised \notin {"", "NonMultiplexable"} /\ InQuantifier(e) /\ (\E i \in DOMAIN L[e.s] : e.nm \in L[e.s][i].mates)
            /\ ~ ("call" \in DOMAIN e /\ e.call.probe = "True")
         THEN "result_raised_" \o e.raised
    ELSE IF ~ e.acc THEN "ok"                              \* refused: outside the statement
    ELSE IF ~ InQuantifier(e) THEN "ok"
    ELSE IF e.shape # "" THEN "result_is_not_a_list_of_records"
    ELSE LET v == StrategyVerdict(e.s, InR(e), InQ(e), e.out, ReportedDt(e), Enc, Comp, IsT) IN
         IF v # "ok" THEN v
         \* the other end of the hand-over: what TaggedRecord.asFastq() writes for the returned records (header parsed back)
         ELSE IF "fq" \in DOMAIN e
              THEN LET w == StrategyVerdict(e.s, InR(e), InQ(e), e.fq, ReportedDt(e), Enc, Comp, IsT) IN IF w = "ok" THEN "ok" ELSE "asFastq:" \o w
              ELSE "ok"

Verdict(e) == CASE e.ev = "demux" -> DemuxVerdict(e)
                [] e.ev \in {"registry", "summary"} -> "ok"
                [] OTHER -> "unknown_event"

Notes(ln, e) ==
    CASE e.ev = "registry" ->
            /\ \A i \in DOMAIN e.strategies : IF e.strategies[i] \in Strategies THEN TRUE ELSE Note(ln, e.tid, "strategy_not_in_table " \o e.strategies[i])
            /\ \A t \in Strategies : IF t \in SeqToSet(e.strategies) THEN TRUE ELSE Note(ln, e.tid, "table_entry_not_registered " \o t)
      [] e.ev = "summary" ->
            \A i \in DOMAIN e.per :
                LET p == e.per[i] IN
                IF p.accepted > 0 THEN TRUE ELSE Note(ln, e.tid, (IF p.inj = 0 THEN "unreachable_strategies " ELSE "unreachable_with_injected_whitelist ")
                                                   \o p.s \o "/" \o ToString(p.branch) \o " whitelist=" \o p.wl \o " entries=" \o ToString(p.wl_n))
      [] e.ev = "demux" ->
            IF e.acc /\ ~ InQuantifier(e) THEN Note(ln, e.tid, "outside_quantifier quality>51")
            ELSE IF ~ e.acc /\ e.raised \notin {"", "NonMultiplexable", "IndexError"} THEN Note(ln, e.tid, "raised_" \o e.raised \o " " \o e.s)
            ELSE TRUE
      [] OTHER -> TRUE

TInit == /\ l = 1 /\ s = "" /\ bi = 0 /\ reads = <<>> /\ pc = "idle" /\ loc = NoLoc /\ recs = <<>>
TNext == /\ l <= Len(Log)
         /\ LET e == Log[l] IN
            /\ Judge(l, Verdict(e))
            /\ Notes(l, e)
            /\ IF e.ev = "demux"
               THEN s' = e.s /\ reads' = InR(e) /\ recs' = e.out /\ pc' = (IF e.acc THEN "done" ELSE "rejected")
               ELSE UNCHANGED <<s, reads, recs, pc>>
         /\ l' = l + 1 /\ UNCHANGED <<bi, loc>>
TAccepted == TLCGet("stats").diameter - 1 = Len(Log)
=====================================================================================================
