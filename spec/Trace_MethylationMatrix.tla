----------------------------------- MODULE Trace_MethylationMatrix -----------------------------------
(* Recorded executions of the real MethylationCountMatrix (ev = "api") and of its producer              *)
(* get_methylation_count_matrix on synthetic BAM files (ev = "bam") judged by MethylationMatrixP.       *)
(*                                                                                                    *)
(* {"ev":"api","tid","src","njobs","jobk","jobmv" (-1 = None),                                          *)
(*  "ops":[{"op":"obs","c": job,"s","loc","meth"} | {"op":"touch","c","s","loc"} | {"op":"merge","c"}    *)
(*         | {"op":"set","s","loc","u","m"} | {"op":"prune","k","mv"} | {"op":"del","loc"} | {"op":"fromcounts"}], *)
(*  "raised_at": 0 | index of the operation that raised, "exc": its type,                               *)
(*  "dumps":[{"at": number of operations executed before the dump, "counted": the dump follows the last   *)
(*            merge directly, "cells":[[s,loc,u,m]..] (the raw counts dict), "sites":[loc..], "samples":    *)
(*            get_sample_list(), "reprn":[len(counts), len(sites)],                                      *)
(*            "fm","fu": get_frame('methylated'|'unmethylated') = {"outcome","cols":[loc..],"rows":[s..],    *)
(*                       "vals":[[count | -1 (NaN)]..]},                                                  *)
(*            "bulk","bulkmt": get_bulk_frame() serial / with threads = 2 = {"outcome",                   *)
(*                       "rows":[{"loc","un","met","beta" (ppm, -1 NaN),"varnan","n"}..]},                 *)
(*            "cols":[{"ss":[samples],"loc","un","met","n"}..]  get_bulk_column,                           *)
(*            "peek":[[s,loc,u,m]..]  get_without_init}..]}                                               *)
(* The expected matrix at a dump is the fold of the executed operations (MethylationMatrixP, Part 1);  *)
(* for "counted" dumps of unpruned runs the cells are additionally compared with the bare count of the   *)
(* observation operations (P_Counted / P_Conserved - no operation semantics involved).                   *)
(*                                                                                                    *)
(* {"ev":"bam","tid","contigs":[length..],"reads":[{"ci","pos","calls":[one letter per aligned base],    *)
(*    "s" (0 = no SM tag),"rev","mapq","dup","qcfail"}..],                                              *)
(*  "runs":[{"bin_size","bp_per_job","threads","stranded","dyad","min_samples" (-1 None),"min_mq",        *)
(*           "outcome","exc","cells":[[s,loc,u,m]..],"sites":[loc..]}..]}                                 *)
(* Expected: the bag of CpG calls ('Z' methylated, 'z' unmethylated) of the reads that pass the filters,  *)
(* each in the bin of its (dyad: shifted) position; pruned with min_samples; the same for every split   *)
(* into jobs (bp_per_job) and every number of worker processes.                                         *)
EXTENDS TraceLib, MethylationMatrixP

VARIABLE l

---------------------------------------------------------------------------------------------------
(* api events *)
JobsInit(n) == [j \in 0 .. (n - 1) |-> EmptyM]
ApplyOp(S, op, e, dev) ==
    CASE op.op = "obs"   -> [S EXCEPT !.jobs[op.c] = DoObs(@, op.s, op.loc, op.meth)]
      [] op.op = "touch" -> [S EXCEPT !.jobs[op.c] = DoTouch(@, op.s, op.loc)]
      [] op.op = "merge" -> [S EXCEPT !.merged = DoUpdate(@, DoPrune(S.jobs[op.c], e.jobk, e.jobmv))]
      [] op.op = "set"   -> [S EXCEPT !.merged = DoSet(@, op.s, op.loc, <<op.u, op.m>>, dev)]
      [] op.op = "prune" -> [S EXCEPT !.merged = DoPrune(@, op.k, op.mv)]
      [] op.op = "del"   -> [S EXCEPT !.merged = DoDelete(@, op.loc)]
      [] op.op = "fromcounts" -> [S EXCEPT !.merged = DoFromCounts(@, dev)]
StateAt(e, n, dev) == FoldLeft(LAMBDA S, op : ApplyOp(S, op, e, dev), [jobs |-> JobsInit(e.njobs), merged |-> EmptyM], SubSeq(e.ops, 1, n))
ExpAt(e, n, dev) == StateAt(e, n, dev).merged

ObsCells(d) == { <<d.cells[i][1], d.cells[i][2], d.cells[i][3], d.cells[i][4]>> : i \in DOMAIN d.cells }
ExpCells(st) == { <<k[1], k[2], st.cells[k][1], st.cells[k][2]>> : k \in Keys(st) }
ObsMatrix(d) == [cells |-> [k \in { <<d.cells[i][1], d.cells[i][2]>> : i \in DOMAIN d.cells } |->
                              LET i == CHOOSE i \in DOMAIN d.cells : <<d.cells[i][1], d.cells[i][2]>> = k IN <<d.cells[i][3], d.cells[i][4]>>],
                 sites |-> SeqSet(d.sites)]
(* bag of the observation operations among the first n operations: pure counting *)
ObsBag(e, n) ==
    LET I == { i \in 1 .. n : e.ops[i].op = "obs" }
        K == { <<e.ops[i].s, e.ops[i].loc, e.ops[i].meth>> : i \in I }
    IN [k \in K |-> Cardinality({ i \in I : <<e.ops[i].s, e.ops[i].loc, e.ops[i].meth>> = k })]
Touched(e, n) == { <<e.ops[i].s, e.ops[i].loc>> : i \in { j \in 1 .. n : e.ops[j].op = "touch" } }
(* precondition of the split: every location (bin) belongs to ONE job - what the producers guarantee (jobs are whole     *)
(* numbers of bins) and what update() documents ("does not work for regions with overlap"); then no cell is in two job  *)
(* matrices and a per-job prune sees all samples of a location                                                        *)
MergesDisjoint(e, n) ==
    LET S == StateAt(e, n, {})
    IN \A a, b \in DOMAIN S.jobs : a # b => (CellLocs(S.jobs[a]) \cup S.jobs[a].sites) \cap (CellLocs(S.jobs[b]) \cup S.jobs[b].sites) = {}

FrameOk(fr, st, which) ==
    IF st.sites = {} \/ Keys(st) = {} THEN TRUE          \* "contains no data": raising is the documented answer
    ELSE LET ex == FrameOf(st, which)
         IN fr.outcome = "ok" /\ fr.cols = ex.cols /\ fr.rows = ex.rows /\ fr.vals = ex.vals
BulkOk(b, st) ==
    IF st.sites = {} \/ Keys(st) = {} THEN TRUE
    ELSE /\ b.outcome = "ok"
         /\ [i \in DOMAIN b.rows |-> b.rows[i].loc] = SortedLocs(st.sites)
         /\ \A i \in DOMAIN b.rows :
               LET r == b.rows[i]  ex == BulkCol(st, SamplesOf(st), r.loc)
               IN /\ <<r.un, r.met, r.n>> = ex /\ BetaOk(r.beta, r.un, r.met) /\ (r.varnan <=> (r.n = 0))
ColsOk(d, st) == \A i \in DOMAIN d.cols : LET c == d.cols[i] IN <<c.un, c.met, c.n>> = BulkCol(st, SeqSet(c.ss), c.loc)
PeekOk(d, st) == \A i \in DOMAIN d.peek : LET p == d.peek[i] IN <<p[3], p[4]>> = Cell(st, p[1], p[2])

SitesDiagnosis(e, d) ==
    IF SeqSet(d.sites) = ExpAt(e, d.at, {"setitem_no_site"}).sites /\ ObsCells(d) = ExpCells(ExpAt(e, d.at, {"setitem_no_site"}))
    THEN "D400_setitem_does_not_register_location"
    ELSE IF SeqSet(d.sites) = ExpAt(e, d.at, {"ctor_no_sites"}).sites /\ ObsCells(d) = ExpCells(ExpAt(e, d.at, {"ctor_no_sites"}))
    THEN "D403_constructor_ignores_locations_of_counts"
    ELSE IF SeqSet(d.sites) = ExpAt(e, d.at, {"setitem_no_site", "ctor_no_sites"}).sites THEN "D400_D403_combination"
    ELSE "other"

DumpVerdict(e, d) ==
    LET st == ExpAt(e, d.at, {})
    IN IF d.counted /\ KNorm(e.jobk) = 0 /\ e.jobmv = -1 /\ MergesDisjoint(e, d.at)
          /\ ~P_Counted(ObsMatrix(d), ObsBag(e, d.at), Touched(e, d.at)) THEN "Counted"
       ELSE IF d.counted /\ KNorm(e.jobk) = 0 /\ e.jobmv = -1 /\ MergesDisjoint(e, d.at)
          /\ ~P_Conserved(ObsMatrix(d), ObsBag(e, d.at)) THEN "Conserved"
       ELSE IF d.counted /\ MergesDisjoint(e, d.at)
          /\ ~P_Prune(BagMatrix(ObsBag(e, d.at), Touched(e, d.at)), ObsMatrix(d), e.jobk, e.jobmv) THEN "SplitIndependent"
       ELSE IF ObsCells(d) # ExpCells(st) THEN "Cells"
       ELSE IF SeqSet(d.sites) # st.sites \/ ~NoDup(d.sites) THEN "Sites|" \o SitesDiagnosis(e, d)
       ELSE IF d.samples # SortedInts(SamplesOf(st)) THEN "SampleList"
       ELSE IF d.reprn # <<Cardinality(SamplesOf(st)), Cardinality(st.sites)>> THEN "Repr"
       ELSE IF ~FrameOk(d.fm, st, 2) THEN "FrameMethylated"
       ELSE IF ~FrameOk(d.fu, st, 1) THEN "FrameUnmethylated"
       ELSE IF ~BulkOk(d.bulk, st) THEN "BulkFrame"
       ELSE IF d.bulkmt.outcome # "skipped" /\ ~BulkOk(d.bulkmt, st) THEN "BulkFrameThreads"
       ELSE IF ~ColsOk(d, st) THEN "BulkColumn"
       ELSE IF ~PeekOk(d, st) THEN "GetWithoutInit"
       ELSE "ok"

ApiVerdict(e) ==
    IF e.raised_at # 0
    THEN LET op == e.ops[e.raised_at]
         IN "Raised_" \o e.exc \o "_in_" \o op.op \o
            (IF op.op = "prune" /\ op.k = -1 THEN "|D401_min_samples_none"
             ELSE IF op.op = "merge" /\ e.jobk = -1 THEN "|D401_min_samples_none"
             ELSE IF op.op = "del" /\ op.loc \notin ExpAt(e, e.raised_at - 1, {"setitem_no_site", "ctor_no_sites"}).sites
                  THEN "|D400_D403_location_not_registered"
             ELSE "|other")
    ELSE LET bad == { i \in DOMAIN e.dumps : DumpVerdict(e, e.dumps[i]) # "ok" }
         IN IF bad = {} THEN "ok" ELSE DumpVerdict(e, e.dumps[MinOf(bad)])

---------------------------------------------------------------------------------------------------
(* bam events *)
Passes(rd, run) == ~rd.qcfail /\ ~rd.dup /\ rd.mapq >= run.min_mq
Instances(e, run) == UNION { { <<ri, i>> : i \in { j \in DOMAIN e.reads[ri].calls : e.reads[ri].calls[j] \in {"Z", "z"} } } :
                               ri \in { r \in DOMAIN e.reads : Passes(e.reads[r], run) } }
Min2(a, b) == IF a < b THEN a ELSE b
KeyOf(e, run, x) ==
    LET rd == e.reads[x[1]]
        p == rd.pos + (x[2] - 1)
        cp == IF run.dyad /\ rd.rev THEN p + 1 ELSE p
        bs == IF run.bin_size = 1 THEN cp ELSE run.bin_size * (cp \div run.bin_size)
        be == IF run.bin_size = 1 THEN cp + 1 ELSE Min2(run.bin_size * ((cp \div run.bin_size) + 1), e.contigs[rd.ci])
        loc == IF run.stranded THEN <<rd.ci, bs, be, IF rd.rev THEN 1 ELSE 0>> ELSE <<rd.ci, bs, be>>
    IN <<rd.s, loc, IF rd.calls[x[2]] = "Z" THEN 1 ELSE 0>>
(* dyad mode can move a call to the position just behind the contig (a call on the last base of a reverse read that   *)
(* ends at the contig end); whether such a call is counted (in the clipped last bin) or dropped is left open:      *)
(* `inside` = TRUE keeps only the calls counted inside the contig                                                  *)
Beyond(e, run, x) == LET rd == e.reads[x[1]] IN run.dyad /\ rd.rev /\ rd.pos + (x[2] - 1) + 1 >= e.contigs[rd.ci]
RunBagOf(e, run, inside) ==
    LET I == { x \in Instances(e, run) : ~(inside /\ Beyond(e, run, x)) }
        K == { KeyOf(e, run, x) : x \in I }
    IN [k \in K |-> Cardinality({ x \in I : KeyOf(e, run, x) = k })]
RunExpectedOf(e, run, inside) == DoPrune(BagMatrix(RunBagOf(e, run, inside), {}), run.min_samples, -1)
RunExpected(e, run) == RunExpectedOf(e, run, FALSE)
JobSpanOf(run) == IF run.bin_size = 1 THEN run.bp_per_job ELSE run.bin_size * (run.bp_per_job \div run.bin_size)
(* signature of a mismatch: calls missing (never invented) in bins that start on a job boundary *)
LossAtJobBoundary(e, run) ==
    LET ex == RunExpected(e, run)  ob == ObsMatrix(run)
    IN /\ Keys(ob) \subseteq Keys(ex)
       /\ \A k \in Keys(ex) : LET a == Cell(ob, k[1], k[2]) b == ex.cells[k]
                              IN a = b \/ (a[1] <= b[1] /\ a[2] <= b[2] /\ k[2][2] % JobSpanOf(run) = 0)
RunVerdict(e, run) ==
    IF run.outcome # "ok"
    THEN "BamRaised_" \o run.exc \o (IF run.min_samples = -1 THEN "|D401_min_samples_none" ELSE "|other")
    ELSE IF ObsCells(run) = ExpCells(RunExpectedOf(e, run, TRUE))
         THEN (IF SeqSet(run.sites) # RunExpectedOf(e, run, TRUE).sites THEN "BamSites" ELSE "ok")
    ELSE IF ObsCells(run) # ExpCells(RunExpected(e, run))
         THEN "BamCells|" \o (IF run.dyad /\ LossAtJobBoundary(e, run) THEN "D402_dyad_call_lost_at_job_boundary" ELSE "other")
    ELSE IF SeqSet(run.sites) # RunExpected(e, run).sites THEN "BamSites"
    ELSE "ok"

---------------------------------------------------------------------------------------------------
(* api: the first failing dump names the clause; bam: every run is judged on its own (one reject per run) *)
OverlapNote(e) == e.ev = "api" /\ e.raised_at = 0 /\ ~MergesDisjoint(e, Len(e.ops))
TInit == l = 1
TNext == /\ l <= Len(Log)
         /\ (IF Log[l].ev = "api" THEN Judge(l, ApiVerdict(Log[l]))
             ELSE \A i \in DOMAIN Log[l].runs : Judge(l, RunVerdict(Log[l], Log[l].runs[i])))
         /\ (IF OverlapNote(Log[l]) THEN Note(l, Log[l].tid, "location_in_two_jobs_outside_the_precondition_of_update") ELSE TRUE)
         /\ l' = l + 1
TAccepted == TLCGet("stats").diameter - 1 = Len(Log)
=====================================================================================================
