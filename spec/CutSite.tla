------------------------------------------ MODULE CutSite ------------------------------------------
(* C09 - cut-site coordinates are correct and strand-symmetric.                                  *)
(*                                                                                               *)
(* Abstract description of one simulated cut (a "scenario", the generator's ground truth):       *)
(*   proto  "nla"  : restriction digest; p = 0-based coordinate of the C of the CATG that was cut *)
(*          "chic" : MNase; p = coordinate of the first genomic base of the fragment at its R1    *)
(*                   end (leftmost base if R1 is forward, rightmost base if R1 is reverse)        *)
(*   rev    R1 maps to the reverse strand (the fragment extends to the LEFT of the cut)           *)
(*   kind   nla : "ok" read starts with CATG | "mm" one motif base substituted (mmpos, mmbase, in *)
(*                read orientation) | "lost" first base lost (cycle shift: read starts ATG) |     *)
(*                "extra" one foreign base xbase precedes CATG (read starts xCAT) |                *)
(*                "outside" protocol nla_no_overhang (no_overhang=True + reference handle): the   *)
(*                read starts mmpos (=gap 0..3) bases behind the CATG, which is not in the read   *)
(*          chic: "trimmed"  the ligated T was removed by the demultiplexer (MX = scCHIC...)      *)
(*                "untrimmed" the read still starts with the ligated T                            *)
(*   clip / clip3  soft-clipped bases at the 5' / 3' end of R1 (read orientation), n read length  *)
(*   r2     "none" | "proper" (opposite strand) | "same" (same strand as R1; chic rejects it)     *)
(*          | "unmapped" | "unmapped_rev" (half-mapped pair: mate present but unmapped, placed at *)
(*          R1's position, reverse flag off / on - the flag of an unmapped read is NOT a strand   *)
(*          and is kept as it is in the mirror image) | "intercontig" (mate elsewhere).           *)
(*          None of these matters for the site.                                                   *)
(*   contig name of the contig R1 maps to (part of the dedup key)                                 *)
(*   mx     the MX tag of the reads (demultiplexing strategy short name) as a sequence of          *)
(*          characters, <<>> = no tag. The layout `kind` is the GROUND TRUTH (does the registered  *)
(*          strategy remove the ligated T: sequenceCapture starts one base behind barcode+UMI);   *)
(*          the code decides by MX.startswith('scCHIC') (chic.py:102, scchic.py:76)               *)
(*   radius assignment_radius handed to CHICFragment (0: key carries the coordinate; > 0: the     *)
(*          key is (strand, contig, cell) and `==` compares the distance)                          *)
(*   opts   check_motif, allow_cycle_shift, no_cigar (no_umi_cigar_processing), invert_strand     *)
(*                                                                                               *)
(* Coordinate convention (taken from the code's own tests/data, not invented here):               *)
(*   nla : DS = coordinate of the C of CATG on the forward reference for BOTH strands             *)
(*         (data/mini_nla_test.bam: forward reads DS = reference_start, reverse reads             *)
(*         DS = reference_end-4; a reverse read ending ..CAT carries DS = reference_end-3,RZ=CAT) *)
(*   chic: DS = (first genomic base) - 2 on the forward strand (tests/test_molecule.py test_eq:   *)
(*         trimmed read at 100 -> 98; 2S4M at 104 equals the read at 102), i.e. the base next to  *)
(*         the position of the ligated T, outside the fragment; mirrored: (last base) + 2.        *)
(*                                                                                               *)
(* P-level : TrueSite / MustAccept / the *Verdict operators - defined from the scenario only.     *)
(* D-level : NlaIdentify / ChicIdentify follow nlaIII.py:151-252 and chic.py:79-155 arm by arm;   *)
(*           actions follow the constructor: FragInit, one action per arm of identify_site,       *)
(*           ComputeHash.  Named deviations (as coded at the pinned commit):                      *)
(*     "impl_revmotif"  (D20) nlaIII.py:229 tests rev_motif.startswith('ATG') instead of          *)
(*                       rev_motif.endswith('CAT') on the reverse cycle-shift arm                 *)
(*     "impl_shiftclip" (D21) nlaIII.py:225,230 anchor the cycle-shifted site at the aligned      *)
(*                       start/end instead of the clip-corrected r1_start                         *)
(*     "impl" = both.                                                                             *)
EXTENDS Integers, Sequences, FiniteSets, TLC, Json, Util

CONSTANTS MaxClip,      \* soft clip at the read start 0..MaxClip
          Clip3s,       \* set of soft clips at the other end
          ReadLens,     \* set of read lengths
          FlankIds,     \* subset of 1..4: model references Left(k) CATG Right(k')
          FlankPairs,   \* "diag" : k = k' ; "all" : every pair
          MMBases,      \* substitute bases tried for kind "mm" (may contain "N": a no-call is not a match)
          BoundaryPs,   \* cut coordinates at the contig start (sites at / left of coordinate 0; mirrored: contig end)
          XBases,       \* foreign bases tried for kind "extra"
          Protos,       \* subset of {"nla","chic"}
          Variant       \* "design" | "impl_revmotif" | "impl_shiftclip" | "impl"

Dev(d) == Variant = "impl" \/ Variant = d

---------------------------------------------------------------------------------------------------
(* bases, reads, mirroring *)
Base == {"A", "C", "G", "T"}
ReadBase == Base \cup {"N"}                              \* a read (not the reference) may carry no-calls
Comp(b) == CASE b = "A" -> "T" [] b = "C" -> "G" [] b = "G" -> "C" [] b = "T" -> "A" [] b = "N" -> "N"
RevSeq(q)  == [i \in 1 .. Len(q) |-> q[Len(q) + 1 - i]]
RevComp(q) == [i \in 1 .. Len(q) |-> Comp(q[Len(q) + 1 - i])]
CATG == <<"C", "A", "T", "G">>
ATG  == <<"A", "T", "G">>
CAT  == <<"C", "A", "T">>
Slice(ref, a, n) == SubSeq(ref, a + 1, a + n)          \* n bases from 0-based coordinate a

(* unclipped coordinate of the first read base of a FORWARD scenario *)
UStart(s) == CASE s.kind \in {"ok", "mm", "trimmed"} -> s.p
               [] s.kind = "lost"                    -> s.p + 1
               [] s.kind \in {"extra", "untrimmed"}  -> s.p - 1
               [] s.kind = "outside"                 -> s.p + 4 + s.mmpos
(* read bases (read orientation = reference orientation) of a FORWARD scenario *)
Query(s) == CASE s.kind \in {"ok", "trimmed"} -> Slice(s.ref, s.p, s.n)
              [] s.kind = "mm"        -> [Slice(s.ref, s.p, s.n) EXCEPT ![s.mmpos + 1] = s.mmbase]
              [] s.kind = "lost"      -> Slice(s.ref, s.p + 1, s.n)
              [] s.kind = "extra"     -> <<s.xbase>> \o Slice(s.ref, s.p, s.n - 1)
              [] s.kind = "untrimmed" -> <<"T">> \o Slice(s.ref, s.p, s.n - 1)
              [] s.kind = "outside"   -> Slice(s.ref, s.p + 4 + s.mmpos, s.n)
Cigar(cl, m, cr) == (IF cl > 0 THEN << <<4, cl>> >> ELSE <<>>) \o << <<0, m>> >> \o (IF cr > 0 THEN << <<4, cr>> >> ELSE <<>>)
FwdRead(s) == [rev   |-> FALSE,
               start |-> UStart(s) + s.clip,
               end   |-> UStart(s) + s.n - s.clip3,
               cigar |-> Cigar(s.clip, s.n - s.clip - s.clip3, s.clip3),
               seq   |-> Query(s)]
MirrorRead(r, L) == [rev |-> ~r.rev, start |-> L - r["end"], end |-> L - r.start,
                     cigar |-> RevSeq(r.cigar), seq |-> RevComp(r.seq)]
(* a 4-base motif reported by its leftmost base mirrors to L-4-x, a single base to L-1-x *)
MirrorCoord(proto, L, x) == IF proto = "nla" THEN L - 4 - x ELSE L - 1 - x
MirrorScn(s) == [s EXCEPT !.ref = RevComp(s.ref), !.p = MirrorCoord(s.proto, s.L, s.p), !.rev = ~s.rev]
(* how a cut shows up as an alignment record: reverse = mirror image of the forward read in the mirrored world *)
DeriveRead(s) == IF ~s.rev THEN FwdRead(s) ELSE MirrorRead(FwdRead(MirrorScn(s)), s.L)

FwdWellFormed(s) ==
    /\ s.L = Len(s.ref) /\ \A i \in DOMAIN s.ref : s.ref[i] \in Base
    /\ s.clip >= 0 /\ s.clip3 >= 0 /\ s.clip + s.clip3 < s.n /\ s.n >= 4
    /\ UStart(s) >= 0 /\ UStart(s) + s.n <= s.L /\ s.p >= 0 /\ s.p < s.L
    /\ s.proto = "nla" => /\ s.p + 4 <= s.L /\ Slice(s.ref, s.p, 4) = CATG
                          /\ s.kind \in {"ok", "mm", "lost", "extra", "outside"}
                          /\ s.kind = "outside" => s.mmpos \in 0 .. 3 /\ s.p + s.mmpos >= 3   \* scan window inside the contig
                          /\ s.radius = 0
                          /\ s.kind = "mm" => s.mmpos \in 0 .. 3 /\ s.mmbase \in ReadBase /\ s.mmbase # CATG[s.mmpos + 1]
                          /\ s.kind = "extra" => s.xbase \in Base
                          /\ s.r2 \in {"none", "proper", "unmapped", "unmapped_rev", "intercontig"}
    /\ s.proto = "chic" => s.radius \in {0, 2} /\ s.kind \in {"trimmed", "untrimmed"} /\ s.r2 \in {"none", "proper", "same", "unmapped", "unmapped_rev", "intercontig"}
WellFormed(s) == s.proto \in {"nla", "chic"} /\ FwdWellFormed(IF s.rev THEN MirrorScn(s) ELSE s)

---------------------------------------------------------------------------------------------------
(* P-level: the property's own definition, from the abstract cut only *)
TrueSite(s) == IF s.proto = "nla" THEN s.p ELSE IF s.rev THEN s.p + 2 ELSE s.p - 2
(* with no_umi_cigar_processing the clip correction is switched off by the user: the site is then anchored at the  *)
(* aligned end of R1. The statement's "regardless of soft-clipping" cannot apply; both anchors are accepted.       *)
AlignedAnchorSite(s) == IF s.rev THEN TrueSite(s) - s.clip ELSE TrueSite(s) + s.clip
OkSites(s) == IF s.opts.no_cigar /\ s.clip > 0 THEN {TrueSite(s), AlignedAnchorSite(s)} ELSE {TrueSite(s)}
TrueStrand(s) == s.rev # s.opts.invert_strand            \* RS: TRUE = reverse
(* the statement is silent about non-CATG reads when the motif check is disabled and about same-strand mates *)
MX_scCHIC384C8U3   == <<"s","c","C","H","I","C","3","8","4","C","8","U","3">>
MX_scCHIC384C8U3l  == MX_scCHIC384C8U3 \o <<"l">>
MX_scCHIC384C8U3se == MX_scCHIC384C8U3 \o <<"s","e">>
MX_TCHIC           == <<"T","C","H","I","C">>
MX_NLAIII384C8U3   == <<"N","L","A","I","I","I","3","8","4","C","8","U","3">>
ScChicPrefix(mx) == Len(mx) >= 6 /\ SubSeq(mx, 1, 6) = <<"s","c","C","H","I","C">>
(* the documented rule (MX starts with scCHIC <=> the T was removed) agrees with what the strategy really does; where it   *)
(* does not (TCHIC removes the T but is not named scCHIC..), the observation is reported as a NOTE, not judged              *)
LayoutRuleAgrees(s) == (s.kind = "trimmed") = ScChicPrefix(s.mx)
InScope(s) == /\ s.proto = "nla"  => (s.opts.check_motif \/ s.kind = "ok")
              /\ s.proto = "chic" => LayoutRuleAgrees(s)
              /\ s.kind = "outside" => (s.opts.check_motif /\ s.clip = 0)   \* no_overhang scans from the ALIGNED read end
              /\ s.proto = "chic" => s.r2 # "same"
MustAccept(s) == s.proto = "chic" \/ s.kind \in {"ok", "outside"} \/ (s.kind = "lost" /\ s.opts.allow_cycle_shift)

(* o = observed outcome [has_ds, ds, has_rs, rs, qcfail, valid, hash, has_loc, loc]; verdict = first failing clause or "ok" *)
HasPos(h) == "pos" \in DOMAIN h
AcceptVerdict(name, s, o) ==
    IF ~o.has_ds \/ ~o.valid THEN name \o "_rejected"
    ELSE IF o.ds \notin OkSites(s) THEN name \o "_site"
    ELSE IF ~o.has_rs \/ o.rs # TrueStrand(s) THEN name \o "_strand"
    ELSE IF ~o.hash.valid THEN "Inv_C09_DedupKey_missing"
    ELSE IF o.hash.sample # s.sample \/ o.hash.chrom # s.contig THEN "Inv_C09_DedupKey_site"
    ELSE IF s.radius = 0 /\ ~HasPos(o.hash) THEN "Inv_C09_DedupKey_site"
    ELSE IF HasPos(o.hash) /\ o.hash.pos # o.ds THEN "Inv_C09_DedupKey_site"
    ELSE IF ~o.has_loc \/ o.loc # o.ds THEN "Inv_C09_DedupKey_site_location"        \* get_site_location()
    ELSE "ok"
RejectVerdict(name, o) == IF o.has_ds \/ o.valid \/ o.hash.valid THEN name ELSE "ok"

NlaTruthVerdict(s, o) ==
    IF s.proto # "nla" \/ ~InScope(s) \/ s.kind = "lost" THEN "ok"
    ELSE IF MustAccept(s) THEN AcceptVerdict("Inv_C09_NlaTruth", s, o)
    ELSE RejectVerdict("Inv_C09_Reject_assigned_site", o)
CycleShiftVerdict(s, o) ==
    IF s.proto # "nla" \/ ~InScope(s) \/ s.kind # "lost" THEN "ok"
    ELSE IF MustAccept(s) THEN AcceptVerdict("Inv_C09_CycleShift", s, o)
    ELSE RejectVerdict("Inv_C09_CycleShift_accepted_without_flag", o)
ChicTruthVerdict(s, o) ==
    IF s.proto # "chic" \/ ~InScope(s) THEN "ok" ELSE AcceptVerdict("Inv_C09_ChicTruth", s, o)
TruthVerdict(s, o) ==
    LET a == NlaTruthVerdict(s, o) b == CycleShiftVerdict(s, o) c == ChicTruthVerdict(s, o)
    IN IF a # "ok" THEN a ELSE IF b # "ok" THEN b ELSE c

(* oa: outcome of scenario s, ob: outcome of MirrorScn(s) *)
MirrorVerdict(s, oa, ob) ==
    IF ~InScope(s) THEN "ok"
    ELSE IF oa.has_ds # ob.has_ds \/ oa.valid # ob.valid THEN "Inv_C09_Mirror_acceptance"
    ELSE IF oa.has_ds /\ ob.ds # MirrorCoord(s.proto, s.L, oa.ds) THEN "Inv_C09_Mirror_site"
    ELSE IF oa.has_rs # ob.has_rs THEN "Inv_C09_Mirror_strand"
    ELSE IF oa.has_rs /\ oa.rs = ob.rs THEN "Inv_C09_Mirror_strand"
    ELSE IF oa.hash.valid # ob.hash.valid THEN "Inv_C09_Mirror_dedup"
    ELSE IF oa.hash.valid /\ HasPos(oa.hash) # HasPos(ob.hash) THEN "Inv_C09_Mirror_dedup"
    ELSE IF oa.hash.valid /\ ~(/\ HasPos(oa.hash) => /\ ob.hash.pos = MirrorCoord(s.proto, s.L, oa.hash.pos)
                                                      /\ ob.hash.strand = ~oa.hash.strand
                               /\ ob.hash.css = ~oa.hash.css
                               /\ ob.hash.sample = oa.hash.sample /\ ob.hash.chrom = oa.hash.chrom)
         THEN "Inv_C09_Mirror_dedup"
    ELSE "ok"

(* Another read of the SAME cut with a different geometry: other soft clips, mate present/absent, and for MNase the *)
(* other demultiplexing layout.  Same cut, cell and UMI => the two fragments must be equal for deduplication.       *)
Companion(s) == [s EXCEPT !.clip  = (s.clip + 3) % 7,
                          !.clip3 = IF s.clip3 = 0 THEN 2 ELSE 0,
                          !.kind  = IF s.kind = "trimmed" THEN "untrimmed" ELSE IF s.kind = "untrimmed" THEN "trimmed" ELSE s.kind,
                          !.mx    = IF s.kind = "trimmed" THEN MX_NLAIII384C8U3 ELSE IF s.kind = "untrimmed" THEN MX_scCHIC384C8U3 ELSE s.mx,
                          !.r2    = IF s.r2 = "none" THEN "proper" ELSE IF s.r2 = "proper" THEN "none" ELSE s.r2]
(* eqa / eqb: result of the code's own fragment equality between a read and its companion, in either orientation *)
DedupVerdict(s, eqa, eqb) ==
    IF ~InScope(s) THEN "ok"
    ELSE IF eqa # eqb THEN "Inv_C09_Mirror_dedup_eq"
    ELSE IF MustAccept(s) /\ ~s.opts.no_cigar /\ ~eqa THEN "Inv_C09_Dedup_same_cut"
    ELSE "ok"

---------------------------------------------------------------------------------------------------
(* D-level: what identify_site computes from the alignment record *)
ClipStart(r) == IF r.cigar[1][1] = 4 THEN r.cigar[1][2] ELSE 0
ClipEnd(r)   == IF r.cigar[Len(r.cigar)][1] = 4 THEN r.cigar[Len(r.cigar)][2] ELSE 0
FwdMotif(r)  == SubSeq(r.seq, 1, 4)                           \* R1.seq[:4]
RevMotif(r)  == SubSeq(r.seq, Len(r.seq) - 3, Len(r.seq))     \* R1.seq[-4:]

(* nlaIII.py:203-210 *)
NlaR1Start(r, o) == LET raw == IF r.rev THEN r["end"] ELSE r.start IN
                    IF o.no_cigar THEN raw ELSE IF r.rev THEN raw + ClipEnd(r) ELSE raw - ClipStart(r)
RevShiftTest(m) == IF Dev("impl_revmotif") THEN SubSeq(m, 1, 3) = ATG ELSE SubSeq(m, 2, 4) = CAT
ShiftAnchor(r, o) == IF Dev("impl_shiftclip") THEN (IF r.rev THEN r["end"] ELSE r.start) ELSE NlaR1Start(r, o)
(* nlaIII.py:212-252: which arm is taken *)
NlaArm(r, o) ==
    IF (~o.check_motif \/ FwdMotif(r) = CATG) /\ ~r.rev THEN "motif_fwd"
    ELSE IF (~o.check_motif \/ RevMotif(r) = CATG) /\ r.rev THEN "motif_rev"
    ELSE IF o.allow_cycle_shift /\ SubSeq(FwdMotif(r), 1, 3) = ATG /\ ~r.rev THEN "shift_fwd"
    ELSE IF o.allow_cycle_shift /\ RevShiftTest(RevMotif(r)) /\ r.rev THEN "shift_rev"
    ELSE "reject"
NlaPos(r, o, arm) == CASE arm = "motif_fwd" -> NlaR1Start(r, o)
                       [] arm = "motif_rev" -> NlaR1Start(r, o) - 4
                       [] arm = "shift_fwd" -> ShiftAnchor(r, o) - 1
                       [] arm = "shift_rev" -> ShiftAnchor(r, o) - 3
                       [] arm = "reject"    -> IF r.rev THEN NlaR1Start(r, o) - 4 ELSE NlaR1Start(r, o)
NlaRecognised(r, arm) == CASE arm = "motif_fwd" -> FwdMotif(r) [] arm = "motif_rev" -> RevMotif(r)
                           [] arm = "shift_fwd" -> ATG [] arm = "shift_rev" -> CAT [] arm = "reject" -> <<>>
NlaReason(r) == IF FwdMotif(r) = CATG /\ r.rev THEN "found CATG R1 REV exp FWD"
                ELSE IF RevMotif(r) = CATG /\ ~r.rev THEN "found CATG R1 FWD exp REV" ELSE "no CATG"

(* nlaIII.py:174-196 no_overhang: scan the 7 reference bases outside the ALIGNED 5' end of R1 for the nearest CATG *)
OvHits(r, ref) == IF r.rev THEN { k \in 0 .. 3 : r["end"] + k + 4 <= Len(ref) /\ Slice(ref, r["end"] + k, 4) = CATG }
                  ELSE { k \in 0 .. 3 : r.start - 4 - k >= 0 /\ Slice(ref, r.start - 4 - k, 4) = CATG }
OvPos(r, ref) == IF r.rev THEN r["end"] + MinOf(OvHits(r, ref)) ELSE r.start - MinOf(OvHits(r, ref)) - 4

(* chic.py:125-155 *)
ChicR1Start(r, o) == LET raw == IF r.rev THEN r["end"] + 1 ELSE r.start - 2 IN
                     IF o.no_cigar THEN raw ELSE IF r.rev THEN raw + ClipEnd(r) ELSE raw - ClipStart(r)
ChicPos(r, o, trimmed) == IF trimmed THEN ChicR1Start(r, o)
                          ELSE IF r.rev THEN ChicR1Start(r, o) - 1 ELSE ChicR1Start(r, o) + 1

---------------------------------------------------------------------------------------------------
(* D-level state machine: the two orientations of one cut are constructed one after the other     *)
VARIABLES scn,      \* the scenario (fragment 1); fragment 2 is its mirror image
          pc,       \* <<pc1, pc2>> in "new" -> "inited" -> "sited" -> "done"
          frag      \* <<f1, f2>> projected Fragment objects
vars == <<scn, pc, frag>>

NoHash == [valid |-> FALSE]
Blank(r) == [read |-> r, strand_set |-> FALSE, strand |-> FALSE, qcfail |-> FALSE, found |-> FALSE,
             has_ds |-> FALSE, ds |-> 0, has_rs |-> FALSE, rs |-> FALSE, rz |-> <<>>, rr |-> "",
             has_loc |-> FALSE, loc |-> 0, css |-> FALSE, valid |-> FALSE, hash |-> NoHash]
Out(f) == [has_ds |-> f.has_ds, ds |-> f.ds, has_rs |-> f.has_rs, rs |-> f.rs, qcfail |-> f.qcfail,
           valid |-> f.valid, hash |-> f.hash, has_loc |-> f.has_loc, loc |-> f.loc]

LeftFlank(k)  == CASE k = 1 -> <<"T","A","G","G","C","A","T","G","C","C">>
                   [] k = 2 -> <<"A","G","T","C","A","T","G","A","G","T">>
                   [] k = 3 -> <<"G","G","G","T","A","C","A","T","C","A">>
                   [] k = 4 -> <<"C","A","G","T","C","A","G","T","C","A">>
RightFlank(k) == CASE k = 1 -> <<"G","G","C","A","T","G","C","C","T","A">>
                   [] k = 2 -> <<"T","C","A","T","G","A","T","C","G","A">>
                   [] k = 3 -> <<"G","T","A","C","A","T","C","A","G","G">>
                   [] k = 4 -> <<"G","T","C","A","G","T","C","A","A","C">>
ModelRef(kl, kr) == LeftFlank(kl) \o CATG \o RightFlank(kr)
(* reference with the CATG at coordinate p <= 10 (same length): used for cuts at the very start of the contig *)
RefAt(kl, kr, p) == SubSeq(LeftFlank(kl), 1, p) \o CATG \o RightFlank(kr) \o SubSeq(LeftFlank(kl), 1, 10 - p)
Flanks == IF FlankPairs = "all" THEN FlankIds \X FlankIds ELSE { <<k, k>> : k \in FlankIds }

NlaKinds == {[kind |-> "ok", mmpos |-> 0, mmbase |-> "A", xbase |-> "A"], [kind |-> "lost", mmpos |-> 0, mmbase |-> "A", xbase |-> "A"]}
            \cup {[kind |-> "mm", mmpos |-> i, mmbase |-> b, xbase |-> "A"] : i \in 0 .. 3, b \in MMBases}
            \cup {[kind |-> "extra", mmpos |-> 0, mmbase |-> "A", xbase |-> b] : b \in XBases}
ChicKinds == {[kind |-> k, mmpos |-> 0, mmbase |-> "A", xbase |-> "A"] : k \in {"trimmed", "untrimmed"}}
NlaOpts  == [check_motif : BOOLEAN, allow_cycle_shift : BOOLEAN, no_cigar : BOOLEAN, invert_strand : BOOLEAN]
ChicOpts == [check_motif : {TRUE}, allow_cycle_shift : {FALSE}, no_cigar : BOOLEAN, invert_strand : BOOLEAN]

MkR(proto, f, p, rv, k, c, c3, n, r2, o, rad) ==
    [proto |-> proto, L |-> 24, ref |-> IF proto = "nla" THEN RefAt(f[1], f[2], p) ELSE ModelRef(f[1], f[2]), p |-> p, rev |-> rv, kind |-> k.kind, mmpos |-> k.mmpos,
     mmbase |-> k.mmbase, xbase |-> k.xbase, clip |-> c, clip3 |-> c3, n |-> n, r2 |-> r2, opts |-> o, sample |-> "c1", contig |-> "chr1", radius |-> rad,
     mx |-> IF k.kind = "trimmed" THEN MX_scCHIC384C8U3 ELSE MX_NLAIII384C8U3]
Mk(proto, f, p, rv, k, c, c3, n, r2, o) == MkR(proto, f, p, rv, k, c, c3, n, r2, o, 0)
(* the bounded scenario space, enumerated by Init (one initial state per well-formed scenario) *)
ChoosesNla(s) == "nla" \in Protos /\
    \E f \in Flanks, rv \in BOOLEAN, k \in NlaKinds, c \in 0 .. MaxClip, c3 \in Clip3s, n \in ReadLens,
       r2 \in {"none", "proper"}, o \in NlaOpts : s = Mk("nla", f, 10, rv, k, c, c3, n, r2, o)
(* contig-boundary cuts: the fragment starts at coordinate 0, 1 or 2 (its mirror image ends at the contig end) *)
ChoosesBoundary(s) ==
    \/ "nla" \in Protos /\ \E f \in Flanks, p \in BoundaryPs, k \in NlaKinds, c \in 0 .. MaxClip, n \in ReadLens, o \in NlaOpts :
            s = Mk("nla", f, p, FALSE, k, c, 0, n, "none", o)
    \/ "chic" \in Protos /\ \E f \in Flanks, p \in BoundaryPs, k \in ChicKinds, c \in 0 .. MaxClip, n \in ReadLens, o \in ChicOpts :
            s = Mk("chic", f, p, FALSE, k, c, 0, n, "none", o)
(* protocol nla_no_overhang (gap 0..3 between CATG and read) and CHIC with an assignment radius: small slices *)
ChoosesExtra(s) ==
    \/ "nla" \in Protos /\ \E f \in Flanks, g \in 0 .. 3, c \in {0, 2}, c3 \in Clip3s, n \in ReadLens, r2 \in {"none", "proper"},
                            o \in {x \in NlaOpts : x.check_motif /\ ~x.allow_cycle_shift} :
            s = Mk("nla", f, 6, FALSE, [kind |-> "outside", mmpos |-> g, mmbase |-> "A", xbase |-> "A"], c, c3, n, r2, o)
    \/ "chic" \in Protos /\ \E f \in Flanks, rv \in BOOLEAN, k \in ChicKinds, c \in {0, 1, 6}, n \in ReadLens, r2 \in {"none", "proper"}, o \in ChicOpts :
            s = MkR("chic", f, 11, rv, k, c, 0, n, r2, o, 2)
    \* other registered strategy names: single-end / no-primer scCHIC profiles, no MX tag at all, and TCHIC (removes the T
    \* but is not named scCHIC*: LayoutRuleAgrees is false, modelled and replayed but not judged)
    \/ "chic" \in Protos /\ \E f \in Flanks, rv \in BOOLEAN, c \in {0, 2}, n \in ReadLens, o \in ChicOpts,
                             km \in { <<"trimmed", MX_scCHIC384C8U3se>>, <<"trimmed", MX_scCHIC384C8U3l>>, <<"trimmed", MX_TCHIC>>,
                                       <<"untrimmed", <<>> >> } :
            s = [Mk("chic", f, 11, rv, [kind |-> km[1], mmpos |-> 0, mmbase |-> "A", xbase |-> "A"], c, 0, n, "none", o) EXCEPT !.mx = km[2]]
    \* half-mapped and inter-contig pairs, both strands of R1, both values of the unmapped mate's reverse flag
    \/ "chic" \in Protos /\ \E f \in Flanks, rv \in BOOLEAN, k \in ChicKinds, c \in {0, 2}, n \in ReadLens, o \in ChicOpts,
                             r2 \in {"unmapped", "unmapped_rev", "intercontig"} :
            s = Mk("chic", f, 11, rv, k, c, 0, n, r2, o)
    \/ "nla" \in Protos /\ \E f \in Flanks, rv \in BOOLEAN, k \in {x \in NlaKinds : x.kind \in {"ok", "lost"}}, c \in {0, 2}, n \in ReadLens,
                            o \in {x \in NlaOpts : x.check_motif /\ ~x.no_cigar /\ ~x.invert_strand}, r2 \in {"unmapped", "unmapped_rev", "intercontig"} :
            s = Mk("nla", f, 10, rv, k, c, 0, n, r2, o)
ChoosesChic(s) == "chic" \in Protos /\
    \E f \in Flanks, p \in {11, 12}, rv \in BOOLEAN, k \in ChicKinds, c \in 0 .. MaxClip, c3 \in Clip3s, n \in ReadLens,
       r2 \in {"none", "proper", "same"}, o \in ChicOpts : s = Mk("chic", f, p, rv, k, c, c3, n, r2, o)

Scn(i) == IF i = 1 THEN scn ELSE MirrorScn(scn)
Turn(i) == i = 1 \/ pc[1] = "done"

Init == /\ (ChoosesNla(scn) \/ ChoosesChic(scn) \/ ChoosesBoundary(scn) \/ ChoosesExtra(scn))
        /\ WellFormed(scn)
        /\ pc = <<"new", "new">>
        /\ frag = <<Blank(DeriveRead(scn)), Blank(DeriveRead(MirrorScn(scn)))>>

(* Fragment.__init__ : strand from R1 (fragment.py:170, identify_strand) *)
FragInit(i) ==
    /\ Turn(i) /\ pc[i] = "new"
    /\ frag' = [frag EXCEPT ![i].strand_set = TRUE, ![i].strand = frag[i].read.rev]
    /\ pc' = [pc EXCEPT ![i] = "inited"]
    /\ UNCHANGED scn

(* NlaIIIFragment.set_site(valid=True) *)
NlaSetSite(i, arm) ==
    LET r == frag[i].read  o == Scn(i).opts  pos == NlaPos(r, o, arm) IN
    /\ frag' = [frag EXCEPT ![i] = [@ EXCEPT !.found = TRUE, !.has_ds = TRUE, !.ds = pos, !.has_rs = TRUE,
                                             !.rs = (r.rev # o.invert_strand), !.strand = r.rev, !.has_loc = TRUE,
                                             !.loc = pos, !.css = r.rev, !.rz = NlaRecognised(r, arm)]]
    /\ pc' = [pc EXCEPT ![i] = "sited"]
    /\ UNCHANGED scn
(* no_overhang arm: site found in the reference / rejection 'no_CATG_in_ref' (no set_site at all: no RS, no anchor) *)
NlaNoOverhang(i) ==
    /\ Turn(i) /\ pc[i] = "inited" /\ Scn(i).proto = "nla" /\ Scn(i).kind = "outside"
    /\ LET r == frag[i].read  o == Scn(i).opts  ref == Scn(i).ref IN
       IF OvHits(r, ref) # {}
       THEN frag' = [frag EXCEPT ![i] = [@ EXCEPT !.found = TRUE, !.has_ds = TRUE, !.ds = OvPos(r, ref), !.has_rs = TRUE,
                                                  !.rs = (r.rev # o.invert_strand), !.strand = r.rev, !.has_loc = TRUE,
                                                  !.loc = OvPos(r, ref), !.css = r.rev]]
       ELSE frag' = [frag EXCEPT ![i] = [@ EXCEPT !.qcfail = TRUE, !.rr = "no_CATG_in_ref"]]
    /\ pc' = [pc EXCEPT ![i] = "sited"]
    /\ UNCHANGED scn
NlaAcceptMotif(i) ==
    /\ Turn(i) /\ pc[i] = "inited" /\ Scn(i).proto = "nla" /\ Scn(i).kind # "outside"
    /\ NlaArm(frag[i].read, Scn(i).opts) \in {"motif_fwd", "motif_rev"}
    /\ NlaSetSite(i, NlaArm(frag[i].read, Scn(i).opts))
NlaAcceptShift(i) ==
    /\ Turn(i) /\ pc[i] = "inited" /\ Scn(i).proto = "nla" /\ Scn(i).kind # "outside"
    /\ NlaArm(frag[i].read, Scn(i).opts) \in {"shift_fwd", "shift_rev"}
    /\ NlaSetSite(i, NlaArm(frag[i].read, Scn(i).opts))
(* rejection arm: set_rejection_reason(.., set_qcfail=True); set_site(.., valid=False) keeps an anchor but no DS *)
NlaReject(i) ==
    /\ Turn(i) /\ pc[i] = "inited" /\ Scn(i).proto = "nla" /\ Scn(i).kind # "outside"
    /\ NlaArm(frag[i].read, Scn(i).opts) = "reject"
    /\ LET r == frag[i].read  o == Scn(i).opts IN
       frag' = [frag EXCEPT ![i] = [@ EXCEPT !.found = FALSE, !.qcfail = TRUE, !.rr = NlaReason(r), !.has_rs = TRUE,
                                             !.rs = (r.rev # o.invert_strand), !.strand = r.rev, !.has_loc = TRUE,
                                             !.loc = NlaPos(r, o, "reject"), !.css = r.rev]]
    /\ pc' = [pc EXCEPT ![i] = "sited"]
    /\ UNCHANGED scn

(* CHICFragment.identify_site *)
ChicRejectOrientation(i) ==
    /\ Turn(i) /\ pc[i] = "inited" /\ Scn(i).proto = "chic" /\ Scn(i).r2 = "same"
    /\ frag' = [frag EXCEPT ![i].rr = "orientation"]
    /\ pc' = [pc EXCEPT ![i] = "sited"]
    /\ UNCHANGED scn
ChicSetSite(i) ==
    /\ Turn(i) /\ pc[i] = "inited" /\ Scn(i).proto = "chic" /\ Scn(i).r2 # "same"
    /\ LET r == frag[i].read  o == Scn(i).opts  pos == ChicPos(r, o, ScChicPrefix(Scn(i).mx))   \* chic.py:102 is_trimmed
           ss == r.rev # o.invert_strand IN
       frag' = [frag EXCEPT ![i] = [@ EXCEPT !.found = TRUE, !.has_ds = TRUE, !.ds = pos, !.has_rs = TRUE, !.rs = ss,
                                             !.strand = ss, !.has_loc = TRUE, !.loc = pos, !.css = ss]]
    /\ pc' = [pc EXCEPT ![i] = "sited"]
    /\ UNCHANGED scn

(* is_valid() and match_hash (nlaIII.py:51-76, chic.py:48-63 with assignment_radius = 0) *)
ComputeHash(i) ==
    /\ Turn(i) /\ pc[i] = "sited"
    /\ LET f == frag[i]  v == ~f.qcfail /\ f.found IN
       frag' = [frag EXCEPT ![i].valid = v,
                            ![i].hash = IF ~v THEN NoHash
                                        ELSE IF Scn(i).radius = 0
                                             THEN [valid |-> TRUE, strand |-> f.strand, css |-> f.css, chrom |-> Scn(i).contig,
                                                   pos |-> f.loc, sample |-> Scn(i).sample]
                                             ELSE [valid |-> TRUE, css |-> f.css, chrom |-> Scn(i).contig, sample |-> Scn(i).sample]]
    /\ pc' = [pc EXCEPT ![i] = "done"]
    /\ UNCHANGED scn

Next == \E i \in {1, 2} : \/ FragInit(i) \/ NlaNoOverhang(i) \/ NlaAcceptMotif(i) \/ NlaAcceptShift(i) \/ NlaReject(i)
                          \/ ChicRejectOrientation(i) \/ ChicSetSite(i) \/ ComputeHash(i)
Spec == Init /\ [][Next]_vars

---------------------------------------------------------------------------------------------------
(* Properties of the design, stated with the P-level verdict operators *)
Done(i) == pc[i] = "done"
Inv_C09_NlaTruth   == \A i \in {1, 2} : Done(i) => NlaTruthVerdict(Scn(i), Out(frag[i])) = "ok"
Inv_C09_CycleShift == \A i \in {1, 2} : Done(i) => CycleShiftVerdict(Scn(i), Out(frag[i])) = "ok"
Inv_C09_ChicTruth  == \A i \in {1, 2} : Done(i) => ChicTruthVerdict(Scn(i), Out(frag[i])) = "ok"
Inv_C09_Mirror     == (Done(1) /\ Done(2)) => MirrorVerdict(scn, Out(frag[1]), Out(frag[2])) = "ok"
(* a rejected restriction fragment carries the qcfail flag and no site tag *)
Inv_C09_RejectFlag == \A i \in {1, 2} : (Done(i) /\ Scn(i).proto = "nla" /\ ~frag[i].found) => frag[i].qcfail /\ ~frag[i].has_ds
(* the generator's reads are alignment records inside the reference, and mirroring is an involution *)
Inv_Gen == /\ \A i \in {1, 2} : LET r == frag[i].read IN 0 <= r.start /\ r.start < r["end"] /\ r["end"] <= scn.L /\ Len(r.seq) = scn.n
           /\ MirrorScn(MirrorScn(scn)) = scn
           /\ MirrorRead(frag[2].read, scn.L) = frag[1].read

---------------------------------------------------------------------------------------------------
(* spec -> code: every initial state is a scenario for the driver (generator configuration, NEXT GenNext) *)
Str(q) == FoldLeft(LAMBDA acc, x : acc \o x, "", q)
GenNext == UNCHANGED vars
Emit == PrintT("@@SCENARIO " \o ToJson([scn EXCEPT !.ref = Str(scn.ref)]))
=====================================================================================================
