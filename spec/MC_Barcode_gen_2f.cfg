INIT Init
NEXT Next
CONSTANTS
  A = 4
  L = 2
  MaxLines = 1
  Ks = {1}
  Fmts = {"bc"}
  NFiles = {2}
  Lazy = {"none"}
  ProbeMax = 5
  Touches = {"lookup"}
  Variant = "design"
CONSTRAINT Emit
CONSTRAINT OnlyInit
CHECK_DEADLOCK FALSE
