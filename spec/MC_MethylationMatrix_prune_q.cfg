INIT Init
NEXT Next
CONSTANTS
  Samples = {1, 2}
  MaxPos = 3
  ContigLen = 4
  BinSize = 2
  JobSpan = 2
  MaxObs = 4
  MaxTouch = 1
  Dyad = FALSE
  Revs = {FALSE}
  JobK <- K1
  JobMV <- K0
  MaxPost = 0
  PostKs <- PostKsPlain
  TrackHist = FALSE
  Variant = "design"
INVARIANT Inv_X04_NoCrash
INVARIANT Inv_X04_Counted
INVARIANT Inv_X04_Conserved
INVARIANT Inv_X04_SplitIndependent
INVARIANT Inv_X04_JobPrune
INVARIANT Inv_X04_SitesCoverCells
INVARIANT Inv_X04_PostOp
CHECK_DEADLOCK FALSE
