---------------------------------------- MODULE CountTable ----------------------------------------
(* C11 - count tables count exactly the reads passing the filters, at documented weights.          *)
(*                                                                                                 *)
(* Subsystem: singlecellmultiomics/bamProcessing/bamToCountTable.py                                *)
(*            create_count_table -> (iteration plan) -> assignReads -> read_should_be_counted       *)
(*                                                                                                 *)
(* P-level  : the property's own definition, no algorithm, no evaluation order:                    *)
(*              ShouldCount(r,o)  conjunction of the selected filters                              *)
(*              Weight(r,o)       integer over the fixed denominator Den = 24                      *)
(*              Keys / Contribs   which (sample, key) cells a counted read contributes to          *)
(*              ExpectedTable     fold of the contributions over the reads of the BAM              *)
(* D-level  : shaped like the code: the iteration plan (whole file / fetch(contig) / one fetch per *)
(*            BED row), the early-return filter chain IN CODE ORDER (it can raise), the            *)
(*            countToAdd if/elif chain, the count_increment list per feature mode, the three       *)
(*            table-update branches (bin / bed / plain).                                          *)
(*            Variant = "design"             intended behaviour                                    *)
(*            Variant = "impl_D8"            cigarstring dereferenced before the unmapped test     *)
(*            Variant = "impl_blacklist_end" exclusive reference_end compared as if it were a base *)
(*            Variant = "impl_mate_strict"   --r1only / --r2only written as `not is_read1` / `not is_read2`: single-end    *)
(*                                           records are dropped (seeded change C11-r5m2)                               *)
(*            Variant = "impl_splitkey"      single+split feature key `(f)` is a str, not a tuple  *)
(*            Variant = "impl_strayindex"    stray `joined_feature[0]` after the split product     *)
(*            (each as-coded deviation is a negative control of its own)                           *)
(*                                                                                                 *)
(* Records.                                                                                        *)
(*  read r : mapped qcfail dup rr paired mate_unmapped proper hasxa : BOOLEAN; mate \in {0,1,2};    *)
(*           mapq; ops : Seq(STRING) (CIGAR operation letters present, <<>> for an unmapped read);  *)
(*           nm (-1 = no NM tag); xa : Seq({"alt","nonalt"}) alternative hits of the XA tag;        *)
(*           nh (0 = no NH tag); mp ("" = no mp tag); contig ("" = unplaced); start, end (half open *)
(*           reference interval; pysam reference_end is exclusive); sample;                         *)
(*           feats : [tag -> Seq(STRING)] delimiter separated parts of string valued tags;          *)
(*           fq    : [tag -> Int] float typed tags in quarters (XV:f:2.5 -> 10);                        *)
(*           nums  : [tag -> Int] integer valued tags.                                              *)
(*  opts o : r1only r2only filterMP proper no_indels no_softclips filterXA dedup nodivide divmm    *)
(*           split keep : BOOLEAN; minMQ; max_edits (-1 = off); blacklist : Seq([contig,start,end]);*)
(*           byvalue ("" = off); mode \in {"joined","single"}; tags : Seq(STRING); bin (0 = off);   *)
(*           bintag; sliding; bed : Seq([contig,start,end,name]); usebed; contig ("" = all);        *)
(*           delim; reflen : [contig -> Int].                                                       *)
EXTENDS Integers, Sequences, FiniteSets, TLC, Util

CONSTANTS Variant,      \* "design" or one named as-coded deviation
          ReadDev,      \* model checking: reads differ from the clean base read in at most ReadDev fields
          OptDev,       \* model checking: option sets differ from the all-off base in at most OptDev fields
          Scenario      \* "single": one read; "pair": the two mates of one pair; "two": two arbitrary reads

Den == 24               \* weights are integers over this denominator: 1 -> 24, 1/2 -> 12, 1/2/3 -> 4, 1/2/4 -> 3

---------------------------------------------------------------------------------------------------
(* P-level: filters (statement: "passes every selected filter") *)

HasKey(f, k) == k \in DOMAIN f
OpsOf(r)  == SeqSet(r.ops)

PassMapped(r)      == r.mapped
PassQC(r)          == ~r.qcfail
PassMQ(r, o)       == r.mapq >= o.minMQ
PassDedup(r, o)    == o.dedup => ~(r.dup \/ r.rr)
PassProper(r, o)   == o.proper => r.proper
PassIndel(r, o)    == o.no_indels => OpsOf(r) \cap {"I", "D"} = {}
PassSoftclip(r, o) == o.no_softclips => ~("S" \in OpsOf(r))
PassEdits(r, o)    == (o.max_edits >= 0 /\ r.nm >= 0) => r.nm <= o.max_edits
PassXA(r, o)       == o.filterXA => ~(\E i \in DOMAIN r.xa : r.xa[i] = "nonalt")
PassMP(r, o)       == o.filterMP => r.mp = "unique"

(* mate selection: a mate flagged as the other one is never counted; an unflagged (single-end) record
   under --r1only/--r2only is not decided by the statement (MateUndecided) *)
(* r.mate: 0 = neither mate flag (single-end), 1 = read 1, 2 = read 2, 3 = both flags (legal SAM: inner segment).
   --r1only ("Only count R1"): a single-end record IS read 1 in this toolkit (Fragment puts it in the R1 slot) and must pass.
   --r2only ("Only count R2"): a single-end record is undecided (dropping it also satisfies "only count R2").
   A record carrying both flags is undecided under either option *)
IsRead1(r) == r.mate \in {1, 3}
IsRead2(r) == r.mate \in {2, 3}
PassMateStrict(r, o)  == (o.r1only => r.mate \in {0, 1}) /\ (o.r2only => r.mate = 2)
PassMateLenient(r, o) == (o.r1only => r.mate # 2) /\ (o.r2only => r.mate # 1)

(* blacklist, BED intervals half open [start,end): a read none of whose bases lies in an interval must pass;
   a read whose first or last aligned base lies in an interval must be excluded; a read that strictly spans an
   interval is not decided by the statement *)
LastBase(r) == r["end"] - 1
OnIv(r, iv) == r.contig = iv.contig
Touches(r, iv)     == OnIv(r, iv) /\ r.start < iv["end"] /\ iv.start < r["end"]
EndpointIn(r, iv)  == OnIv(r, iv) /\ (   (iv.start <= r.start /\ r.start < iv["end"])
                                      \/ (iv.start <= LastBase(r) /\ LastBase(r) < iv["end"]))
PassBlacklistStrict(r, o)  == \A i \in DOMAIN o.blacklist : ~Touches(r, o.blacklist[i])
PassBlacklistLenient(r, o) == \A i \in DOMAIN o.blacklist : ~EndpointIn(r, o.blacklist[i])

ShouldCountWith(r, o, lenient) ==
    /\ PassMapped(r) /\ PassQC(r) /\ PassMQ(r, o) /\ PassDedup(r, o) /\ PassProper(r, o)
    /\ PassIndel(r, o) /\ PassSoftclip(r, o) /\ PassEdits(r, o) /\ PassXA(r, o) /\ PassMP(r, o)
    /\ IF lenient THEN PassMateLenient(r, o) /\ PassBlacklistLenient(r, o)
                  ELSE PassMateStrict(r, o) /\ PassBlacklistStrict(r, o)
ShouldCount(r, o) == ShouldCountWith(r, o, FALSE)              \* certainly counted
MayCount(r, o)    == ShouldCountWith(r, o, TRUE)               \* not certainly excluded
Undecided(r, o)   == MayCount(r, o) /\ ~ShouldCount(r, o)

---------------------------------------------------------------------------------------------------
(* P-level: weights *)
BothMatesMapped(r) == r.paired /\ ~r.mate_unmapped
MateSelected(o)    == o.r1only \/ o.r2only
FragmentWeight(r, o) == IF ~MateSelected(o) /\ ~o.nodivide /\ BothMatesMapped(r) THEN Den \div 2 ELSE Den
(* reported hits: the alignment itself plus the alternatives listed in XA (bwa), else NH, else 1 *)
Hits(r) == IF r.hasxa THEN Len(r.xa) + 1 ELSE IF r.nh > 0 THEN r.nh ELSE 1
Weight(r, o) == IF o.divmm THEN FragmentWeight(r, o) \div Hits(r) ELSE FragmentWeight(r, o)
WeightExact(r, o) == o.divmm => FragmentWeight(r, o) % Hits(r) = 0    \* the denominator is large enough

---------------------------------------------------------------------------------------------------
(* P-level: keys *)
JoinStr(parts, d) == IF Len(parts) = 0 THEN ""
                     ELSE FoldLeft(LAMBDA acc, x : acc \o d \o x, parts[1], Tail(parts))
IsAttr(tag) == tag \in {"chrom", "reference_name"}
(* metaFromRead: BI and bi are aliases of each other (backwards / forwards compatibility of the cell index tag) *)
AliasOf(tag) == IF tag = "BI" THEN "bi" ELSE IF tag = "bi" THEN "BI" ELSE tag
FeatStr(r, tag, o) == IF IsAttr(tag) THEN r.contig
                      ELSE IF HasKey(r.nums, tag) THEN ToString(r.nums[tag])
                      ELSE IF HasKey(r.nums, AliasOf(tag)) THEN ToString(r.nums[AliasOf(tag)])
                      ELSE IF HasKey(r.feats, tag) THEN JoinStr(r.feats[tag], o.delim)
                      ELSE "None"
Parts(r, tag, o) == IF HasKey(r.feats, tag) THEN r.feats[tag] ELSE << FeatStr(r, tag, o) >>

(* -byValue adds the tag's numeric value: integer typed tags (nums) and float typed tags (fq, in quarters: 2.5 -> 10) *)
ByValueWeight(r, o) == IF HasKey(r.nums, o.byvalue) THEN r.nums[o.byvalue] * Den
                       ELSE IF HasKey(r.fq, o.byvalue) THEN r.fq[o.byvalue] * (Den \div 4)
                       ELSE 0
(* the feature tags after the automatic additions of create_count_table *)
TagsOf(o) == LET t1 == IF o.mode = "joined" /\ o.byvalue # "" /\ Len(o.tags) > 0 /\ ~(o.byvalue \in SeqSet(o.tags))
                       THEN Append(o.tags, o.byvalue) ELSE o.tags
             IN IF o.bin > 0 /\ ~(o.bintag \in SeqSet(t1)) THEN Append(t1, o.bintag) ELSE t1
KeyTags(o) == SelectSeq(TagsOf(o), LAMBDA t : ~(o.bin > 0 /\ t = o.bintag) /\ ~(o.byvalue # "" /\ t = o.byvalue))

(* cartesian product of a sequence of sequences, in itertools.product order *)
Product(qs) == FoldLeft(LAMBDA acc, parts :
                            [k \in 1 .. (Len(acc) * Len(parts)) |->
                                Append(acc[((k - 1) \div Len(parts)) + 1], parts[((k - 1) % Len(parts)) + 1])],
                        << <<>> >>, qs)

(* windows containing a coordinate: the definition of property C10 (spec/Binning.tla) *)
WindowIds(c, b, s) == { i \in (FloorDiv(c - b, s) - 1) .. (FloorDiv(c, s) + 1) : i * s <= c /\ c < i * s + b }
InBounds(lo, hi, keep, reflen) == keep \/ (lo >= 0 /\ hi <= reflen)
SlidingOf(o) == IF o.sliding > 0 THEN o.sliding ELSE o.bin
BinSuffixes(r, o) ==      \* set of <<start,end>> string pairs the read is binned into
    IF ~HasKey(r.nums, o.bintag) THEN {}
    ELSE { << ToString(i * SlidingOf(o)), ToString(i * SlidingOf(o) + o.bin) >> :
             i \in { j \in WindowIds(r.nums[o.bintag], o.bin, SlidingOf(o)) :
                       InBounds(j * SlidingOf(o), j * SlidingOf(o) + o.bin, o.keep, o.reflen[r.contig]) } }

(* BED regions: a read is seen once per region it overlaps (pysam fetch), optionally only on one contig *)
RowOverlaps(r, row) == r.contig = row.contig /\ r.start < row["end"] /\ row.start < r["end"]
RowsOf(r, o) == { i \in DOMAIN o.bed : RowOverlaps(r, o.bed[i]) /\ (o.contig = "" \/ o.bed[i].contig = o.contig) }
RowSuffix(row) == << ToString(row.start), ToString(row["end"]), row.name >>

(* configurations the tool itself documents as not implemented, or outside what this check covers *)
Legal(o) == /\ ~(o.mode = "single" /\ o.bin > 0)              \* NotImplementedError('Try using -joinedFeatureTags')
            /\ ~(o.split /\ o.byvalue # "")                    \* NotImplementedError for --splitFeatures
            /\ ~(o.mode = "single" /\ o.byvalue # "")          \* not covered
            /\ ~(o.usebed /\ o.bin > 0)                        \* not covered
            /\ Len(o.tags) > 0
            /\ (o.byvalue # "" => Len(KeyTags(o)) > 0)

(* base keys (before bin / BED suffix) and their increments: a sequence of [key, w] *)
BaseContribs(r, o) ==
    LET w == Weight(r, o) IN
    IF o.mode = "joined" THEN
        IF o.split THEN
            LET states == Product([k \in DOMAIN TagsOf(o) |-> Parts(r, TagsOf(o)[k], o)])
                keep(k) == ~(o.bin > 0 /\ TagsOf(o)[k] = o.bintag)
                KeyOf(st) == LET idx == SelectSeq([k \in DOMAIN st |-> k], keep)
                             IN [j \in DOMAIN idx |-> IF st[idx[j]] = "" THEN "None" ELSE st[idx[j]]]
            IN [k \in DOMAIN states |-> [key |-> KeyOf(states[k]), w |-> w]]
        ELSE
            LET key == [k \in DOMAIN KeyTags(o) |-> FeatStr(r, KeyTags(o)[k], o)]
            IN IF o.byvalue # ""
               THEN << [key |-> key, w |-> ByValueWeight(r, o)] >>
               ELSE << [key |-> key, w |-> w] >>
    ELSE  \* single: every feature tag is a dimension of its own, rows are the union of the values
        LET perTag == [k \in DOMAIN TagsOf(o) |->
                          IF o.split THEN [j \in DOMAIN Parts(r, TagsOf(o)[k], o) |->
                                               [key |-> << Parts(r, TagsOf(o)[k], o)[j] >>, w |-> w]]
                          ELSE << [key |-> << FeatStr(r, TagsOf(o)[k], o) >>, w |-> w] >>]
        IN FoldLeft(LAMBDA acc, q : acc \o q, <<>>, perTag)

(* --bulk (export path only): the counts of all samples are summed into the single column "Bulkseq" *)
ColumnOf(r, o) == IF o.bulk THEN "Bulkseq" ELSE r.sample
(* all contributions of one read: sequence of [sample, key, w] *)
Contribs(r, o) ==
    LET base == BaseContribs(r, o) IN
    IF o.contig # "" /\ r.contig # o.contig THEN <<>>
    ELSE IF o.bin > 0 THEN
        LET sfx == SetToSeq(BinSuffixes(r, o))
        IN FoldLeft(LAMBDA acc, c : acc \o [k \in DOMAIN sfx |-> [sample |-> ColumnOf(r, o), key |-> c.key \o sfx[k], w |-> c.w]],
                    <<>>, base)
    ELSE IF o.usebed THEN
        LET rows == SetToSeq(RowsOf(r, o))
            KeyFor(c) == IF o.byvalue # "" THEN << o.byvalue >> ELSE c.key
        IN FoldLeft(LAMBDA acc, c : acc \o [k \in DOMAIN rows |->
                        [sample |-> ColumnOf(r, o), key |-> KeyFor(c) \o RowSuffix(o.bed[rows[k]]), w |-> c.w]],
                    <<>>, base)
    ELSE [k \in DOMAIN base |-> [sample |-> ColumnOf(r, o), key |-> base[k].key, w |-> base[k].w]]

Cell(c) == << c.sample, c.key >>
(* all contributions of the reads of a BAM that pass `pred`, flattened *)
AllContribs(reads, o, pred(_)) ==
    FoldLeft(LAMBDA acc, r : IF pred(r) THEN acc \o Contribs(r, o) ELSE acc, <<>>, reads)
SumAt(contribs, cell) == LET g(c) == IF Cell(c) = cell THEN c.w ELSE 0 IN SumSeqF(contribs, g)
TableOf(contribs) == [cell \in { Cell(contribs[k]) : k \in DOMAIN contribs } |-> SumAt(contribs, cell)]
ExpectedTable(reads, o) == TableOf(AllContribs(reads, o, LAMBDA r : ShouldCount(r, o)))
TotalOf(t) == LET g(cell) == t[cell] IN SumSetF(DOMAIN t, g)

---------------------------------------------------------------------------------------------------
(* D-level: as the code does it *)

(* read_should_be_counted: early returns in code order; "raise" = TypeError('in <NoneType>') *)
BlacklistedD(r, o) ==
    \E i \in DOMAIN o.blacklist :
        LET iv == o.blacklist[i]
            e  == IF Variant = "impl_blacklist_end" THEN r["end"] ELSE r["end"] - 1   \* code compares reference_end
        IN r.contig = iv.contig /\ (   (r.start >= iv.start /\ r.start < iv["end"])
                                    \/ (e >= iv.start /\ e < iv["end"]))
FilterD(r, o) ==
    IF o.r1only /\ (IF Variant = "impl_mate_strict" THEN ~IsRead1(r) ELSE IsRead2(r)) THEN "skip"      \* read.is_read2
    ELSE IF o.r2only /\ (IF Variant = "impl_mate_strict" THEN ~IsRead2(r) ELSE IsRead1(r)) THEN "skip"
    ELSE IF o.filterMP /\ r.mp # "unique" THEN "skip"
    ELSE IF r.qcfail THEN "skip"
    ELSE IF r.mapq < o.minMQ THEN "skip"
    ELSE IF o.proper /\ ~r.proper THEN "skip"
    ELSE IF Variant # "impl_D8" /\ ~r.mapped THEN "skip"                 \* design: unmapped test before any CIGAR use
    ELSE IF o.no_indels /\ ~r.mapped THEN "raise"                        \* 'I' in None
    ELSE IF o.no_indels /\ ("I" \in OpsOf(r) \/ "D" \in OpsOf(r)) THEN "skip"
    ELSE IF o.max_edits >= 0 /\ r.nm >= 0 /\ r.nm > o.max_edits THEN "skip"
    ELSE IF o.no_softclips /\ ~r.mapped THEN "raise"
    ELSE IF o.no_softclips /\ "S" \in OpsOf(r) THEN "skip"
    ELSE IF o.filterXA /\ (\E i \in DOMAIN r.xa : r.xa[i] = "nonalt") THEN "skip"
    ELSE IF ~r.mapped \/ (o.dedup /\ (r.rr \/ r.dup)) THEN "skip"
    ELSE IF BlacklistedD(r, o) THEN "skip"
    ELSE "pass"

(* countToAdd *)
CountToAddD(r, o) ==
    LET c1 == IF o.r1only \/ o.r2only THEN Den
              ELSE IF ~o.nodivide THEN (IF r.paired /\ ~r.mate_unmapped THEN Den \div 2 ELSE Den)
              ELSE Den
    IN IF o.divmm THEN (IF r.hasxa THEN c1 \div (Len(r.xa) + 1)        \* len(XA.split(';')), bwa writes a trailing ';'
                        ELSE IF r.nh > 0 THEN c1 \div r.nh ELSE c1)
       ELSE c1

(* count_increment: sequence of [key, bins (value to be binned or -1), w] *)
IncrementsD(r, o) ==
    LET tags == TagsOf(o)
        w    == CountToAddD(r, o)
        fd   == [k \in DOMAIN tags |-> FeatStr(r, tags[k], o)]                      \* feature_dict
        jidx == SelectSeq([k \in DOMAIN tags |-> k],
                          LAMBDA k : ~(o.bin > 0 /\ tags[k] = o.bintag) /\ ~(o.byvalue # "" /\ tags[k] = o.byvalue))
        jf   == [j \in DOMAIN jidx |-> fd[jidx[j]]]                                 \* joined_feature
        binv == IF o.bin > 0 /\ HasKey(r.nums, o.bintag) THEN r.nums[o.bintag] ELSE -1
    IN
    IF o.mode = "joined" THEN
        IF o.split THEN
            LET states == Product([k \in DOMAIN tags |-> Parts(r, tags[k], o)])
                kidx   == SelectSeq([k \in DOMAIN tags |-> k], LAMBDA k : ~(o.bin > 0 /\ tags[k] = o.bintag))
                inc    == [s \in DOMAIN states |->
                             [key |-> [j \in DOMAIN kidx |-> IF states[s][kidx[j]] = "" THEN "None" ELSE states[s][kidx[j]]],
                              bins |-> binv, w |-> w]]
            IN inc
        ELSE IF o.byvalue # ""
             THEN << [key |-> jf, bins |-> binv, w |-> ByValueWeight(r, o)] >>
             ELSE << [key |-> jf, bins |-> binv, w |-> w] >>
    ELSE
        LET one(k) == IF o.split
                      THEN LET ps == Parts(r, tags[k], o)
                           IN [j \in DOMAIN ps |-> [key |-> (IF Variant = "impl_splitkey" /\ o.usebed
                                                              THEN << "<exploded into characters>" >> ELSE << ps[j] >>),
                                                     bins |-> binv, w |-> w]]
                      ELSE << [key |-> << fd[k] >>, bins |-> binv, w |-> w] >>
        IN FoldLeft(LAMBDA acc, k : acc \o one(k), <<>>, [k \in DOMAIN tags |-> k])

(* the stray expression statement `joined_feature[0]` after the split product: IndexError when the bin tag is
   the only feature *)
AssignRaisesD(r, o) ==
    /\ Variant = "impl_strayindex" /\ o.mode = "joined" /\ o.split
    /\ \A k \in DOMAIN TagsOf(o) : o.bin > 0 /\ TagsOf(o)[k] = o.bintag

Add(t, cell, w) == IF cell \in DOMAIN t THEN [t EXCEPT ![cell] = @ + w] ELSE t @@ (cell :> w)

(* the three update branches of assignReads for one work item [r, row] (row = 0: not a BED fetch) *)
UpdateD(t, item, inc, o) ==
    LET r == item.r IN
    IF o.bin > 0 THEN
        FoldLeft(LAMBDA acc, c :
                    IF c.bins < 0 THEN acc
                    ELSE LET s   == SlidingOf(o)
                             ids == SetToSeq({ i \in WindowIds(c.bins, o.bin, s) :
                                                 o.keep \/ ~(i * s < 0 \/ i * s + o.bin > o.reflen[r.contig]) })
                         IN FoldLeft(LAMBDA a2, i : Add(a2, << r.sample, c.key \o << ToString(i * s), ToString(i * s + o.bin) >> >>, c.w),
                                     acc, ids),
                 t, inc)
    ELSE IF o.usebed THEN
        FoldLeft(LAMBDA acc, c :
                    LET key == IF o.byvalue # "" THEN << o.byvalue >> ELSE c.key
                    IN IF Len(key) > 0 THEN Add(acc, << r.sample, key \o RowSuffix(o.bed[item.row]) >>, c.w) ELSE acc,
                 t, inc)
    ELSE FoldLeft(LAMBDA acc, c : Add(acc, << r.sample, c.key >>, c.w), t, inc)

(* iteration plan of create_count_table: the whole file, fetch(contig), or one fetch per BED row *)
PlanD(reads, o) ==
    IF o.usebed THEN
        FoldLeft(LAMBDA acc, i :
                    IF o.contig # "" /\ o.bed[i].contig # o.contig THEN acc
                    ELSE acc \o SelectSeq([k \in DOMAIN reads |-> [r |-> reads[k], row |-> i]],
                                          LAMBDA it : RowOverlaps(it.r, o.bed[i])),
                 <<>>, [i \in DOMAIN o.bed |-> i])
    ELSE SelectSeq([k \in DOMAIN reads |-> [r |-> reads[k], row |-> 0]],
                   LAMBDA it : o.contig = "" \/ it.r.contig = o.contig)

---------------------------------------------------------------------------------------------------
(* Universes for exhaustive checking: a clean base plus at most N deviating fields *)

BaseRead == [mapped |-> TRUE, qcfail |-> FALSE, dup |-> FALSE, rr |-> FALSE, paired |-> FALSE, mate_unmapped |-> FALSE,
             proper |-> FALSE, hasxa |-> FALSE, mate |-> 0, mapq |-> 60, ops |-> <<"M">>, nm |-> -1, xa |-> <<>>, nh |-> 0,
             mp |-> "", contig |-> "c1", start |-> 12, end |-> 18, sample |-> "s1",
             feats |-> [GN |-> <<"gA">>, DA |-> <<"ref">>], nums |-> [DS |-> 12, XV |-> 3], fq |-> <<>>]

ReadDeviations ==
    { <<"mapped", FALSE>>, <<"qcfail", TRUE>>, <<"dup", TRUE>>, <<"rr", TRUE>>, <<"proper", TRUE>>,
      <<"mapq", 0>>, <<"mapq", 19>>, <<"mapq", 20>>,
      <<"ops", <<"M", "I">> >>, <<"ops", <<"M", "D">> >>, <<"ops", <<"S", "M">> >>,
      <<"nm", 0>>, <<"nm", 2>>, <<"nm", 3>>,
      <<"xa", <<"alt">> >>, <<"xa", <<"nonalt">> >>, <<"xa", <<"alt", "nonalt", "alt">> >>,
      <<"nh", 1>>, <<"nh", 2>>, <<"nh", 4>>,
      <<"mp", "unique">>, <<"mp", "multi">>,
      <<"pair", 1>>, <<"pair", 2>>, <<"pair", 3>>, <<"pair", 4>>, <<"mate", 1>>, <<"mate", 3>>,
      <<"iv", <<14, 20>> >>, <<"iv", <<15, 25>> >>, <<"iv", <<20, 30>> >>, <<"iv", <<29, 35>> >>,
      <<"iv", <<30, 36>> >>, <<"iv", <<16, 40>> >>, <<"iv", <<25, 30>> >>,
      <<"contig", "c2">>, <<"contig", "">>, <<"sample", "s2">>,
      <<"XVf", 10>>, <<"XVf", 16>>,
      <<"GN", <<"gA", "gB">> >>, <<"GN", <<>> >>, <<"DS", 20>>, <<"DS", 35>>, <<"DS", -1>> }

ApplyR(r, d) ==
    CASE d[1] = "pair" -> [r EXCEPT !.paired = TRUE, !.mate = IF d[2] \in {1, 3} THEN 1 ELSE 2,
                                     !.mate_unmapped = (d[2] >= 3)]
      [] d[1] = "iv"   -> [r EXCEPT !.start = d[2][1], !["end"] = d[2][2]]
      [] d[1] = "xa"   -> [r EXCEPT !.hasxa = TRUE, !.xa = d[2]]
      [] d[1] = "GN"   -> IF d[2] = <<>> THEN [r EXCEPT !.feats = [DA |-> <<"ref">>]] ELSE [r EXCEPT !.feats.GN = d[2]]
      [] d[1] = "DS"   -> IF d[2] < 0 THEN [r EXCEPT !.nums = [XV |-> 3]] ELSE [r EXCEPT !.nums.DS = d[2]]
      [] d[1] = "XVf"  -> [r EXCEPT !.nums = [DS |-> 12], !.fq = [XV |-> d[2]]]      \* XV:f:2.5 / XV:f:4.0 instead of XV:i:3
      [] d[1] = "mapped" -> [r EXCEPT !.mapped = FALSE, !.ops = <<>>, !.mapq = 0]          \* placed with its mate
      [] d[1] = "contig" /\ d[2] = "" -> [r EXCEPT !.contig = "", !.mapped = FALSE, !.ops = <<>>, !.mapq = 0]
      [] OTHER -> [r EXCEPT ![d[1]] = d[2]]

BaseOpts == [r1only |-> FALSE, r2only |-> FALSE, filterMP |-> FALSE, proper |-> FALSE, no_indels |-> FALSE,
             no_softclips |-> FALSE, filterXA |-> FALSE, dedup |-> FALSE, nodivide |-> FALSE, divmm |-> FALSE,
             split |-> FALSE, keep |-> FALSE, bulk |-> FALSE, minMQ |-> 0, max_edits |-> -1, blacklist |-> <<>>, byvalue |-> "",
             mode |-> "joined", tags |-> <<"GN">>, bin |-> 0, bintag |-> "DS", sliding |-> 0, bed |-> <<>>, usebed |-> FALSE,
             contig |-> "", delim |-> ",", reflen |-> [c1 |-> 40, c2 |-> 30]]

OptDeviations ==
    { <<"r1only", TRUE>>, <<"r2only", TRUE>>, <<"filterMP", TRUE>>, <<"proper", TRUE>>, <<"no_indels", TRUE>>,
      <<"no_softclips", TRUE>>, <<"filterXA", TRUE>>, <<"dedup", TRUE>>, <<"nodivide", TRUE>>, <<"divmm", TRUE>>,
      <<"split", TRUE>>, <<"keep", TRUE>>, <<"minMQ", 20>>, <<"max_edits", 2>>,
      <<"blacklist", << [contig |-> "c1", start |-> 20, end |-> 30] >> >>, <<"byvalue", "XV">>,
      <<"mode", "single">>, <<"tags", <<"chrom">> >>, <<"tags", <<"GN", "DA">> >>, <<"tags", <<"DS">> >>,
      <<"bin", 10>>, <<"bin", 7>>, <<"sliding", 5>>,
      <<"bed", << [contig |-> "c1", start |-> 0, end |-> 15, name |-> "A"], [contig |-> "c1", start |-> 14, end |-> 40, name |-> "B"],
                  [contig |-> "c2", start |-> 0, end |-> 30, name |-> "C"] >> >>,
      <<"contig", "c1">>, <<"contig", "c2">> }

ApplyO(o, d) == IF d[1] = "bed" THEN [o EXCEPT !.bed = d[2], !.usebed = TRUE] ELSE [o EXCEPT ![d[1]] = d[2]]

DistinctFields(S) == \A a, b \in S : a[1] = b[1] => a = b
ApplyAll(base, S, ap(_, _)) == LET q == SetToSeq(S) IN FoldLeft(ap, base, q)
DevSets(D, n) == { S \in UNION { kSubset(k, D) : k \in 0 .. n } : DistinctFields(S) }
ReadU == { ApplyAll(BaseRead, S, ApplyR) : S \in DevSets(ReadDeviations, ReadDev) }
OptU  == { o \in { ApplyAll(BaseOpts, S, ApplyO) : S \in DevSets(OptDeviations, OptDev) } : Legal(o) /\ (o.sliding > 0 => o.bin > 0) }

(* the two mates of one pair: consistent mate-unmapped flags *)
MateOf(r, m2mapped, d) ==
    LET m == ApplyAll([BaseRead EXCEPT !.paired = TRUE, !.mate = 2, !.mate_unmapped = ~r.mapped, !.start = 20, !["end"] = 26],
                      d, ApplyR)
    IN IF m2mapped THEN m ELSE [m EXCEPT !.mapped = FALSE, !.ops = <<>>, !.mapq = 0]
PairU == { << [r1 EXCEPT !.paired = TRUE, !.mate = 1, !.mate_unmapped = ~m2mapped], MateOf(r1, m2mapped, d) >> :
             r1 \in { x \in ReadU : ~x.paired }, m2mapped \in BOOLEAN,
             d \in { S \in DevSets(ReadDeviations, 1) : \A e \in S : e[1] \notin {"pair", "mate", "mapped", "iv"} } }

---------------------------------------------------------------------------------------------------
VARIABLES reads, opts, work, i, pc, table
vars == << reads, opts, work, i, pc, table >>

Init == /\ opts \in OptU
        /\ reads \in (CASE Scenario = "single" -> { << r >> : r \in ReadU }
                        [] Scenario = "pair"   -> PairU
                        [] Scenario = "two"    -> { << a, b >> : a \in ReadU, b \in ReadU })
        /\ work = PlanD(reads, opts)
        /\ i = 1
        /\ pc = "filter"
        /\ table = <<>>

(* assignReads, first half: read_should_be_counted *)
Filter == /\ pc = "filter" /\ i <= Len(work)
          /\ LET v == FilterD(work[i].r, opts) IN
             /\ pc' = (CASE v = "pass" -> "assign" [] v = "skip" -> "filter" [] OTHER -> "raised")
             /\ i' = IF v = "skip" THEN i + 1 ELSE i
          /\ UNCHANGED << reads, opts, work, table >>

(* assignReads, second half: weight, keys, table update *)
Assign == /\ pc = "assign"
          /\ LET inc == IncrementsD(work[i].r, opts) IN
             IF AssignRaisesD(work[i].r, opts) THEN pc' = "raised" /\ UNCHANGED << i, table >>
             ELSE /\ table' = UpdateD(table, work[i], inc, opts)
                  /\ i' = i + 1
                  /\ pc' = "filter"
          /\ UNCHANGED << reads, opts, work >>

(* DataFrame construction after the last record *)
Export == /\ pc = "filter" /\ i > Len(work)
          /\ pc' = "done"
          /\ UNCHANGED << reads, opts, work, i, table >>

Next == Filter \/ Assign \/ Export
Spec == Init /\ [][Next]_vars

---------------------------------------------------------------------------------------------------
(* Properties *)

(* a filter / key construction must not raise on any record the BAM format allows *)
Inv_C11_Total == pc # "raised"

(* the table is the fold of the P-level contributions over the reads of the BAM; where the statement leaves a
   read undecided the table must lie between the two readings *)
Inv_C11_Table ==
    pc = "done" =>
        IF \A k \in DOMAIN reads : ~Undecided(reads[k], opts)
        THEN table = ExpectedTable(reads, opts)
        ELSE LET lo == AllContribs(reads, opts, LAMBDA r : ShouldCount(r, opts))
                 hi == AllContribs(reads, opts, LAMBDA r : MayCount(r, opts))
             IN \A cell \in DOMAIN table \cup { Cell(hi[k]) : k \in DOMAIN hi } :
                   LET got == IF cell \in DOMAIN table THEN table[cell] ELSE 0
                   IN SumAt(lo, cell) <= got /\ got <= SumAt(hi, cell)

(* every cell belongs to the sample of a counted read *)
Inv_C11_Sample ==
    \A cell \in DOMAIN table : \E k \in DOMAIN reads : reads[k].sample = cell[1] /\ MayCount(reads[k], opts)

(* both mates mapped and counted, fragments divided, no mate selected: the pair contributes 1 in total per key *)
PairCondition(o) == ~o.nodivide /\ ~MateSelected(o) /\ ~o.divmm /\ o.byvalue = "" /\ ~o.split /\ o.mode = "joined"
                    /\ o.bin = 0 /\ ~o.usebed
Inv_C11_Pair ==
    (pc = "done" /\ Scenario = "pair" /\ PairCondition(opts)
        /\ \A k \in DOMAIN reads : ShouldCount(reads[k], opts) /\ (opts.contig = "" \/ reads[k].contig = opts.contig))
    => TotalOf(table) = Den

(* the fixed denominator is large enough for every weight of the model *)
Inv_C11_Exact == \A k \in DOMAIN reads : WeightExact(reads[k], opts)
=====================================================================================================
