INIT Init
NEXT Next
CONSTANTS
  N = 2
  K = 2
  NCells = 2
  MateChoices = {2}
  RejectChoices = {TRUE}
  MaxPairChoices = {0}
  Classes = {"A","N","E"}
  PriorChoices = {"none","stale"}
  PlainStrats = {1}
  PairLevelOnly = FALSE
  Variant = "design"
INVARIANT TypeOK
INVARIANT Inv_C01_Once
INVARIANT Inv_C01_AtMostOnce
INVARIANT Inv_C01_MateSync
INVARIANT Inv_C01_Order
INVARIANT Inv_C01_Counters
INVARIANT Inv_C01_WellFormed
INVARIANT Inv_C01_RejectFaithful
CHECK_DEADLOCK FALSE
