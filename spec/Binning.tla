----------------------------------------- MODULE Binning -----------------------------------------
(* C10 - binned count tables: each counted read lands in exactly the bins containing it.       *)
(*                                                                                             *)
(* P-level: Windows(c,b,s) is the property's own definition ("the windows [i*s, i*s+b) that     *)
(*          contain the coordinate"); ExpectedTable folds it over the counted reads.           *)
(* D-level: the closed-form first/last window index used by the code                            *)
(*          (bamToCountTable.coordinate_to_sliding_bin_locations and utils/binning.py) and the *)
(*          count-table loop (assignReads: bounds rejection, += weight).                       *)
(*          Variant = "design" : first index = floor((c-b)/s) + 1                              *)
(*          Variant = "impl"   : first index = ceil((c-b)/s)  -- the code at the pinned commit  *)
(*                               (named deviation D7: includes the window that ENDS at c)      *)
EXTENDS Integers, FiniteSets, Sequences, TLC, Util

CONSTANTS MaxCoord,   \* coordinates 0..MaxCoord
          MaxBin,     \* bin sizes 1..MaxBin, sliding increments 1..b
          RefLen,     \* contig length used by the bounds rejection
          MaxReads,   \* number of reads counted in one behaviour
          Weights,    \* set of integer weights (2 = one whole read, 1 = half a pair)
          Variant

\* FloorDiv / CeilDiv come from Util (TLC's \div has floor semantics for negative dividends; checked)

---------------------------------------------------------------------------------------------------
(* P-level *)
WindowIds(c, b, s) == { i \in (FloorDiv(c - b, s) - 1) .. (FloorDiv(c, s) + 1) : i * s <= c /\ c < i * s + b }
Windows(c, b, s)   == { <<i * s, i * s + b>> : i \in WindowIds(c, b, s) }
InBounds(w, keep, reflen) == keep \/ (w[1] >= 0 /\ w[2] <= reflen)

---------------------------------------------------------------------------------------------------
(* D-level: closed form *)
FirstId(c, b, s) == IF Variant = "design" THEN FloorDiv(c - b, s) + 1 ELSE CeilDiv(c - b, s)
LastId(c, b, s)  == FloorDiv(c, s)
BinSeq(c, b, s)  == [ k \in 1 .. (LastId(c, b, s) - FirstId(c, b, s) + 1) |->
                        << (FirstId(c, b, s) + k - 1) * s, (FirstId(c, b, s) + k - 1) * s + b >> ]

VARIABLES b, s, keep, table, counted
vars == <<b, s, keep, table, counted>>

AllBins == { <<i * s, i * s + b>> : i \in (-MaxBin) .. (MaxCoord + 1) }

Init == /\ b \in 1 .. MaxBin
        /\ s \in 1 .. b
        /\ keep \in BOOLEAN
        /\ table = [w \in AllBins |-> 0]
        /\ counted = <<>>

(* one iteration of the count loop for a read with bin-tag value c and weight w *)
CountRead(c, w) ==
    /\ Len(counted) < MaxReads
    /\ LET q == BinSeq(c, b, s)
           Add(t, k) == IF InBounds(q[k], keep, RefLen) THEN [t EXCEPT ![q[k]] = @ + w] ELSE t
           F[k \in 0 .. Len(q)] == IF k = 0 THEN table ELSE Add(F[k - 1], k)
       IN table' = F[Len(q)]
    /\ counted' = Append(counted, <<c, w>>)
    /\ UNCHANGED <<b, s, keep>>

Next == \E c \in 0 .. MaxCoord, w \in Weights : CountRead(c, w)
Spec == Init /\ [][Next]_vars

---------------------------------------------------------------------------------------------------
(* Properties *)

Inv_C10_Membership ==
    \A c \in 0 .. MaxCoord :
        LET q == BinSeq(c, b, s) IN
        /\ SeqSet(q) = Windows(c, b, s)
        /\ Cardinality(SeqSet(q)) = Len(q)

Inv_C10_Single ==
    s = b => \A c \in 0 .. MaxCoord : BinSeq(c, b, b) = << << (c \div b) * b, (c \div b + 1) * b >> >>

ExpectedCell(w) == LET g(r) == IF w \in Windows(r[1], b, s) /\ InBounds(w, keep, RefLen) THEN r[2] ELSE 0
                   IN SumSeqF(counted, g)
Inv_C10_Table == \A w \in AllBins : table[w] = ExpectedCell(w)

Inv_C10_Total ==
    LET cell(w) == table[w]
        contrib(r) == r[2] * Cardinality({ w \in Windows(r[1], b, s) : InBounds(w, keep, RefLen) })
    IN SumSetF(AllBins, cell) = SumSeqF(counted, contrib)

(* no read is counted twice at a bin boundary when not sliding *)
Inv_C10_NoDouble ==
    s = b => LET cell(w) == table[w] w2(r) == r[2] IN SumSetF(AllBins, cell) <= SumSeqF(counted, w2)
=====================================================================================================
