INIT Init
NEXT Next
CONSTANTS
  Mutation = "none"
  NMol = 2
  NJobs = 3
  Pipelines = {"single", "multi"}
  PrevChoices = {TRUE, FALSE}
  SizeChoices <- GenSizesT
  StatusOrder = "design"
  PlanVariant = "design"
CONSTRAINT Emit
CHECK_DEADLOCK FALSE
