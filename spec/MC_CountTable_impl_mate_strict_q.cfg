INIT Init
NEXT Next
CONSTANTS
  Variant = "impl_mate_strict"
  ReadDev = 1
  OptDev = 2
  Scenario = "single"
INVARIANT Inv_C11_Total
INVARIANT Inv_C11_Table
INVARIANT Inv_C11_Sample
INVARIANT Inv_C11_Pair
INVARIANT Inv_C11_Exact
CHECK_DEADLOCK FALSE
