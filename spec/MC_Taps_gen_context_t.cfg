INIT Init
NEXT Next
CONSTANTS
  L = 5
  Alphabet = {"A", "C", "G", "T", "N"}
  Mode = "context"
  GeomRefs = {}
  MaxFrags = 1
  DistMode = "zero"
  Variant = "design"
CONSTRAINT Emit
CHECK_DEADLOCK FALSE
