INIT Init
NEXT Next
CONSTANTS
  MaxL = 24
  Variant = "impl"
  Pairing = "cross"
  Only = {"CS2C8U8S"}
INVARIANT Inv_C02_Accounting
CHECK_DEADLOCK FALSE
