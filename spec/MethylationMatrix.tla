------------------------------------- MODULE MethylationMatrix -------------------------------------
(* Extension X04 (not a listed property): methylation/methylation.py, class MethylationCountMatrix,   *)
(* together with the way its producers use it (bamProcessing/bamBinCounts.count_methylation_binned    *)
(* run per job by bamToMethylationCalls.get_methylation_count_matrix, results merged with update()). *)
(*                                                                                                 *)
(* A stream of observations (sample, position, strand, methylated?) is counted into one matrix per    *)
(* job (a job owns the positions [j*JobSpan, (j+1)*JobSpan)), every job matrix is pruned, the job     *)
(* matrices are merged with update() in ANY completion order (imap_unordered), and the merged matrix *)
(* is post-processed (item assignment, prune, delete_location, re-construction from the counts) and *)
(* read (frames).                                                                                   *)
(*   Observe   met_counts[sample, bin_id][final_call] += 1  in the job that owns the position        *)
(*   Touch     met_counts[sample, bin_id]  (read access creating a [0,0] cell; API only)             *)
(*   EndCount, Merge(j)   count_mat.update(result of job j), per-job prune(JobK, JobMV) first        *)
(*   SetItem, PruneM, Delete, FromCounts   operations of the class on the merged matrix             *)
(* P-level (MethylationMatrixP): Counted / Conserved / SplitIndependent / SitesCoverCells / Prune.   *)
(* Variant: "design" | named deviation | "impl" (D402, still in the code) | "impl_asfound" (all D4xx):  *)
(*   dyad_after_bounds (D402) dyad mode moves a reverse-strand CpG call to position+1 AFTER the job's *)
(*                            bounds check: a call on the last position of a job lands in a bin of    *)
(*                            the next job and one of the two cells is overwritten by update()        *)
(*   setitem_no_site   (D400), ctor_no_sites (D403), prune_none (D401): see MethylationMatrixP       *)
(*   unaligned         jobs not aligned with bins (control for update()'s documented limitation)    *)
(*   mut_swap_um, mut_prune_le : seeded deviations (controls for Counted, Prune)                      *)
EXTENDS MethylationMatrixP, Json

CONSTANTS Samples, MaxPos, ContigLen, BinSize, JobSpan, MaxObs, MaxTouch, Dyad, Revs, JobK, JobMV,
          MaxPost, PostKs, TrackHist, Variant

(* cfg files cannot hold negative numbers: named constants *)
Km1 == -1
K0 == 0
K1 == 1
K2 == 2
PostKsAll == {-1, 0, 1, 2}
PostKsPlain == {0, 1, 2}
(* "impl" = the deviation still in the code (D402, known); "impl_asfound" = all four found on 2026-09-28 (D400, D401, D403  *)
(* have been repaired since: their controls stay, a regression is a VIOLATION)                                         *)
Dev(d) == Variant = d \/ (Variant = "impl" /\ d = "dyad_after_bounds")
          \/ (Variant = "impl_asfound" /\ d \in {"dyad_after_bounds", "setitem_no_site", "ctor_no_sites", "prune_none"})
DevSet == { d \in {"setitem_no_site", "ctor_no_sites", "prune_none"} : Dev(d) }
Min2(a, b) == IF a < b THEN a ELSE b
LocOf(cp) == <<1, BinSize * (cp \div BinSize), Min2(BinSize * ((cp \div BinSize) + 1), ContigLen)>>
JobOf(p) == p \div JobSpan
Jobs == 0 .. ((ContigLen - 1) \div JobSpan)
AllLocs == { LocOf(p) : p \in 0 .. (ContigLen - 1) }

VARIABLES pc, jobs, merged, left, bag, touched, nobs, ntouch, npost, last, outcome, hist
vars == <<pc, jobs, merged, left, bag, touched, nobs, ntouch, npost, last, outcome, hist>>

NoLast == [op |-> "none"]
Init == /\ pc = "count" /\ jobs = [j \in Jobs |-> EmptyM] /\ merged = EmptyM /\ left = {}
        /\ bag = <<>> /\ touched = {} /\ nobs = 0 /\ ntouch = 0 /\ npost = 0 /\ last = NoLast
        /\ outcome = "ok" /\ hist = <<>>
H(x) == IF TrackHist THEN Append(hist, x) ELSE hist

BagAdd(B, k) == [x \in DOMAIN B \cup {k} |-> IF x = k THEN (IF k \in DOMAIN B THEN B[k] + 1 ELSE 1) ELSE B[x]]

Observe(s, p, rev, meth) ==
    /\ pc = "count" /\ nobs < MaxObs
    /\ LET cp == IF Dyad /\ rev THEN p + 1 ELSE p            \* the position the call is counted at
           j == JobOf(IF Dev("dyad_after_bounds") THEN p ELSE cp)
           loc == LocOf(cp)
           m2 == IF Dev("mut_swap_um") THEN 1 - meth ELSE meth
       IN /\ cp < ContigLen
          /\ jobs' = [jobs EXCEPT ![j] = DoObs(@, s, loc, m2)]
          /\ bag' = BagAdd(bag, <<s, loc, meth>>)
          /\ hist' = H([op |-> "obs", c |-> j, s |-> s, loc |-> loc, meth |-> meth, p |-> p, rev |-> rev])
    /\ nobs' = nobs + 1
    /\ UNCHANGED <<pc, merged, left, touched, ntouch, npost, last, outcome>>

Touch(s, p) ==
    /\ pc = "count" /\ ntouch < MaxTouch
    /\ jobs' = [jobs EXCEPT ![JobOf(p)] = DoTouch(@, s, LocOf(p))]
    /\ touched' = touched \cup {<<s, LocOf(p)>>}
    /\ ntouch' = ntouch + 1
    /\ hist' = H([op |-> "touch", c |-> JobOf(p), s |-> s, loc |-> LocOf(p)])
    /\ UNCHANGED <<pc, merged, left, bag, nobs, npost, last, outcome>>

EndCount ==
    /\ pc = "count"
    /\ IF JobK = -1 /\ Dev("prune_none") /\ \E j \in Jobs : ~PruneIsNoop(jobs[j], JobK, JobMV)
       THEN pc' = "done" /\ outcome' = "raised" /\ UNCHANGED left
       ELSE pc' = "merge" /\ left' = Jobs /\ UNCHANGED outcome
    /\ UNCHANGED <<jobs, merged, bag, touched, nobs, ntouch, npost, last, hist>>

PruneDev(st, k, mv) ==
    IF Dev("mut_prune_le") /\ ~PruneIsNoop(st, KNorm(k), mv)
    THEN DeleteAll(st, { loc \in st.sites : NSamples(st, loc) <= KNorm(k) })
    ELSE DoPrune(st, k, mv)

Merge(j) ==
    /\ pc = "merge" /\ j \in left
    /\ merged' = DoUpdate(merged, PruneDev(jobs[j], JobK, JobMV))
    /\ left' = left \ {j}
    /\ hist' = H([op |-> "merge", c |-> j])
    /\ UNCHANGED <<pc, jobs, bag, touched, nobs, ntouch, npost, last, outcome>>
SomeMerge == \E j \in left : Merge(j)

EndMerge ==
    /\ pc = "merge" /\ left = {}
    /\ pc' = "post"
    /\ UNCHANGED <<jobs, merged, left, bag, touched, nobs, ntouch, npost, last, outcome, hist>>

CanPost == pc = "post" /\ npost < MaxPost
SetItem(s, loc, u, m) ==
    /\ CanPost
    /\ merged' = DoSet(merged, s, loc, <<u, m>>, DevSet)
    /\ last' = [op |-> "set", before |-> merged, s |-> s, loc |-> loc, v |-> <<u, m>>]
    /\ hist' = H([op |-> "set", s |-> s, loc |-> loc, u |-> u, m |-> m])
    /\ npost' = npost + 1
    /\ UNCHANGED <<pc, jobs, left, bag, touched, nobs, ntouch, outcome>>
PruneM(k, mv) ==
    /\ CanPost
    /\ IF k = -1 /\ Dev("prune_none") /\ ~PruneIsNoop(merged, k, mv)
       THEN outcome' = "raised" /\ UNCHANGED <<merged, last>>
       ELSE /\ merged' = PruneDev(merged, k, mv) /\ UNCHANGED outcome
            /\ last' = [op |-> "prune", before |-> merged, k |-> k, mv |-> mv]
    /\ hist' = H([op |-> "prune", k |-> k, mv |-> mv])
    /\ npost' = npost + 1
    /\ UNCHANGED <<pc, jobs, left, bag, touched, nobs, ntouch>>
Delete(loc) ==
    /\ CanPost /\ loc \in merged.sites
    /\ merged' = DoDelete(merged, loc)
    /\ last' = [op |-> "del", before |-> merged, loc |-> loc]
    /\ hist' = H([op |-> "del", loc |-> loc])
    /\ npost' = npost + 1
    /\ UNCHANGED <<pc, jobs, left, bag, touched, nobs, ntouch, outcome>>
FromCounts ==
    /\ CanPost
    /\ merged' = DoFromCounts(merged, DevSet)
    /\ last' = [op |-> "fromcounts", before |-> merged]
    /\ hist' = H([op |-> "fromcounts"])
    /\ npost' = npost + 1
    /\ UNCHANGED <<pc, jobs, left, bag, touched, nobs, ntouch, outcome>>
Finish ==
    /\ pc = "post" /\ pc' = "done"
    /\ UNCHANGED <<jobs, merged, left, bag, touched, nobs, ntouch, npost, last, outcome, hist>>

SomeObserve == \E s \in Samples, p \in 0 .. MaxPos, rev \in Revs, meth \in 0 .. 1 : Observe(s, p, rev, meth)
SomeTouch == \E s \in Samples, p \in 0 .. MaxPos : Touch(s, p)
SomeSetItem == \E s \in Samples, loc \in AllLocs, u \in 0 .. 1, m \in 0 .. 1 : SetItem(s, loc, u, m)
SomePruneM == \E k \in PostKs, mv \in {-1, 0} : PruneM(k, mv)
SomeDelete == \E loc \in AllLocs : Delete(loc)
Next == SomeObserve \/ SomeTouch \/ EndCount \/ SomeMerge \/ EndMerge \/ SomeSetItem \/ SomePruneM \/ SomeDelete
        \/ FromCounts \/ Finish
Spec == Init /\ [][Next]_vars

---------------------------------------------------------------------------------------------------
Counting == pc \in {"post", "done"} /\ npost = 0 /\ outcome = "ok"    \* merged, not post-processed yet
(* the call returns; it does not crash *)
Inv_X04_NoCrash == outcome = "ok"
(* every observation counted exactly once in its cell, methylated/unmethylated apart (no pruning) *)
Inv_X04_Counted == (Counting /\ KNorm(JobK) = 0 /\ JobMV = -1) => P_Counted(merged, bag, touched)
Inv_X04_Conserved == (Counting /\ KNorm(JobK) = 0 /\ JobMV = -1) => P_Conserved(merged, bag)
(* the merged matrix is the one a single unsplit job computes, whatever the split and the merge order *)
Inv_X04_SplitIndependent == Counting => merged = DoPrune(BagMatrix(bag, touched), JobK, JobMV)
Inv_X04_JobPrune == Counting => P_Prune(BagMatrix(bag, touched), merged, JobK, JobMV)
(* every cell is visible to the frames, in every matrix, always *)
Inv_X04_SitesCoverCells == P_SitesCoverCells(merged) /\ \A j \in Jobs : P_SitesCoverCells(jobs[j])
(* the post-processing operations *)
Inv_X04_PostOp ==
    (outcome = "ok") =>
    CASE last.op = "prune" -> P_Prune(last.before, merged, last.k, last.mv)
      [] last.op = "del" -> /\ merged.sites = last.before.sites \ {last.loc}
                            /\ Keys(merged) = { x \in Keys(last.before) : x[2] # last.loc }
                            /\ \A x \in Keys(merged) : merged.cells[x] = last.before.cells[x]
      [] last.op = "set" -> /\ Keys(merged) = Keys(last.before) \cup {<<last.s, last.loc>>}
                            /\ merged.cells[<<last.s, last.loc>>] = last.v
                            /\ \A x \in Keys(last.before) \ {<<last.s, last.loc>>} : merged.cells[x] = last.before.cells[x]
                            /\ merged.sites = last.before.sites \cup {last.loc}
      [] last.op = "fromcounts" -> merged.cells = last.before.cells /\ merged.sites = CellLocs(merged)
      [] OTHER -> TRUE

(* scenario generator: the operation history of every finished behaviour *)
Emit == IF pc = "done" THEN PrintT("@@SCENARIO " \o ToJson([ops |-> hist, jobk |-> JobK, jobmv |-> JobMV, njobs |-> Cardinality(Jobs)])) /\ FALSE
        ELSE TRUE
=====================================================================================================
