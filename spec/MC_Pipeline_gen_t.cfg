INIT Init
NEXT Next
CONSTANTS
  Cells = {1, 2}
  UMIs = {1, 2}
  Contigs = {1, 2}
  Positions = {1, 2}
  AllowHalf = TRUE
  MaxPairs = 4
  HDs = {0, 1}
  MMAll = FALSE
  Variant = "design"
CONSTRAINT Emit
CHECK_DEADLOCK FALSE
