INIT Init
NEXT Next
CONSTANTS
  NValues = 3
  MaxLen = 5
  MHs = {1,2,3}
  Variant = "rawkey"
INVARIANT Inv_C19_PassesComplete
CHECK_DEADLOCK FALSE
