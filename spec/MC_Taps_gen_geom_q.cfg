INIT Init
NEXT Next
CONSTANTS
  L = 3
  Alphabet = {"A", "C", "G", "T", "N"}
  Mode = "geometry"
  GeomRefs = {"allC", "allG"}
  MaxFrags = 1
  DistMode = "mixed"
  Variant = "design"
CONSTRAINT Emit
CHECK_DEADLOCK FALSE
