INIT Init
NEXT Next
CONSTANTS
  A = 3
  L = 3
  MaxLines = 2
  Ks = {1, 2}
  Fmts = {"bc_idx"}
  NFiles = {1}
  Lazy = {"none"}
  ProbeMax = 5
  Touches = {"lookup"}
  Variant = "design"
CONSTRAINT Emit
CONSTRAINT OnlyInit
CHECK_DEADLOCK FALSE
