INIT Init
NEXT Next
CONSTANTS
  Contigs = {"c1"}
  AbsentContigs = {"cx"}
  NoCacheContigs = {}
  Positions = {0}
  Samples = {"s1", "s2"}
  GTSet = "full"
  ConfigSet = "phase"
  MaxRuns = 1
  MaxOps = 1
  Variant = "mut_unphased_alts"
  Record = FALSE
INVARIANT Inv_C18_Truth
CHECK_DEADLOCK FALSE
