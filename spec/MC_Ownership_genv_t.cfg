INIT Init
NEXT Next
CONSTANTS
  Ln = 7
  Tilings <- T_m3
  MaxFrags = 2
  MaxLen = 3
  SpanSlack = 0
  Umis = {1}
  Invalid = FALSE
  NoSite = FALSE
  MaxUnplaced = 0
  PairedOK = TRUE
  EqualLen = FALSE
  SiteOut = 0
  AnyOrder = FALSE
  Variant = "impl"
CONSTRAINT EmitLost
CHECK_DEADLOCK FALSE
