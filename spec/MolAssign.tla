---------------------------------------- MODULE MolAssign ----------------------------------------
(* C06 / C07 - molecule assignment (MoleculeIterator + Molecule.add_fragment + write_tags).      *)
(*                                                                                               *)
(* P-level: MolAssignProps.tla (the properties' own definitions), applied here to the model's    *)
(*          state by the Inv_C06_* / Inv_C07_* operators at the end of this module.              *)
(* D-level: this module, shaped like singlecellmultiomics/molecule/iterator.py::__iter__ :       *)
(*   one action per branch of the loop body                                                      *)
(*     TakeInvalid   iterator.py:349-357   fragment.is_valid() false -> dropped                  *)
(*     AddToMolecule iterator.py:365-376   first molecule (buffer order) that accepts it         *)
(*     Overflow      iterator.py:377-386   the accepting molecule is full (max_associated_..)    *)
(*     NewMolecule   iterator.py:388-395   nobody accepted it                                    *)
(*     EjectCheck    iterator.py:403-435   counter > check_eject_every: can_be_yielded / pop     *)
(*     SkipCheck     iterator.py:403       condition false                                       *)
(*     FinalFlush    iterator.py:437-449                                                         *)
(*   write_tags (molecule.py:515-565) is the operator Tags(m, dupIn): it is a function of the     *)
(*   emitted molecule and of the duplicate flags the input carried; the invariants quantify over *)
(*   every input flag vector.                                                                    *)
(*                                                                                               *)
(* Matching copied from the code: Molecule defines no __eq__, so `molecule == fragment`           *)
(* (pooling_method 1) is the fragment's reflected __eq__ with the molecule as `other`: it uses    *)
(* the molecule's match_hash (last fragment added), sample (first), strand (last), overall span, *)
(* extreme cut site (chic) and representative UMI (first most common); pooling_method 0 compares *)
(* the new fragment with every member fragment.                                                  *)
(*                                                                                               *)
(* Named deviations (Variant):                                                                   *)
(*   "design"       intended behaviour                                                           *)
(*   "impl_pop"     D6  iterator.py:417-418,432-433  pop(i - j) over the ascending index list    *)
(*                      with Python negative-index semantics                                     *)
(*   "impl_dup"     D5  molecule.py:544-550  duplicate bit only ever set, never cleared on rank 0 *)
(*   "impl_contig"  D60 fragment.py:860-876  plain Fragment.__eq__ does not compare the contig    *)
EXTENDS Integers, Sequences, FiniteSets, TLC, Json, Util, MolAssignProps

CONSTANTS Kind,       \* "nla" | "chic" | "plain"
          HD,         \* umi_hamming_distance
          Radius,     \* assignment_radius (ignored by nla)
          Cap,        \* max_associated_fragments, 0 = None
          CacheSize,  \* Molecule.cache_size (margin is CacheSize/2, compared in doubled integers)
          ReadLens,   \* mate lengths: a pair is released at max(start, end - readlen) (chosen in Init)
          Cells, Contigs, Strands, Sites, Lens, Umis, Valids,   \* fragment domain
          MaxFrags,   \* stream length
          Scheds,     \* set of check_eject_every values, 1000 = None
          Poolings,   \* subset of {0, 1}
          Variant

NoSched == 1000      \* check_eject_every = None (the cfg syntax has no negative numbers)

---------------------------------------------------------------------------------------------------
(* fragments: abstract geometry. forward: [site, site+len); reverse: [site+1-len, site+1)         *)
(* UMIs are integer codes in the constants: two letters base 5 (A=0 C=1 G=2 T=3 N=4: AA=0 AC=1 AN=4 CC=6),  *)
(* codes >= 25 are one-letter UMIs (another length)                                                     *)
UmiOf(c)  == IF c >= 25 THEN <<c - 25>> ELSE <<c \div 5, c % 5>>
FStart(f) == IF f.strand = 0 THEN f.site ELSE f.site + 1 - f.len
FEnd(f)   == IF f.strand = 0 THEN f.site + f.len ELSE f.site + 1
View(f)   == [cell |-> f.cell, contig |-> f.contig, strand |-> f.strand, site |-> f.site,
              start |-> FStart(f), end |-> FEnd(f), umi |-> UmiOf(f.umi), valid |-> f.valid]
FragDomain == [cell : Cells, contig : Contigs, strand : Strands, site : Sites, len : Lens, umi : Umis, valid : Valids]

VARIABLES stream,   \* fragments consumed so far (sequence of FragDomain)
          buf,      \* sequence of buckets [key, mols]; pooling 0: one bucket; pooling 1: one per match_hash (dict order)
          out,      \* emitted molecules, in order: [ids, at, ov, overflow]
          iter,     \* check_ejection_iter
          sched, pooling, readlen,
          pc,       \* "loop" | "check" | "done"
          last      \* what the previous loop body did (for the action property and for scenarios)
vars == <<stream, buf, out, iter, sched, pooling, readlen, pc, last>>

F == [i \in DOMAIN stream |-> View(stream[i])]

---------------------------------------------------------------------------------------------------
(* matching *)
Hash(f) == CASE Kind = "plain" -> <<0, 0, 0, f.cell>> \* match_hash None: one bucket (cell kept only for typing; see BucketKey)
             [] Kind = "chic" /\ Radius > 0 -> <<f.strand, f.contig, 0, f.cell>>
             [] OTHER -> <<f.strand, f.contig, f.site, f.cell>>
BucketKey(pm, f) == IF pm = 0 \/ Kind = "plain" THEN <<0>> ELSE Hash(f)

(* representative UMI: Counter.most_common(1) = first inserted among the most frequent *)
Rep(S, m) ==
    LET us == [k \in DOMAIN m.ids |-> S[m.ids[k]].umi]
        cnt(k) == Cardinality({ j \in DOMAIN us : us[j] = us[k] })
        best == CHOOSE k \in DOMAIN us : \A j \in DOMAIN us : cnt(j) <= cnt(k) /\ (j < k => cnt(j) < cnt(k))
    IN us[best]

ContigOk(a, b) == Variant = "impl_contig" \/ a = b

(* pooling_method 1: fragment.__eq__(molecule) *)
MatchMol(S, f, m) ==
    /\ CASE Kind = "nla"  -> Hash(f) = m.hash
         [] Kind = "chic" -> Hash(f) = m.hash /\ (Radius > 0 => Abs(f.site - m.site) <= Radius)
         [] Kind = "plain" -> /\ f.cell = m.cell /\ f.strand = m.strand /\ ContigOk(f.contig, m.chrom)
                              /\ (Abs(FStart(f) - m.s) <= Radius \/ Abs(FEnd(f) - m.e) <= Radius)
    /\ UmiClose(HD, UmiOf(f.umi), UmiOf(Rep(S, m)))

(* pooling_method 0: member.__eq__(fragment) for any member *)
MatchFrag(g, f) ==
    /\ CASE Kind = "nla"  -> Hash(f) = Hash(g)
         [] Kind = "chic" -> Hash(f) = Hash(g) /\ (Radius > 0 => Abs(f.site - g.site) <= Radius)
         [] Kind = "plain" -> /\ f.cell = g.cell /\ f.strand = g.strand /\ ContigOk(f.contig, g.contig)
                              /\ (Abs(FStart(f) - FStart(g)) <= Radius \/ Abs(FEnd(f) - FEnd(g)) <= Radius)
    /\ UmiClose(HD, UmiOf(g.umi), UmiOf(f.umi))

Accepts(S, pm, m, f) == IF pm = 1 THEN MatchMol(S, f, m)
                        ELSE \E k \in DOMAIN m.ids : MatchFrag(S[m.ids[k]], f)

NewMol(i, f) == [ids |-> <<i>>, hash |-> Hash(f), cell |-> f.cell, strand |-> f.strand, chrom |-> f.contig,
                 s |-> FStart(f), e |-> FEnd(f), site |-> f.site, overflow |-> 0]
(* Molecule._add_fragment (+ the site update of NlaIIIMolecule / CHICMolecule._add_fragment) *)
Joined(m, i, f) == [m EXCEPT !.ids = Append(@, i), !.hash = Hash(f), !.strand = f.strand, !.chrom = f.contig,
                             !.s = IF FStart(f) < @ THEN FStart(f) ELSE @,
                             !.e = IF FEnd(f) > @ THEN FEnd(f) ELSE @,
                             !.site = IF f.strand = 1 THEN (IF f.site > @ THEN f.site ELSE @)
                                                      ELSE (IF f.site < @ THEN f.site ELSE @)]

BucketIdx(B, key) == IF \E b \in DOMAIN B : B[b].key = key THEN CHOOSE b \in DOMAIN B : B[b].key = key ELSE 0
(* index of the first molecule of the bucket that accepts f, 0 if none *)
FirstFit(S, pm, mols, f) ==
    IF \E k \in DOMAIN mols : Accepts(S, pm, mols[k], f)
    THEN CHOOSE k \in DOMAIN mols : Accepts(S, pm, mols[k], f) /\ \A j \in 1 .. (k - 1) : ~Accepts(S, pm, mols[j], f)
    ELSE 0

(* one loop body without the ejection check, as a function: used by the actions and by the        *)
(* reference run NoEject.  st = [B, O]; i = index of the fragment in S                            *)
Step(S, pm, st, i) ==
    LET f == S[i]
        key == BucketKey(pm, f)
        b == BucketIdx(st.B, key)
        mols == IF b = 0 THEN <<>> ELSE st.B[b].mols
        k == FirstFit(S, pm, mols, f)
    IN IF ~f.valid THEN [B |-> st.B, O |-> st.O, what |-> "invalid"]
       ELSE IF k = 0 THEN
            [B |-> IF b = 0 THEN Append(st.B, [key |-> key, mols |-> <<NewMol(i, f)>>])
                            ELSE [st.B EXCEPT ![b].mols = Append(@, NewMol(i, f))],
             O |-> st.O, what |-> "new"]
       ELSE IF Cap > 0 /\ Len(mols[k].ids) >= Cap THEN
            [B |-> [st.B EXCEPT ![b].mols[k].overflow = @ + 1],
             O |-> Append(st.O, [ids |-> <<i>>, at |-> i, ov |-> TRUE, overflow |-> 0]), what |-> "overflow"]
       ELSE [B |-> [st.B EXCEPT ![b].mols[k] = Joined(@, i, f)], O |-> st.O, what |-> "join"]

Emitted(m, at) == [ids |-> m.ids, at |-> at, ov |-> FALSE, overflow |-> m.overflow]
FlushAll(B, O, at) ==
    LET all == FoldLeft(LAMBDA acc, b : acc \o b.mols, <<>>, B)
    IN O \o [k \in DOMAIN all |-> Emitted(all[k], at)]

(* reference: the same input with check_eject_every = None *)
NoEject(S, pm) ==
    LET R[k \in 0 .. Len(S)] == IF k = 0 THEN [B |-> <<>>, O |-> <<>>]
                                ELSE LET r == Step(S, pm, R[k - 1], k) IN [B |-> r.B, O |-> r.O]
    IN FlushAll(R[Len(S)].B, R[Len(S)].O, Len(S))

---------------------------------------------------------------------------------------------------
(* ejection *)
CanBeYielded(m, chrom, pos) == chrom # m.chrom \/ 2 * pos < 2 * m.s - CacheSize \/ 2 * pos > 2 * m.e + CacheSize

RemoveIdx(q, k) == SubSeq(q, 1, k - 1) \o SubSeq(q, k + 1, Len(q))

(* design: remove exactly the ejectable molecules *)
PopDesign(q, tp) == [q |-> SelectSeq([k \in DOMAIN q |-> <<k, q[k]>>], LAMBDA x : x[1] \notin SeqSet(tp)),
                     popped |-> [k \in DOMAIN tp |-> q[tp[k]]]]
(* as coded: for i, j in enumerate(to_pop): pop(i - j)   (tp holds 1-based indices) *)
PopImpl(q, tp) ==
    LET P[k \in 0 .. Len(tp)] ==
            IF k = 0 THEN [q |-> q, popped |-> <<>>]
            ELSE LET prev == P[k - 1]
                     d == (k - 1) - (tp[k] - 1)
                     py == IF d < 0 THEN Len(prev.q) + d ELSE d        \* Python index, 0-based
                 IN [q |-> RemoveIdx(prev.q, py + 1), popped |-> Append(prev.popped, prev.q[py + 1])]
    IN P[Len(tp)]

EjectBucket(mols, chrom, pos) ==
    LET idx == { k \in DOMAIN mols : CanBeYielded(mols[k], chrom, pos) }
        tp == SetToSortSeq(idx, <)
    IN IF Variant = "impl_pop" THEN PopImpl(mols, tp)
       ELSE LET r == PopDesign(mols, tp) IN [q |-> [k \in DOMAIN r.q |-> r.q[k][2]], popped |-> r.popped]

---------------------------------------------------------------------------------------------------
Init == /\ stream = <<>> /\ buf = <<>> /\ out = <<>> /\ iter = 0 /\ pc = "loop" /\ last = "init"
        /\ sched \in Scheds /\ pooling \in Poolings /\ readlen \in ReadLens

CanTake(f) == /\ pc = "loop" /\ Len(stream) < MaxFrags
              /\ (stream # <<>> => LET p == View(stream[Len(stream)]) IN
                     \/ p.contig < f.contig
                     \/ (p.contig = f.contig /\ Rel(p, readlen) <= Rel(View(f), readlen)))

(* which branch of the loop body the fragment takes (cheap: no new buffer is built) *)
Branch(f) ==
    IF ~f.valid THEN "invalid"
    ELSE LET S == Append(stream, f)
             b == BucketIdx(buf, BucketKey(pooling, f))
             mols == IF b = 0 THEN <<>> ELSE buf[b].mols
             k == FirstFit(S, pooling, mols, f)
         IN IF k = 0 THEN "new" ELSE IF Cap > 0 /\ Len(mols[k].ids) >= Cap THEN "overflow" ELSE "join"

Consume(f, what) ==
    /\ LET S == Append(stream, f)
           r == Step(S, pooling, [B |-> buf, O |-> out], Len(S))
       IN stream' = S /\ buf' = r.B /\ out' = r.O /\ last' = what
    /\ IF what \in {"join", "new"}
       THEN iter' = iter + 1 /\ pc' = "check"          \* waiting_fragments += 1; check_ejection_iter += 1
       ELSE iter' = iter /\ pc' = "loop"               \* `continue`
    /\ UNCHANGED <<sched, pooling, readlen>>

TakeInvalid(f)   == CanTake(f) /\ Branch(f) = "invalid"  /\ Consume(f, "invalid")
AddToMolecule(f) == CanTake(f) /\ Branch(f) = "join"     /\ Consume(f, "join")
Overflow(f)      == CanTake(f) /\ Branch(f) = "overflow" /\ Consume(f, "overflow")
NewMolecule(f)   == CanTake(f) /\ Branch(f) = "new"      /\ Consume(f, "new")

EjectCheck ==
    /\ pc = "check" /\ sched # NoSched /\ iter > sched
    /\ LET cur == View(stream[Len(stream)])
           E[b \in 0 .. Len(buf)] ==          \* buckets in dict order; emitted molecules appended in pop order
               IF b = 0 THEN [B |-> <<>>, O |-> out]
               ELSE LET r == EjectBucket(buf[b].mols, cur.contig, cur["end"])
                        prev == E[b - 1]
                    IN [B |-> Append(prev.B, [key |-> buf[b].key, mols |-> r.q]),
                        O |-> prev.O \o [k \in DOMAIN r.popped |-> Emitted(r.popped[k], Len(stream))]]
       IN buf' = E[Len(buf)].B /\ out' = E[Len(buf)].O
    /\ iter' = 0 /\ pc' = "loop" /\ last' = "eject"
    /\ UNCHANGED <<stream, sched, pooling, readlen>>

SkipCheck ==
    /\ pc = "check" /\ ~(sched # NoSched /\ iter > sched)
    /\ pc' = "loop" /\ last' = "skip"
    /\ UNCHANGED <<stream, buf, out, iter, sched, pooling, readlen>>

FinalFlush ==
    /\ pc = "loop"
    /\ out' = FlushAll(buf, out, Len(stream)) /\ buf' = <<>> /\ pc' = "done" /\ last' = "flush"
    /\ UNCHANGED <<stream, iter, sched, pooling, readlen>>

Next == \/ \E f \in FragDomain : TakeInvalid(f) \/ AddToMolecule(f) \/ Overflow(f) \/ NewMolecule(f)
        \/ EjectCheck \/ SkipCheck \/ FinalFlush
Spec == Init /\ [][Next]_vars

---------------------------------------------------------------------------------------------------
(* write_tags as a function of the emitted molecule and of the input duplicate flags (d[k] of the *)
(* k-th fragment of the molecule).  _add_fragment sets the bit on the third and later fragments, *)
(* write_tags on every fragment with rank > 0; the design also clears it on rank 0.              *)
Tags(m, d) == [k \in DOMAIN m.ids |->
                 [dup |-> IF k = 1 THEN (IF Variant = "impl_dup" THEN d[1] ELSE FALSE) ELSE TRUE,
                  rc |-> k - 1, af |-> Len(m.ids), tf |-> Len(m.ids) + m.overflow]]
DupVectors(m) == [DOMAIN m.ids -> BOOLEAN]

---------------------------------------------------------------------------------------------------
(* the properties, applied to the model state *)
Done == pc = "done"
Real == { k \in DOMAIN out : ~out[k].ov }          \* molecules (not overflow-rejected singletons)
InBuffer == UNION { UNION { SeqSet(buf[b].mols[k].ids) : k \in DOMAIN buf[b].mols } : b \in DOMAIN buf }
InOut == UNION { SeqSet(out[k].ids) : k \in DOMAIN out }

(* Every molecule ends up in `out` and FinalFlush is always enabled, so the per-molecule and whole-run     *)
(* properties are evaluated in the final states (pc = "done"); conservation is checked in every state.  *)
Inv_C06_Homogeneous == Done => \A k \in DOMAIN out : Homogeneous(Kind, Radius, F, SeqSet(out[k].ids))
Inv_C06_Linked      == Done => \A k \in DOMAIN out : Linked(HD, F, SeqSet(out[k].ids)) /\ OnlyValid(F, SeqSet(out[k].ids))
Inv_C06_Exact ==
    (Done /\ HD = 0 /\ Radius = 0 /\ Kind # "plain") =>
        LET V == { i \in DOMAIN F : F[i].valid } \ UNION { SeqSet(out[k].ids) : k \in DOMAIN out \ Real }
        IN /\ Exact(F, V, { SeqSet(out[k].ids) : k \in Real })
           /\ Cap = 0 => Real = DOMAIN out
           \* a fragment is only turned away by a full molecule of its own class
           /\ \A k \in DOMAIN out \ Real : \E r \in Real : Len(out[r].ids) = Cap /\ SameClass(F[out[r].ids[1]], F[out[k].ids[1]])
Inv_C06_ExactHD ==
    (Done /\ Radius = 0 /\ Kind # "plain" /\ Cap = 0) =>
        ExactHD(HD, F, { i \in DOMAIN F : F[i].valid }, { SeqSet(out[k].ids) : k \in DOMAIN out })
Inv_C06_OnePrimary == Done => \A k \in DOMAIN out : \A d \in DupVectors(out[k]) : OnePrimary(Tags(out[k], d))
Inv_C06_Counts     == Done => \A k \in DOMAIN out : /\ \A d \in DupVectors(out[k]) : Counts(Tags(out[k], d), out[k].overflow)
                                                     /\ (Cap = 0 => out[k].overflow = 0)
                                                     /\ (Cap > 0 => Len(out[k].ids) <= Cap)
(* tagging the tagged output again (same molecule, flags = output of the first round) changes nothing *)
Inv_C06_Idempotent ==
    Done => \A k \in DOMAIN out : \A d \in DupVectors(out[k]) :
        LET t1 == Tags(out[k], d)
            t2 == Tags(out[k], [j \in DOMAIN t1 |-> t1[j].dup])
        IN t2 = t1 /\ OnePrimary(t2)

Inv_Conservation ==          \* D-level: buffer and output together hold every valid fragment consumed so far, once
    /\ InOut \cap InBuffer = {}
    /\ InOut \cup InBuffer = { i \in DOMAIN F : F[i].valid }
    /\ Done => InBuffer = {}
Inv_C07_ExactlyOnce   == Done => ExactlyOnce(F, out)
Inv_C07_SamePartition == Done => GroupsOf(out) = GroupsOf(NoEject(stream, pooling))
Inv_C07_NoPremature   == Done => NoPremature(F, SelectSeq(out, LAMBDA m : ~m.ov), Cap)   \* overflow-rejected singletons are handed out at once by design
(* both pooling methods give the same molecules when UMIs are compared exactly (radius 0); plain fragments:  *)
(* unless pooling 0 lets a fragment join a molecule whose envelope it does not touch (InteriorJoin, D61)       *)
Inv_C07_PoolingAgnostic ==
    (Done /\ HD = 0 /\ Radius = 0 /\ Cap = 0)
        => \/ GroupsOf(out) = GroupsOf(NoEject(stream, 1 - pooling))
           \/ (Kind = "plain" /\ InteriorJoin(F, GroupsOf(NoEject(stream, 0))))     \* evaluated only when they differ

InRegion == \A i \in DOMAIN F : 2 * (Span(F[i]) + (IF Kind = "nla" THEN 0 ELSE Radius)) <= CacheSize

---------------------------------------------------------------------------------------------------
(* scenario generator (spec -> code): printed in final states of the design model *)
Scenario == [kind |-> Kind, hd |-> HD, radius |-> Radius, cap |-> Cap, cache |-> CacheSize, readlen |-> readlen,
             sched |-> sched, pooling |-> pooling,
             frags |-> [i \in DOMAIN stream |-> [cell |-> stream[i].cell, contig |-> stream[i].contig, strand |-> stream[i].strand,
                                                 site |-> stream[i].site, len |-> stream[i].len, umi |-> UmiOf(stream[i].umi),
                                                 valid |-> stream[i].valid]],
             emits |-> [k \in DOMAIN out |-> [ids |-> out[k].ids, at |-> out[k].at, ov |-> out[k].ov]]]
Emit == IF Done THEN PrintT("@@SCENARIO " \o ToJson(Scenario)) ELSE TRUE
=====================================================================================================
