--------------------------------------- MODULE Trace_JobPlan ---------------------------------------
(* C05: observations of the real tagger CLI judged by the P-level definitions of JobPlan.tla /       *)
(* TagRecords.tla.                                                                                  *)
(*  {"ev":"plan","tid","mode","need":[bins that hold records, "*" = unplaced],"jobs":[[bin,..],..],  *)
(*   "idx":[[contig,len],..],"small":[..],"regions_used":bool, ...}                                   *)
(*        the job plan exactly as handed to generate_tasks by tag_multiome_multi_processing          *)
(*  {"ev":"run","tid","mode","method","no_rejects","raised","exists","readable","so","bai",           *)
(*   "index_usable","via_index","hdr_rg":[..],"in":[record..],"out":[record..],                      *)
(*   "jobs_planned":[[..]],"jobs_run":[[..]], ...}                                                    *)
(*        input and output records as pysam reads them (TagRecords.tla describes a record)           *)
EXTENDS TraceLib, TagRecords

JP == INSTANCE JobPlan WITH MaxContigs <- 0, MaxN <- 0, MaxStar <- 0, Modes <- {}, Variant <- "design",
                            layout <- <<>>, nstar <- 0, mode <- "", noRejects <- FALSE, pc <- "", i <- 0, current <- <<>>, jobs <- <<>>,
                            pending <- {}, parts <- <<>>, out <- <<>>, indexed <- FALSE

VARIABLE l

PlanVerdict(e) ==
    LET need == SeqSet(e.need) IN
    IF JP!NotCovered(need, e.jobs) # {} THEN "Inv_C05_Cover_dropped"
    ELSE IF JP!CoveredTwice(e.jobs) # {} THEN "Inv_C05_Cover_twice"
    ELSE IF ~JP!CoverOK(need, e.jobs) THEN "Inv_C05_Cover"
    ELSE "ok"

Primary(q) == SelectSeq(q, LAMBDA r : ~r.sec)

RunVerdict(e) ==
    LET in   == Primary(e["in"])
        out  == Primary(e.out)
        exp  == IF e.no_rejects THEN SelectValid(in) ELSE in
        ik   == InKeys(exp)
        ok   == OutKeys(in, out)
        rejk == InKeys(SelectSeq(in, LAMBDA r : ~r.valid))
        placed == Cardinality({ k \in DOMAIN e.out : e.out[k].tid >= 0 })
    IN IF e.raised # "" THEN "Inv_C05_raised"
       ELSE IF ~e.exists \/ ~e.readable THEN "Inv_C05_no_output"
       ELSE IF Missing(ik, ok) # {} THEN (IF e.no_rejects THEN "Inv_C05_NoRejects_missing" ELSE "Inv_C05_Multiset_missing")
       ELSE IF Duplicated(ik, ok) # {} THEN "Inv_C05_Multiset_duplicated"
       ELSE IF e.no_rejects /\ Foreign(ik, ok) \cap SeqSet(rejk) # {} THEN "Inv_C05_NoRejects_kept_invalid"
       ELSE IF Foreign(ik, ok) # {} THEN "Inv_C05_Multiset_foreign"
       ELSE IF ~SameRecords(ik, ok) THEN "Inv_C05_Multiset"
       ELSE IF e.so # "coordinate" \/ ~CoordSorted(e.out) THEN "Inv_C05_Sorted"
       ELSE IF ~e.bai \/ ~e.index_usable \/ e.via_index # placed THEN "Inv_C05_Indexed"
       ELSE IF ~ReadGroupsDeclared(out, e.hdr_rg) THEN "Inv_C05_RG"
       ELSE "ok"

(* D-level conformance, informational only (DIVERGENCE): the jobs the workers ran are the planned ones *)
RunNote(e) == IF e.mode = "multi" /\ e.raised = "" /\ ~SameBag(e.jobs_planned, e.jobs_run) THEN "divergence_jobs_run_differ_from_plan"
              ELSE ""
IdxStats(e) == [k \in DOMAIN e.idx |-> [cid |-> e.idx[k][1], small |-> e.idx[k][2] < JP!SmallThreshold]]
PlanNote(e) == IF e.regions_used THEN "region_mode_plan"
               ELSE IF e.jobs # JP!PlanOf(IdxStats(e), "*") THEN "divergence_plan_differs_from_design_plan"
               ELSE ""

Verdict(e) == CASE e.ev = "plan" -> PlanVerdict(e)
                [] e.ev = "run"  -> RunVerdict(e)
                [] OTHER -> "unknown_event"
NoteOf(e)  == CASE e.ev = "plan" -> PlanNote(e)
                [] e.ev = "run"  -> RunNote(e)
                [] OTHER -> ""

TInit == l = 1
TNext == /\ l <= Len(Log)
         /\ Judge(l, Verdict(Log[l]))
         /\ (IF NoteOf(Log[l]) # "" THEN Note(l, Log[l].tid, NoteOf(Log[l])) ELSE TRUE)
         /\ l' = l + 1
TAccepted == TLCGet("stats").diameter - 1 = Len(Log)
=====================================================================================================
