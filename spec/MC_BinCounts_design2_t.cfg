INIT Init
NEXT Next
CONSTANTS
  Variant = "design"
  LenA = 8
  LenB = 3
  BinSizes = {2, 3}
  Bpjs = {1, 2, 3, 5}
  Mfss = {0, 1, 2}
  KindSet = {"good", "dup", "qcfail", "notr1", "nosm", "unpaired", "lowmq", "mp_multi", "good_s2", "good_k2", "mp_unique"}
  KwargsSet = {"none", "empty", "ignore_mp"}
  UseKeySet = {TRUE, FALSE}
  NFiles = 1
  MaxRecs = 1
  Threads = 3
INVARIANT Inv_C12_Total_NoRaise
INVARIANT Inv_C12_Matrix
INVARIANT Inv_C12_Invariant
INVARIANT Inv_C12_Total
INVARIANT Inv_D_Partial
INVARIANT Inv_D_BinHasOneJob
CHECK_DEADLOCK FALSE
