------------------------------------------ MODULE Pipeline ------------------------------------------
(* Extension X02 (not a listed property): the end-to-end composition                              *)
(*      FASTQ -> demultiplex -> (aligner, abstract) -> tag molecules -> count table                *)
(* as one small stage machine over a bounded library of read pairs, with end-to-end conservation  *)
(* and identity invariants that are checked in EVERY state (stage-wise conservation).             *)
(*                                                                                               *)
(* Ground truth (what was sequenced).  A read pair is generated from                              *)
(*   bc    "ok"  : a whitelist barcode          "mm" : a whitelist barcode with one mismatch       *)
(*         "bad" : a barcode far from every whitelist entry                                       *)
(*   cell  the whitelist index the barcode was made from (0 for "bad")                            *)
(*   umi   the UMI (abstract UMIs are pairwise at Hamming distance >= 2: no UMI correction merges  *)
(*         two of them)                                                                           *)
(*   loc   the true locus [c : contig, p : cut site, rev : strand, half : only mate 1 mappable]    *)
(*         or NoLoc: the insert is not in the reference.                                          *)
(* The true molecule of an accepted, mappable pair is (cell, contig, cut site, strand, UMI); PCR   *)
(* copies are several pairs with the same molecule.                                               *)
(*                                                                                               *)
(* D-level (one action per stage step of the code):                                               *)
(*   Sequence(p)   the library grows by one pair                  (phase "seq")                   *)
(*   StartDemux(h) the demultiplexer is configured with barcode Hamming distance h                *)
(*   Demux         loader loop body: next pair -> demultiplexed FASTQ (header = encoded tags) or  *)
(*                 rejects                                                                         *)
(*   Align         next demultiplexed pair -> two BAM records, name = the FASTQ header (trusted)   *)
(*   Tag(mode)     the tagger: decodes the name into tags, assigns molecules on (SM, locus, RX),   *)
(*                 flags duplicates, writes every record (single pass or --multiprocess)           *)
(*   Count(d, r)   count table --dedup = d, --r1only = r over the tagged records                   *)
(* The D-level only ever looks at what the previous stage WROTE (encoded fields), never at lib.    *)
(*                                                                                               *)
(* P-level (operators Inv_X02_E1 .. E4): stated on the ground truth lib alone, no algorithm:       *)
(*   E1 conservation   pairs consumed = rejects + demultiplexed; every demultiplexed pair is in    *)
(*                     the BAM and in the tagged BAM exactly once per mate;                        *)
(*                     at the end  #input pairs = #rejects + #R1 records of the tagged BAM         *)
(*   E2 identity       every record of every stage carries cell / UMI / locus of ITS pair          *)
(*   E3 counts         per cell: --dedup table = number of distinct true molecules among accepted  *)
(*                     mapped pairs, otherwise = number of accepted mapped pairs (r1only or halves)*)
(*   E4 rejects        a rejected pair is exactly a pair whose barcode is not accepted, and it     *)
(*                     never reaches a later stage or the table                                    *)
(* Variant selects the design or a named deviation (negative controls):                            *)
(*   "reject_also_demuxed"  the reject arm does not "continue": the pair is also written           *)
(*   "decoder_drops_umi"    the tagger's name decoder loses RX                                     *)
(*   "duplicates_counted"   --dedup ignores the duplicate flag                                     *)
(*   "molecule_ignores_cell" molecule assignment without the sample in the key                     *)
(*   "multi_drops_unmapped" --multiprocess does not write the unplaced records                     *)
(*   "raw_cell"             the sample is derived from the raw instead of the corrected barcode     *)
(*   "mate_weight"          without --r1only every mate counts 1 (no half weights)                 *)
EXTENDS Integers, Sequences, FiniteSets, TLC, Json, Util

CONSTANTS Cells, UMIs, Contigs, Positions, AllowHalf, MaxPairs, HDs, Variant, MMAll

NoLoc == [c |-> 0, p |-> 0, rev |-> FALSE, half |-> FALSE]
Loci == [c : Contigs, p : Positions, rev : BOOLEAN, half : IF AllowHalf THEN BOOLEAN ELSE {FALSE}]
FirstLoc == [c |-> MinOf(Contigs), p |-> MinOf(Positions), rev |-> FALSE, half |-> FALSE]
(* pair kinds: one-mismatch and foreign barcodes do not need every UMI / locus to show their effect *)
OkPairs  == [bc : {"ok"}, cell : Cells, umi : UMIs, loc : Loci \cup {NoLoc}]
MmPairs  == IF MMAll THEN [bc : {"mm"}, cell : Cells, umi : UMIs, loc : Loci \cup {NoLoc}]
            ELSE [bc : {"mm"}, cell : {MinOf(Cells)}, umi : {MinOf(UMIs)}, loc : {FirstLoc, NoLoc}]
BadPairs == [bc : {"bad"}, cell : {0}, umi : {MinOf(UMIs)}, loc : {FirstLoc}]
Pairs == OkPairs \cup MmPairs \cup BadPairs

VARIABLES lib,       \* the sequenced library: Seq(Pairs)                         (ground truth)
          hd,        \* barcode Hamming distance of the demultiplexer
          phase,     \* "seq" | "demux" | "align" | "tag" | "count" | "done"
          dptr,      \* pairs consumed by the demultiplexer
          rejects,   \* ids in the rejects file
          dmx,       \* demultiplexed FASTQ: [id, bi, rx, ins]     (ins = what the insert maps to)
          aptr,      \* demultiplexed pairs consumed by the aligner
          bam,       \* aligned records:  [id, mate, bi, rx, mapped, loc]
          tagged,    \* tagged records:   [id, mate, sm, rx, mapped, loc, dup]
          tmode,     \* "" | "single" | "multi"
          table      \* <<>> before counting, then [opt |-> [dedup, r1only], w2 |-> [cell -> 2 * count]]
vars == <<lib, hd, phase, dptr, rejects, dmx, aptr, bam, tagged, tmode, table>>

AllCells == Cells \cup {0}

Init == /\ lib = <<>> /\ hd = 0 /\ phase = "seq" /\ dptr = 0 /\ rejects = <<>> /\ dmx = <<>> /\ aptr = 0
        /\ bam = <<>> /\ tagged = <<>> /\ tmode = "" /\ table = <<>>

---------------------------------------------------------------------------------------------------
(* D-level *)

Sequence(p) == /\ phase = "seq" /\ Len(lib) < MaxPairs
               /\ lib' = Append(lib, p)
               /\ UNCHANGED <<hd, phase, dptr, rejects, dmx, aptr, bam, tagged, tmode, table>>

StartDemux(h) == /\ phase = "seq" /\ hd' = h /\ phase' = "demux"
                 /\ UNCHANGED <<lib, dptr, rejects, dmx, aptr, bam, tagged, tmode, table>>

(* the barcode lookup of the demultiplexer: index of the unique whitelist entry within distance hd *)
LookupCell(p) == IF p.bc = "ok" THEN p.cell ELSE IF p.bc = "mm" /\ hd >= 1 THEN p.cell ELSE 0
EncodedCell(p) == IF Variant = "raw_cell" /\ p.bc = "mm" THEN 0 ELSE LookupCell(p)

Demux ==
    /\ phase = "demux" /\ dptr < Len(lib)
    /\ LET i == dptr + 1
           p == lib[i]
           rec == [id |-> i, bi |-> EncodedCell(p), rx |-> p.umi, ins |-> p.loc]
       IN IF LookupCell(p) # 0
          THEN dmx' = Append(dmx, rec) /\ UNCHANGED rejects
          ELSE /\ rejects' = Append(rejects, i)
               /\ dmx' = IF Variant = "reject_also_demuxed" THEN Append(dmx, rec) ELSE dmx
    /\ dptr' = dptr + 1
    /\ UNCHANGED <<lib, hd, phase, aptr, bam, tagged, tmode, table>>

DemuxDone == /\ phase = "demux" /\ dptr = Len(lib) /\ phase' = "align"
             /\ UNCHANGED <<lib, hd, dptr, rejects, dmx, aptr, bam, tagged, tmode, table>>

(* the abstract aligner: placement from the sequence, name from the header; a "half" pair has an unmapped mate 2 *)
Align ==
    /\ phase = "align" /\ aptr < Len(dmx)
    /\ LET r == dmx[aptr + 1]
           rec(m) == [id |-> r.id, mate |-> m, bi |-> r.bi, rx |-> r.rx,
                      mapped |-> (r.ins # NoLoc /\ (m = 1 \/ ~r.ins.half)), loc |-> r.ins]
       IN bam' = bam \o <<rec(1), rec(2)>>
    /\ aptr' = aptr + 1
    /\ UNCHANGED <<lib, hd, phase, dptr, rejects, dmx, tagged, tmode, table>>

AlignDone == /\ phase = "align" /\ aptr = Len(dmx) /\ phase' = "tag"
             /\ UNCHANGED <<lib, hd, dptr, rejects, dmx, aptr, bam, tagged, tmode, table>>

(* the tagger: decode the name, molecule = (sample, locus, UMI) among fragments whose mate 1 is mapped,          *)
(* the first fragment of a molecule (BAM order) is the primary one, the others are flagged duplicate (both mates) *)
DecodedRX(r) == IF Variant = "decoder_drops_umi" THEN 0 ELSE r.rx
Site(l) == <<l.c, l.p, l.rev>>
MolKeyOf(r) == <<IF Variant = "molecule_ignores_cell" THEN 0 ELSE r.bi, Site(r.loc), DecodedRX(r)>>
FragMapped(id) == \E k \in DOMAIN bam : bam[k].id = id /\ bam[k].mate = 1 /\ bam[k].mapped
FirstOfMolecule(k) ==      \* k: index of a record whose fragment is mapped
    ~\E j \in 1 .. (k - 1) : bam[j].id # bam[k].id /\ FragMapped(bam[j].id) /\ MolKeyOf(bam[j]) = MolKeyOf(bam[k])
TagRecord(k) == LET r == bam[k] IN
    [id |-> r.id, mate |-> r.mate, sm |-> r.bi, rx |-> DecodedRX(r), mapped |-> r.mapped, loc |-> r.loc,
     valid |-> FragMapped(r.id), dup |-> FragMapped(r.id) /\ ~FirstOfMolecule(k)]
Tag(mode) ==
    /\ phase = "tag" /\ tmode' = mode
    /\ LET all == [k \in DOMAIN bam |-> TagRecord(k)]
       IN tagged' = IF Variant = "multi_drops_unmapped" /\ mode = "multi"
                    THEN SelectSeq(all, LAMBDA t : t.valid) ELSE all
    /\ phase' = "count"
    /\ UNCHANGED <<lib, hd, dptr, rejects, dmx, aptr, bam, table>>

(* count table over the tagged records, weights x 2: --r1only counts mate 1 once; otherwise a mate whose partner is  *)
(* mapped counts 1/2, a mate whose partner is unmapped counts 1; unmapped, rejected and (--dedup) duplicate records   *)
(* are skipped                                                                                                         *)
PartnerMapped(t) == \E u \in SeqSet(tagged) : u.id = t.id /\ u.mate # t.mate /\ u.mapped
Counted(t, dedup, r1only) ==
    /\ t.mapped /\ t.valid
    /\ (r1only => t.mate = 1)
    /\ (dedup /\ Variant # "duplicates_counted") => ~t.dup
Weight2(t, r1only) == IF r1only THEN 2 ELSE IF PartnerMapped(t) /\ Variant # "mate_weight" THEN 1 ELSE 2
Count(dedup, r1only) ==
    /\ phase = "count"
    /\ table' = [opt |-> [dedup |-> dedup, r1only |-> r1only],
                 w2 |-> [c \in AllCells |->
                            SumSeqF(tagged, LAMBDA t : IF t.sm = c /\ Counted(t, dedup, r1only) THEN Weight2(t, r1only) ELSE 0)]]
    /\ phase' = "done"
    /\ UNCHANGED <<lib, hd, dptr, rejects, dmx, aptr, bam, tagged, tmode>>

SomeSequence == \E p \in Pairs : Sequence(p)
SomeStart == \E h \in HDs : StartDemux(h)
SomeTag == \E m \in {"single", "multi"} : Tag(m)
SomeCount == \E d \in BOOLEAN, r \in BOOLEAN : Count(d, r)
Next == SomeSequence \/ SomeStart \/ Demux \/ DemuxDone \/ Align \/ AlignDone \/ SomeTag \/ SomeCount
Spec == Init /\ [][Next]_vars

---------------------------------------------------------------------------------------------------
(* P-level: everything below is defined from the ground truth lib (and hd) only *)

Accepted(p) == p.bc = "ok" \/ (p.bc = "mm" /\ hd >= 1)
TrueCell(p) == IF Accepted(p) THEN p.cell ELSE 0
R1Mapped(p) == p.loc # NoLoc
MateMapped(p, m) == p.loc # NoLoc /\ (m = 1 \/ ~p.loc.half)
TrueMolecule(p) == <<p.cell, p.loc.c, p.loc.p, p.loc.rev, p.umi>>
Ids(q) == [k \in DOMAIN q |-> q[k].id]
MateIds(q, m) == Ids(SelectSeq(q, LAMBDA r : r.mate = m))
CountedPairs(c) == { i \in DOMAIN lib : Accepted(lib[i]) /\ R1Mapped(lib[i]) /\ lib[i].cell = c }

Inv_X02_E1_Conservation ==
    /\ dptr = Len(rejects) + Len(dmx)
    /\ SameBag(rejects \o Ids(dmx), [k \in 1 .. dptr |-> k])
    /\ \A m \in {1, 2} : SameBag(MateIds(bam, m), SubSeq(Ids(dmx), 1, aptr))
    /\ (tmode # "") => \A m \in {1, 2} : SameBag(MateIds(tagged, m), Ids(dmx))
    /\ (phase = "done") => Len(lib) = Len(rejects) + Len(MateIds(tagged, 1))

Inv_X02_E2_Identity ==
    /\ \A k \in DOMAIN dmx : LET r == dmx[k] p == lib[r.id] IN r.bi = TrueCell(p) /\ r.rx = p.umi /\ r.ins = p.loc
    /\ \A k \in DOMAIN bam : LET r == bam[k] p == lib[r.id] IN
            r.bi = TrueCell(p) /\ r.rx = p.umi /\ r.mapped = MateMapped(p, r.mate) /\ (r.mapped => r.loc = p.loc)
    /\ \A k \in DOMAIN tagged : LET t == tagged[k] p == lib[t.id] IN
            t.sm = TrueCell(p) /\ t.rx = p.umi /\ t.mapped = MateMapped(p, t.mate) /\ (R1Mapped(p) => t.loc = p.loc)

Inv_X02_E3_Counts ==
    /\ (tmode # "") =>       \* exactly one primary mate-1 record per true molecule
          \A i \in DOMAIN lib : (Accepted(lib[i]) /\ R1Mapped(lib[i])) =>
              Cardinality({ k \in DOMAIN tagged : /\ tagged[k].mate = 1 /\ ~tagged[k].dup
                                                   /\ Accepted(lib[tagged[k].id]) /\ R1Mapped(lib[tagged[k].id])
                                                   /\ TrueMolecule(lib[tagged[k].id]) = TrueMolecule(lib[i]) }) = 1
    /\ (table # <<>>) => \A c \in Cells :
          table.w2[c] = 2 * (IF table.opt.dedup THEN Cardinality({ TrueMolecule(lib[i]) : i \in CountedPairs(c) })
                                                ELSE Cardinality(CountedPairs(c)))

Inv_X02_E4_Rejects ==
    /\ \A k \in DOMAIN rejects : ~Accepted(lib[rejects[k]])
    /\ \A k \in DOMAIN dmx : Accepted(lib[dmx[k].id])
    /\ \A k \in DOMAIN bam : Accepted(lib[bam[k].id])
    /\ \A k \in DOMAIN tagged : Accepted(lib[tagged[k].id])
    /\ (table # <<>>) => table.w2[0] = 0

---------------------------------------------------------------------------------------------------
(* spec -> code: every complete small library (with the demultiplexer setting) is printed as a scenario;         *)
(* the generator configuration stops behind the library (the stages are replayed through the real code)           *)
Emit == IF phase = "demux"
        THEN PrintT("@@SCENARIO " \o ToJson([hd |-> hd, lib |-> lib])) /\ FALSE
        ELSE TRUE
=====================================================================================================
