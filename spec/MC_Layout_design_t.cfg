INIT Init
NEXT Next
CONSTANTS
  MaxL = 100
  Variant = "design"
  Pairing = "cross"
  Only = {}
INVARIANT Inv_C02_Refines
INVARIANT Inv_C02_Mates
INVARIANT Inv_C02_Accounting
CHECK_DEADLOCK FALSE
