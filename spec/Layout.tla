------------------------------------------ MODULE Layout ------------------------------------------
(* C02 - demultiplexed records contain exactly the bases the protocol layout prescribes.           *)
(*                                                                                                 *)
(* P-level: the pinned layout table L (one entry per strategy registered by                        *)
(*          DemultiplexingStrategyLoader at the pinned commit, keyed by shortName; transcribed by  *)
(*          hand from the strategies' descriptions / constructor arguments) and BranchVerdict,      *)
(*          the property's own definition: every tag equals the bases/qualities at the table's      *)
(*          positions, the emitted sequence/quality is the same contiguous stretch starting at the *)
(*          table's insert start, nothing else carries bases.  The same operator judges            *)
(*            - the D-level model below on *provenance tokens* <<mate, index>> (model checking), and *)
(*            - observations of the real strategy.demultiplex() on real bases (Trace_Layout).      *)
(*          Inv_C02_Accounting is stated on provenance tokens: every input position up to the end  *)
(*          of the emitted stretch is emitted or recorded in a tag, none is invented, nothing comes*)
(*          from the wrong mate, a position is used twice only where the table names it.           *)
(* D-level: the code.  A = constructor arguments as written in demultiplexModules/*.py; the        *)
(*          constructor arithmetic of UmiBarcodeDemuxMethod.__init__ (baseDemultiplexMethods.py    *)
(*          552-587), DamID2_SCA.__init__ (DamID.py 224-238), Base_RestrictionBisulfiteDemuxMethod *)
(*          (restrictionbisulfite.py 66-81) and one action per step of demultiplex():              *)
(*          LigationSlice, BaseTag, SliceBarcode, Lookup, SlicePrimer, SliceUmi, TagRecords,       *)
(*          Capture, AddLigationTags, Post (content dependent trimming of the composite strategies)*)
(*          Variant = "design": the arguments that implement L.                                    *)
(*          Variant = "impl"  : the arguments at the pinned commit.  Named deviations:             *)
(*             D18  CS2C8U8S        random_primer_read = barcode mate (CELSeq2.py:107): line 582   *)
(*                                  REPLACES the capture slice of that mate, R2 is emitted from 6  *)
(*                                  (inside the UMI) and rS holds UMI bases.                       *)
(*             D201 DamID2_8bp_noCA capture start umiLength+barcodeLength-1 (DamID.py:86-88,       *)
(*                                  copied from DamID2 whose barcodes contain the CA overhang):    *)
(*                                  the last barcode base is emitted as first insert base.         *)
(*             D202 DamID2andT_3u4b3u6b  a pair matching BOTH whitelists: DamID.py:344-346 returns *)
(*                                  the loop variable (ONE TaggedRecord) instead of the list.      *)
(* Mates are 1-based here (code: 0-based), positions 0-based half-open like Python slices.         *)
EXTENDS Integers, Sequences, FiniteSets, TLC, Util, Json

CONSTANTS MaxL,       \* read lengths 0..MaxL per mate
          Variant,    \* "design" | "impl"
          Pairing,    \* "full": all (n1,n2) | "cross": n1 = n2 or one of them in {0, MaxL}
          Only        \* restrict the exploration to these strategies ({} = all registered + table entries)

INF == 1000000
Min2(a, b) == IF a < b THEN a ELSE b
Max2(a, b) == IF a > b THEN a ELSE b
PySlice(r, lo, hi) == SubSeq(r, lo + 1, Min2(hi, Len(r)))            \* Python r[lo:hi], 0 <= lo
Take(r, k) == SubSeq(r, 1, Min2(k, Len(r)))
DropN(r, k) == SubSeq(r, k + 1, Len(r))
(* concatenation of the pieces <<mate, lo, hi>> cut from the texts R (a missing mate contributes nothing) *)
Pieces(R, ps) == FoldLeft(LAMBDA acc, p : acc \o (IF p[1] <= Len(R) THEN PySlice(R[p[1]], p[2], p[3]) ELSE <<>>), <<>>, ps)
IsInfix(x, y) == \E i \in 0 .. (Len(y) - Len(x)) : SubSeq(y, i + 1, i + Len(x)) = x

BaseTags == {"bc", "RX", "RQ", "rS", "lh", "lq", "QT", "ES", "eq", "IS", "tu", "rx"}   \* tags that carry read bases / qualities
TagVal(tags, t) == IF t \in DOMAIN tags THEN tags[t] ELSE <<>>                       \* absent = empty
NoTags == [t \in {} |-> <<>>]

---------------------------------------------------------------------------------------------------
(* P-level: the layout table *)

(* one branch of a strategy:
     wl    whitelist alias the barcode is looked up in       mates  accepted numbers of input records
     tags  base tag -> pieces                                qt     quality tag -> the base tag whose positions it shares
     ins   insert start per mate                             trim   per mate: "none" | "prefix" (emitted = a prefix of the insert)
                                                                               | "skipT" (leading T bases of the insert are dropped)
     both  positions deliberately recorded in a tag AND emitted (ligation motif / overhang kept in the read)
     multi positions deliberately recorded in two base tags (ligation tag inside the barcode)
     rel   tags whose value is content dependent: only required to be taken from the reads
     dt    values of the data-type tag `dt` with which a composite strategy REPORTS that it used this branch ({} = any):
           a molecule reported as DamID / Ambiguous must obey the DamID layout, one reported as RNA the transcriptome layout *)
Br(wl, mates, tags, qt, ins, trim, both, multi, rel) ==
    [wl |-> wl, mates |-> mates, tags |-> tags, qt |-> qt, ins |-> ins, trim |-> trim, both |-> both, multi |-> multi, rel |-> rel, dt |-> {}]
NT == <<"none", "none">>

(* contiguous UMI/barcode layouts on mate bm, random primer (length rl, 0 = none) at the START of the other mate *)
UB(wl, mates, bm, umi, bc, rl) ==
    LET om == 3 - bm
        t1 == IF umi[1] = umi[2] THEN [bc |-> << <<bm, bc[1], bc[2]>> >>]
              ELSE [bc |-> << <<bm, bc[1], bc[2]>> >>, RX |-> << <<bm, umi[1], umi[2]>> >>]
        t2 == IF rl = 0 THEN t1 ELSE [rS |-> << <<om, 0, rl>> >>] @@ t1
        q  == IF umi[1] = umi[2] THEN NoTags ELSE [RQ |-> "RX"]
        e  == Max2(umi[2], bc[2])
    IN Br(wl, mates, t2, q, IF bm = 1 THEN <<e, rl>> ELSE <<rl, e>>, NT, {}, {}, {})

(* scCHIC: 3 bp UMI, 8 bp barcode, ligation motif 11:13 (lh/lq), base 11 (the A-tail) dropped from the read, base 12 kept *)
CHIC(mates, rl, trim, rel) ==
    LET t1 == [RX |-> << <<1, 0, 3>> >>, bc |-> << <<1, 3, 11>> >>, lh |-> << <<1, 11, 13>> >>]
        t2 == IF rl = 0 THEN t1 ELSE [rS |-> << <<2, 0, rl>> >>] @@ t1
    IN Br("maya_384NLA", mates, t2, [RQ |-> "RX", lq |-> "lh"], <<12, rl>>, trim, {<<1, 12>>}, {}, rel)

(* scattered DamID layouts: umi fu, barcode fb, umi su, barcode sb, then the 2 bp overhang (lh/lq) which stays in the read *)
SCA(wl, mates, fu, fb, su, sb, trim) ==
    LET e == fu + fb + su + sb IN
    Br(wl, mates,
       [RX |-> << <<1, 0, fu>>, <<1, fu + fb, fu + fb + su>> >>, bc |-> << <<1, fu, fu + fb>>, <<1, fu + fb + su, e>> >>,
        lh |-> << <<1, e, e + 2>> >>],
       [RQ |-> "RX", lq |-> "lh"], <<e, 0>>, trim, {<<1, e>>, <<1, e + 1>>}, {}, {})

DAMID2 == Br("DamID2", {1, 2}, [RX |-> << <<1, 0, 3>> >>, bc |-> << <<1, 3, 13>> >>, lh |-> << <<1, 11, 13>> >>],
             [RQ |-> "RX", lq |-> "lh"], <<12, 0>>, NT, {<<1, 12>>}, {<<1, 11>>, <<1, 12>>}, {})

L == [
  ILLU            |-> << Br("", {1, 2}, NoTags, NoTags, <<0, 0>>, NT, {}, {}, {}) >>,
  CS1C8U4         |-> << UB("celseq1", {2}, 1, <<8, 12>>, <<0, 8>>, 6) >>,
  CS2C8U6         |-> << UB("celseq2", {2}, 1, <<0, 6>>, <<6, 14>>, 6) >>,
  CS2C8U6NH       |-> << UB("celseq2", {1, 2}, 1, <<0, 6>>, <<6, 14>>, 0) >>,
  CS2C8U8         |-> << UB("celseq2", {2}, 1, <<0, 8>>, <<8, 16>>, 6) >>,     \* defined in CELSeq2.py but shadowed (not registered at the pinned commit)
  CS2C8U8S        |-> << UB("celseq2", {2}, 2, <<0, 8>>, <<8, 16>>, 6) >>,     \* "R2 starts with a 8bp UMI followed by a 8bp cell barcode. R1 ... 6bp primer"
  CS2C8U8NNLA     |-> << UB("celseq2_noNla", {2}, 1, <<0, 8>>, <<8, 16>>, 6) >>,
  CS2C8U6S        |-> << UB("celseq2", {2}, 2, <<0, 6>>, <<6, 14>>, 6) >>,
  NLAIII384C8U3   |-> << UB("maya_384NLA", {2}, 1, <<0, 3>>, <<3, 11>>, 6) >>,
  NLAIII96C8U3    |-> << UB("lennart96NLA", {2}, 1, <<0, 3>>, <<3, 11>>, 6) >>,
  NLAIII384C8U3SE |-> << UB("maya_384NLA", {1}, 1, <<0, 3>>, <<3, 11>>, 0) >>,
  NLAIII96C8U3SE  |-> << UB("lennart96NLA", {1}, 1, <<0, 3>>, <<3, 11>>, 0) >>,
  RBSN            |-> << Br("nla_bisulfite", {2},
                            [RX |-> << <<1, 0, 8>> >>, bc |-> << <<1, 8, 16>> >>, ES |-> << <<1, 16, 19>> >>, IS |-> << <<1, 19, 34>> >>],
                            [RQ |-> "RX", QT |-> "bc", eq |-> "ES"], <<34, 0>>, NT, {}, {}, {}) >>,
  scCHIC384C8U3   |-> << CHIC({2}, 6, NT, {}) >>,
  scCHIC384C8U3l  |-> << CHIC({2}, 0, NT, {}) >>,
  scCHIC384C8U3se |-> << CHIC({1}, 0, NT, {}) >>,
  TCHIC           |-> << CHIC({2}, 0, <<"none", "prefix">>, {"rx"}) >>,       \* R2 trimmed when transcriptome bleed-through is seen
  CHICTV          |-> << CHIC({2}, 0, <<"prefix", "none">>, {"tu"}) >>,       \* R1 clipped at the template switching oligo
  MSPJIC8U3       |-> << UB("maya_mspj1", {1, 2}, 1, <<0, 3>>, <<3, 11>>, 0) >>,
  SCARC8R1        |-> << UB("scartrace", {1, 2}, 1, <<0, 0>>, <<0, 8>>, 0) >>,
  SCARC8R2        |-> << UB("scartrace", {2}, 2, <<0, 0>>, <<0, 8>>, 0) >>,
  SCARC8R2R4      |-> << UB("scartrace", {2}, 2, <<0, 0>>, <<0, 8>>, 4) >>,
  CHROMC16U12     |-> << UB("10x_3M-february-2018", {1, 2}, 1, <<16, 28>>, <<0, 16>>, 0) >>,
  DamID2          |-> << DAMID2 >>,
  DamID2_8bp_noCA |-> << Br("DamID2_8bp", {1, 2}, [RX |-> << <<1, 0, 3>> >>, bc |-> << <<1, 3, 11>> >>, lh |-> << <<1, 11, 13>> >>],
                            [RQ |-> "RX", lq |-> "lh"], <<11, 0>>, NT, {<<1, 11>>, <<1, 12>>}, {}, {}) >>,
  DamAndT         |-> << [DAMID2 EXCEPT !.mates = {2}, !.dt = {"DamID", "Ambiguous"}],
                         [UB("celseq2", {2}, 1, <<0, 6>>, <<6, 14>>, 6) EXCEPT !.trim = <<"skipT", "none">>, !.dt = {"RNA"}] >>,
  DamID2_3u4b3u6b |-> << SCA("DamID2_scattered_8bp", {1, 2}, 3, 4, 3, 4, NT) >>,
  DamID2andT_3u4b3u4b |-> << [SCA("DamID2_scattered_8bp", {2}, 3, 4, 3, 4, NT) EXCEPT !.dt = {"DamID", "Ambiguous"}],
                             [SCA("CS2_scattered_8bp", {2}, 3, 4, 3, 4, <<"skipT", "none">>) EXCEPT !.dt = {"RNA"}] >>,
  (* third branch: the pair matches both whitelists; the code keeps the transcriptome records (emitted from 14, poly-T pruned)
     and overwrites their tags with the DamID ones (barcode 3:7+10:16, overhang 16:18), so 14..17 are tagged AND emitted *)
  DamID2andT_3u4b3u6b |-> << [SCA("DamID2_scattered_10bp", {2}, 3, 4, 3, 6, NT) EXCEPT !.dt = {"DamID"}],
                             [SCA("CS2_scattered_8bp", {2}, 3, 4, 3, 4, <<"skipT", "none">>) EXCEPT !.dt = {"RNA"}],
                             [SCA("DamID2_scattered_10bp", {2}, 3, 4, 3, 6, <<"skipT", "none">>) EXCEPT
                                 !.ins = <<14, 0>>, !.both = {<<1, 14>>, <<1, 15>>, <<1, 16>>, <<1, 17>>}, !.dt = {""}] >>
]
Strategies == DOMAIN L

(* the table is well formed: pieces inside a read, quality tags refer to a base tag, named overlaps are real *)
TableOK ==
    \A s \in Strategies : \A i \in DOMAIN L[s] :
        LET b == L[s][i] IN
        /\ b.mates \subseteq {1, 2} /\ b.mates # {}
        /\ \A t \in DOMAIN b.tags : t \in BaseTags /\ \A k \in DOMAIN b.tags[t] :
               LET p == b.tags[t][k] IN p[1] \in {1, 2} /\ 0 <= p[2] /\ p[2] < p[3]
        /\ \A q \in DOMAIN b.qt : q \in BaseTags /\ b.qt[q] \in DOMAIN b.tags /\ q \notin DOMAIN b.tags
        /\ b.rel \subseteq BaseTags /\ b.rel \cap (DOMAIN b.tags \cup DOMAIN b.qt) = {}
        /\ \A m \in {1, 2} : b.ins[m] >= 0 /\ b.trim[m] \in {"none", "prefix", "skipT"}
ASSUME TableOK

---------------------------------------------------------------------------------------------------
(* P-level: the property.  R, Q = input bases / qualities per mate, out = the returned records        *)
(* [seq, qual, tags].  Enc maps a quality element to its header representation, Comp complements a     *)
(* base, IsT recognises a T (identities on provenance tokens).  Returns "ok" or the first failing      *)
(* clause.                                                                                             *)
BranchVerdict(b, R, Q, out, Enc(_), Comp(_), IsT(_)) ==
    LET nm == Len(R)
        ExpT(t) == Pieces(R, b.tags[t])
        ExpQ(q) == LET x == Pieces(Q, b.tags[b.qt[q]]) IN [i \in DOMAIN x |-> Enc(x[i])]
        BadT == { t \in DOMAIN b.tags : \E m \in DOMAIN out : TagVal(out[m].tags, t) # ExpT(t) }
        BadQ == { q \in DOMAIN b.qt : \E m \in DOMAIN out : TagVal(out[m].tags, q) # ExpQ(q) }
        Unexp == { t \in BaseTags \ (DOMAIN b.tags \cup DOMAIN b.qt \cup b.rel) : \E m \in DOMAIN out : TagVal(out[m].tags, t) # <<>> }
        RevComp(x) == [i \in DOMAIN x |-> Comp(x[Len(x) + 1 - i])]
        BadRel == { t \in b.rel : \E m \in DOMAIN out :
                       LET v == TagVal(out[m].tags, t) IN
                       ~ (\E k \in DOMAIN R : IsInfix(v, R[k]) \/ IsInfix(v, RevComp(R[k]))) }
        EmitOK(m) ==
            LET ins == PySlice(R[m], b.ins[m], INF)
                qins == PySlice(Q[m], b.ins[m], INF)
                g == out[m].seq
                h == out[m].qual
                k == Len(ins) - Len(g)
            IN CASE b.trim[m] = "none"   -> g = ins /\ h = qins
                 [] b.trim[m] = "prefix" -> k >= 0 /\ g = SubSeq(ins, 1, Len(g)) /\ h = SubSeq(qins, 1, Len(g))
                 [] b.trim[m] = "skipT"  -> k >= 0 /\ g = DropN(ins, k) /\ h = DropN(qins, k) /\ \A i \in 1 .. k : IsT(ins[i])
        BadM == { m \in DOMAIN out : ~ EmitOK(m) }
    IN IF Len(out) # nm THEN "records_per_mate"
       ELSE IF \E m \in DOMAIN out : Len(out[m].seq) # Len(out[m].qual) THEN "seq_qual_length"
       ELSE IF BadT # {} THEN "tag_" \o (CHOOSE t \in BadT : TRUE)
       ELSE IF BadQ # {} THEN "qtag_" \o (CHOOSE q \in BadQ : TRUE)
       ELSE IF Unexp # {} THEN "unexpected_tag_" \o (CHOOSE t \in Unexp : TRUE)
       ELSE IF BadM # {} THEN "emit_mate" \o ToString(MinOf(BadM)) \o "_" \o b.trim[MinOf(BadM)]
       ELSE IF BadRel # {} THEN "invented_" \o (CHOOSE t \in BadRel : TRUE)
       ELSE "ok"

(* a strategy accepts through one of its branches; the output must satisfy the layout of one of the branches that the
   data type it reports (dt, "" when the tag is absent) admits *)
StrategyVerdict(s, R, Q, out, dt, Enc(_), Comp(_), IsT(_)) ==
    LET cand == { i \in DOMAIN L[s] : L[s][i].dt = {} \/ dt \in L[s][i].dt }        \* the branches the reported data type admits
        use == IF cand = {} THEN DOMAIN L[s] ELSE cand                                \* an unknown report: any branch
        V == [i \in DOMAIN L[s] |-> IF i \in use THEN BranchVerdict(L[s][i], R, Q, out, Enc, Comp, IsT) ELSE "-"] IN
    IF \E i \in use : V[i] = "ok" THEN "ok"
    ELSE IF Cardinality(use) = 1 THEN V[CHOOSE i \in use : TRUE]
    ELSE FoldLeft(LAMBDA acc, v : acc \o "/" \o v, "no_branch", V)

---------------------------------------------------------------------------------------------------
(* D-level: constructor arguments (mates 1-based, 0 = None)                                            *)
(*   kind "umibc": UmiBarcodeDemuxMethod(umiRead ur, umiStart us, umiLength ul, barcodeRead br,        *)
(*                 barcodeStart bs, barcodeLength bl, random_primer_read rr, random_primer_length rl)  *)
(*                 cap1 >= 0: the subclass overwrites sequenceCapture[0] = slice(cap1, None)           *)
(*                 lig  >= 0: the subclass slices records[0][lig:lig+2] into lh/lq;                    *)
(*                 ligr: which tagged records get lh/lq: "pair" (index 0 and 1), "first", "all"        *)
(*                 xs : extra leading segments counted into the capture start (restriction bisulfite)  *)
(*   kind "scat" : DamID2_SCA(first_umi_len fu, first_bc_len fb, second_umi_len su, second_barcode_len sb)*)
(*   kind "illu" : IlluminaBaseDemultiplexer                                                          *)
(*   post        : content dependent step after the base class ("none","clip1","trim2","skipT1",       *)
(*                 "skipT1_last" = skipT1, then only the LAST record is returned (D202))                 *)
(*   need        : numbers of records for which the subclass does not raise NonMultiplexable          *)
U(ur, us, ul, br, bs, bl, rr, rl, cap1, lig, ligr, post, need) ==
    [kind |-> "umibc", ur |-> ur, us |-> us, ul |-> ul, br |-> br, bs |-> bs, bl |-> bl, rr |-> rr, rl |-> rl,
     cap1 |-> cap1, lig |-> lig, ligr |-> ligr, xs |-> <<>>, post |-> post, need |-> need]
SC(fu, fb, su, sb, post, need) == [kind |-> "scat", fu |-> fu, fb |-> fb, su |-> su, sb |-> sb, post |-> post, need |-> need,
                                   lig |-> fu + fb + su + sb, ligr |-> "all", cap1 |-> -1]
ANY == {1, 2}
aDamID2 == U(1, 0, 3, 1, 3, 10, 0, 0, 12, 11, "all", "none", ANY)
aCHIC(rr, rl, ligr, post, need) == U(1, 0, 3, 1, 3, 8, rr, rl, 12, 11, ligr, post, need)

A == [
  ILLU            |-> << [kind |-> "illu", post |-> "none", need |-> ANY, lig |-> -1] >>,
  CS1C8U4         |-> << U(1, 8, 4, 1, 0, 8, 2, 6, -1, -1, "", "none", ANY) >>,
  CS2C8U6         |-> << U(1, 0, 6, 1, 6, 8, 2, 6, -1, -1, "", "none", ANY) >>,
  CS2C8U6NH       |-> << U(1, 0, 6, 1, 6, 8, 0, 0, -1, -1, "", "none", ANY) >>,
  CS2C8U8         |-> << U(1, 0, 8, 1, 8, 8, 2, 6, -1, -1, "", "none", ANY) >>,
  CS2C8U8S        |-> << U(2, 0, 8, 2, 8, 8, IF Variant = "impl" THEN 2 ELSE 1, 6, -1, -1, "", "none", ANY) >>,          \* D18
  CS2C8U8NNLA     |-> << U(1, 0, 8, 1, 8, 8, 2, 6, -1, -1, "", "none", ANY) >>,
  CS2C8U6S        |-> << U(2, 0, 6, 2, 6, 8, 1, 6, -1, -1, "", "none", ANY) >>,
  NLAIII384C8U3   |-> << U(1, 0, 3, 1, 3, 8, 2, 6, -1, -1, "", "none", ANY) >>,
  NLAIII96C8U3    |-> << U(1, 0, 3, 1, 3, 8, 2, 6, -1, -1, "", "none", ANY) >>,
  NLAIII384C8U3SE |-> << U(1, 0, 3, 1, 3, 8, 0, 0, -1, -1, "", "none", {1}) >>,
  NLAIII96C8U3SE  |-> << U(1, 0, 3, 1, 3, 8, 0, 0, -1, -1, "", "none", {1}) >>,
  RBSN            |-> << [U(1, 0, 8, 1, 8, 8, 0, 0, -1, -1, "", "none", {2}) EXCEPT
                            !.xs = << [t |-> "ES", q |-> "eq", m |-> 1, lo |-> 16, n |-> 3], [t |-> "IS", q |-> "", m |-> 1, lo |-> 19, n |-> 15] >>] >>,
  scCHIC384C8U3   |-> << aCHIC(2, 6, "pair", "none", ANY) >>,
  scCHIC384C8U3l  |-> << aCHIC(0, 0, "pair", "none", ANY) >>,
  scCHIC384C8U3se |-> << aCHIC(0, 0, "first", "none", {1}) >>,
  TCHIC           |-> << aCHIC(0, 0, "pair", "trim2", {2}) >>,
  CHICTV          |-> << aCHIC(0, 0, "pair", "clip1", {2}) >>,
  MSPJIC8U3       |-> << U(1, 0, 3, 1, 3, 8, 0, 0, -1, -1, "", "none", ANY) >>,
  SCARC8R1        |-> << U(1, 0, 0, 1, 0, 8, 0, 0, -1, -1, "", "none", ANY) >>,
  SCARC8R2        |-> << U(1, 0, 0, 2, 0, 8, 0, 0, -1, -1, "", "none", ANY) >>,
  SCARC8R2R4      |-> << U(1, 0, 0, 2, 0, 8, 1, 4, -1, -1, "", "none", ANY) >>,
  CHROMC16U12     |-> << U(1, 16, 12, 1, 0, 16, 0, 0, -1, -1, "", "none", ANY) >>,
  DamID2          |-> << aDamID2 >>,
  DamID2_8bp_noCA |-> << U(1, 0, 3, 1, 3, 8, 0, 0, IF Variant = "impl" THEN 10 ELSE 11, 11, "all", "none", ANY) >>,      \* D201
  DamAndT         |-> << [aDamID2 EXCEPT !.need = {2}], [U(1, 0, 6, 1, 6, 8, 2, 6, -1, -1, "", "skipT1", {2}) EXCEPT !.need = {2}] >>,
  DamID2_3u4b3u6b |-> << SC(3, 4, 3, 4, "none", ANY) >>,
  DamID2andT_3u4b3u4b |-> << SC(3, 4, 3, 4, "none", {2}), SC(3, 4, 3, 4, "skipT1", {2}) >>,
  DamID2andT_3u4b3u6b |-> << SC(3, 4, 3, 6, "none", {2}), SC(3, 4, 3, 4, "skipT1", {2}),
                             [SC(3, 4, 3, 6, IF Variant = "impl" THEN "skipT1_last" ELSE "skipT1", {2}) EXCEPT !.cap1 = 14] >>                  \* D202
]
ASSUME DOMAIN A = Strategies /\ \A s \in Strategies : Len(A[s]) = Len(L[s])
(* preconditions under which UmiBarcodeDemuxMethod.__init__ does not raise NotImplementedError *)
ASSUME \A s \in Strategies : \A i \in DOMAIN A[s] : LET a == A[s][i] IN
          a.kind = "umibc" => /\ (a.ul = 0 => a.bs = 0)
                              /\ (a.ul # 0 => a.ur = a.br /\ (a.us = 0 \/ a.bs = 0))

(* constructor arithmetic *)
CaptureStarts(a) ==
    CASE a.kind = "illu" -> <<0, 0>>
      [] a.kind = "scat" -> <<IF a.cap1 >= 0 THEN a.cap1 ELSE a.fu + a.fb + a.su + a.sb, 0>>         \* DamID.py:235-238 (cap1: records of the other sub-demultiplexer)
      [] a.kind = "umibc" ->
            LET xlen == FoldLeft(LAMBDA acc, x : acc + x.n, 0, a.xs)
                c1 == [<<0, 0>> EXCEPT ![a.br] = IF a.ul = 0 THEN a.bl ELSE a.bl + a.ul + xlen]    \* :553-567 / restrictionbisulfite.py:80
                c2 == IF a.rr # 0 THEN [c1 EXCEPT ![a.rr] = a.rl] ELSE c1                           \* :582-586 (replaces the start)
                c3 == IF a.cap1 >= 0 THEN [c2 EXCEPT ![1] = a.cap1] ELSE c2                         \* subclass override
            IN c3
BarcodePieces(a) == IF a.kind = "scat" THEN << <<1, a.fu, a.fu + a.fb>>, <<1, a.fu + a.fb + a.su, a.fu + a.fb + a.su + a.sb>> >>
                    ELSE << <<a.br, a.bs, a.bs + a.bl>> >>
UmiPieces(a) == IF a.kind = "scat" THEN << <<1, 0, a.fu>>, <<1, a.fu + a.fb, a.fu + a.fb + a.su>> >>
                ELSE IF a.ul = 0 THEN <<>> ELSE << <<a.ur, a.us, a.us + a.ul>> >>
BarcodeLen(a) == IF a.kind = "scat" THEN a.fb + a.sb ELSE a.bl

---------------------------------------------------------------------------------------------------
(* D-level: demultiplex() on provenance tokens *)
VARIABLES s,      \* strategy (shortName)
          bi,     \* branch of a composite strategy that accepts (abstracts which whitelist matched)
          reads,  \* input records: sequence (1 or 2) of token sequences; the quality string carries the same tokens
          pc, loc, recs
vars == <<s, bi, reads, pc, loc, recs>>
Arg == A[s][bi]
Tokens(m, n) == [i \in 1 .. n |-> <<m, i - 1>>]
NoLoc == [bc |-> <<>>, umi |-> <<>>, umiq |-> <<>>, bcq |-> <<>>, rp |-> <<>>, lig |-> <<>>, ligq |-> <<>>]
LenPairs == IF Pairing = "full" THEN (0 .. MaxL) \X (0 .. MaxL)
            ELSE { p \in (0 .. MaxL) \X (0 .. MaxL) : p[1] = p[2] \/ p[1] \in {0, MaxL} \/ p[2] \in {0, MaxL} }

Init == /\ s \in (IF Only = {} THEN Strategies ELSE Only)
        /\ bi \in DOMAIN A[s]
        /\ \E p \in LenPairs, nm \in {1, 2} : reads = [m \in 1 .. nm |-> Tokens(m, p[m])]
        /\ pc = "start" /\ loc = NoLoc /\ recs = <<>>

Raise == pc' = "raised" /\ UNCHANGED <<s, bi, reads, loc, recs>>       \* IndexError etc.: the pair is not accepted
Goto(l) == pc' = l /\ UNCHANGED <<s, bi, reads, loc, recs>>

(* len(records) checks of the subclass, then the ligation slices taken before the base class runs *)
LigationSlice ==
    /\ pc = "start"
    /\ IF Len(reads) \notin Arg.need THEN pc' = "rejected" /\ UNCHANGED loc
       ELSE /\ pc' = "base"
            /\ loc' = IF Arg.lig >= 0 THEN [loc EXCEPT !.lig = PySlice(reads[1], Arg.lig, Arg.lig + 2), !.ligq = PySlice(reads[1], Arg.lig, Arg.lig + 2)]
                      ELSE loc
    /\ UNCHANGED <<s, bi, reads, recs>>

(* IlluminaBaseDemultiplexer.demultiplex(inherited=True): one TaggedRecord per input record, carrying the raw sequence *)
BaseTag ==
    /\ pc = "base"
    /\ recs' = [m \in DOMAIN reads |-> [tags |-> NoTags, seq |-> reads[m], qual |-> reads[m]]]
    /\ pc' = IF Arg.kind = "illu" THEN "done" ELSE "barcode"
    /\ UNCHANGED <<s, bi, reads, loc>>

SliceBarcode ==
    /\ pc = "barcode"
    /\ IF \E k \in DOMAIN BarcodePieces(Arg) : BarcodePieces(Arg)[k][1] > Len(reads) /\ Arg.kind = "umibc" THEN Raise
       ELSE /\ loc' = [loc EXCEPT !.bc = Pieces(reads, BarcodePieces(Arg)), !.bcq = Pieces(reads, BarcodePieces(Arg))]
            /\ pc' = "lookup" /\ UNCHANGED <<s, bi, reads, recs>>

(* whitelist lookup: only a complete barcode can be a member; membership itself is abstract *)
Lookup(ok) ==
    /\ pc = "lookup"
    /\ IF ok /\ Len(loc.bc) = BarcodeLen(Arg) THEN Goto("primer") ELSE Goto("rejected")

SlicePrimer ==
    /\ pc = "primer"
    /\ IF Arg.kind = "umibc" /\ Arg.rr # 0
       THEN IF Arg.rr > Len(reads) THEN Raise
            ELSE loc' = [loc EXCEPT !.rp = PySlice(reads[Arg.rr], 0, Arg.rl)] /\ pc' = "umi" /\ UNCHANGED <<s, bi, reads, recs>>
       ELSE Goto("umi")

SliceUmi ==
    /\ pc = "umi"
    /\ loc' = [loc EXCEPT !.umi = Pieces(reads, UmiPieces(Arg)), !.umiq = Pieces(reads, UmiPieces(Arg))]
    /\ pc' = "tag" /\ UNCHANGED <<s, bi, reads, recs>>

(* the loop over taggedRecords: every record gets the same tags *)
TagRecords ==
    /\ pc = "tag"
    /\ LET base == [bc |-> loc.bc]
           t1 == IF UmiPieces(Arg) # <<>> THEN [RX |-> loc.umi, RQ |-> loc.umiq] @@ base ELSE base
           t2 == IF Arg.kind = "umibc" /\ Arg.rr # 0 THEN [rS |-> loc.rp] @@ t1 ELSE t1
           xs == IF Arg.kind = "umibc" THEN Arg.xs ELSE <<>>
           t3 == FoldLeft(LAMBDA acc, x : (IF x.q = "" THEN [u \in {x.t} |-> PySlice(reads[x.m], x.lo, x.lo + x.n)]
                                            ELSE [u \in {x.t, x.q} |-> PySlice(reads[x.m], x.lo, x.lo + x.n)]) @@ acc, t2, xs)
           t4 == IF xs # <<>> THEN [QT |-> loc.bcq] @@ t3 ELSE t3
       IN recs' = [m \in DOMAIN recs |-> [recs[m] EXCEPT !.tags = t4]]
    /\ pc' = "capture" /\ UNCHANGED <<s, bi, reads, loc>>

(* the loop assigning taggedRecord.sequence / .qualities *)
Capture ==
    /\ pc = "capture"
    /\ recs' = [m \in DOMAIN recs |-> [recs[m] EXCEPT !.seq = PySlice(reads[m], CaptureStarts(Arg)[m], INF),
                                                       !.qual = PySlice(reads[m], CaptureStarts(Arg)[m], INF)]]
    /\ pc' = "ligtags" /\ UNCHANGED <<s, bi, reads, loc>>

AddLigationTags ==
    /\ pc = "ligtags"
    /\ IF Arg.lig < 0 THEN Goto("post")
       ELSE IF Arg.ligr = "pair" /\ Len(recs) < 2 THEN Raise
       ELSE /\ recs' = [m \in DOMAIN recs |-> IF Arg.ligr = "first" /\ m > 1 THEN recs[m]
                                               ELSE [recs[m] EXCEPT !.tags = [lh |-> loc.lig, lq |-> loc.ligq] @@ @]]
            /\ pc' = "post" /\ UNCHANGED <<s, bi, reads, loc>>

(* content dependent steps; k abstracts the content:                                                    *)
(*   clip1  (CHICTV, scCHIC.py:232-254)  k = position of the oligo in the R1 insert: clip there, tu = up to 6 bases before it *)
(*   trim2  (TCHIC,  scCHIC.py:306-321,380) k = length R2 is trimmed to (k = Len: untouched)             *)
(*   skipT1 (DamID.py:166-174)           k = number of leading T dropped from the R1 insert              *)
Post(k) ==
    /\ pc = "post"
    /\ CASE Arg.post = "none" -> k = 0 /\ Goto("done")
         [] Arg.post = "clip1" ->
                /\ k + 9 <= Len(recs[1].seq)
                /\ recs' = [m \in DOMAIN recs |-> [recs[m] EXCEPT !.tags = [tu |-> SubSeq(recs[1].seq, Max2(0, k - 6) + 1, k)] @@ @,
                                                                   !.seq = IF m = 1 THEN Take(@, k) ELSE @,
                                                                   !.qual = IF m = 1 THEN Take(@, k) ELSE @]]
                /\ pc' = "done" /\ UNCHANGED <<s, bi, reads, loc>>
         [] Arg.post = "trim2" ->
                /\ k <= Len(recs[2].seq)
                /\ recs' = [recs EXCEPT ![2].seq = Take(@, k), ![2].qual = Take(@, k)]
                /\ pc' = "done" /\ UNCHANGED <<s, bi, reads, loc>>
         [] Arg.post \in {"skipT1", "skipT1_last"} ->
                /\ k <= Max2(0, Len(recs[1].seq) - 1)
                /\ LET pruned == [recs EXCEPT ![1].seq = DropN(@, k), ![1].qual = DropN(@, k)] IN
                   recs' = IF Arg.post = "skipT1_last" THEN << pruned[Len(pruned)] >> ELSE pruned
                /\ pc' = "done" /\ UNCHANGED <<s, bi, reads, loc>>

(* the oligo is absent (CHICTV) / poly-T read (TCHIC): NonMultiplexable after the base class accepted *)
PostReject == pc = "post" /\ Arg.post \in {"clip1", "trim2"} /\ Goto("rejected")

Next == \/ LigationSlice \/ BaseTag \/ SliceBarcode \/ \E ok \in BOOLEAN : Lookup(ok) \/ SlicePrimer \/ SliceUmi
        \/ TagRecords \/ Capture \/ AddLigationTags \/ \E k \in 0 .. MaxL : Post(k) \/ PostReject
Spec == Init /\ [][Next]_vars

---------------------------------------------------------------------------------------------------
(* Properties (evaluated when a pair has been accepted) *)
Id(x) == x
Yes(x) == TRUE
Accepted == pc = "done"
Branch == L[s][bi]

(* the code (D-level) implements the table (P-level) for every read length *)
Inv_C02_Refines == Accepted => BranchVerdict(Branch, reads, reads, recs, Id, Id, Yes) = "ok"

(* a pair is only accepted with a number of records the table allows *)
Inv_C02_Mates == Accepted => Len(reads) \in Branch.mates

(* accounting on provenance tokens, independent of the table's slices (only its named overlaps are used) *)
SeqTags(r) == { t \in DOMAIN r.tags : t \in {"bc", "RX", "rS", "lh", "ES", "IS", "tu"} }
TagTokens(r, t) == SeqSet(r.tags[t])
Inv_C02_Accounting ==
    Accepted =>
      \A m \in DOMAIN recs :
        LET r == recs[m]
            n == Len(reads[m])
            emitted == SeqSet(r.seq)
            start == IF r.seq = <<>> THEN Min2(n, Branch.ins[m]) ELSE r.seq[1][2]
            stop  == start + Len(r.seq)                                   \* end of the emitted stretch
            tagged == UNION { TagTokens(r, t) : t \in SeqTags(r) }
            skipped == IF Branch.trim[m] = "skipT" THEN { <<m, i>> : i \in Branch.ins[m] .. (start - 1) } ELSE {}
        IN /\ \A k \in DOMAIN r.seq : r.seq[k] = <<m, start + k - 1>>                                   \* contiguous, own mate, none invented
           /\ r.qual = r.seq                                                                            \* index aligned
           /\ \A i \in 0 .. (stop - 1) : <<m, i>> \in emitted \cup tagged \cup skipped                    \* accounted for
           /\ \A t \in SeqTags(r) : \A x \in TagTokens(r, t) : x[1] \in DOMAIN reads /\ x[2] < Len(reads[x[1]])   \* tags hold input positions
           /\ \A x \in emitted \cap tagged : x \in Branch.both \/ ("tu" \in DOMAIN r.tags /\ x \in TagTokens(r, "tu"))   \* no tag base emitted as insert
           /\ \A t, u \in SeqTags(r) : t # u => \A x \in TagTokens(r, t) \cap TagTokens(r, u) : x \in Branch.multi \/ "tu" \in {t, u}   \* no position in two tags
           /\ \A q \in DOMAIN Branch.qt : TagVal(r.tags, q) = TagVal(r.tags, Branch.qt[q])               \* quality tags aligned with base tags

---------------------------------------------------------------------------------------------------
(* spec -> code: the layouts as scenarios for the generator of the driver (one line per strategy branch) *)
Scenario(st, i) ==
    LET b == L[st][i]
        bcp == IF "bc" \in DOMAIN b.tags THEN b.tags["bc"] ELSE <<>>
        cuts == UNION { UNION { {b.tags[t][k][2], b.tags[t][k][3]} : k \in DOMAIN b.tags[t] } : t \in DOMAIN b.tags } IN
    [strategy |-> st, branch |-> i, wl |-> b.wl, mates |-> b.mates,
     bc |-> bcp,
     ins |-> b.ins, trim |-> b.trim, rel |-> b.rel,
     need |-> [m \in {1, 2} |-> MaxOf({0} \cup { bcp[k][3] : k \in { j \in DOMAIN bcp : bcp[j][1] = m } })],
     cuts |-> cuts \cup {b.ins[1], b.ins[2]},
     \* base/quality tags that EVERY branch of the strategy sets: an already demultiplexed input header may carry stale values of them
     settags |-> { t \in BaseTags : \A j \in DOMAIN L[st] : t \in DOMAIN L[st][j].tags \cup DOMAIN L[st][j].qt }]
EmitScenarios(dummy) == \A st \in Strategies : \A i \in DOMAIN L[st] : PrintT("@@SCENARIO " \o ToJson(Scenario(st, i)))
GenInit == EmitScenarios(0) /\ s = "ILLU" /\ bi = 1 /\ reads = <<>> /\ pc = "gen" /\ loc = NoLoc /\ recs = <<>>
GenNext == FALSE /\ UNCHANGED vars
=====================================================================================================
