INIT Init
NEXT Next
CONSTANTS
  Ln = 7
  Tilings <- T_m3
  MaxFrags = 2
  MaxLen = 2
  SpanSlack = 0
  Umis = {1}
  Invalid = TRUE
  NoSite = FALSE
  MaxUnplaced = 0
  PairedOK = TRUE
  EqualLen = FALSE
  SiteOut = 1
  AnyOrder = FALSE
  Variant = "design"
INVARIANT TypeOK
INVARIANT Inv_C08_NoForeign
INVARIANT Inv_C08_OneOwner
INVARIANT Inv_C08_Complete
INVARIANT Inv_C08_Equal
CHECK_DEADLOCK FALSE
