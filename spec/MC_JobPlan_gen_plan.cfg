INIT Init
NEXT Next
CONSTANTS
  MaxContigs = 4
  MaxN = 1
  MaxStar = 1
  Modes = {"multi"}
  Variant = "design"
CONSTRAINT Emit
CHECK_DEADLOCK FALSE
