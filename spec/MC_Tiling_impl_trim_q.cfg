INIT Init
NEXT Next
CONSTANTS
  MinCoord = 0
  MaxCoord = 4
  BinSizes = {1,2,3,5}
  FragSizes = {0,2}
  AllowNoFrag = TRUE
  BLPad = 1
  MaxBL = 1
  Variant = "impl_trim"
INVARIANT Inv_C17_Clean
INVARIANT Inv_C17_Partition
CHECK_DEADLOCK FALSE
