INIT Init
NEXT Next
CONSTANTS
  NPaths = 3
  Stale = {1, 2}
  Ks = {2}
  MHs = {1,3}
  PEs = {1,3}
  BadChoices = {0,1}
  MaxTransient = 1
  MaxOps = 4
  Variant = "impl_partial"
  Record = FALSE
INVARIANT Inv_C19_Content
INVARIANT Inv_C19_Raise
CHECK_DEADLOCK FALSE
