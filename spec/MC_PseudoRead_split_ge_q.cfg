INIT Init
NEXT Next
CONSTANTS
  Pos = {1, 2, 3}
  ReadBases = {"A"}
  Quals = {10}
  MaxReads = 2
  Refs <- RefsTwo
  UMIs = {1}
  Sites = {7}
  Cap = 0
  MaxNs1 = {0, 2}
  Variant = "split_ge"
INVARIANT Inv_C15_Exists
INVARIANT Inv_C15_Blocks
INVARIANT Inv_C15_Lens
INVARIANT Inv_C15_MD
INVARIANT Inv_C15_Call
INVARIANT Inv_C15_MaxNSpan
INVARIANT Inv_C15_Tags
INVARIANT Inv_D_Split
INVARIANT Inv_C15_CallLemma
CHECK_DEADLOCK FALSE
