INIT Init
NEXT Next
CONSTANTS
  N = 2
  K = 2
  NCells = 2
  MateChoices = {2}
  RejectChoices = {TRUE,FALSE}
  MaxPairChoices = {0,1}
  Classes = {"A","N"}
  PriorChoices = {"stale"}
  PlainStrats = {}
  PairLevelOnly = FALSE
  Variant = "S_append_existing"
INVARIANT TypeOK
INVARIANT Inv_C01_Once
INVARIANT Inv_C01_AtMostOnce
INVARIANT Inv_C01_MateSync
INVARIANT Inv_C01_Order
INVARIANT Inv_C01_Counters
INVARIANT Inv_C01_WellFormed
INVARIANT Inv_C01_RejectFaithful
INVARIANT Inv_Verdict
CHECK_DEADLOCK FALSE
