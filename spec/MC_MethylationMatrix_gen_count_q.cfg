INIT Init
NEXT Next
CONSTANTS
  Samples = {1, 2}
  MaxPos = 3
  ContigLen = 4
  BinSize = 2
  JobSpan = 2
  MaxObs = 3
  MaxTouch = 0
  Dyad = FALSE
  Revs = {FALSE}
  JobK <- K0
  JobMV <- Km1
  MaxPost = 0
  PostKs <- PostKsPlain
  TrackHist = TRUE
  Variant = "design"
CONSTRAINT Emit
CHECK_DEADLOCK FALSE
