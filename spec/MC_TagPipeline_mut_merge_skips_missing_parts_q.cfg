INIT Init
NEXT Next
CONSTANTS
  Mutation = "merge_skips_missing_parts"
  NMol = 1
  NJobs = 2
  Pipelines = {"single", "multi"}
  PrevChoices = {TRUE, FALSE}
  SizeChoices <- AllSizes
  StatusOrder = "design"
  PlanVariant = "design"
INVARIANT Inv_C20
INVARIANT Inv_C05_Finished
INVARIANT Inv_Type
CHECK_DEADLOCK FALSE
