-------------------------------------- MODULE Trace_Features --------------------------------------
(* Histories of real FeatureContainer objects judged by the P-level definitions of FeaturesOps.   *)
(* C16 is a history property: the abstract feature bag of every container of the current history  *)
(* (`tid`) is carried in the TLA+ variable `bag` and updated by the recorded add events; every     *)
(* recorded answer is compared with TrueAt / TrueBetween / TrueAnnot* over that bag.               *)
(* Events (raw observations, recorded by drive_features.py; cid = container 0..3 within the tid):  *)
(*  {"ev":"add","tid","cid","c","f":[s,e,name,strand],"raised":""}   {"ev":"sort","tid","cid","raised":""} *)
(*  {"ev":"at","tid","cid","c","a","st","res":[[s,e,name,strand]..],"raised":""}                   *)
(*  {"ev":"between","tid","cid","c","a","b","st","res":[..],"raised":""}                            *)
(*  {"ev":"annot","tid","cid","c","blocks":[[bs,be]..],"st","m","res":[..],"raised":""}            *)
(*  {"ev":"mol","tid","cid","c","reads":[{"mate":1|2,"rev":bool,"blocks":[[bs,be]..]}..],"stranded":"none"|"false"|"true", *)
(*   "m","cap","auto","res":[..],"genes":[name..],"exons":[feature..],"introns":[name..],"junctions":[name..],  *)
(*   "gn":[name..],"locs":[[name,s,e,strand]..],"spliced","raised":""}                                          *)
(*   FeatureAnnotatedMolecule on one fragment: annotate(method=m) + set_intron_exon_features() (auto: both from  *)
(*   the constructor); res = features behind the keys of .hits; genes/exons/introns/junctions/gn = the sets the *)
(*   class derives; locs = feature_locations when capture_locations (cap)                                       *)
(*  an event with a field "soft":"<reason>" is an observation of a call variant outside the documented API       *)
(*  (findFeaturesAt(optim=<anything but bdbnb/nb/optim>)): a failing verdict is reported as @@NOTE soft_..., never rejected *)
(* `clean[cid]` = no add since the last explicit sort(): findFeaturesBetween and                   *)
(* findFeaturesAtPysamAlign do not sort themselves, so calling them on a container that was not    *)
(* re-indexed is outside the add*/sort/query* pattern of the statement (noted, not judged);         *)
(* findFeaturesAt sorts automatically and is always judged.                                        *)
EXTENDS TraceLib, FeaturesOps

VARIABLES l, bag, clean

Cids == 0 .. 3
EmptyBags == [k \in Cids |-> <<>>]
AllClean == [k \in Cids |-> TRUE]

Res(e) == SeqSet(e.res)
Pairs(q) == [k \in DOMAIN q |-> << q[k][1], q[k][2] >>]
(* bag restricted to its first n entries: the feature set of an earlier moment of the history *)
Earlier(b, c, n) == OnContig(SubSeq(b, 1, n), c)
Stale(b, e, truthOf(_)) == \E n \in 0 .. (Len(b) - 1) : Res(e) = truthOf(Earlier(b, e.c, n))

Classify(b, e, truthOf(_), name) ==
    IF Res(e) = truthOf(OnContig(b, e.c)) THEN "ok"
    ELSE IF Stale(b, e, truthOf) THEN name \o "_stale_earlier_state"
    ELSE IF ~(truthOf(OnContig(b, e.c)) \subseteq Res(e)) THEN name \o "_missing"
    ELSE name \o "_extra"

AtV(b, e) == LET t(F) == TrueAt(F, e.a, e.st) IN Classify(b, e, t, "Inv_C16_At")
BetweenV(b, e) == LET t(F) == TrueBetween(F, e.a, e.b, e.st) IN Classify(b, e, t, "Inv_C16_Between")
AnnotV(b, e) ==
    LET F == OnContig(b, e.c)
        bl == Pairs(e.blocks)
        lo(G) == TrueAnnotBases(G, bl, e.st)
    IN IF e.m = 0 THEN Classify(b, e, lo, "Inv_C16_Annotate")
       ELSE IF ~(lo(F) \subseteq Res(e))
            THEN (IF \E n \in 0 .. (Len(b) - 1) : Res(e) \subseteq TrueAnnotClosed(Earlier(b, e.c, n), bl, e.st)
                                                  /\ lo(Earlier(b, e.c, n)) \subseteq Res(e)
                  THEN "Inv_C16_Annotate_stale_earlier_state" ELSE "Inv_C16_Annotate_missing")
       ELSE IF ~(Res(e) \subseteq TrueAnnotClosed(F, bl, e.st)) THEN "Inv_C16_Annotate_extra"
       ELSE "ok"

(* molecule layer (featureannotatedmolecule.py): stranded None -> any strand; False -> the strand of the       *)
(* molecule = strand of R1 (for an R2-only fragment the opposite of R2); True -> the other strand.             *)
MolRev(e) == IF \E i \in DOMAIN e.reads : e.reads[i].mate = 1
             THEN e.reads[CHOOSE i \in DOMAIN e.reads : e.reads[i].mate = 1].rev
             ELSE ~e.reads[CHOOSE i \in DOMAIN e.reads : e.reads[i].mate = 2].rev
MolStrand(e) == CASE e.stranded = "none" -> AnyStrand
                  [] e.stranded = "false" -> (IF MolRev(e) THEN "-" ELSE "+")
                  [] e.stranded = "true" -> (IF MolRev(e) THEN "+" ELSE "-")
MolTruth(F, e) == UNION { TrueAnnotBases(F, Pairs(e.reads[i].blocks), MolStrand(e)) : i \in DOMAIN e.reads }
MolV(b, e) == IF Len(e.reads) = 0 \/ \E i \in DOMAIN e.reads : e.reads[i].mate \notin {1, 2} THEN "Inv_C16_Mol_malformed" ELSE
              LET t(F) == MolTruth(F, e)
                  v == Classify(b, e, t, "Inv_C16_MolAnnotate")
                  T == t(OnContig(b, e.c))
                  (* what set_intron_exon_features derives from the hits (driver's data scheme: gene = feature name, *)
                  (* "h" and minus-strand "exon7" features are introns, unnamed ones have an ignored type, every      *)
                  (* other feature is an exon of its own of transcript t1)                                           *)
                  IsIntron(f) == f[3] = "h" \/ (f[3] = "exon7" /\ f[4] = "-")
                  IsOther(f) == f[3] = ""                                  \* type CDS: ignored by the class
                  EX == { f \in T : ~IsIntron(f) /\ ~IsOther(f) }
                  IN_ == { f \in T : IsIntron(f) }
                  Names(S) == { f[3] : f \in S }
              IN IF v # "ok" THEN v
                 ELSE IF SeqSet(e.genes) # Names(EX \cup IN_) \/ SeqSet(e.exons) # EX \/ SeqSet(e.introns) # Names(IN_)
                         \/ SeqSet(e.gn) # Names(EX) THEN "Inv_C16_MolGenes"
                 ELSE IF SeqSet(e.junctions) # { g \in Names(EX) : Cardinality({ f \in EX : f[3] = g }) >= 2 } THEN "Inv_C16_MolJunctions"
                 ELSE IF e.cap /\ SeqSet(e.locs) # { << f[3], f[1], f[2], f[4] >> : f \in T } THEN "Inv_C16_MolLocations"
                 ELSE "ok"

QueryPre(e) == CASE e.ev = "between" -> e.a <= e.b
                 [] e.ev = "annot" -> \A k \in DOMAIN e.blocks : e.blocks[k][1] < e.blocks[k][2]
                 [] OTHER -> TRUE

Verdict(b, cl, e) ==
    IF e.raised # "" THEN "Inv_C16_Raised"
    ELSE CASE e.ev = "at" -> AtV(b, e)
           [] e.ev = "between" -> IF cl /\ QueryPre(e) THEN BetweenV(b, e) ELSE "ok"
           [] e.ev = "annot" -> IF cl /\ QueryPre(e) THEN AnnotV(b, e) ELSE "ok"
           [] e.ev = "mol" -> IF cl THEN MolV(b, e) ELSE "ok"
           [] e.ev \in {"add", "sort"} -> "ok"
           [] OTHER -> "unknown_event"

(* Totality: a raised call carries no answer fields, so nothing but `raised` is read then; answers are  *)
(* compared as sets of tuples (tuples of another length are simply unequal); no recursive operator.   *)
Notes(line, b, cl, e) ==
    IF e.raised # "" THEN TRUE
    ELSE IF e.ev \in {"between", "annot", "mol"} /\ ~(cl /\ QueryPre(e)) THEN Note(line, e.tid, "outside_precondition_unsorted_or_empty_range")
    ELSE IF e.ev = "annot" /\ e.raised = "" /\ e.m = 1
            /\ Res(e) # TrueAnnotBases(OnContig(b, e.c), Pairs(e.blocks), e.st) /\ AnnotV(b, e) = "ok"
         THEN Note(line, e.tid, "annot_method1_includes_base_after_block_end")
    ELSE TRUE

AddPre(e) == e.f[1] <= e.f[2] /\ e.f[1] >= 0 /\ e.f[4] \in {"+", "-"}

TInit == l = 1 /\ bag = EmptyBags /\ clean = AllClean
TNext ==
    /\ l <= Len(Log)
    /\ LET e == Log[l]
           fresh == l = 1 \/ Log[l - 1].tid # e.tid
           b0 == IF fresh THEN EmptyBags ELSE bag
           c0 == IF fresh THEN AllClean ELSE clean
       IN /\ (IF Has(e, "soft") /\ Verdict(b0[e.cid], c0[e.cid], e) # "ok"      \* observed-only call variants (see docs): never an alarm
              THEN Note(l, e.tid, "soft_" \o e.soft \o "_" \o Verdict(b0[e.cid], c0[e.cid], e))
              ELSE Judge(l, Verdict(b0[e.cid], c0[e.cid], e)))
          /\ Notes(l, b0[e.cid], c0[e.cid], e)
          /\ IF e.ev = "add"
             THEN /\ bag' = [b0 EXCEPT ![e.cid] = Append(@, << e.c, << e.f[1], e.f[2], e.f[3], e.f[4] >> >>)]
                  /\ clean' = [c0 EXCEPT ![e.cid] = FALSE]
                  /\ (IF AddPre(e) THEN TRUE ELSE Note(l, e.tid, "outside_precondition_feature"))
             ELSE IF e.ev = "sort"
             THEN bag' = b0 /\ clean' = [c0 EXCEPT ![e.cid] = TRUE]
             ELSE bag' = b0 /\ clean' = c0
    /\ l' = l + 1
TAccepted == TLCGet("stats").diameter - 1 = Len(Log)
=====================================================================================================
