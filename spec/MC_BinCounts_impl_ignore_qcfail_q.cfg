INIT Init
NEXT Next
CONSTANTS
  Variant = "impl_ignore_qcfail"
  LenA = 6
  LenB = 2
  BinSizes = {2, 3}
  Bpjs = {1, 2, 4}
  Mfss = {0, 2}
  KindSet = {"good", "qcfail"}
  KwargsSet = {"ignore_mp"}
  UseKeySet = {FALSE}
  NFiles = 1
  MaxRecs = 1
  Threads = 2
INVARIANT Inv_C12_Matrix
INVARIANT Inv_C12_Invariant
INVARIANT Inv_C12_Total
CHECK_DEADLOCK FALSE
