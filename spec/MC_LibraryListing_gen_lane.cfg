INIT Init
NEXT Next
CONSTANTS
  Schemes = {"ill", "filt", "und", "pln", "srr"}
  LibChoice = "small"
  NLanes = 2
  NChunks = 1
  MaxFiles = 3
  ReplIdx = {1}
  SlibIdx = {0}
  Merges = {0}
  SEs = {TRUE, FALSE}
  Ignores = {TRUE, FALSE}
  Verboses = {FALSE}
  Globs = {FALSE}
  Variant = "design"
CONSTRAINT Emit
CHECK_DEADLOCK FALSE
