INIT GenInit
NEXT GenNext
CONSTANTS
  MaxL = 1
  Variant = "design"
  Pairing = "cross"
  Only = {}
CHECK_DEADLOCK FALSE
