INIT Init
NEXT Next
CONSTANTS
  ValChars = {97, 95}
  MaxLy = 3
  QChars = {33, 84}
  MaxUmi = 2
  Indexes = {"single", "empty"}
  Limit = 60
  Shapes = {"rr"}
  RequireSafe = TRUE
  Variant = "drop_empty"
INVARIANT Inv_C04_QTotal
INVARIANT Inv_C04_Refuse
INVARIANT Inv_C04_NoRaise
INVARIANT Inv_C04_RoundTrip
CHECK_DEADLOCK FALSE
