INIT Init
NEXT Next
CONSTANTS
  MaxCoord = 12
  MaxBin = 4
  RefLen = 10
  MaxReads = 2
  Weights = {1, 2}
  Variant = "impl"
INVARIANT Inv_C10_Membership
INVARIANT Inv_C10_Single
INVARIANT Inv_C10_Table
INVARIANT Inv_C10_Total
INVARIANT Inv_C10_NoDouble
CHECK_DEADLOCK FALSE
