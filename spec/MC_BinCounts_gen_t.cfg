INIT Init
NEXT Next
CONSTANTS
  Variant = "design"
  LenA = 9
  LenB = 4
  BinSizes = {2, 3, 4}
  Bpjs = {1, 2, 3, 5}
  Mfss = {0, 1, 3}
  KindSet = {"good", "dup", "unpaired"}
  KwargsSet = {"empty"}
  UseKeySet = {TRUE}
  NFiles = 1
  MaxRecs = 1
  Threads = 1
CONSTRAINT Emit
CHECK_DEADLOCK FALSE
