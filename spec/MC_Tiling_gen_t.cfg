INIT Init
NEXT Next
CONSTANTS
  MinCoord = 0
  MaxCoord = 5
  BinSizes = {1,2,3,4,6}
  FragSizes = {0,1,3}
  AllowNoFrag = TRUE
  BLPad = 1
  MaxBL = 2
  Variant = "design"
CHECK_DEADLOCK FALSE
CONSTRAINT EmitScenario
