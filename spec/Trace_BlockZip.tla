-------------------------------------- MODULE Trace_BlockZip --------------------------------------
(* {"ev":"history","tid":n,"read_all":bool,"contiguous":bool,                                      *)
(*  "writes":[{"c","p","s","d"}], "gets":[{"c","p","s","a"}]}   a = "none" when the lookup gave None *)
EXTENDS TraceLib, Util
VARIABLE l
Expected(f, c, p, s) ==
    LET hits == { i \in DOMAIN f : f[i].c = c /\ f[i].p = p /\ f[i].s = s }
    IN IF hits = {} THEN "none" ELSE f[MaxOf(hits)].d
Contiguous(f) == \A i, j \in DOMAIN f : (i < j /\ f[i].c = f[j].c) => \A k \in i .. j : f[k].c = f[i].c
Verdict(e) ==
    IF ~Contiguous(e.writes) THEN "ok"      \* outside the documented precondition: observation only
    ELSE IF \E i \in DOMAIN e.gets : e.gets[i].a # Expected(e.writes, e.gets[i].c, e.gets[i].p, e.gets[i].s)
         THEN "Inv_X01_Lookup" ELSE "ok"
TInit == l = 1
TNext == /\ l <= Len(Log)
         /\ Judge(l, Verdict(Log[l]))
         /\ (IF Contiguous(Log[l].writes) THEN TRUE ELSE Note(l, Log[l].tid, "mixed_contigs_outside_precondition"))
         /\ l' = l + 1
TAccepted == TLCGet("stats").diameter - 1 = Len(Log)
=====================================================================================================
