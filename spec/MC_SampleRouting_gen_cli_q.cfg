INIT Init
NEXT Next
CONSTANTS
  SampleNames = {"a", "b"}
  NoSM = TRUE
  AsgSamples = {"a", "b"}
  GroupNames = {"g", "h"}
  MaxRecs = 2
  MaxGroups = 2
  MaxPerGroup = 2
  HeadMax = 1
  WRGs = {TRUE}
  Prefix = "P_"
  StemWithBam = FALSE
  Mode = "cli"
  MaxLines = 2
  Variant = "design"
  NoCols = {FALSE}
  AddChrs = {FALSE}
  DupFlags = {FALSE}
  LowQFlags = {FALSE}
  PosMax = 1
  MapqReading = "ignored"
CONSTRAINT Emit
CHECK_DEADLOCK FALSE
