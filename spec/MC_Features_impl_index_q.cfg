INIT Init
NEXT Next
CONSTANTS
  MaxCoord = 2
  FeatStrands = {"+"}
  QStrands = {"."}
  NContigs = 1
  MemoCap = 4
  MaxFeat = 3
  MaxSorts = 2
  MaxQueries = 0
  BetweenOn = FALSE
  AnnotLevel = 0
  UnsortedQueries = FALSE
  TrackHist = FALSE
  Variant = "impl"
INVARIANT Inv_D_IndexFresh
CHECK_DEADLOCK FALSE
