INIT Init
NEXT Next
CONSTANTS
  NPaths = 5
  Stale = {1, 2}
  Ks = {1,2,3,4}
  MHs = {0,1,2,4}
  PEs = {1,2,3,5}
  BadChoices = {0,0,3}
  MaxTransient = 2
  MaxOps = 12
  Variant = "design"
  Record = TRUE
CONSTRAINT Emit
CHECK_DEADLOCK FALSE
