INIT Init
NEXT Next
CONSTANTS
  L = 3
  Alphabet = {"A", "C", "G", "T", "N"}
  Mode = "geometry"
  GeomRefs = {"allC", "allG", "CG"}
  MaxFrags = 2
  DistMode = "zero"
  Variant = "design"
CONSTRAINT Emit
CHECK_DEADLOCK FALSE
