INIT Init
NEXT Next
CONSTANTS
  L = 3
  Alphabet = {"A", "C", "G", "T", "N"}
  Mode = "context"
  GeomRefs = {"allC", "allG", "CG"}
  MaxFrags = 1
  DistMode = "zero"
  Variant = "chg_table_entry_wrong"
INVARIANT Inv_C14_OnTarget
INVARIANT Inv_C14_DoveSafe
INVARIANT Inv_C14_OnConsensus
INVARIANT Inv_C14_Letter
INVARIANT Inv_C14_Case
INVARIANT Inv_C14_XMLen
INVARIANT Inv_C14_XMLetter
INVARIANT Inv_C14_Totals
INVARIANT Inv_C14_All
CHECK_DEADLOCK FALSE
