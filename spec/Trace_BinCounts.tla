------------------------------------- MODULE Trace_BinCounts -------------------------------------
(* Observations of the real bamBinCounts entry points judged by the P-level definitions of        *)
(* BinCounts.tla (Qualifies, BinOf, ExpectedMatrixOver).                                           *)
(*  {"ev":"bam","tid","contigs":[..],"lens":[..],"nfiles":n,"recs":[{record}..]}  the BAM(s) the next   *)
(*        runs read; record field "file" = index of the library in the list given to generate_commands *)
(*  {"ev":"run","tid","group":g,"cfg":{bin,bpj,mfs,minmq,dedup,kwargs,usekey},"pool","threads",    *)
(*         "raised":"", "counts":[{"bin":[key,contig,start,end],"sample":s,"n":k}]}                 *)
(*        obtain_counts(generate_commands(..)); runs of one group differ only in bins_per_job,      *)
(*        thread count and completion order                                                        *)
(*  {"ev":"gbc","tid","bin":b,"regions":"none"|"tiling","raised":"",                               *)
(*         "counts":[{"bin":[contig,start],"sample":s,"n":k}]}       get_binned_counts              *)
(* Records are the generator's abstract description (the BAM bytes are derived from it).           *)
EXTENDS TraceLib, BinCounts

VARIABLES l, cur, ref      \* cur: line of the current "bam" event; ref: first run of the current group

LenIn(b, cn) == b.lens[CHOOSE k \in DOMAIN b.contigs : b.contigs[k] = cn]

(* records without SM tag (sample "") belong to no cell; the code books them under a placeholder column ('bulk' /
   'No_Sample'). Whatever its name: every column that is not a real cell of the BAM is read as the placeholder "",
   so a real cell's column must hold exactly its own records *)
RealCells(b) == { b.recs[k].sample : k \in DOMAIN b.recs } \ { "" }
Norm(b, s) == IF s \in RealCells(b) THEN s ELSE ""
GotMatrix(e, b) == LET cells == { << e.counts[k].bin, Norm(b, e.counts[k].sample) >> : k \in DOMAIN e.counts }
                   IN [cell \in cells |-> LET g(x) == IF << x.bin, Norm(b, x.sample) >> = cell THEN x.n ELSE 0 IN SumSeqF(e.counts, g)]
At(m, cell) == IF cell \in DOMAIN m THEN m[cell] ELSE 0

RunPre(e, b) == IF ~CellsDisjoint(b.recs) THEN "same_cell_in_several_bams_outside_the_statement"
                ELSE IF \E k \in DOMAIN b.recs : Qualifies(b.recs[k], e.cfg) /\ ~InPrecondition(b.recs[k], e.cfg, LenIn(b, b.recs[k].contig))
                THEN "record_outside_precondition_site_beyond_max_fragment_size_or_contig" ELSE "ok"

(* generate_commands(skip_contigs=..): no job is planned for those contigs, their records are not part of the matrix *)
Kept(e, b) == SelectSeq(b.recs, LAMBDA r : r.contig \notin SeqSet(e.cfg.skip))
RunVerdict(e, b, r0) ==
    LET lenOf(cn) == LenIn(b, cn)
        exp == ExpectedMatrixOver(Kept(e, b), e.cfg, lenOf)
        got == GotMatrix(e, b)
        cells == DOMAIN exp \cup DOMAIN got
    IN IF e.raised # "" THEN "Inv_C12_Total_NoRaise"
       ELSE IF \E cell \in cells : At(got, cell) > At(exp, cell) THEN "Inv_C12_Matrix_overcount"
       ELSE IF \E cell \in cells : At(got, cell) < At(exp, cell) THEN "Inv_C12_Matrix_undercount"
       ELSE IF TotalOf(got) # ExpectedTotalOver(Kept(e, b), e.cfg) THEN "Inv_C12_Total"
       ELSE IF r0.group = e.group /\ r0.raised = "" /\ SeqSet(r0.counts) # SeqSet(e.counts) THEN "Inv_C12_Invariant"
       ELSE "ok"

(* get_binned_counts has no mapping-quality and no mappability argument: a read-1 record that is only excluded by
   those two clauses of the statement may or may not be counted (lo / hi) *)
GbcCell(r, bin) == << << r.contig, (r.site \div bin) * bin >>, r.sample >>
GbcCount(rs, bin, strict, cell) ==
    Cardinality({ k \in DOMAIN rs : /\ (rs[k].r1 \/ (~strict /\ ~rs[k].paired))      \* single-end records: undecided here
                                      /\ ~rs[k].qcfail /\ ~rs[k].dup
                                      /\ (strict => rs[k].mp \in {"", "unique"})
                                      /\ GbcCell(rs[k], bin) = cell })
(* a read 2 flagged "proper pair" whose read 1 is not on the same contig of the same BAM (legal SAM, not produced by
   aligners): mate_iter hands it out alone in the R1 slot and get_binned_counts counts it as a read 1 - reported as an
   observation, not judged *)
LoneProperRead2(b) ==
    \E k \in DOMAIN b.recs : /\ ~b.recs[k].r1 /\ b.recs[k].proper
                             /\ ~\E j \in DOMAIN b.recs : /\ b.recs[j].r1 /\ b.recs[j].name = b.recs[k].name
                                                          /\ b.recs[j].contig = b.recs[k].contig /\ b.recs[j].file = b.recs[k].file
(* get_binned_counts pairs records by query name (mate_iter) and plans its jobs from the first BAM: BAMs that hold
   supplementary / secondary read-1 records (shared query names) or BAM lists with differing headers are observations *)
GbcOutside(b) == IF b.hetero THEN "ext_get_binned_counts_bam_list_with_differing_headers_"
                 ELSE IF \E k \in DOMAIN b.recs : b.recs[k].extra THEN "ext_get_binned_counts_shared_query_names_"
                 ELSE ""
GbcVerdict(e, b) ==
    LET got == GotMatrix(e, b)
        cells == DOMAIN got \cup { GbcCell(b.recs[k], e.bin) : k \in DOMAIN b.recs }
    IN IF e.raised # "" THEN "Inv_C12_Total_NoRaise_get_binned_counts"
       ELSE IF \E cell \in cells : At(got, cell) > GbcCount(b.recs, e.bin, FALSE, cell) THEN "Inv_C12_Matrix_overcount_get_binned_counts"
       ELSE IF \E cell \in cells : At(got, cell) < GbcCount(b.recs, e.bin, TRUE, cell) THEN "Inv_C12_Matrix_undercount_get_binned_counts"
       ELSE "ok"

TInit == /\ l = 1 /\ cur = 0 /\ ref = 0
         /\ cfg = 0 /\ recs = <<>> /\ pending = {} /\ results = <<>> /\ merged = {} /\ counts = <<>> /\ status = "trace"
TNext == /\ l <= Len(Log)
         /\ LET e == Log[l] IN
            IF e.ev = "bam" THEN TRUE
            ELSE IF cur = 0 THEN Reject(l, e.tid, "event_without_bam")
            ELSE IF e.ev = "run" THEN
                (IF RunPre(e, Log[cur]) # "ok" THEN Note(l, e.tid, RunPre(e, Log[cur]))
                 ELSE Judge(l, RunVerdict(e, Log[cur], IF ref > 0 THEN Log[ref] ELSE e)))
            ELSE IF e.ev = "gbc" THEN
                (IF GbcOutside(Log[cur]) # "" THEN Note(l, e.tid, GbcOutside(Log[cur]) \o GbcVerdict(e, Log[cur]))
                 ELSE IF e.regions = "none" /\ LoneProperRead2(Log[cur])
                 THEN Note(l, e.tid, IF GbcVerdict(e, Log[cur]) = "ok" THEN "ext_lone_proper_read2_ok"
                                     ELSE "ext_lone_proper_read2_counted_as_read1_" \o GbcVerdict(e, Log[cur]))
                 ELSE IF e.regions = "none" THEN Judge(l, GbcVerdict(e, Log[cur]))
                 \* user supplied adjacent regions are outside the quantifier of C12 (candidate D15): observation only
                 ELSE Note(l, e.tid, IF GbcVerdict(e, Log[cur]) = "ok" THEN "ext_user_regions_ok"
                                     ELSE "ext_D15_user_regions_" \o GbcVerdict(e, Log[cur])))
            ELSE Reject(l, e.tid, "unknown_event")
         /\ l' = l + 1
         /\ cur' = IF Log[l].ev = "bam" THEN l ELSE cur
         /\ ref' = IF Log[l].ev = "bam" THEN 0
                   ELSE IF Log[l].ev = "run" /\ (ref = 0 \/ Log[ref].group # Log[l].group) THEN l ELSE ref
         /\ UNCHANGED vars
TAccepted == TLCGet("stats").diameter - 1 = Len(Log)
=====================================================================================================
