INIT Init
NEXT Next
CONSTANTS
  Kind = "chic"
  HD = 0
  Radius = 1
  Cap = 0
  CacheSize = 6
  ReadLens = {9}
  Cells = {1}
  Contigs = {1}
  Strands = {0}
  Sites = {0,1,2}
  Lens = {1, 2}
  Umis = {0, 1}
  Valids = {TRUE}
  MaxFrags = 4
  Scheds = {0}
  Poolings = {1}
  Variant = "design"
INVARIANT Inv_Conservation
CONSTRAINT Emit
CHECK_DEADLOCK FALSE
