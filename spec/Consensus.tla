---------------------------------------- MODULE Consensus ----------------------------------------
(* C13 - the molecule consensus is the strict majority call and never reports a tie.             *)
(*                                                                                               *)
(* Code: Molecule.get_consensus (molecule.py:2676-2734), Fragment.get_consensus                  *)
(*       (fragment.py:507-528), get_consensus_dictionaries / read_to_consensus_dict /            *)
(*       pick_best_base_call (sequtils.py:338-421).                                              *)
(*                                                                                               *)
(* A mate (aligned read) is a record  [rev, s, e, c]  : orientation, first and last reference    *)
(* position consumed by the alignment (reference_start, reference_end-1) and the partial map     *)
(* c : position -> <<base, quality>> of its aligned (CIGAR M) bases.  A fragment is              *)
(* [hasR1, hasR2, r1, r2].                                                                       *)
(*                                                                                               *)
(* P-level (the property's own definition, no algorithm):                                        *)
(*   FragCallP(f, p, dove)  the one call a fragment contributes at p: the higher-quality mate    *)
(*                          where both cover p; equal quality and different bases, or N: no call *)
(*   ConsP(F, dove)          position -> the base called by strictly more fragments than any other*)
(* D-level (shaped like the code): per-fragment loop body AddFragment = skip rule, dove window,  *)
(*   two per-mate dictionaries, pick_best_base_call as the coded fold, `N` skip, += 1 on the     *)
(*   5-vector; ConsOfVotes = argmax + uniqueness mask.                                           *)
(*                                                                                               *)
(* Variant = "design"        the code as written (no defect suspected for C13)                   *)
(* Named deviations (negative controls, each must violate an invariant):                         *)
(*   "no_unique_mask"  argmax without the `proper` mask  -> a tie is reported                    *)
(*   "mate_tie_first"  pick_best_base_call keeps the first mate on a quality tie                 *)
(*   "count_N"         an N call is counted as a vote for N                                      *)
(*   "window_off"      dove window one position too wide at its end                              *)
EXTENDS Integers, FiniteSets, Sequences, TLC, Util, Json

CONSTANTS Pos,        \* set of reference positions of the model (an interval)
          Bases,      \* subset of {"A","C","G","T","N"}
          Quals,      \* base qualities
          MaxFrags,   \* fragments added in one behaviour
          R1Revs,     \* orientations allowed for R1 (BOOLEAN or {FALSE})
          QPerBase,   \* TRUE: every base has its own quality; FALSE: one quality per mate
          KeepFrags,  \* TRUE: remember the full fragments (scenario generation only)
          Variant

NoCall == "-"
BaseOrder == <<"A", "C", "G", "T", "N">>          \* 'ACGTN'.index(q_base)
NoMate == [rev |-> FALSE, s |-> 0, e |-> -1, c |-> <<>>]

---------------------------------------------------------------------------------------------------
(* P-level *)

InwardP(f) == f.hasR1 /\ f.hasR2 /\ f.r1.rev # f.r2.rev
(* the region "supported within R1 and R2 start and end coordinates" (dove-tail restriction) *)
SafeP(f, p) == IF f.r1.rev THEN p >= f.r2.s /\ p <= f.r1.e ELSE p >= f.r1.s /\ p <= f.r2.e

(* does fragment f take part at all: it needs a first mate (R2-only fragments are outside the
   property's quantifier and contribute nothing in the code); with dove_safe it needs both mates,
   facing inwards *)
EligibleP(f, dove) == f.hasR1 /\ (dove => InwardP(f))

MateObsP(has, m, f, p, dove) ==
    IF has /\ p \in DOMAIN m.c /\ (dove => SafeP(f, p)) THEN m.c[p] ELSE <<NoCall, -1>>

FragCallP(f, p, dove) ==
    IF ~EligibleP(f, dove) THEN NoCall
    ELSE LET o1 == MateObsP(f.hasR1, f.r1, f, p, dove)
             o2 == MateObsP(f.hasR2, f.r2, f, p, dove)
             b  == IF o1[1] = NoCall THEN o2[1]
                   ELSE IF o2[1] = NoCall THEN o1[1]
                   ELSE IF o1[2] > o2[2] THEN o1[1]
                   ELSE IF o2[2] > o1[2] THEN o2[1]
                   ELSE IF o1[1] = o2[1] THEN o1[1] ELSE NoCall
         IN IF b = "N" THEN NoCall ELSE b

CoveredP(f) == (IF f.hasR1 THEN DOMAIN f.r1.c ELSE {}) \cup (IF f.hasR2 THEN DOMAIN f.r2.c ELSE {})

(* F is a sequence of fragments (a multiset: the definitions below only count, so order is
   irrelevant by construction).  A call table A is F projected to its calls: A[i][p]. *)
CallsP(F, dove, PP) == [ i \in DOMAIN F |-> [ p \in PP |-> FragCallP(F[i], p, dove) ] ]
CallVotes(A, p, b)  == Cardinality({ i \in DOMAIN A : A[i][p] = b })
CallWinners(A, p, BB) == { b \in BB : CallVotes(A, p, b) > 0 /\ \A o \in BB \ {b} : CallVotes(A, p, b) > CallVotes(A, p, o) }
ConsOfCallsOn(A, PP, BB) ==
    [ p \in { x \in PP : CallWinners(A, x, BB) # {} } |-> CHOOSE b \in CallWinners(A, p, BB) : TRUE ]
ConsP(F, dove, PP, BB) == ConsOfCallsOn(CallsP(F, dove, PP), PP, BB)

---------------------------------------------------------------------------------------------------
(* D-level *)

(* get_consensus_dictionaries: the dove_safe window, or the ValueError that makes the caller skip
   the whole fragment *)
WindowD(f) ==
    IF f.r1.rev /\ ~f.r2.rev THEN <<TRUE, f.r2.s, f.r1.e + (IF Variant = "window_off" THEN 1 ELSE 0)>>
    ELSE IF ~f.r1.rev /\ f.r2.rev THEN <<TRUE, f.r1.s, f.r2.e + (IF Variant = "window_off" THEN 1 ELSE 0)>>
    ELSE <<FALSE, 0, 0>>                                      \* raise ValueError

(* read_to_consensus_dict(read, start, end) *)
MateDictD(has, m, w) ==
    IF ~has THEN <<>> ELSE
    [ p \in { x \in DOMAIN m.c : w[1] => (x >= w[2] /\ x <= w[3]) } |-> m.c[p] ]

(* pick_best_base_call(calls): the coded loop; state <<best_base, best_q, tie>> *)
PickStep(st, call) ==
    IF call[1] = NoCall THEN st                                           \* `if call is None: continue`
    ELSE IF call[2] > st[2] THEN <<call[1], call[2], FALSE>>
    ELSE IF call[2] = st[2] /\ call[1] # st[1] THEN
            (IF Variant = "mate_tie_first" THEN st ELSE <<st[1], st[2], TRUE>>)
    ELSE st
PickBest(calls) ==
    LET st == FoldLeft(PickStep, <<NoCall, -1, FALSE>>, calls)
    IN IF st[3] \/ st[1] = NoCall THEN <<"N", 0>> ELSE <<st[1], st[2]>>

Get(d, p) == IF p \in DOMAIN d THEN d[p] ELSE <<NoCall, -1>>

(* Fragment.get_consensus: position -> pick_best_base_call(r1.get(p), r2.get(p)) over the union of keys *)
FragDictD(f, w) ==
    LET d1 == MateDictD(f.hasR1, f.r1, w)
        d2 == MateDictD(f.hasR2, f.r2, w)
    IN [ p \in DOMAIN d1 \cup DOMAIN d2 |-> PickBest(<<Get(d1, p), Get(d2, p)>>) ]

(* one iteration of `for fragment in self:` in Molecule.get_consensus on the vote table *)
VotesAfter(v, f, dove) ==
    IF (dove /\ ~f.hasR2) \/ ~f.hasR1 THEN v                               \* molecule.py:2692 `continue`
    ELSE LET w == IF dove THEN WindowD(f) ELSE <<FALSE, 0, 0>> IN
         IF dove /\ ~w[1] THEN v                                           \* ValueError swallowed: fragment skipped
         ELSE LET d == FragDictD(f, w) IN
              [ p \in DOMAIN v |->
                  IF p \notin DOMAIN d THEN v[p]
                  ELSE IF d[p][1] = "N" /\ Variant # "count_N" THEN v[p]   \* `if q_base == 'N': continue`
                  ELSE [ v[p] EXCEPT ![d[p][1]] = @ + 1 ] ]

(* argmax (first maximum in ACGTN order) and the uniqueness mask `proper` *)
MaxVote(vp) == MaxOf({ vp[b] : b \in DOMAIN vp })
ArgMax(vp)  == LET idx == CHOOSE i \in DOMAIN BaseOrder :
                               /\ BaseOrder[i] \in DOMAIN vp /\ vp[BaseOrder[i]] = MaxVote(vp)
                               /\ \A j \in 1 .. (i - 1) : BaseOrder[j] \in DOMAIN vp => vp[BaseOrder[j]] # MaxVote(vp)
               IN BaseOrder[idx]
Proper(vp)  == Variant = "no_unique_mask" \/ Cardinality({ b \in DOMAIN vp : vp[b] = MaxVote(vp) }) = 1
Touched(v)  == { p \in DOMAIN v : \E b \in DOMAIN v[p] : v[p][b] > 0 }     \* keys of the defaultdict
ConsOfVotes(v) == [ p \in { x \in Touched(v) : Proper(v[x]) } |-> ArgMax(v[p]) ]

---------------------------------------------------------------------------------------------------
(* the model's fragment universe *)

Intervals == { <<s, e>> \in Pos \X Pos : s <= e }
QFuncs(s, e) == IF QPerBase THEN [ s .. e -> Quals ] ELSE { [ p \in s .. e |-> q ] : q \in Quals }
Mates(revs) == UNION { { [rev |-> r, s |-> iv[1], e |-> iv[2], c |-> [ p \in iv[1] .. iv[2] |-> <<bb[p], qq[p]>> ]]
                           : r \in revs, bb \in [ iv[1] .. iv[2] -> Bases ], qq \in QFuncs(iv[1], iv[2]) }
                       : iv \in Intervals }
FragU == { [hasR1 |-> TRUE,  hasR2 |-> TRUE,  r1 |-> a, r2 |-> b] : a \in Mates(R1Revs), b \in Mates(BOOLEAN) }
    \cup { [hasR1 |-> TRUE,  hasR2 |-> FALSE, r1 |-> a, r2 |-> NoMate] : a \in Mates(R1Revs) }
    \cup { [hasR1 |-> FALSE, hasR2 |-> TRUE,  r1 |-> NoMate, r2 |-> b] : b \in Mates(BOOLEAN) }

VoteBases == Bases \cup {"N"}
ZeroVotes == [ p \in Pos |-> [ b \in VoteBases |-> 0 ] ]
CallBases == Bases \ {"N"}

VARIABLES dove,     \* get_consensus(dove_safe=...)
          votes,    \* consensii: position -> vote vector
          added,    \* history: per added fragment its P-level calls [Pos -> base or NoCall]
          hist      \* the full fragments (only when KeepFrags)
vars == <<dove, votes, added, hist>>

Init == /\ dove \in BOOLEAN
        /\ votes = ZeroVotes
        /\ added = <<>>
        /\ hist = <<>>

AddFragment(f) ==
    /\ Len(added) < MaxFrags
    /\ votes' = VotesAfter(votes, f, dove)
    /\ added' = Append(added, [ p \in Pos |-> FragCallP(f, p, dove) ])
    /\ hist' = IF KeepFrags THEN Append(hist, f) ELSE hist
    /\ UNCHANGED dove

Next == \E f \in FragU : AddFragment(f)
Spec == Init /\ [][Next]_vars

---------------------------------------------------------------------------------------------------
(* Properties. `added` holds the P-level calls, so the brute-force vote is a count over `added`. *)

ConsOfCalls(A) == ConsOfCallsOn(A, Pos, CallBases)

(* at any time the reported consensus is the strict-majority call of the fragments added so far *)
Inv_C13_Majority == ConsOfVotes(votes) = ConsOfCalls(added)

(* never a tie, never N, never an uncovered position *)
Inv_C13_NoTie ==
    \A p \in DOMAIN ConsOfVotes(votes) :
        LET b == ConsOfVotes(votes)[p] IN
        /\ b \in CallBases
        /\ \A o \in CallBases \ {b} : CallVotes(added, p, b) > CallVotes(added, p, o)
        /\ CallVotes(added, p, b) > 0

(* the vote table is a function of the multiset of fragments: replaying the recorded calls in any
   order gives the table the implementation-shaped loop built *)
VotesOfCalls(A) == [ p \in Pos |-> [ b \in VoteBases |-> IF b = "N" THEN 0 ELSE CallVotes(A, p, b) ] ]
Inv_C13_Order == votes = VotesOfCalls(added)

(* duplicating every fragment changes nothing *)
Double(v) == [ p \in DOMAIN v |-> [ b \in DOMAIN v[p] |-> 2 * v[p][b] ] ]
Inv_C13_Dup == /\ ConsOfVotes(Double(votes)) = ConsOfVotes(votes)
               /\ ConsOfCalls(added \o added) = ConsOfCalls(added)

(* pick_best_base_call agrees with "the higher-quality mate where both cover the position" on every
   pair of observations (exhaustive over the model's alphabet, independent of the state) *)
ObsU == { <<NoCall, -1>> } \cup (Bases \X Quals)
Inv_C13_MatePick ==
    \A o1, o2 \in ObsU :
        LET got == PickBest(<<o1, o2>>)[1]
            f == [hasR1 |-> TRUE, hasR2 |-> TRUE,
                  r1 |-> [rev |-> FALSE, s |-> 1, e |-> 1, c |-> IF o1[1] = NoCall THEN <<>> ELSE (1 :> o1)],
                  r2 |-> [rev |-> TRUE,  s |-> 1, e |-> 1, c |-> IF o2[1] = NoCall THEN <<>> ELSE (1 :> o2)]]
        IN (IF got = "N" THEN NoCall ELSE got) = FragCallP(f, 1, FALSE)

---------------------------------------------------------------------------------------------------
(* scenario generation (spec -> code): full fragment lists of complete behaviours *)
Emit == IF KeepFrags /\ Len(hist) = MaxFrags
        THEN PrintT("@@SCENARIO " \o ToJson([dove |-> dove, frags |-> hist]))
        ELSE TRUE
=====================================================================================================
