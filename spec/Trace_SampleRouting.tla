----------------------------------- MODULE Trace_SampleRouting -----------------------------------
(* Recorded executions of the real bamExtractSamples.extract_samples (mode "api") and of the module's   *)
(* command line (mode "cli": argparse + sample file parsing + extract_samples, run with runpy or as a   *)
(* child process), judged with the P-level definitions of SampleRoutingP.                              *)
(*                                                                                                    *)
(* one event = one execution on one synthetic BAM file:                                               *)
(* {"ev":"run","tid","src","mode":"api"|"cli","via":"call"|"runpy"|"subprocess",                       *)
(*  "recs":[{"id","sm" ("" = no SM tag),"rg" ("" = no RG tag),"kind"}..]   the description the BAM was made from  *)
(*  "in_obs":[{"id","sm","rg","dg"}..]  the input file read back (dg = fingerprint of the record without RG)  *)
(*  "in_rgids":[..] "in_sq": fingerprint of @SQ                                                         *)
(*  "asg":[{"gc":[characters of the group name],"ss":[sample..]}..]   api: capture_samples in dict order    *)
(*  "lines":[{"s","hasg","g":[characters of the second column]}..]       cli: the sample file                *)
(*  "head" (-1 = None),"wrg","prefix" ("" = None),"stem":[tokens; the -o path is their concatenation + ".bam"],  *)
(*  "raised": "" | exception type,                                                                      *)
(*  "files":[{"name" (relative to the output directory),"ok" (readable to EOF),"rgids":[..],"sq",          *)
(*            "recs":[{"id","sm","rg","dg"}..]}..]   every *.bam below the output directory, re-read from disk }  *)
(* TLC recomputes the demanded result from recs / asg / lines / head / wrg / prefix / stem and compares.   *)
EXTENDS TraceLib, SampleRoutingP

VARIABLE l

AsgOf(e) == [i \in DOMAIN e.asg |-> [g |-> Str(e.asg[i].gc), ss |-> e.asg[i].ss]]
Aof(e) == IF e.mode = "cli" THEN RelOfLines(e.lines) ELSE RelOfAsg(AsgOf(e))
Gof(e) == IF e.mode = "cli" THEN GroupsOfLines(e.lines) ELSE GroupsOfAsg(AsgOf(e))
Inp(e) == [i \in DOMAIN e.recs |-> [id |-> e.recs[i].id, sm |-> e.recs[i].sm, rg |-> e.recs[i].rg, dg |-> e.in_obs[i].dg]]
FileIdx(e, f) == CHOOSE i \in DOMAIN e.files : e.files[i].name = f
Out(e) == [f \in { e.files[i].name : i \in DOMAIN e.files } |->
              LET x == e.files[FileIdx(e, f)]
              IN [rgids |-> x.rgids,
                  recs |-> [k \in DOMAIN x.recs |-> [id |-> x.recs[k].id, sm |-> x.recs[k].sm, dg |-> x.recs[k].dg, rg |-> x.recs[k].rg]]]]
StemStr(e) == Str(e.stem)

(* preconditions of the statement; outside them the execution is noted, not judged *)
InputFaithful(e) == /\ Len(e.in_obs) = Len(e.recs)
                    /\ \A i \in DOMAIN e.recs : e.in_obs[i].id = e.recs[i].id /\ e.in_obs[i].sm = e.recs[i].sm /\ e.in_obs[i].rg = e.recs[i].rg
                    /\ \A i, j \in DOMAIN e.recs : e.recs[i].id = e.recs[j].id => i = j
ApiGroupsClean(e) == e.mode = "api" => \A i \in DOMAIN e.asg : CleanChars(e.asg[i].gc) = e.asg[i].gc
ReadGroupsNamed(e) == e.wrg => \A g \in Gof(e) : RGOf(e.prefix, g) # ""
PreNote(e) == IF ~InputFaithful(e) THEN "input_file_not_as_described"
              ELSE IF ~ApiGroupsClean(e) THEN "api_group_name_is_not_a_clean_file_name"
              ELSE IF ~ReadGroupsNamed(e) THEN "write_group_rg_with_an_empty_read_group_name"
              ELSE ""

BamTwice(e) == \E i \in DOMAIN e.stem : e.stem[i] = ".bam"
DupInOneGroup(e) == e.mode = "api" /\ \E i \in DOMAIN e.asg : ~NoDup(e.asg[i].ss)
NoSMRecord(e) == \E i \in DOMAIN e.recs : e.recs[i].sm = ""
CrashDiag(e) == IF e.raised = "KeyError" /\ NoSMRecord(e) THEN "record_without_SM"
                ELSE IF e.raised = "ValueError" /\ DupInOneGroup(e) THEN "sample_twice_in_one_group"
                ELSE IF BamTwice(e) /\ Gof(e) # {} /\ Gof(e) # {""} THEN "bam_twice_in_path"
                ELSE "other"

Verdict(e) ==
    LET AA == Aof(e)  GG == Gof(e)  inp == Inp(e)  out == Out(e)  stem == StemStr(e) IN
    IF PreNote(e) # "" THEN "ok"
    ELSE IF \E i \in DOMAIN e.files : ~e.files[i].ok THEN "Readable"
    ELSE IF Conflict(AA) THEN (IF P_Refused(AA, e.raised, out) THEN "ok" ELSE IF e.raised = "" THEN "Refused|not_raised" ELSE "Refused|" \o e.raised \o "|" \o CrashDiag(e))
    ELSE IF ~P_NoCrash(AA, e.raised) THEN "NoCrash|" \o e.raised \o "|" \o CrashDiag(e)
    ELSE IF ~P_Files(GG, stem, out) THEN "Files|" \o (IF BamTwice(e) /\ GG # {""} THEN "bam_twice_in_path" ELSE "other")
    ELSE IF ~P_NoStrangers(inp, out) THEN "NoStrangers"
    ELSE IF ~P_Unselected(AA, inp, out) THEN "Unselected"
    ELSE IF e.head # -1 /\ ~P_Head(AA, inp, e.head, out)
         THEN "Head|" \o (IF e.head = 0 /\ TotalWritten(out) = 1 THEN "head_0_writes_one" ELSE "other")
    ELSE IF ~P_ExactlyOnce(AA, inp, e.head, stem, out) THEN "ExactlyOnce"
    ELSE IF ~P_Order(inp, out) THEN "Order"
    ELSE IF ~P_Content(AA, inp, e.wrg, e.prefix, out) THEN "Content"
    ELSE IF ~P_RecordRG(AA, inp, e.wrg, e.prefix, out) THEN "RecordRG"
    ELSE IF ~P_HeaderRG(GG, e.wrg, e.prefix, stem, e.in_rgids, out) THEN "HeaderRG"
    ELSE IF \E i \in DOMAIN e.files : e.files[i].sq # e.in_sq THEN "HeaderSQ"
    ELSE IF out # ExpectedOut(AA, GG, inp, e.head, e.wrg, e.prefix, stem, e.in_rgids) THEN "Exact"
    ELSE "ok"

---------------------------------------------------------------------------------------------------
(* mode "split": split_bam_by_cluster.py main() run in-process.                                                          *)
(* {"mode":"split","recs":[{"id","sm" ("" = no tag),"rg","kind","dup","mapq","ci","pos"}..],"in_obs":[{"id","sm","rg","dg",     *)
(*  "dup","mapq","tid","pos"}..] (the input file read back),"in_sqn":[[name,length]..],"in_rgids",                         *)
(*  "rows":[{"s","c":[characters of the cluster name]}..],"nocol","chr" (--add_chr_prefix),"mapq" (-mapq),"bname","tagid",    *)
(*  "raised","files":[{"name","ok","rgids","sqn","recs":[{"id","sm","rg","dg","dup","mapq","tid","pos"}..]}..],"other":[..]}  *)
SRows(e) == [i \in DOMAIN e.rows |-> [s |-> e.rows[i].s, c |-> Str(e.rows[i].c)]]
SIn(e, filter) == SplitInp([i \in DOMAIN e.recs |-> [id |-> e.recs[i].id, sm |-> e.recs[i].sm, rg |-> e.recs[i].rg, dg |-> e.in_obs[i].dg,
                                                   dup |-> e.in_obs[i].dup, lowq |-> e.in_obs[i].mapq < e.mapq,
                                                   tid |-> e.in_obs[i].tid, pos |-> e.in_obs[i].pos]], filter)
SOut(e, filter) == [f \in { e.files[i].name : i \in DOMAIN e.files } |->
                      LET x == e.files[FileIdx(e, f)]
                      IN [rgids |-> x.rgids,
                          recs |-> [k \in DOMAIN x.recs |->
                                      [id |-> x.recs[k].id, dg |-> x.recs[k].dg, rg |-> x.recs[k].rg,
                                       sm |-> SplitKey([sm |-> x.recs[k].sm, dup |-> x.recs[k].dup, lowq |-> x.recs[k].mapq < e.mapq], filter)]]]]
SStemE(e) == e.bname \o "."
SplitFaithful(e) == /\ Len(e.in_obs) = Len(e.recs)
                    /\ \A i \in DOMAIN e.recs : /\ e.in_obs[i].id = e.recs[i].id /\ e.in_obs[i].sm = e.recs[i].sm /\ e.in_obs[i].rg = e.recs[i].rg
                                                /\ e.in_obs[i].dup = e.recs[i].dup /\ e.in_obs[i].tid = e.recs[i].ci
                                                /\ (e.recs[i].ci >= 0 => e.in_obs[i].pos = e.recs[i].pos)
                    /\ \A i, j \in DOMAIN e.recs : e.recs[i].id = e.recs[j].id => i = j
ClustersClean(e) == \A i \in DOMAIN e.rows : e.rows[i].c # <<>> /\ CleanChars(e.rows[i].c) = e.rows[i].c
SplitPreNote(e) == IF ~SplitFaithful(e) THEN "input_file_not_as_described"
                   ELSE IF ~ClustersClean(e) THEN "cluster_name_is_not_a_clean_file_name"
                   ELSE ""
ExpSqn(e) == [i \in DOMAIN e.in_sqn |-> <<(IF e.chr THEN "chr" ELSE "") \o e.in_sqn[i][1], e.in_sqn[i][2]>>]
SplitVerdictR(e, filter) ==
    LET rows == SRows(e)  AA == SplitRel(rows)  GG == SplitGroups(rows)  inp == SIn(e, filter)  out == SOut(e, filter)  stem == SStemE(e) IN
    IF \E i \in DOMAIN e.files : ~e.files[i].ok THEN "Readable"
    ELSE IF SplitDup(rows) THEN (IF e.raised # "" /\ e.files = <<>> THEN "ok"
                                 ELSE IF e.raised = "" THEN "Refused|not_raised" ELSE "Refused|files_created")
    ELSE IF e.raised # "" THEN "NoCrash|" \o e.raised
    ELSE IF ~P_Files(GG, stem, out)
         THEN "Files|" \o (IF { FileName(stem, g) : g \in GG } \subseteq DOMAIN out THEN "extra_bam_file" ELSE "cluster_file_missing")
    ELSE IF ~P_NoStrangers(inp, out) THEN "NoStrangers"
    ELSE IF ~P_Unselected(AA, inp, out) THEN "Unselected"
    ELSE IF ~P_ExactlyOnce(AA, inp, -1, stem, out) THEN "ExactlyOnce"
    ELSE IF ~P_Sorted(inp, out) THEN "Sorted"
    ELSE IF ~P_Content(AA, inp, FALSE, "", out) THEN "Content"
    ELSE IF \E i \in DOMAIN e.files : e.files[i].rgids # e.in_rgids THEN "HeaderRG"
    ELSE IF \E i \in DOMAIN e.files : e.files[i].sqn # ExpSqn(e) THEN "HeaderSQ|" \o (IF e.chr THEN "add_chr_prefix" ELSE "plain")
    ELSE IF \E i \in DOMAIN e.files : (e.files[i].name \o ".bai") \notin SeqToSet(e.other) THEN "Indexed"
    ELSE "ok"
(* -mapq is a required option without help text that the tool parses and never uses.  Both readings are admitted: the   *)
(* option has no effect (as coded) or records below the threshold are left out - the same reading for the whole run.  *)
SplitVerdict(e) == LET v0 == SplitVerdictR(e, FALSE) IN
                   IF v0 = "ok" THEN "ok" ELSE IF SplitVerdictR(e, TRUE) = "ok" THEN "ok" ELSE v0
MapqIgnoredNote(e) == /\ SplitPreNote(e) = "" /\ e.raised = "" /\ SplitVerdictR(e, FALSE) = "ok"
                      /\ \E i \in DOMAIN e.files : \E k \in DOMAIN e.files[i].recs : e.files[i].recs[k].mapq < e.mapq
MissingNote(e) == SplitPreNote(e) = "" /\ e.raised = "" /\ (\E i \in DOMAIN e.rows : e.rows[i].s = "Missing")
                  /\ \E i \in DOMAIN e.files : \E k \in DOMAIN e.files[i].recs : e.files[i].recs[k].sm = ""
DupNote(e) == SplitPreNote(e) = "" /\ e.raised = "" /\ SplitVerdict(e) = "ok"
              /\ \E i \in DOMAIN e.recs : e.recs[i].dup /\ e.recs[i].sm # "" /\ GroupsOf(SplitRel(SRows(e)), e.recs[i].sm) # {}

TNextSplit(e) == /\ Judge(l, IF SplitPreNote(e) # "" THEN "ok" ELSE SplitVerdict(e))
                 /\ (IF SplitPreNote(e) # "" THEN Note(l, e.tid, SplitPreNote(e)) ELSE TRUE)
                 /\ (IF MapqIgnoredNote(e) THEN Note(l, e.tid, "split_mapq_option_has_no_effect") ELSE TRUE)
                 /\ (IF MissingNote(e) THEN Note(l, e.tid, "split_records_without_tag_routed_as_sample_Missing") ELSE TRUE)
                 /\ (IF DupNote(e) THEN Note(l, e.tid, "split_duplicate_flagged_records_of_listed_samples_dropped") ELSE TRUE)

TInit == l = 1
TNextRoute(e) == /\ Judge(l, Verdict(e))
                 /\ (IF PreNote(e) # "" THEN Note(l, e.tid, PreNote(e)) ELSE TRUE)
                 /\ (IF PreNote(e) = "" /\ Conflict(Aof(e)) /\ e.files # <<>>
                     THEN Note(l, e.tid, "refused_after_the_output_files_were_created") ELSE TRUE)
TNext == /\ l <= Len(Log)
         /\ (IF Log[l].mode = "split" THEN TNextSplit(Log[l]) ELSE TNextRoute(Log[l]))
         /\ l' = l + 1
TAccepted == TLCGet("stats").diameter - 1 = Len(Log)
=====================================================================================================
