INIT Init
NEXT GenNext
CONSTANTS
  MaxClip = 6
  Clip3s = {0, 2}
  ReadLens = {10}
  FlankIds = {2, 4}
  FlankPairs = "diag"
  MMBases = {"A", "C", "G", "T", "N"}
  BoundaryPs = {0, 1, 2}
  XBases = {"A", "G"}
  Protos = {"nla", "chic"}
  Variant = "design"
CONSTRAINT Emit
CHECK_DEADLOCK FALSE
