INIT Init
NEXT Next
CONSTANTS
  MaxContigs = 3
  MaxN = 1
  MaxStar = 1
  Modes = {"single", "multi"}
  Variant = "impl_lone_small"
INVARIANT Inv_C05_Cover
INVARIANT Inv_C05_Multiset
INVARIANT Inv_C05_Sorted
INVARIANT Inv_PartsNonEmpty
CHECK_DEADLOCK FALSE
