INIT Init
NEXT Next
CONSTANTS
  MinCoord = 0
  MaxCoord = 4
  BinSizes = {1,2,3,5}
  FragSizes = {0,2}
  AllowNoFrag = TRUE
  BLPad = 1
  MaxBL = 2
  Variant = "design"
CHECK_DEADLOCK FALSE
CONSTRAINT EmitScenario
