------------------------------------------ MODULE JobPlan ------------------------------------------
(* C05 - tagging conserves alignment records: job planning, job execution and merge of the tagger  *)
(* (singlecellmultiomics/universalBamTagger/bamtagmultiome.py, tagging.py).                         *)
(*                                                                                                 *)
(* Input, abstracted: a coordinate sorted BAM = a sequence of contigs in header order, each small   *)
(* (< 100 kb, the `small_contig_threshold`) or big, holding n placed records, plus nstar unplaced    *)
(* records (the `*` bin).  A record is <<contig id, k>>; contig id 0 is `*`.                         *)
(*                                                                                                 *)
(* P-level  : CoverOK (every contig with reads and the unplaced bin is fetched by exactly one task), *)
(*            SameBag(input, output), coordinate order.  No algorithm.                              *)
(* D-level  : one action per loop body / side effect of the code:                                   *)
(*   PlanSingle      tag_multiome_single_thread: chain(iterator(contig='*'), iterator(all contigs))  *)
(*   PlanInit        bamtagmultiome.py:335   job_gen = [[('*',..)]]                                  *)
(*   PlanStep        bamtagmultiome.py:337-345 one iteration over get_contigs_with_reads(.., True),  *)
(*                   i.e. over the lines of `samtools idxstats` INCLUDING the final `*` line          *)
(*   PlanFlush       bamtagmultiome.py:346-347                                                       *)
(*   RunJob(j)       tagging.run_tagging_tasks in a pool worker (imap_unordered: any completion      *)
(*                   order; the number of workers only restricts the orders)                        *)
(*   DropEmptyJob(j) run_tagging_tasks returns (None, meta) and deletes its file when it wrote 0     *)
(*                   molecules                                                                      *)
(*   Merge           merge_bams of the per-job files (each sorted by its own sorted_bam_file)        *)
(*   SortSingle      sorted_bam_file post-yield sort of the single unsorted file                    *)
(*   Index           pysam.index of the final file                                                  *)
(*                                                                                                 *)
(* Variant = "design" : the intended plan: `*` is only the first job, every big contig is its own   *)
(*                      job, all small contigs are pooled in one job (if there is at least one).    *)
(* Variant = "impl"   : literal transcription of bamtagmultiome.py:331-347 at the pinned commit,     *)
(*                      which deviates in three independent ways (named deviations, D4):             *)
(*      big_after_smalls : a big contig met while >= 2 small ones are pending flushes the pending    *)
(*                         ones and is itself forgotten                                             *)
(*      lone_small       : a single pending small contig is never flushed (`len(current) > 1`)       *)
(*      star_in_loop     : the idxstats `*` line (length 0 => "small") enters the loop, so the       *)
(*                         unplaced bin is fetched a second time when it is pooled with a small one  *)
(* Variant = "impl_<deviation>" applies exactly one of them to the design (each is a negative        *)
(* control on its own).                                                                             *)
(* Variant = "mut_<deviation>": deviations that were never in the code but are one token away from it *)
(* (seeded changes); kept as negative controls so that the invariants are not vacuous on them:       *)
(*      last_task_count       : run_tagging_tasks decides "job wrote nothing" from its LAST task only *)
(*                              (`total_molecules =` instead of `+=`) and deletes a non-empty file    *)
(*      stats_ignore_unmapped : get_contigs_with_reads only reports contigs with MAPPED reads, so a   *)
(*                              contig whose only records are placed unmapped reads is not planned    *)
EXTENDS Integers, Sequences, FiniteSets, TLC, Json, TagRecords

CONSTANTS MaxContigs,   \* layouts of 1..MaxContigs contigs
          MaxN,         \* 0..MaxN placed records per contig
          MaxStar,      \* 0..MaxStar unplaced records
          Modes,        \* subset of {"single", "multi"}
          Variant

AllDeviations == {"big_after_smalls", "lone_small", "star_in_loop"}
Deviations == CASE Variant = "design" -> {}
                [] Variant = "impl" -> AllDeviations
                [] Variant = "impl_big_after_smalls" -> {"big_after_smalls"}
                [] Variant = "impl_lone_small" -> {"lone_small"}
                [] Variant = "impl_star_in_loop" -> {"star_in_loop"}
                [] Variant = "mut_last_task_count" -> {"last_task_count"}
                [] Variant = "mut_stats_ignore_unmapped" -> {"stats_ignore_unmapped"}
Dev(d) == d \in Deviations

Star == 0

---------------------------------------------------------------------------------------------------
(* P-level *)
Flat(js) == FoldLeft(LAMBDA acc, j : acc \o j, <<>>, js)

(* js: sequence of jobs, each a sequence of fetched bins (contig ids or names).  Every bin in `need` *)
(* is fetched exactly once and nothing at all is fetched twice.                                      *)
CoverOK(need, js) == LET f == Flat(js) IN
                     /\ \A c \in need : CountIn(f, c) = 1
                     /\ \A c \in SeqSet(f) : CountIn(f, c) = 1
NotCovered(need, js) == { c \in need : CountIn(Flat(js), c) = 0 }
CoveredTwice(js)     == { c \in SeqSet(Flat(js)) : CountIn(Flat(js), c) > 1 }

(* the intended plan in closed form, from the idxstats lines <<[cid, small], ...>>: `*` first, one job per big  *)
(* contig in idxstats order, then one job pooling all small contigs (D-level reference for DIVERGENCE notes)      *)
SmallThreshold == 100000
PlanOf(stats, star) ==
    LET bigs   == SelectSeq(stats, LAMBDA c : c.cid # star /\ ~c.small)
        smalls == SelectSeq(stats, LAMBDA c : c.cid # star /\ c.small)
    IN << <<star>> >> \o [k \in 1 .. Len(bigs) |-> <<bigs[k].cid>>]
       \o (IF Len(smalls) > 0 THEN << [k \in 1 .. Len(smalls) |-> smalls[k].cid] >> ELSE <<>>)

---------------------------------------------------------------------------------------------------
VARIABLES layout,   \* <<[big, n, um], ...>> header order; um: the n records are unmapped reads placed on the contig
          nstar,    \* number of unplaced records
          mode,     \* "single" | "multi"
          noRejects,\* --no_rejects: invalid fragments are not written
          pc,       \* "plan" | "run" | "index" | "done"
          i,        \* loop index into Stats (multi) / 0
          current,  \* pending small contigs (the code's `current`)
          jobs,     \* the code's job_gen: sequence of jobs, a job = sequence of contig ids
          pending,  \* job indexes not yet run
          parts,    \* job index -> records of the per-job file (only jobs that kept their file)
          out,      \* records of the final output file, in file order
          indexed
vars == <<layout, nstar, mode, noRejects, pc, i, current, jobs, pending, parts, out, indexed>>

NContigs == Len(layout)
Recs(c) == IF c = Star THEN [k \in 1 .. nstar |-> <<Star, k>>] ELSE [k \in 1 .. layout[c].n |-> <<c, k>>]
Input == Flat([c \in 1 .. NContigs |-> Recs(c)]) \o Recs(Star)

(* what `samtools idxstats` + get_contigs_with_reads(.., with_length=True) yields: contigs with at   *)
(* least one record in header order, then the `*` line (length 0) when there are unplaced records   *)
WithReads == SelectSeq([c \in 1 .. NContigs |-> c], LAMBDA c : layout[c].n > 0)
Reported  == SelectSeq(WithReads, LAMBDA c : ~(Dev("stats_ignore_unmapped") /\ layout[c].um))
Stats == [k \in 1 .. Len(Reported) |-> [cid |-> Reported[k], small |-> ~layout[Reported[k]].big]]
         \o (IF nstar > 0 THEN << [cid |-> Star, small |-> TRUE] >> ELSE <<>>)
Need == { WithReads[k] : k \in DOMAIN WithReads } \cup (IF nstar > 0 THEN {Star} ELSE {})

ContigKinds == { r \in [big : BOOLEAN, n : 0 .. MaxN, um : BOOLEAN] : r.um => r.n > 0 }
Layouts == UNION { [1 .. L -> ContigKinds] : L \in 1 .. MaxContigs }

Init == /\ layout \in Layouts
        /\ nstar \in 0 .. MaxStar
        /\ mode \in Modes
        /\ noRejects \in BOOLEAN
        /\ pc = "plan" /\ i = 0 /\ current = <<>> /\ jobs = <<>>
        /\ pending = {} /\ parts = <<>> /\ out = <<>> /\ indexed = FALSE

---------------------------------------------------------------------------------------------------
(* planning *)
PlanSingle ==
    /\ pc = "plan" /\ mode = "single"
    /\ jobs' = << <<Star>>, [c \in 1 .. NContigs |-> c] >>
    /\ pending' = {1, 2}
    /\ pc' = "run"
    /\ UNCHANGED <<layout, nstar, mode, noRejects, i, current, parts, out, indexed>>

PlanInit ==
    /\ pc = "plan" /\ mode = "multi" /\ i = 0
    /\ jobs' = << <<Star>> >>
    /\ i' = 1
    /\ UNCHANGED <<layout, nstar, mode, noRejects, pc, current, pending, parts, out, indexed>>

PlanStep ==
    /\ pc = "plan" /\ mode = "multi" /\ i >= 1 /\ i <= Len(Stats)
    /\ LET c == Stats[i] IN
       IF c.cid = Star /\ ~Dev("star_in_loop")
       THEN UNCHANGED <<current, jobs>>                                  \* design: `*` is job 1 only
       ELSE IF c.small
       THEN current' = Append(current, c.cid) /\ UNCHANGED jobs
       ELSE IF Dev("big_after_smalls")
            THEN IF Len(current) > 1
                 THEN jobs' = Append(jobs, current) /\ current' = <<>>   \* as coded: the big contig is forgotten
                 ELSE jobs' = Append(jobs, <<c.cid>>) /\ UNCHANGED current
            ELSE jobs' = Append(jobs, <<c.cid>>) /\ UNCHANGED current
    /\ i' = i + 1
    /\ UNCHANGED <<layout, nstar, mode, noRejects, pc, pending, parts, out, indexed>>

PlanFlush ==
    /\ pc = "plan" /\ mode = "multi" /\ i > Len(Stats)
    /\ jobs' = IF Len(current) > (IF Dev("lone_small") THEN 1 ELSE 0) THEN Append(jobs, current) ELSE jobs
    /\ pending' = DOMAIN jobs'
    /\ pc' = "run"
    /\ UNCHANGED <<layout, nstar, mode, noRejects, i, current, parts, out, indexed>>

---------------------------------------------------------------------------------------------------
(* execution *)
(* which records belong to invalid fragments is input data; the model fixes it: unplaced records, placed unmapped *)
(* reads and every second placed record are invalid - on even contigs starting with the first record, so that a  *)
(* contig can hold nothing but invalid fragments.  With --no_rejects the iterator does not yield them.           *)
Valid(r) == r[1] # Star /\ ~layout[r[1]].um /\ (r[1] + r[2]) % 2 = 0
Written(q) == IF noRejects THEN SelectSeq(q, Valid) ELSE q
JobOutput(job) == Flat([t \in DOMAIN job |-> Written(Recs(job[t]))])
Expected == Written(Input)

RecLe(a, b) == LET ka == IF a[1] = Star THEN NContigs + 1 ELSE a[1]
                   kb == IF b[1] = Star THEN NContigs + 1 ELSE b[1]
               IN ka < kb \/ (ka = kb /\ a[2] <= b[2])
Sorted(q) == \A k \in 1 .. (Len(q) - 1) : RecLe(q[k], q[k + 1])

(* run_tagging_tasks keeps its file iff the molecule counts of its tasks add up to > 0 *)
Kept(job) == IF Dev("last_task_count") THEN Len(Written(Recs(job[Len(job)]))) > 0 ELSE Len(JobOutput(job)) > 0

RunJob(j) ==
    /\ pc = "run" /\ j \in pending
    /\ mode = "single" => j = MinOf(pending)          \* one process: `*` first, then everything
    /\ LET o == JobOutput(jobs[j]) IN
       /\ mode = "multi" => Kept(jobs[j])
       /\ IF mode = "single"
          THEN out' = out \o o /\ UNCHANGED parts     \* one unsorted file
          ELSE parts' = [x \in DOMAIN parts \cup {j} |-> IF x = j THEN SortSeq(o, RecLe) ELSE parts[x]] /\ UNCHANGED out
    /\ pending' = pending \ {j}
    /\ UNCHANGED <<layout, nstar, mode, noRejects, pc, i, current, jobs, indexed>>

DropEmptyJob(j) ==
    /\ pc = "run" /\ j \in pending /\ mode = "multi"
    /\ ~Kept(jobs[j])
    /\ pending' = pending \ {j}
    /\ UNCHANGED <<layout, nstar, mode, noRejects, pc, i, current, jobs, parts, out, indexed>>

Merge ==
    /\ pc = "run" /\ pending = {} /\ mode = "multi"
    /\ out' = SortSeq(Flat([k \in 1 .. Cardinality(DOMAIN parts) |->
                               parts[CHOOSE x \in DOMAIN parts : Cardinality({y \in DOMAIN parts : y < x}) = k - 1]]), RecLe)
    /\ pc' = "index"
    /\ UNCHANGED <<layout, nstar, mode, noRejects, i, current, jobs, pending, parts, indexed>>

SortSingle ==
    /\ pc = "run" /\ pending = {} /\ mode = "single"
    /\ out' = SortSeq(out, RecLe)
    /\ pc' = "index"
    /\ UNCHANGED <<layout, nstar, mode, noRejects, i, current, jobs, pending, parts, indexed>>

Index ==
    /\ pc = "index"
    /\ indexed' = TRUE
    /\ pc' = "done"
    /\ UNCHANGED <<layout, nstar, mode, noRejects, i, current, jobs, pending, parts, out>>

RunSomeJob       == \E j \in pending : RunJob(j)
DropSomeEmptyJob == \E j \in pending : DropEmptyJob(j)

Next == \/ PlanSingle \/ PlanInit \/ PlanStep \/ PlanFlush
        \/ RunSomeJob \/ DropSomeEmptyJob
        \/ Merge \/ SortSingle \/ Index
Spec == Init /\ [][Next]_vars

---------------------------------------------------------------------------------------------------
(* Properties *)
Inv_C05_Cover    == pc # "plan" => CoverOK(Need, jobs)
Inv_C05_Multiset == pc = "done" => SameBag(Expected, out)       \* with --no_rejects: input minus the invalid fragments
Inv_C05_Sorted   == pc = "done" => Sorted(out) /\ indexed
(* the stepwise plan of the design equals the closed form *)
Inv_PlanIsDesignPlan == (Variant = "design" /\ mode = "multi" /\ pc # "plan") => jobs = PlanOf(Stats, Star)
(* progress bookkeeping of the D-level: a job file is kept iff it is non-empty *)
Inv_PartsNonEmpty == Deviations = {} => \A j \in DOMAIN parts : Len(parts[j]) > 0

(* scenario generation (rule 13): every layout of the bounded model, printed from the initial state *)
Emit == IF pc = "plan" /\ i = 0
        THEN PrintT("@@SCENARIO " \o ToJson([contigs |-> layout, nstar |-> nstar])) /\ FALSE
        ELSE FALSE
=====================================================================================================
