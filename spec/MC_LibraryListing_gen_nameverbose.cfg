INIT Init
NEXT Next
CONSTANTS
  Schemes = {"ill", "filt", "und", "pln", "srr"}
  LibChoice = "repl"
  NLanes = 1
  NChunks = 1
  MaxFiles = 1
  ReplIdx = {1, 2, 3, 4}
  SlibIdx = {0, 1, 2}
  Merges = {0, 1, 2}
  SEs = {TRUE}
  Ignores = {FALSE}
  Verboses = {TRUE}
  Globs = {FALSE}
  Variant = "design"
CONSTRAINT Emit
CHECK_DEADLOCK FALSE
