INIT Init
NEXT Next
CONSTANTS
  NPaths = 3
  Stale = {1, 2}
  Ks = {1,2,3}
  MHs = {1,2}
  PEs = {1,3}
  BadChoices = {0,2}
  MaxTransient = 1
  MaxOps = 5
  Variant = "design"
  Record = TRUE
CONSTRAINT Emit
CHECK_DEADLOCK FALSE
