INIT Init
NEXT Next
CONSTANTS
  Mutation = "none"
  NMol = 2
  NJobs = 3
  Pipelines = {"single", "multi"}
  PrevChoices = {TRUE}
  SizeChoices <- GenSizesQ
  StatusOrder = "design"
  PlanVariant = "design"
CONSTRAINT Emit
CHECK_DEADLOCK FALSE
