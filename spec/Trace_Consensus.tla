------------------------------------- MODULE Trace_Consensus -------------------------------------
(* Observations of the real Molecule.get_consensus judged by the P-level definitions of          *)
(* Consensus.tla (FragCallP / ConsP).  The driver records raw inputs (reads as start, CIGAR,     *)
(* bases, qualities) and the returned dictionary; the aligned pairs, the calls, the votes and     *)
(* the expected consensus are all computed here.                                                 *)
(*                                                                                               *)
(*  {"ev":"mol","tid":n,"chrom":"chr1","frags":[{"form":"pair"|"r1none"|"r1short"|"r2only",     *)
(*        "r1":{"start":s,"rev":b,"cigar":[{"op":"M","n":5},..],"seq":["A",..],"q":[30,..]},     *)
(*        "r2":{...}}]}                                   a mate key is absent when it is None   *)
(*  {"ev":"cons","tid":n,"kind":"base"|"perm"|"dup","dove":b,"order":[i,..],                     *)
(*        "rtype":type name of the returned value,"rlen":its length,"first_type":type of [0],    *)
(*        "consensus":[{"c":"chr1","pos":p,"b":"A"},..]}      or   "raised":"<ExceptionType>"    *)
(*        ("consensus" is absent when the returned value does not have the documented shape)     *)
(*     + "path":"plain"|"probs" (get_consensus() / get_consensus(with_probs_and_obs=True)[0]),    *)
(*     kind "inc": the same molecule object queried after an intermediate addition (order = the  *)
(*     fragments added so far), kind "alt": the other return shape at the end of a run; both are *)
(*     judged against the same P-level definition (Inv_C13_Majority "at any time").               *)
(*     order = 1-based indices into the frags of the latest "mol" event, in insertion order;     *)
(*     kind "base" is the reference run of a molecule, "perm" a permutation of the same          *)
(*     multiset, "dup" every fragment of the base run added twice.                               *)
EXTENDS Consensus, TraceLib

VARIABLES l, cur, chrom, base
tvars == <<l, cur, chrom, base>>

RECURSIVE Walk(_, _, _, _)
(* aligned (query index, reference position) pairs of the CIGAR M operations (matches_only) *)
Walk(ops, i, qi, r) ==
    IF i > Len(ops) THEN <<>>
    ELSE LET op == ops[i].op
             n  == ops[i].n
         IN IF op \in {"M", "=", "X"} THEN [ k \in 1 .. n |-> <<qi + k, r + k - 1>> ] \o Walk(ops, i + 1, qi + n, r + n)
            ELSE IF op \in {"I", "S"} THEN Walk(ops, i + 1, qi + n, r)
            ELSE IF op \in {"D", "N"} THEN Walk(ops, i + 1, qi, r + n)
            ELSE Walk(ops, i + 1, qi, r)
RefLen(ops) == LET g(o) == IF o.op \in {"M", "=", "X", "D", "N"} THEN o.n ELSE 0 IN SumSeqF(ops, g)

MateOf(jm) ==
    LET pairs == Walk(jm.cigar, 1, 0, jm.start)
        at(p) == pairs[CHOOSE i \in DOMAIN pairs : pairs[i][2] = p][1]
    IN [rev |-> jm.rev, s |-> jm.start, e |-> jm.start + RefLen(jm.cigar) - 1,
        c |-> [ p \in { pairs[i][2] : i \in DOMAIN pairs } |-> <<jm.seq[at(p)], jm.q[at(p)]>> ]]

FragOf(jf) == [hasR1 |-> Has(jf, "r1"), hasR2 |-> Has(jf, "r2"),
               r1 |-> IF Has(jf, "r1") THEN MateOf(jf.r1) ELSE NoMate,
               r2 |-> IF Has(jf, "r2") THEN MateOf(jf.r2) ELSE NoMate,
               form |-> jf.form, nomd |-> Has(jf, "nomd")]

ACGT == {"A", "C", "G", "T"}

ConsVerdict(e) ==
    LET F    == [ i \in DOMAIN e.order |-> cur[e.order[i]] ]
        PP   == UNION { CoveredP(F[i]) : i \in DOMAIN F }
        A    == CallsP(F, e.dove, PP)
        exp  == ConsOfCallsOn(A, PP, ACGT)
        got  == { <<x.pos, x.b>> : x \in SeqToSet(e.consensus) }
        expS == { <<p, exp[p]>> : p \in DOMAIN exp }
    IN IF \E x \in SeqToSet(e.consensus) : x.c # chrom THEN "Inv_C13_Majority_wrong_contig"
       ELSE IF Cardinality({ x.pos : x \in SeqToSet(e.consensus) }) # Len(e.consensus) THEN "Inv_C13_NoTie_position_twice"
       ELSE IF e.kind = "perm" /\ got # base[e.dove] THEN "Inv_C13_Order"
       ELSE IF e.kind = "dup" /\ got # base[e.dove] THEN "Inv_C13_Dup"
       ELSE IF \E x \in got : x[1] \in PP /\ CallWinners(A, x[1], ACGT) = {} THEN "Inv_C13_NoTie"
       ELSE IF got # expS THEN "Inv_C13_Majority"
       ELSE "ok"

(* outside the quantifier: fragments without a first mate (DESIGN 3.13), fragments handed over as a
   one-element read list (the molecule iterator never builds them), half-mapped pairs (second mate unmapped)
   and reads that lack the optional MD tag - recorded as observations *)
Outside(e) == \E i \in DOMAIN e.order : cur[e.order[i]].form \in {"r2only", "r1short", "r2unmapped"} \/ cur[e.order[i]].nomd

(* the documented return shape: a dict, or with with_probs_and_obs a 3-tuple whose first element is that dict *)
ShapeOK(e) == /\ Has(e, "consensus")
              /\ IF e.path = "plain" THEN e.rtype = "dict"
                 ELSE e.rtype = "tuple" /\ e.rlen = 3 /\ e.first_type = "dict"

Verdict(e) ==
    IF e.ev = "mol" THEN "ok"
    ELSE IF e.ev # "cons" THEN "unknown_event"
    ELSE IF Has(e, "raised") THEN (IF Outside(e) THEN "ok" ELSE "Inv_C13_Majority_raised_" \o e.raised)
    ELSE IF ~ShapeOK(e) THEN "Inv_C13_ReturnShape"
    ELSE IF Outside(e) THEN "ok"
    ELSE ConsVerdict(e)

NoteOutside(line, e) ==
    IF e.ev = "cons" /\ Outside(e)
    THEN Note(line, e.tid, IF Has(e, "raised") THEN "outside_quantifier_raised_" \o e.raised
                           ELSE IF ~Has(e, "consensus") THEN "outside_quantifier_malformed_return"
                           ELSE IF (\E i \in DOMAIN e.order : cur[e.order[i]].nomd) /\ e.consensus = <<>> THEN "reads_without_MD_tag_empty_consensus"
                           ELSE IF (\E i \in DOMAIN e.order : cur[e.order[i]].form = "r2unmapped") THEN "half_mapped_pair_returned"
                           ELSE "outside_quantifier_returned")
    ELSE TRUE

GotOf(e) == IF Has(e, "consensus") THEN { <<x.pos, x.b>> : x \in SeqToSet(e.consensus) } ELSE {}

TInit == /\ l = 1 /\ cur = <<>> /\ chrom = "" /\ base = [ d \in BOOLEAN |-> {} ]
         /\ dove = FALSE /\ votes = <<>> /\ added = <<>> /\ hist = <<>>
TNext == /\ l <= Len(Log)
         /\ LET e == Log[l] IN
            /\ Judge(l, Verdict(e))
            /\ NoteOutside(l, e)
            /\ cur'   = IF e.ev = "mol" THEN [ i \in DOMAIN e.frags |-> FragOf(e.frags[i]) ] ELSE cur
            /\ chrom' = IF e.ev = "mol" THEN e.chrom ELSE chrom
            /\ base'  = IF e.ev = "mol" THEN [ d \in BOOLEAN |-> {} ]
                        ELSE IF e.ev = "cons" /\ e.kind = "base" THEN [ base EXCEPT ![e.dove] = GotOf(e) ]
                        ELSE base
         /\ l' = l + 1
         /\ UNCHANGED vars
TAccepted == TLCGet("stats").diameter - 1 = Len(Log)
=====================================================================================================
