INIT Init
NEXT Next
CONSTANTS
  MaxContigs = 3
  MaxN = 1
  MaxStar = 1
  Modes = {"single", "multi"}
  Variant = "impl_big_after_smalls"
INVARIANT Inv_C05_Cover
INVARIANT Inv_C05_Multiset
INVARIANT Inv_C05_Sorted
INVARIANT Inv_PartsNonEmpty
CHECK_DEADLOCK FALSE
