INIT Init
NEXT Next
CONSTANTS
  ValChars = {97, 90, 49, 45, 95, 58, 59, 43}
  MaxLy = 3
  QChars = {33, 50, 84, 85, 86, 126}
  MaxUmi = 2
  Indexes = {"single", "dual", "empty"}
  Limit = 60
  Shapes = {"r", "rr", "rn", "nr"}
  RequireSafe = TRUE
  Variant = "design"
INVARIANT Inv_C04_QTotal
INVARIANT Inv_C04_Refuse
INVARIANT Inv_C04_NoRaise
INVARIANT Inv_C04_RoundTrip
CHECK_DEADLOCK FALSE
