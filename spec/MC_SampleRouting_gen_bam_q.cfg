INIT Init
NEXT Next
CONSTANTS
  SampleNames = {"a", "b", "c"}
  NoSM = TRUE
  AsgSamples = {"a", "b"}
  GroupNames = {"g", "h"}
  MaxRecs = 1
  MaxGroups = 2
  MaxPerGroup = 1
  HeadMax = 0
  WRGs = {TRUE, FALSE}
  Prefix = "P_"
  StemWithBam = TRUE
  Mode = "api"
  MaxLines = 0
  Variant = "design"
  NoCols = {FALSE}
  AddChrs = {FALSE}
  DupFlags = {FALSE}
  LowQFlags = {FALSE}
  PosMax = 1
  MapqReading = "ignored"
CONSTRAINT Emit
CHECK_DEADLOCK FALSE
