----------------------------------------- MODULE BlockZip -----------------------------------------
(* Extension X01 (not a listed property): utils/blockzip.py - tabular data tied to genomic       *)
(* locations in a bgzipped file with a per-contig offset index and a lazily filled read cache.   *)
(*                                                                                             *)
(* Writer: write(contig,pos,strand,data) appends a line; whenever the contig differs from the    *)
(*         previous line's contig the index gets  contig -> offset of this line  (later entries *)
(*         override earlier ones when the index file is read back).                             *)
(* Reader: Get(c,p,s): if c is not cached and c is indexed: LoadContig(c) = seek to index[c],    *)
(*         read lines until the contig changes or EOF; then answer from the cache.              *)
(*         LoadRegion(c,lo,hi) (public read_contig_to_cache with a region) REPLACES the cache    *)
(*         entry of c by the lines with lo <= pos (stops at the first pos > hi).                 *)
(* P-level: a lookup returns the data of the last line written for (c,p,s), or None.            *)
(*   Holds for every lookup history provided (documented precondition) each contig was written  *)
(*   as ONE contiguous run; Variant "mixed" drops the precondition and Variant "region" enables  *)
(*   LoadRegion before lookups: both are negative controls (the invariant is not vacuous).      *)
EXTENDS Integers, Sequences, FiniteSets, TLC, Util

CONSTANTS Contigs, MaxPos, Datas, MaxWrites, MaxGets, Variant

None == "none"
Line == [c : Contigs, p : 0 .. MaxPos, s : BOOLEAN, d : Datas]

VARIABLES phase,    \* "write" | "read"
          file,     \* sequence of lines
          index,    \* contig -> offset (line number) | 0
          cache,    \* contig -> [ok : loaded?, t : key -> data]
          answers   \* history of <<c,p,s,answer>>
vars == <<phase, file, index, cache, answers>>

Contiguous(f) == \A i, j \in DOMAIN f : (i < j /\ f[i].c = f[j].c) => \A k \in i .. j : f[k].c = f[i].c

Init == /\ phase = "write" /\ file = <<>> /\ index = [c \in Contigs |-> 0]
        /\ cache = [c \in Contigs |-> [ok |-> FALSE, t |-> <<>>]] /\ answers = <<>>

Write(ln) ==
    /\ phase = "write" /\ Len(file) < MaxWrites
    /\ (Variant # "mixed") => Contiguous(Append(file, ln))
    /\ index' = IF file = <<>> \/ file[Len(file)].c # ln.c THEN [index EXCEPT ![ln.c] = Len(file) + 1] ELSE index
    /\ file' = Append(file, ln)
    /\ UNCHANGED <<phase, cache, answers>>

CloseAndReopen == phase = "write" /\ phase' = "read" /\ UNCHANGED <<file, index, cache, answers>>

(* lines of the run that starts at index[c] *)
RunOf(c) == LET st == index[c]
                en == IF \E k \in st .. Len(file) : file[k].c # c
                      THEN MinOf({ k \in st .. Len(file) : file[k].c # c }) - 1 ELSE Len(file)
            IN SubSeq(file, st, en)
Table(q) == [ key \in { <<q[i].p, q[i].s>> : i \in DOMAIN q } |->
                q[MaxOf({ i \in DOMAIN q : <<q[i].p, q[i].s>> = key })].d ]

Loaded(c) == IF ~cache[c].ok /\ index[c] # 0 THEN [ok |-> TRUE, t |-> Table(RunOf(c))] ELSE cache[c]

Get(c, p, s) ==
    /\ phase = "read" /\ Len(answers) < MaxGets
    /\ LET t == Loaded(c)
           a == IF ~t.ok THEN None ELSE IF <<p, s>> \in DOMAIN t.t THEN t.t[<<p, s>>] ELSE None
       IN /\ cache' = [cache EXCEPT ![c] = t]
          /\ answers' = Append(answers, <<c, p, s, a>>)
    /\ UNCHANGED <<phase, file, index>>

LoadRegion(c, lo, hi) ==
    /\ Variant = "region" /\ phase = "read" /\ index[c] # 0
    /\ LET r == RunOf(c)
           stop == IF \E k \in DOMAIN r : r[k].p > hi THEN MinOf({ k \in DOMAIN r : r[k].p > hi }) - 1 ELSE Len(r)
           kept == SelectSeq(SubSeq(r, 1, stop), LAMBDA ln : ln.p >= lo)
       IN cache' = [cache EXCEPT ![c] = [ok |-> TRUE, t |-> Table(kept)]]
    /\ UNCHANGED <<phase, file, index, answers>>

Next == \/ \E ln \in Line : Write(ln)
        \/ CloseAndReopen
        \/ \E c \in Contigs, p \in 0 .. MaxPos, s \in BOOLEAN : Get(c, p, s)
        \/ \E c \in Contigs, lo \in 0 .. MaxPos, hi \in 0 .. MaxPos : LoadRegion(c, lo, hi)
Spec == Init /\ [][Next]_vars

---------------------------------------------------------------------------------------------------
(* P-level *)
Expected(f, c, p, s) ==
    LET hits == { i \in DOMAIN f : f[i].c = c /\ f[i].p = p /\ f[i].s = s }
    IN IF hits = {} THEN None ELSE f[MaxOf(hits)].d

Inv_X01_Lookup == \A i \in DOMAIN answers : answers[i][4] = Expected(file, answers[i][1], answers[i][2], answers[i][3])
=====================================================================================================
