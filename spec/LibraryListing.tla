-------------------------------------- MODULE LibraryListing --------------------------------------
(* Extension X03 (not a listed property):                                                           *)
(* libraryDetection/sequencingLibraryListing.py - SequencingLibraryLister.detect groups FASTQ file    *)
(* paths into  library -> lane -> mate -> [paths]  (what demux.py and all snakemake workflows iterate *)
(* over).                                                                                           *)
(*                                                                                                *)
(* D-level, one action per loop body of detect():                                                   *)
(*   Start          option handling, glob expansion (the directory order is the environment's choice; *)
(*                  the design sorts the expansion)                                                  *)
(*   Place          the `for path in fqfiles` body: classify the name, append the path to its slot    *)
(*   EndPlace       loop exit                                                                        *)
(*   Inspect(lane)  the `for lane in sorted(libraries[lib])` body: mates present / equally many files *)
(*   Finish         return the mapping | delete the ignored lanes and return | exit()                 *)
(* P-level: LibraryListingP.tla (the clauses C_xxx), evaluated on the observation built from the final state.*)
(* Variant: "design" | one named deviation | "impl" (the deviations still in the code: D301, D302, D304) *)
(*          | "impl_asfound" (all five found on 2026-09-28; D300, D303 repaired since), docs/X03.md:    *)
(*   replace_verbose (D300) verbose mode rebinds `replace` to the last replacement string: the first  *)
(*                          libraryReplace raises ValueError, or (empty replacement) nothing is replaced*)
(*   merge_nojoin    (D301) -merge _2 glues the parts without the delimiter                           *)
(*   slib_suffix     (D302) -slib is not applied to LIB_R1 / LIBR1 names                             *)
(*   glob_unsorted   (D303) the glob expansion is used in directory order                            *)
(*   slib_merged     (D304) -merge is applied to the name supplied by -slib                          *)
(*   mut_half_lane, mut_partial_return, mut_prepend : seeded deviations (controls for IgnoreWhole,    *)
(*                          Terminates, Pairing)                                                    *)
EXTENDS LibraryListingP, Json

CONSTANTS Schemes,        \* subset of {"ill","filt","und","pln","srr"}
          LibChoice,      \* "small" | "repl" | "merge"  (which library names, see LibTable)
          NLanes, NChunks, MaxFiles,
          ReplIdx,        \* subset of 1..4 : indices into ReplTable
          SlibIdx,        \* subset of 0..2 : 0 = no -slib
          Merges,         \* subset of 0..2
          SEs, Ignores, Verboses, Globs,   \* subsets of BOOLEAN
          Variant

ReplTable == << <<>>, << <<"XX", "a">> >>, << <<"XX", "">> >>, << <<"XX", "YY">>, <<"YY", "b">> >> >>
SlibTable == << <<"S">>, <<"S", "L">> >>
LibTable(c) == CASE c = "small" -> { <<"a">>, <<"b">> }
                 [] c = "one"   -> { <<"a">> }
                 [] c = "repl"  -> { <<"a">>, <<"XX">>, <<"XX", "b">>, <<"a", "b">>, <<"XX", "XX">> }
                 [] c = "repl3" -> { <<"a">>, <<"XX", "b">>, <<"XX", "XX">> }
                 [] c = "merge" -> { <<"a", "ba", "c">>, <<"ab", "a", "c">>, <<"a", "ba", "d">> }
SrrLibs == { <<"SRR12">>, <<"SRR13">> }
Libs == LibTable(LibChoice)

Universe ==
    { f \in [k : Schemes, lib : Libs \cup SrrLibs, lane : 0 .. NLanes, mate : 1 .. 2, ch : 1 .. NChunks] :
        /\ (f.k = "srr") <=> (f.lib \in SrrLibs)
        /\ IsLaned(f) <=> (f.lane > 0) }
OptSpace ==
    { o \in [replace : { ReplTable[i] : i \in ReplIdx }, hasslib : BOOLEAN, slib : { SlibTable[i] : i \in SlibIdx \ {0} } \cup {<<>>},
             merge : Merges, se : SEs, ignore : Ignores, verbose : Verboses, glob : Globs] :
        /\ o.hasslib <=> (o.slib # <<>>)
        /\ (~o.hasslib) => 0 \in SlibIdx }

VARIABLES files,     \* the input list (glob: the directory order)
          opts,
          pc,        \* "start" | "place" | "inspect" | "done"
          todo,      \* indices still to be placed, in processing order
          tab,       \* <<library name, lane key>> -> [1..2 -> sequence of file indices]
          chk,       \* lanes not yet inspected
          incons, ign, outcome, printed
vars == <<files, opts, pc, todo, tab, chk, incons, ign, outcome, printed>>

Init == /\ files \in { s \in UNION { [1 .. n -> Universe] : n \in 0 .. MaxFiles } : NoDup(s) }
        /\ opts \in OptSpace
        /\ pc = "start" /\ todo = <<>> /\ tab = <<>> /\ chk = {} /\ incons = FALSE /\ ign = {}
        /\ outcome = "none" /\ printed = 0

SchemeRank(x) == CASE x = "ill" -> 1 [] x = "filt" -> 2 [] x = "und" -> 3 [] x = "pln" -> 4 [] x = "srr" -> 5
LibRank(lb) == MinOf({ i \in DOMAIN files : files[i].lib = lb })      \* any total order of the names will do
SortKeyLess(f, g) ==      \* stands for the order of the path strings: library, (scheme), lane, mate, chunk
    \/ f.lib # g.lib /\ LibRank(f.lib) < LibRank(g.lib)
    \/ f.lib = g.lib /\ SchemeRank(f.k) < SchemeRank(g.k)
    \/ f.lib = g.lib /\ f.k = g.k /\ f.lane < g.lane
    \/ f.lib = g.lib /\ f.k = g.k /\ f.lane = g.lane /\ f.mate < g.mate
    \/ f.lib = g.lib /\ f.k = g.k /\ f.lane = g.lane /\ f.mate = g.mate /\ f.ch < g.ch
Sorted(idx) == SortSeq(idx, LAMBDA i, j : SortKeyLess(files[i], files[j]))

Crash == Dev(Variant, "replace_verbose") /\ opts.verbose /\ opts.replace # <<>>
         /\ opts.replace[Len(opts.replace)][2] # "" /\ files # <<>>

Start ==
    /\ pc = "start"
    /\ IF Crash THEN /\ pc' = "done" /\ outcome' = "raised" /\ UNCHANGED todo
       ELSE /\ pc' = "place" /\ UNCHANGED outcome
            /\ todo' = LET all == [i \in 1 .. Len(files) |-> i]
                       IN IF opts.glob /\ ~Dev(Variant, "glob_unsorted") THEN Sorted(all) ELSE all
    /\ UNCHANGED <<files, opts, tab, chk, incons, ign, printed>>

DLane(f) == IF IsSuffixScheme(f) /\ Dev(Variant, "slib_suffix") THEN <<"single", "", 0>> ELSE LaneKey(f, opts)

Place ==
    /\ pc = "place" /\ todo # <<>>
    /\ LET i == Head(todo)
           f == files[i]
           key == <<DevLib(f, opts, Variant), DLane(f)>>
           old == IF key \in DOMAIN tab THEN tab[key] ELSE [m \in 1 .. 2 |-> <<>>]
           new == [old EXCEPT ![f.mate] = IF Dev(Variant, "mut_prepend") /\ f.mate = 2 THEN <<i>> \o @ ELSE Append(@, i)]
       IN tab' = [k \in DOMAIN tab \cup {key} |-> IF k = key THEN new ELSE tab[k]]
    /\ todo' = Tail(todo)
    /\ UNCHANGED <<files, opts, pc, chk, incons, ign, outcome, printed>>

EndPlace ==
    /\ pc = "place" /\ todo = <<>>
    /\ pc' = "inspect" /\ chk' = DOMAIN tab
    /\ UNCHANGED <<files, opts, todo, tab, incons, ign, outcome, printed>>

Inspect(key) ==
    /\ pc = "inspect" /\ key \in chk
    /\ LET present == { m \in 1 .. 2 : tab[key][m] # <<>> }
           bad1 == ~opts.se /\ Cardinality(present) # 2
           bad2 == Cardinality(present) = 2 /\ Len(tab[key][1]) # Len(tab[key][2])
       IN /\ incons' = (incons \/ bad1 \/ bad2)
          /\ ign' = IF opts.ignore /\ (bad1 \/ bad2) /\ ~Dev(Variant, "mut_half_lane") THEN ign \cup {key} ELSE ign
    /\ chk' = chk \ {key}
    /\ UNCHANGED <<files, opts, pc, todo, tab, outcome, printed>>
SomeInspect == \E key \in chk : Inspect(key)

Finish ==
    /\ pc = "inspect" /\ chk = {}
    /\ pc' = "done"
    /\ IF incons /\ ~opts.ignore /\ ~Dev(Variant, "mut_partial_return")
       THEN outcome' = "exit" /\ UNCHANGED <<tab, printed>>
       ELSE /\ outcome' = "returned"
            /\ tab' = [k \in DOMAIN tab \ ign |-> tab[k]]
            /\ printed' = Cardinality(ign)
    /\ UNCHANGED <<files, opts, todo, chk, incons, ign>>

Next == Start \/ Place \/ EndPlace \/ SomeInspect \/ Finish
Spec == Init /\ [][Next]_vars

---------------------------------------------------------------------------------------------------
(* the observation of a finished call, in the shape the trace spec builds from the real return value *)
SlotKeys == { <<k, m>> \in (DOMAIN tab) \X (1 .. 2) : tab[k][m] # <<>> }
Obs == LET ks == SetToSeq(SlotKeys)
       IN [ outcome |-> outcome,
            slots |-> [s \in DOMAIN ks |-> [lib |-> ks[s][1][1], lane |-> ks[s][1][2],
                                           mate |-> IF ks[s][2] = 1 THEN "R1" ELSE "R2", fs |-> tab[ks[s][1]][ks[s][2]]]],
            nlibs |-> Cardinality({ k[1] : k \in DOMAIN tab }), nlanes |-> Cardinality(DOMAIN tab),
            printed |-> printed ]
Done == pc = "done"
Inv_X03_Outcome        == Done => C_Outcome(files, opts, Obs)
Inv_X03_Placement      == Done => C_Placement(files, opts, Obs)
Inv_X03_MateKey        == Done => C_MateKey(files, opts, Obs)
Inv_X03_LibraryName    == Done => C_LibraryName(files, opts, Obs)
Inv_X03_LaneGrouping   == Done => C_LaneGrouping(files, opts, Obs)
Inv_X03_SlotOrder      == Done => C_SlotOrder(files, opts, Obs)
Inv_X03_Pairing        == Done => C_Pairing(files, opts, Obs)
Inv_X03_IgnoreWhole    == Done => C_IgnoreWhole(files, opts, Obs)
Inv_X03_IgnoreReported == Done => C_IgnoreReported(files, opts, Obs)
Inv_X03_Terminates     == Done => C_Terminates(files, opts, Obs)
(* order independence: the result is the function of the SET of files (and options) that the P-level   *)
(* defines - whatever the order of the list was (every order is an initial state of this model)       *)
Inv_X03_OrderIndependent ==
    (Done /\ outcome = "returned") =>
        { <<x[1], x[2], x[3]>> : x \in Mapping(files, Obs) } =
        { <<ExpLib(files[i], opts), LaneKey(files[i], opts), IF files[i].mate = 1 THEN "R1" ELSE "R2">> :
              i \in { j \in DOMAIN files : ~opts.ignore \/ CompleteClass(files, opts, EClass(files[j], opts)) } }

(* scenario generator: every (file list, options) of the bounded model, printed from the initial states *)
Emit == IF pc = "start" THEN PrintT("@@SCENARIO " \o ToJson([files |-> files, opts |-> opts])) /\ FALSE ELSE TRUE
=====================================================================================================
