INIT Init
NEXT Next
CONSTANTS
  Ln = 6
  Tilings <- T_3bins
  MaxFrags = 1
  MaxLen = 1
  SpanSlack = 0
  Umis = {1}
  Invalid = TRUE
  NoSite = TRUE
  MaxUnplaced = 1
  PairedOK = TRUE
  EqualLen = FALSE
  SiteOut = 0
  AnyOrder = TRUE
  Variant = "design"
INVARIANT TypeOK
INVARIANT Inv_C08_NoForeign
INVARIANT Inv_C08_OneOwner
INVARIANT Inv_C08_Complete
INVARIANT Inv_C08_EqualAll
CHECK_DEADLOCK FALSE
