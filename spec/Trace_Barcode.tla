-------------------------------------- MODULE Trace_Barcode --------------------------------------
(* Observations of the real BarcodeParser judged by the P-level definition of BarcodeP.tla.      *)
(* Letter codes: A=1 C=2 G=3 T=4 N=5, any other character = its code point.                      *)
(*                                                                                               *)
(*  {"ev":"small","tid":n,"L":..,"k":..,"lazy":b,"via":"file|api","nfiles":1|2,"fmt":[..],        *)
(*   "wl":[[barcode,index],..],                 the whitelist as written by the generator         *)
(*   "ans":[{"q":barcode,"none":[b,b,b],"idx":s,"bc":barcode,"d":n,"raised":s}..]}                 *)
(*        one answer of getIndexCorrectedBarcodeAndHammingDistance per string of [1..L -> 1..5];   *)
(*   "again":[..]  a few of the same strings looked up a second time on the same parser          *)
(*  {"ev":"wl","tid":n,"alias":s,"k":..,"entries":[[barcode,index],..]}   a shipped whitelist      *)
(*        (independent reader); it is the whitelist of the following "q" events                   *)
(*  {"ev":"q","tid":n,"alias":s,"q":barcode,"none":..,"idx":..,"bc":..,"d":..,"raised":s}          *)
(* Indices are recorded as text (str(index)).                                                    *)
EXTENDS TraceLib, BarcodeP

VARIABLES l, W, K, Dup

MkW(entries) == [ b \in { entries[i][1] : i \in DOMAIN entries } |->
                    entries[CHOOSE i \in DOMAIN entries : entries[i][1] = b][2] ]
HasDup(entries) == Cardinality({ entries[i][1] : i \in DOMAIN entries }) # Len(entries)

(* what the code returned: None, a complete triple, or something else *)
Got(a) == IF a.none = <<TRUE, TRUE, TRUE>> THEN None
          ELSE IF a.none = <<FALSE, FALSE, FALSE>> THEN << a.idx, a.bc, a.d >>
          ELSE << "partial" >>

(* first failing clause of the statement for one lookup *)
LookupVerdict(w, k, a) ==
    LET exp == Nearest(w, k, a.q)
        got == Got(a)
    IN IF a.raised # "" THEN "Inv_C03_lookup_raised"
       ELSE IF Tied(w, k, a.q) /\ got # None THEN "Inv_C03_NoTieAssigned"
       ELSE IF a.q \in DOMAIN w /\ got # << w[a.q], a.q, 0 >> THEN "Inv_C03_Exact"
       ELSE IF got = exp THEN "ok"
       ELSE IF exp = None THEN "Inv_C03_Nearest_assigned_without_unique_nearest_within_k"
       ELSE IF got = None THEN "Inv_C03_Nearest_not_assigned"
       ELSE IF got[2] # exp[2] THEN "Inv_C03_Nearest_wrong_barcode"
       ELSE IF got[1] # exp[1] THEN "Inv_C03_Nearest_wrong_index"
       ELSE "Inv_C03_Nearest_wrong_distance"

SmallVerdict(e) ==
    LET w == MkW(e.wl)
        all == [1 .. e.L -> 1 .. 5]
        bad == { i \in DOMAIN e.ans : LookupVerdict(w, e.k, e.ans[i]) # "ok" }
        bad2 == { i \in DOMAIN e.again : LookupVerdict(w, e.k, e.again[i]) # "ok" }     \* the same strings asked a second time
    IN IF { e.ans[i].q : i \in DOMAIN e.ans } # all \/ Len(e.ans) # Cardinality(all) THEN "answers_do_not_cover_all_strings"
       ELSE IF bad = {} /\ bad2 # {} THEN LET i == CHOOSE x \in bad2 : TRUE IN
            LookupVerdict(w, e.k, e.again[i]) \o "_on_second_lookup q=" \o ToString(e.again[i].q) \o " wl=" \o ToString(e.wl) \o " k=" \o ToString(e.k)
       ELSE IF bad = {} THEN "ok"
       ELSE LET i == CHOOSE x \in bad : \A y \in bad : x <= y
            IN LookupVerdict(w, e.k, e.ans[i]) \o " q=" \o ToString(e.ans[i].q) \o " wl=" \o ToString(e.wl) \o " k=" \o ToString(e.k)

Verdict(e) == CASE e.ev = "small" -> SmallVerdict(e)
                [] e.ev = "wl"    -> "ok"
                [] e.ev = "q"     -> IF e.alias # W.alias THEN "query_without_whitelist" ELSE LookupVerdict(W.w, K, e)
                [] OTHER -> "unknown_event"

(* outside the statement: exact duplicates in a whitelist (which index is "that barcode's"?), a whitelist  *)
(* spread over two files of one alias, a query whose length is not the whitelist length or that contains   *)
(* a letter outside ACGTN, a file name with '.bc' in the middle (registered under another alias), (the placeholder row XXXXXX of the merged index lists)                            *)
Outside(e) == CASE e.ev = "small" -> e.nfiles > 1 \/ HasDup(e.wl) \/ e.alias_kind # "plain"
                [] e.ev = "q"     -> Dup \/ Comparable(W.w, e.q) = {} \/ (\E i \in DOMAIN e.q : e.q[i] \notin 1 .. 5)
                [] OTHER -> FALSE

TInit == l = 1 /\ W = [alias |-> "", w |-> <<>>] /\ K = 0 /\ Dup = FALSE
TNext == /\ l <= Len(Log)
         /\ LET e == Log[l]
                v == Verdict(e)
            IN /\ IF v = "ok" THEN TRUE
                  ELSE IF Outside(e) THEN Note(l, e.tid, "outside_statement " \o v)
                  ELSE Reject(l, e.tid, v)
               /\ IF e.ev = "wl" THEN W' = [alias |-> e.alias, w |-> MkW(e.entries)] /\ K' = e.k /\ Dup' = HasDup(e.entries)
                  ELSE UNCHANGED << W, K, Dup >>
         /\ l' = l + 1
TAccepted == TLCGet("stats").diameter - 1 = Len(Log)
=====================================================================================================
