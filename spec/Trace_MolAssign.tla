------------------------------------ MODULE Trace_MolAssign ------------------------------------
(* Observations of the real MoleculeIterator / Molecule.write_tags judged by the P-level          *)
(* definitions of MolAssignProps.tla (the same operators the design model MolAssign.tla is        *)
(* checked against).  Nothing computed by the driver is trusted: partitions, counts, flags and    *)
(* the precondition of C07 are all recomputed here from the raw fields.                           *)
(*                                                                                               *)
(* Common fields: tid, kind ("nla"|"chic"|"plain"), hd, radius, cap (0 = none), cache, readlen,   *)
(*   frags: [{cell, contig, strand, site, start, end, umi:[int], valid, dup}]   (ids = 1-based index)*)
(* ev = "lib"   (C06) one library through the iterator, write_tags on every molecule, then the   *)
(*              tagged reads through the iterator + write_tags again (history):                  *)
(*   pooling, sched (-1 = None), rounds: [ [ {ov, at, recs:[{id, dup:[bool per read], rc:[..],   *)
(*              af:[..], tf:[..]}]} per molecule ] per round ];  optional reuse: {sched, cache,   *)
(*              raised, fresh: round, reused: round} (re-use history, see ReuseVerdict)          *)
(* ev = "sched" (C07) one sorted fragment sequence under every schedule / pooling method:        *)
(*   runs: [{sched, pooling, raised, emits:[{at, ids}], reuse?}],  model: groups the design model expects  *)
(*              for runs[1] when the sequence is a TLC scenario ([] otherwise)                    *)
EXTENDS TraceLib, Util, MolAssignProps

VARIABLE l

IdsOk(F, ids) == \A k \in DOMAIN ids : ids[k] \in DOMAIN F
AllSame(q) == \A i, j \in DOMAIN q : q[i] = q[j]
Valid(F) == { i \in DOMAIN F : F[i].valid }

(* plain fragments have no cut site; the generator's anchor (start of a forward, end of a reverse *)
(* fragment) is its `site`.  A pair that is far on the anchor but close on the other end makes    *)
(* "the classes of identical site" ambiguous for the code's start-or-end relation: such libraries *)
(* are observations, not verdicts, for the clauses that need the classes.                        *)
Other(f) == IF f.strand = 0 THEN f["end"] ELSE f.start
PlainAmbiguous(e) ==
    e.ev # "probe" /\ e.kind = "plain" /\ \E i, j \in Valid(e.frags) :
        LET f == e.frags[i] g == e.frags[j] IN
        /\ i < j /\ f.cell = g.cell /\ f.strand = g.strand /\ f.contig = g.contig
        /\ Abs(f.site - g.site) > e.radius /\ Abs(Other(f) - Other(g)) <= e.radius
ExactApplies(e) == e.hd = 0 /\ (e.radius = 0 \/ e.kind = "nla") /\ ~PlainAmbiguous(e)

InRegion(e) == C07Region(e.frags, IF e.kind = "nla" THEN 0 ELSE e.radius, e.cache) /\ SortedInput(e.frags, e.readlen)

---------------------------------------------------------------------------------------------------
(* C06 *)
MolEmits(round) == [k \in DOMAIN round |-> [ids |-> [j \in DOMAIN round[k].recs |-> round[k].recs[j].id], at |-> round[k].at]]
FragRec(r) == [dup |-> r.dup[1], rc |-> r.rc[1], af |-> r.af[1], tf |-> r.tf[1]]
MolRecs(m) == [j \in DOMAIN m.recs |-> FragRec(m.recs[j])]

RoundVerdict(e, round) ==
    LET F == e.frags
        em == MolEmits(round)
        yinv == Has(e, "yinv") /\ e.yinv                 \* yield_invalid: every invalid fragment is handed out as a molecule of its own
        InvMol(k) == \A x \in SeqSet(em[k].ids) : ~F[x].valid
        real == { k \in DOMAIN round : ~round[k].ov /\ ~(yinv /\ InvMol(k)) }
        ovs == { k \in DOMAIN round : round[k].ov }
        ovIds == UNION { SeqSet(em[k].ids) : k \in ovs }
        Fall == [i \in DOMAIN F |-> [F[i] EXCEPT !.valid = TRUE]]
    IN IF \E k \in DOMAIN em : ~IdsOk(F, em[k].ids) \/ em[k].ids = <<>> THEN "malformed_ids"
       ELSE IF ~yinv /\ ~ExactlyOnce(F, em) THEN "Inv_C06_Partition"
       ELSE IF yinv /\ ~ExactlyOnce(Fall, em) THEN "Inv_C06_Partition"
       ELSE IF yinv /\ \E k \in DOMAIN em : (InvMol(k) /\ Len(em[k].ids) > 1) \/ (~InvMol(k) /\ \E x \in SeqSet(em[k].ids) : ~F[x].valid)
            THEN "Inv_C06_Partition_invalid_fragment_in_a_molecule"
       ELSE IF \E k \in DOMAIN em : ~Homogeneous(e.kind, e.radius, F, SeqSet(em[k].ids)) THEN "Inv_C06_Homogeneous"
       ELSE IF \E k \in DOMAIN em : ~Linked(e.hd, F, SeqSet(em[k].ids)) THEN "Inv_C06_Linked"
       ELSE IF e.cap = 0 /\ ovs # {} THEN "Inv_C06_Exact_overflow_without_cap"
       ELSE IF e.cap > 0 /\ \E k \in real : Len(em[k].ids) > e.cap THEN "Inv_C06_Counts_cap_exceeded"
       ELSE IF ExactApplies(e) /\ ~Exact(F, Valid(F) \ ovIds, { SeqSet(em[k].ids) : k \in real }) THEN "Inv_C06_Exact"
       ELSE IF e.hd > 0 /\ e.cap = 0 /\ (e.radius = 0 \/ e.kind = "nla") /\ ~PlainAmbiguous(e)
               /\ ~ExactHD(e.hd, F, Valid(F), { SeqSet(em[k].ids) : k \in DOMAIN em }) THEN "Inv_C06_Exact_unambiguous_umi_classes"
       ELSE IF ExactApplies(e) /\ \E k \in ovs : ~\E r \in real : Len(em[r].ids) = e.cap /\ SameClass(F[em[r].ids[1]], F[em[k].ids[1]])
            THEN "Inv_C06_Exact_overflow_not_from_full_class"
       ELSE IF \E k \in DOMAIN round : \E j \in DOMAIN round[k].recs :
                LET r == round[k].recs[j] IN ~(AllSame(r.dup) /\ AllSame(r.rc) /\ AllSame(r.af) /\ AllSame(r.tf))
            THEN "Inv_C06_Counts_mates_disagree"
       ELSE IF \E k \in DOMAIN round : ~OnePrimary(MolRecs(round[k])) THEN "Inv_C06_OnePrimary"
       ELSE IF \E k \in DOMAIN round : LET rs == MolRecs(round[k]) IN
                ~(AllSame([j \in DOMAIN rs |-> rs[j].tf]) /\ rs[1].tf >= Len(rs) /\ Counts(rs, rs[1].tf - Len(rs)))
            THEN "Inv_C06_Counts"
       ELSE IF e.cap = 0 /\ \E k \in DOMAIN round : MolRecs(round[k])[1].tf # Len(round[k].recs) THEN "Inv_C06_Counts_TF"
       ELSE IF e.sched = -1 /\ SumSeqF(round, LAMBDA m : MolRecs(m)[1].tf - Len(m.recs)) # Cardinality(ovs) THEN "Inv_C06_Counts_TF_overflow"
       ELSE "ok"

RoundsVerdict(e) ==
    LET v1 == RoundVerdict(e, e.rounds[1]) IN
    IF v1 # "ok" THEN v1
    ELSE IF Len(e.rounds) = 1 THEN "ok"
    ELSE LET v2 == RoundVerdict(e, e.rounds[2])
             g1 == GroupsOf(MolEmits(e.rounds[1]))
             g2 == GroupsOf(MolEmits(e.rounds[2]))
             Bag(round, g) == LET k == CHOOSE k \in DOMAIN round : SeqSet(MolEmits(round)[k].ids) = g IN DupBag(MolRecs(round[k]))
         IN IF v2 # "ok" THEN "Inv_C06_Idempotent_round2_" \o v2
            ELSE IF g1 # g2 THEN "Inv_C06_Idempotent_partition"
            ELSE IF \E g \in g1 : Bag(e.rounds[1], g) # Bag(e.rounds[2], g) THEN "Inv_C06_Idempotent_flags"
            ELSE "ok"

(* history: one MoleculeIterator object, first iteration abandoned after the first molecule it handed out, then     *)
(* iterated again (e.reuse.reused) - partition, duplicate flags and af/TF/RC must equal those of a fresh iterator   *)
(* with the same settings (e.reuse.fresh); only schedule-independent clauses are judged absolutely                 *)
TagSet(round, g) == LET k == CHOOSE k \in DOMAIN round : SeqSet(MolEmits(round)[k].ids) = g
                    IN { [id |-> round[k].recs[j].id, t |-> FragRec(round[k].recs[j])] : j \in DOMAIN round[k].recs }
(* the same library under ejection (check after every fragment, small cache): inside the region in which C07's  *)
(* design is verified, "molecules = truth classes" and all other clauses must hold for that run as well         *)
EjectVerdict(e) ==
    LET e2 == [e EXCEPT !.sched = e.reuse.sched, !.cache = e.reuse.cache] IN
    IF e.reuse.raised # "" \/ ~InRegion(e2) THEN "ok"
    ELSE LET v == RoundVerdict(e2, e.reuse.fresh) IN IF v = "ok" THEN "ok" ELSE "Inv_C06_UnderEjection_" \o v

ReuseVerdict(e) ==
    LET F == e.frags
        fr == e.reuse.fresh
        ru == e.reuse.reused
        emF == MolEmits(fr)
        emR == MolEmits(ru)
    IN IF e.reuse.raised # "" THEN "Inv_C06_Reuse_raised_" \o e.reuse.raised
       ELSE IF \E k \in DOMAIN emR : ~IdsOk(F, emR[k].ids) \/ emR[k].ids = <<>> THEN "malformed_ids"
       ELSE IF ~ExactlyOnce(IF Has(e, "yinv") /\ e.yinv THEN [i \in DOMAIN F |-> [F[i] EXCEPT !.valid = TRUE]] ELSE F, emR) THEN "Inv_C06_Reuse_Partition"
       ELSE IF \E k \in DOMAIN ru : ~OnePrimary(MolRecs(ru[k])) THEN "Inv_C06_Reuse_OnePrimary"
       ELSE IF \E k \in DOMAIN ru : LET rs == MolRecs(ru[k]) IN ~(rs[1].tf >= Len(rs) /\ Counts(rs, rs[1].tf - Len(rs))) THEN "Inv_C06_Reuse_Counts"
       ELSE IF GroupsOf(emR) # GroupsOf(emF) THEN "Inv_C06_Reuse_partition_differs_from_fresh"
       ELSE IF \E g \in GroupsOf(emR) : TagSet(ru, g) # TagSet(fr, g) THEN "Inv_C06_Reuse_tags_differ_from_fresh"
       ELSE "ok"

LibVerdict(e) ==
    LET v == IF e.raised # "" THEN "Inv_C06_Partition_raised_" \o e.raised ELSE RoundsVerdict(e) IN
    IF v # "ok" THEN v
    ELSE IF ~Has(e, "reuse") THEN "ok"
    ELSE LET w == EjectVerdict(e) IN IF w # "ok" THEN w ELSE ReuseVerdict(e)

---------------------------------------------------------------------------------------------------
(* C07 *)
(* reference runs are fresh iterators; runs marked `reuse` are the second pass over an iterator object whose   *)
(* first pass was abandoned after the first emitted molecule (history): judged like any other run            *)
Fresh(r) == ~Has(r, "reuse")
RunOf(e, sched, pooling) == CHOOSE k \in DOMAIN e.runs : Fresh(e.runs[k]) /\ e.runs[k].sched = sched /\ e.runs[k].pooling = pooling
HasRun(e, sched, pooling) == \E k \in DOMAIN e.runs : Fresh(e.runs[k]) /\ e.runs[k].sched = sched /\ e.runs[k].pooling = pooling

RunVerdict(e, k) ==
    LET r == e.runs[k] F == e.frags IN
    IF r.raised # "" THEN "Inv_C07_ExactlyOnce_raised_" \o r.raised
    ELSE IF \E m \in DOMAIN r.emits : ~IdsOk(F, r.emits[m].ids) THEN "malformed_ids"
    ELSE IF ~ExactlyOnce(F, r.emits) THEN "Inv_C07_ExactlyOnce"
    ELSE IF ~InRegion(e) THEN "ok"
    ELSE IF ~NoPremature(F, r.emits, e.cap) THEN "Inv_C07_NoPremature"
    ELSE IF HasRun(e, -1, r.pooling) /\ GroupsOf(r.emits) # GroupsOf(e.runs[RunOf(e, -1, r.pooling)].emits) THEN "Inv_C07_SamePartition"
    ELSE IF e.hd = 0 /\ e.cap = 0 /\ (e.radius = 0 \/ e.kind = "nla") /\ HasRun(e, -1, 1 - r.pooling)
            /\ GroupsOf(r.emits) # GroupsOf(e.runs[RunOf(e, -1, 1 - r.pooling)].emits)
         THEN (IF e.kind = "plain" /\ HasRun(e, -1, 0) /\ InteriorJoin(F, GroupsOf(e.runs[RunOf(e, -1, 0)].emits))
               THEN "Inv_C07_PoolingAgnostic_interior_member_match"
               ELSE "Inv_C07_PoolingAgnostic")
    ELSE "ok"

SchedVerdict(e) ==
    IF \E k \in DOMAIN e.runs : RunVerdict(e, k) # "ok"
    THEN LET k == CHOOSE k \in DOMAIN e.runs : RunVerdict(e, k) # "ok" /\ \A j \in 1 .. (k - 1) : RunVerdict(e, j) = "ok"
         IN RunVerdict(e, k) \o " sched=" \o ToString(e.runs[k].sched) \o " pooling=" \o ToString(e.runs[k].pooling)
                \o (IF Has(e.runs[k], "reuse") THEN " reuse" ELSE "")
    ELSE "ok"

(* informational: outside the verified region / ambiguous plain library / D-level divergence from the model *)
(* D-level observation (never an alarm): with pooling 1 the code compares a candidate with the molecule's          *)
(* representative = first most common UMI of the members so far (anchor "Molecule.umi / umi_counter").  The        *)
(* statement only asks for UMI linkage (pooling 0 compares with every member), so a molecule built differently is   *)
(* reported as a divergence from the design, not as a violation.  recs are in join order.                          *)
RepOf(us) == LET cnt(k) == Cardinality({ j \in DOMAIN us : us[j] = us[k] })
                 best == CHOOSE k \in DOMAIN us : \A j \in DOMAIN us : cnt(j) <= cnt(k) /\ (j < k => cnt(j) < cnt(k))
             IN us[best]
NotViaRepresentative(e) ==
    e.ev = "lib" /\ e.pooling = 1 /\ e.hd > 0 /\
    \E m \in DOMAIN e.rounds[1] :
        LET us == [j \in DOMAIN e.rounds[1][m].recs |-> e.frags[e.rounds[1][m].recs[j].id].umi] IN
        \E k \in 2 .. Len(us) : ~UmiClose(e.hd, us[k], RepOf(SubSeq(us, 1, k - 1)))

Remark(e) ==
    IF e.ev = "probe" THEN ""
    ELSE IF e.ev = "sched" /\ ~InRegion(e) THEN "outside_c07_region"
    ELSE IF NotViaRepresentative(e) THEN "divergence_member_not_within_hd_of_most_common_umi"
    ELSE IF PlainAmbiguous(e) THEN "plain_ambiguous_anchor"
    ELSE IF e.ev = "sched" /\ e.model # <<>> /\ e.runs[1].raised = ""
              /\ GroupsOf(e.runs[1].emits) # { SeqSet(e.model[m]) : m \in DOMAIN e.model } THEN "divergence_from_design_model"
    ELSE ""

(* two copies of one molecule through the iterator with an input filter that removes nothing, fed as bare reads *)
ProbeVerdict(e) == IF e.raised # "" THEN "Inv_C06_Partition_raised_" \o e.raised \o "_" \o e.what
                   ELSE IF e.molecules # 1 THEN "Inv_C06_Exact_" \o e.what
                   ELSE "ok"

Verdict(e) == CASE e.ev = "lib"   -> LibVerdict(e)
                [] e.ev = "sched" -> SchedVerdict(e)
                [] e.ev = "probe" -> ProbeVerdict(e)
                [] OTHER -> "unknown_event"

TInit == l = 1
TNext == /\ l <= Len(Log)
         /\ Judge(l, Verdict(Log[l]))
         /\ (IF Remark(Log[l]) = "" THEN TRUE ELSE Note(l, Log[l].tid, Remark(Log[l])))
         /\ l' = l + 1
TAccepted == TLCGet("stats").diameter - 1 = Len(Log)
=================================================================================================
