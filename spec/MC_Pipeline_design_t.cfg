INIT Init
NEXT Next
CONSTANTS
  Cells = {1, 2}
  UMIs = {1, 2}
  Contigs = {1}
  Positions = {1}
  AllowHalf = FALSE
  MaxPairs = 4
  HDs = {0, 1}
  MMAll = FALSE
  Variant = "design"
INVARIANT Inv_X02_E1_Conservation
INVARIANT Inv_X02_E2_Identity
INVARIANT Inv_X02_E3_Counts
INVARIANT Inv_X02_E4_Rejects
CHECK_DEADLOCK FALSE
