INIT Init
NEXT Next
CONSTANTS
  Contigs = {"c1","c2"}
  AbsentContigs = {"cx"}
  NoCacheContigs = {}
  Positions = {0}
  Samples = {"s1", "s2"}
  GTSet = "tiny"
  ConfigSet = "ign"
  MaxRuns = 2
  MaxOps = 1
  Variant = "impl_cachekey"
  Record = FALSE
INVARIANT Inv_C18_Truth
INVARIANT Inv_C18_ModeEq
CHECK_DEADLOCK FALSE
