INIT Init
NEXT Next
CONSTANTS
  MaxCoord = 2
  FeatStrands = {"+"}
  QStrands = {"."}
  NContigs = 1
  MemoCap = 4
  MaxFeat = 2
  MaxSorts = 2
  MaxQueries = 2
  BetweenOn = TRUE
  AnnotLevel = 1
  UnsortedQueries = FALSE
  TrackHist = FALSE
  Variant = "sortonly"
INVARIANT Inv_C16_At
INVARIANT Inv_C16_Between
INVARIANT Inv_C16_Annotate
CHECK_DEADLOCK FALSE
