INIT Init
NEXT Next
CONSTANTS
  NValues = 3
  MaxLen = 5
  MHs = {1,2,3}
  Variant = "skipreplace"
INVARIANT Inv_C19_PassesComplete
INVARIANT Inv_C19_OpenOnce
INVARIANT Inv_C19_HandleBound
INVARIANT Inv_C19_PassBound
CHECK_DEADLOCK FALSE
