INIT Init
NEXT Next
CONSTANTS
  A = 4
  L = 2
  MaxLines = 2
  Ks = {0, 1, 2}
  Fmts = {"bc"}
  NFiles = {1}
  Lazy = {"other"}
  ProbeMax = 5
  Touches = {"lookup"}
  Variant = "design"
CONSTRAINT Emit
CONSTRAINT OnlyInit
CHECK_DEADLOCK FALSE
