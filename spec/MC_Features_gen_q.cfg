INIT Init
NEXT Next
CONSTANTS
  MaxCoord = 1
  FeatStrands = {"+"}
  QStrands = {"."}
  NContigs = 1
  MemoCap = 4
  MaxFeat = 3
  MaxSorts = 2
  MaxQueries = 2
  BetweenOn = TRUE
  AnnotLevel = 1
  UnsortedQueries = TRUE
  TrackHist = TRUE
  Variant = "design"
VIEW mcview
CONSTRAINT EmitScenario
CHECK_DEADLOCK FALSE
