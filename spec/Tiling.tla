------------------------------------------ MODULE Tiling ------------------------------------------
(* C17 - blacklist-aware genome tiling is an exact partition with contained fetch windows.       *)
(*                                                                                               *)
(* State machine of blacklisted_binning (bamBinCounts.py:488-549), one action per loop body:     *)
(*   Prepare    merge_overlapping_ranges (only if > 1 interval), trim_rangelist, + sentinel      *)
(*   OuterSkip  `if start == current: current = end; continue`                                   *)
(*   OpenGap    total_bins / local_bin_size of the gap [current,start), creates the inner        *)
(*              fill_range generator                                                             *)
(*   EmitBin    one iteration of the inner loop: yield the bin (+ fetch window), current = pos_e *)
(*   CloseGap   `current = end` after the inner loop                                             *)
(*   Finish     the work list is exhausted                                                       *)
(* The parameters (region, bin size, fragment size, blacklist) are chosen in Init, so that TLC   *)
(* enumerates the whole small parameter space; the P-level operators of TilingOps are checked    *)
(* as invariants on the emitted tuples.                                                          *)
(* Variant: "design" (intended), "impl" (as coded), "impl_trim" / "impl_window" (one deviation). *)
EXTENDS TilingOps, Json

CONSTANTS MinCoord, MaxCoord,   \* region start/end within MinCoord..MaxCoord
          BinSizes,             \* set of requested bin sizes
          FragSizes,            \* set of fragment sizes (naturals)
          AllowNoFrag,          \* TRUE: fragment_size=None (NoFrag) is explored as well
          BLPad,                \* blacklist coordinates range over MinCoord-BLPad .. MaxCoord+BLPad (may leave the region)
          MaxBL,                \* at most this many blacklist intervals (0..2)
          Variant

VARIABLES S, E, B, F, BL,       \* the call's arguments
          pc, work, i, current, \* outer loop: work list, index, cursor
          gapStart, pend, fi,   \* inner loop: start of the gap being filled, the fill_range generator, its index
          out                   \* tuples yielded so far
vars == <<S, E, B, F, BL, pc, work, i, current, gapStart, pend, fi, out>>

BLCoords == (MinCoord - BLPad) .. (MaxCoord + BLPad)
Intervals == { iv \in BLCoords \X BLCoords : iv[1] <= iv[2] }
(* blacklists as the caller passes them: any order for two intervals is the same after sorted(),  *)
(* so only lexicographically ordered pairs are enumerated                                         *)
Blacklists == { <<>> } \cup (IF MaxBL >= 1 THEN { <<x>> : x \in Intervals } ELSE {})
              \cup (IF MaxBL >= 2 THEN { q \in { <<x, y>> : x \in Intervals, y \in Intervals } : ~IvLess(q[2], q[1]) } ELSE {})

Init == /\ S \in MinCoord .. MaxCoord /\ E \in S .. MaxCoord
        /\ B \in BinSizes /\ F \in FragSizes \cup (IF AllowNoFrag THEN {NoFrag} ELSE {}) /\ BL \in Blacklists
        /\ pc = "prepare" /\ work = <<>> /\ i = 1 /\ current = S
        /\ gapStart = S /\ pend = <<>> /\ fi = 0 /\ out = <<>>

Prepare == /\ pc = "prepare"
           /\ work' = WorkList(Variant, S, E, BL)
           /\ pc' = "outer"
           /\ UNCHANGED <<S, E, B, F, BL, i, current, gapStart, pend, fi, out>>

OuterSkip == /\ pc = "outer" /\ i <= Len(work) /\ work[i][1] = current
             /\ current' = work[i][2] /\ i' = i + 1
             /\ UNCHANGED <<S, E, B, F, BL, pc, work, gapStart, pend, fi, out>>

OpenGap == /\ pc = "outer" /\ i <= Len(work) /\ work[i][1] # current
           /\ gapStart' = current
           /\ pend' = GapBins(current, work[i][1], B)
           /\ fi' = 0 /\ pc' = "inner"
           /\ UNCHANGED <<S, E, B, F, BL, work, i, current, out>>

EmitBin == /\ pc = "inner" /\ fi < Len(pend)
           /\ out' = Append(out, Window(Variant, pend[fi + 1], fi, gapStart, work[i][1], B, F))
           /\ current' = pend[fi + 1][2]
           /\ fi' = fi + 1
           /\ UNCHANGED <<S, E, B, F, BL, pc, work, i, gapStart, pend>>

CloseGap == /\ pc = "inner" /\ fi = Len(pend)
            /\ current' = work[i][2] /\ i' = i + 1 /\ pc' = "outer"
            /\ UNCHANGED <<S, E, B, F, BL, work, gapStart, pend, fi, out>>

Finish == /\ pc = "outer" /\ i > Len(work)
          /\ pc' = "done"
          /\ UNCHANGED <<S, E, B, F, BL, work, i, current, gapStart, pend, fi, out>>

Next == Prepare \/ OuterSkip \/ OpenGap \/ EmitBin \/ CloseGap \/ Finish
Spec == Init /\ [][Next]_vars

---------------------------------------------------------------------------------------------------
(* Properties (P-level, on the emitted tuples) *)
Done == pc = "done"
Inv_C17_Partition == Done => P_Partition(S, E, BL, out)
Inv_C17_Size      == P_Size(B, out)
Inv_C17_Clean     == P_Clean(S, E, BL, out)
Inv_C17_Window    == F # NoFrag => /\ P_WindowContains(out) /\ P_WindowExtent(F, out)
                                   /\ P_WindowInRegion(S, E, out) /\ P_WindowOffBlacklist(BL, out)
(* the same statement while the generator is running: everything left of the cursor is settled *)
Inv_C17_Prefix == pc \in {"outer", "inner"} =>
                     LET c == Min2(current, E) IN
                     /\ P_Partition(S, c, BL, out)
                     /\ \A k \in DOMAIN out : out[k][2] <= c
Inv_C17_Verdict == Done => TileVerdict(S, E, B, F, BL, out) = "ok"

(* D-level lemmas (design only: they explain why the design is right) *)
Inv_D_Monotone == pc = "outer" /\ i <= Len(work) => work[i][1] >= current
Inv_D_BinCount == pc = "inner" => /\ Len(pend) >= 1
                                  /\ LocalBin(gapStart, work[i][1], B) >= 1
                                  /\ LocalBin(gapStart, work[i][1], B) <= B
Inv_D_OperatorForm == Done => out = TileOut(Variant, S, E, B, F, BL)
(* the two helper lemmas depend on the arguments only: evaluated once per argument set *)
Inv_D_Fill == pc = "prepare" => /\ P_Fill(S, E, B, FillRange(S, E, B))
                                /\ FillRange(S, E, B) = FillFrom(S, E, B)     \* closed form = loop form
(* merging keeps the covered points and leaves a sorted list without overlaps *)
Inv_D_Merge == pc = "prepare" /\ F = NoFrag /\ B = (CHOOSE x \in BinSizes : TRUE) =>
               LET m == MergeRanges(BL) IN
               /\ \A p \in (MinCoord - 2) .. (MaxCoord + 2) : Black(m, p) <=> Black(BL, p)
               /\ \A k \in 1 .. (Len(m) - 1) : m[k][2] <= m[k + 1][1] /\ ~IvLess(m[k + 1], m[k])

---------------------------------------------------------------------------------------------------
(* spec -> code: scenario generator.  With CONSTRAINT EmitScenario TLC prints the arguments of     *)
(* every initial state and explores nothing behind it; the driver replays them into the real code. *)
EmitScenario == IF pc = "prepare"
                THEN PrintT("@@SCENARIO " \o ToJson([S |-> S, E |-> E, B |-> B, F |-> F, bl |-> BL])) /\ FALSE
                ELSE FALSE
=====================================================================================================
