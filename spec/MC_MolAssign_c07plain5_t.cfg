INIT Init
NEXT Next
CONSTANTS
  Kind = "plain"
  HD = 0
  Radius = 0
  Cap = 0
  CacheSize = 6
  ReadLens = {9}
  Cells = {1}
  Contigs = {1}
  Strands = {0}
  Sites = {0,2}
  Lens = {1, 3}
  Umis = {0, 1, 6}
  Valids = {TRUE}
  MaxFrags = 5
  Scheds = {1000, 0}
  Poolings = {0, 1}
  Variant = "design"
INVARIANT Inv_Conservation
INVARIANT Inv_C06_Homogeneous
INVARIANT Inv_C06_Linked
INVARIANT Inv_C06_Exact
INVARIANT Inv_C06_ExactHD
INVARIANT Inv_C06_OnePrimary
INVARIANT Inv_C06_Counts
INVARIANT Inv_C06_Idempotent
INVARIANT Inv_C07_ExactlyOnce
INVARIANT Inv_C07_SamePartition
INVARIANT Inv_C07_NoPremature
INVARIANT Inv_C07_PoolingAgnostic
CHECK_DEADLOCK FALSE
