INIT Init
NEXT Next
CONSTANTS
  A = 4
  L = 2
  MaxLines = 3
  Ks = {0, 1, 2}
  Fmts = {"bc", "idx_bc"}
  NFiles = {1}
  Lazy = {"none", "other", "this"}
  ProbeMax = 5
  Touches = {"lookup", "getitem"}
  Variant = "design"
INVARIANT TypeOK
INVARIANT Inv_C03_Nearest
INVARIANT Inv_C03_Exact
INVARIANT Inv_C03_NoTieAssigned
INVARIANT Inv_C03_Lookup
INVARIANT Inv_C03_Parse
CHECK_DEADLOCK FALSE
