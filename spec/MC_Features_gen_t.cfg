INIT Init
NEXT Next
CONSTANTS
  MaxCoord = 2
  FeatStrands = {"+","-"}
  QStrands = {".","+"}
  NContigs = 1
  MemoCap = 4
  MaxFeat = 2
  MaxSorts = 2
  MaxQueries = 2
  BetweenOn = TRUE
  AnnotLevel = 1
  UnsortedQueries = TRUE
  TrackHist = TRUE
  Variant = "design"
VIEW mcview
CONSTRAINT EmitScenario
CHECK_DEADLOCK FALSE
