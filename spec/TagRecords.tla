---------------------------------------- MODULE TagRecords ----------------------------------------
(* P-level vocabulary shared by JobPlan (C05) and TagPipeline (C20): what "the same records",    *)
(* "coordinate sorted", "read group declared" mean for alignment records as they are observed    *)
(* (by pysam) in an input and an output BAM.  Pure operators, no variables, no algorithm.         *)
(*                                                                                               *)
(* An observed record is a JSON object                                                           *)
(*   [name, mate (0 = no mate bit, 1, 2), seq, qual, ref (contig name, "*" when unplaced),       *)
(*    pos, cigar ("*" when none), tid (index of the contig in the file's own header, -1 unplaced)]*)
(* input records additionally carry the generator's ground truth                                 *)
(*   pm    : 1/2 = mate number of a record whose mate is also in the file (proper pair, half-mapped  *)
(*           pair, mates on different contigs, unmapped pair); 0 = single read / orphan whose mate   *)
(*           is absent: the statement promises the mate number "when both mates are present"         *)
(*   valid : the fragment the record belongs to is a valid fragment of the protocol              *)
EXTENDS Integers, Sequences, FiniteSets, Util

(* identity of a record as the statement lists it: name, sequence, qualities, position, CIGAR   *)
(* (+ mate number where promised).  m is the mate number to use.                                 *)
Key(r, m) == <<r.name, m, r.seq, r.qual, r.ref, r.pos, r.cigar>>

(* names of the pairs for which the mate number is promised *)
PairedNames(in) == { in[i].name : i \in { k \in DOMAIN in : in[k].pm # 0 } }

InKeys(in)       == [ i \in DOMAIN in  |-> Key(in[i], in[i].pm) ]
OutKeys(in, out) == LET pn == PairedNames(in)
                    IN [ i \in DOMAIN out |-> Key(out[i], IF out[i].name \in pn THEN out[i].mate ELSE 0) ]

(* multiset comparison, naming what is wrong.  Written with sets first so that inputs of 10^4 records stay cheap:  *)
(* the quadratic CountIn is only evaluated when a sequence really holds a key twice.                                *)
HasDup(q)        == Cardinality(SeqSet(q)) # Len(q)
Missing(a, b)    == SeqSet(a) \ SeqSet(b)                                     \* in a, not at all in b
Foreign(a, b)    == SeqSet(b) \ SeqSet(a)                                     \* in b, not at all in a
Duplicated(a, b) == IF ~HasDup(b) THEN {}
                    ELSE { x \in SeqSet(b) \cap SeqSet(a) : CountIn(b, x) > CountIn(a, x) }

(* every input record is in the output (at least once): C20's "contains every record"           *)
ContainsAll(inkeys, outkeys) == Missing(inkeys, outkeys) = {}
(* exactly the input records, each once: C05                                                    *)
SameRecords(inkeys, outkeys) == IF HasDup(inkeys) \/ HasDup(outkeys) THEN SameBag(inkeys, outkeys)
                                ELSE Len(inkeys) = Len(outkeys) /\ SeqSet(inkeys) = SeqSet(outkeys)

(* coordinate order of a BAM: by contig index of its own header, unplaced records last          *)
Unplaced == 1073741824
CoordLe(a, b) == LET ta == IF a.tid < 0 THEN Unplaced ELSE a.tid
                     tb == IF b.tid < 0 THEN Unplaced ELSE b.tid
                 IN ta < tb \/ (ta = tb /\ (ta = Unplaced \/ a.pos <= b.pos))
CoordSorted(out) == \A i \in 1 .. (Len(out) - 1) : CoordLe(out[i], out[i + 1])

(* every record carries a read group that the header declares *)
ReadGroupsDeclared(out, hdr) == \A i \in DOMAIN out : out[i].rg # "" /\ out[i].rg \in SeqSet(hdr)

SelectValid(in) == SelectSeq(in, LAMBDA r : r.valid)
=====================================================================================================
