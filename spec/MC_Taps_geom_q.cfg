INIT Init
NEXT Next
CONSTANTS
  L = 3
  Alphabet = {"A", "C", "G", "T", "N"}
  Mode = "geometry"
  GeomRefs = {"allC", "allG"}
  MaxFrags = 1
  DistMode = "mixed"
  Variant = "design"
INVARIANT Inv_C14_OnTarget
INVARIANT Inv_C14_DoveSafe
INVARIANT Inv_C14_OnConsensus
INVARIANT Inv_C14_Letter
INVARIANT Inv_C14_Case
INVARIANT Inv_C14_XMLen
INVARIANT Inv_C14_XMLetter
INVARIANT Inv_C14_Totals
INVARIANT Inv_C14_All
INVARIANT Inv_D_Table
INVARIANT Inv_D_Complete
INVARIANT Inv_D_Cons
INVARIANT Inv_D_Target
CHECK_DEADLOCK FALSE
