INIT Init
NEXT Next
CONSTANTS
  NPaths = 3
  Stale = {1, 2}
  Ks = {1,2}
  MHs = {3}
  PEs = {3}
  BadChoices = {0}
  MaxTransient = 1
  MaxOps = 4
  Variant = "mut_seen_early"
  Record = FALSE
INVARIANT Inv_C19_Content
INVARIANT Inv_C19_Raise
CHECK_DEADLOCK FALSE
