------------------------------------ MODULE Trace_LibraryListing ------------------------------------
(* Recorded calls of the real SequencingLibraryLister.detect judged by the P-level of X03              *)
(* (LibraryListingP.tla).  One line per call:                                                         *)
(* {"ev":"detect","tid","grp" (calls with the same set of files and options: consecutive lines),       *)
(*  "src":"scenario"|"random"|"directed","via":"kwargs"|"args",                                        *)
(*  "opts":{"replace":[[origin,replacement]..],"hasslib","slib":[tokens],"merge":0|n,"se","ignore",    *)
(*          "verbose","glob"},                                                                        *)
(*  "files":[{"k","lib":[tokens],"lane","mate","ch","name": the path handed to detect}..] in the order  *)
(*          of the list (glob: the order in which the directory listing returned them),               *)
(*  "outcome":"returned"|"exit"|"raised","exc": exception type or "",                                  *)
(*  "slots":[{"lib","lane","mate","fs":[1-based indices into files]}..]  the returned mapping (after     *)
(*          "exit": the lister's `libraries` attribute), "nlibs","nlanes" its key counts,              *)
(*  "printed": lines printed for ignored lanes (-1 when other output is mixed in)}                     *)
(* Nothing in here is trusted but the raw fields: expected library names, lanes, completeness of a      *)
(* lane, pairing, the set of files that has to survive --ignore are all recomputed from the abstract   *)
(* file descriptions by the P-level definitions.                                                      *)
EXTENDS TraceLib, LibraryListingP

VARIABLES l, prev

OptsOf(e) == e.opts
(* the abstract files only: the path string is what went through detect(), it takes no part in the judgement *)
AbsFiles(e) == [i \in DOMAIN e.files |-> [k |-> e.files[i].k, lib |-> e.files[i].lib, lane |-> e.files[i].lane,
                                          mate |-> e.files[i].mate, ch |-> e.files[i].ch]]
ObsOf(e) == [outcome |-> e.outcome, slots |-> e.slots, nlibs |-> e.nlibs, nlanes |-> e.nlanes, printed |-> e.printed]

(* a specific signature for a failing clause: which named deviation of the code (LibraryListingP,      *)
(* DevLib) reproduces the observed library name, if any                                               *)
NameDiagnosis(fs, o, r) ==
    LET i == FirstBadName(fs, o, r)
        f == fs[i]
        got == r.slots[SlotOf(r, i)].lib
    IN IF got = DevLib(f, o, "replace_verbose") THEN "D300_replace_not_applied_in_verbose_mode"
       ELSE IF got = DevLib(f, o, "slib_suffix") THEN "D302_slib_ignored_for_R1_suffix_names"
       ELSE IF got = DevLib(f, o, "merge_nojoin") THEN "D301_merge_parts_glued_without_delimiter"
       ELSE IF got = DevLib(f, o, "slib_merged") THEN "D304_merge_applied_to_slib_name"
       ELSE IF got = DevLib(f, o, "impl") THEN "D30x_combination"
       ELSE "other"

Verdict(e) ==
    LET fs == AbsFiles(e)  o == OptsOf(e)  r == ObsOf(e)
        v == FirstFailing(fs, o, r)
        mode == IF o.glob THEN "glob" ELSE "list"
    IN IF v = "ok" THEN "ok"
       ELSE IF v = "Outcome" THEN "Outcome_" \o e.outcome \o "_" \o e.exc \o
                                  (IF o.verbose /\ o.replace # <<>> THEN "|verbose_replace" ELSE "|other")
       ELSE IF v = "LibraryName" THEN "LibraryName|" \o NameDiagnosis(fs, o, r)
       ELSE v \o "|" \o mode

MapOf(e) == IF e.outcome = "returned" THEN Mapping(AbsFiles(e), ObsOf(e)) ELSE {}

TInit == l = 1 /\ prev = [grp |-> 0, outcome |-> "", map |-> {}, ok |-> FALSE]
TNext ==
    /\ l <= Len(Log)
    /\ LET e == Log[l]
           v == Verdict(e)
       IN /\ Judge(l, v)
          (* order independence, judged on pairs of accepted calls over the same set of files *)
          /\ IF v = "ok" /\ prev.ok /\ prev.grp = e.grp /\ e.grp # 0
                /\ (prev.outcome # e.outcome \/ prev.map # MapOf(e))
             THEN Reject(l, e.tid, "OrderIndependent|" \o (IF e.opts.glob THEN "glob" ELSE "list"))
             ELSE TRUE
          /\ IF v = "ok" /\ PairingOutOfScope(AbsFiles(e), OptsOf(e), ObsOf(e))
             THEN Note(l, e.tid, "pairing_precondition_not_met") ELSE TRUE
          /\ prev' = [grp |-> e.grp, outcome |-> e.outcome, map |-> MapOf(e), ok |-> v = "ok"]
    /\ l' = l + 1
TAccepted == TLCGet("stats").diameter - 1 = Len(Log)
=====================================================================================================
