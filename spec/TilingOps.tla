---------------------------------------- MODULE TilingOps ----------------------------------------
(* C17 - blacklist-aware genome tiling.  Constant-free definitions shared by the model           *)
(* (Tiling.tla) and the trace specification (Trace_Tiling.tla).                                  *)
(*                                                                                               *)
(*   P-level : the property's own definition, evaluated on ANY list of output tuples            *)
(*             <<bin_start, bin_end, fetch_start, fetch_end>>  (no algorithm).                   *)
(*   D-level : the algorithm of singlecellmultiomics/bamProcessing/bamBinCounts.py written as    *)
(*             operators (fill_range, merge_overlapping_ranges, trim_rangelist, the per-gap      *)
(*             equalised bin size, the fetch-window rule); `v` selects the intended rule         *)
(*             ("design") or the literal transcription of the code at the pinned commit          *)
(*             ("impl", "impl_trim", "impl_window": named deviations D12a / D12b).               *)
(* Intervals are half-open <<lo, hi>>; NoFrag (-1) stands for fragment_size=None.                *)
EXTENDS Integers, Sequences, FiniteSets, TLC, Util

NoFrag == -1

---------------------------------------------------------------------------------------------------
(* P-level *)
InIv(p, lo, hi) == lo <= p /\ p < hi
Black(BL, p) == \E k \in DOMAIN BL : InIv(p, BL[k][1], BL[k][2])          \* BL: the blacklist as given
BinsAt(out, p) == { k \in DOMAIN out : InIv(p, out[k][1], out[k][2]) }

(* bins + blacklist cover [S,E) exactly once *)
P_Partition(S, E, BL, out) ==
    \A p \in S .. (E - 1) : Cardinality(BinsAt(out, p)) = (IF Black(BL, p) THEN 0 ELSE 1)
P_Size(B, out) == \A k \in DOMAIN out : out[k][1] <= out[k][2] /\ out[k][2] - out[k][1] <= B
(* no bin leaves the region or touches a blacklisted base *)
P_Clean(S, E, BL, out) ==
    \A k \in DOMAIN out : /\ S <= out[k][1] /\ out[k][2] <= E
                          /\ \A p \in out[k][1] .. (out[k][2] - 1) : ~Black(BL, p)
(* fetch window: contains the bin, extends by at most F, stays inside the region and off the blacklist *)
P_WindowContains(out) == \A k \in DOMAIN out : out[k][3] <= out[k][1] /\ out[k][2] <= out[k][4]
P_WindowExtent(F, out) == \A k \in DOMAIN out : out[k][1] - out[k][3] <= F /\ out[k][4] - out[k][2] <= F
P_WindowInRegion(S, E, out) == \A k \in DOMAIN out : S <= out[k][3] /\ out[k][4] <= E
P_WindowOffBlacklist(BL, out) == \A k \in DOMAIN out : \A p \in out[k][3] .. (out[k][4] - 1) : ~Black(BL, p)

(* name of the first failing clause, "ok" otherwise  *)
TileVerdict(S, E, B, F, BL, out) ==
    IF ~P_Size(B, out) THEN "Inv_C17_Size"
    ELSE IF ~P_Clean(S, E, BL, out) THEN "Inv_C17_Clean"
    ELSE IF ~P_Partition(S, E, BL, out) THEN "Inv_C17_Partition"
    ELSE IF F = NoFrag THEN "ok"
    ELSE IF ~P_WindowContains(out) THEN "Inv_C17_Window_contains_bin"
    ELSE IF ~P_WindowExtent(F, out) THEN "Inv_C17_Window_extent"
    ELSE IF ~P_WindowInRegion(S, E, out) THEN "Inv_C17_Window_in_region"
    ELSE IF ~P_WindowOffBlacklist(BL, out) THEN "Inv_C17_Window_off_blacklist"
    ELSE "ok"

(* fill_range(a,b,step): consecutive bins from a to b, all of size `step` but a shorter last one *)
P_Fill(a, b, step, q) ==
    IF b <= a THEN q = <<>>
    ELSE /\ Len(q) >= 1 /\ q[1][1] = a /\ q[Len(q)][2] = b
         /\ \A k \in 1 .. (Len(q) - 1) : q[k][2] = q[k + 1][1] /\ q[k][2] - q[k][1] = step
         /\ q[Len(q)][1] < b /\ b - q[Len(q)][1] <= step

(* bp_chunked: the chunks, concatenated, are the jobs in their original order.                     *)
(* Written with a fold (iterative in TLC) instead of a recursive Flatten: observations from the real *)
(* code carry hundreds of chunks and deep operator recursion can overflow the JVM stack.             *)
ChunkOffset(chunks, c) == SumSeqF(SubSeq(chunks, 1, c - 1), LAMBDA ch : Len(ch))
P_Chunk(jobs, chunks) ==
    /\ SumSeqF(chunks, LAMBDA ch : Len(ch)) = Len(jobs)
    /\ \A c \in DOMAIN chunks : \A j \in DOMAIN chunks[c] : chunks[c][j] = jobs[ChunkOffset(chunks, c) + j]

---------------------------------------------------------------------------------------------------
(* D-level operators, shaped like the code *)

(* fill_range: for s in range(start,end,step): e=s+step; if e>end: break; yield s,e  -- then the rest *)
RECURSIVE FillFrom(_, _, _)
FillFrom(s, b, step) == IF s >= b THEN <<>>
                        ELSE IF s + step > b THEN << <<s, b>> >>
                        ELSE << <<s, s + step>> >> \o FillFrom(s + step, b, step)
(* the same sequence in closed form (no recursion: a real tiling has hundreds of bins per gap, and a  *)
(* recursion that deep can overflow the JVM stack during trace validation); Tiling!Inv_D_Fill checks  *)
(* FillRange = FillFrom on the whole bounded argument space                                          *)
FillRange(a, b, step) ==
    IF b <= a THEN <<>>
    ELSE LET n == (b - a) \div step                      \* full steps
             full == [k \in 1 .. n |-> << a + (k - 1) * step, a + k * step >>]
         IN IF a + n * step < b THEN Append(full, << a + n * step, b >>) ELSE full

(* sorted(): tuples compare lexicographically *)
IvLess(x, y) == x[1] < y[1] \/ (x[1] = y[1] /\ x[2] < y[2])
SortIv(q) == SortSeq(q, IvLess)

(* range_contains_overlap / _merge_overlapping_ranges: the four-way test of the code *)
PairOverlap(x, y) == x[1] > y[1] \/ x[2] > y[1] \/ x[2] > y[2] \/ x[1] > y[2]
ContainsOverlap(q) == Len(q) >= 2 /\ \E k \in 1 .. (Len(q) - 1) : PairOverlap(q[k], q[k + 1])
(* one pass over windowed(clist,2) with the `merged` skip flag; k = index of the pair's first element *)
RECURSIVE MergeFrom(_, _, _)
MergeFrom(q, k, merged) ==
    IF k >= Len(q) THEN (IF merged THEN <<>> ELSE << q[Len(q)] >>)
    ELSE IF merged THEN MergeFrom(q, k + 1, FALSE)
    ELSE IF PairOverlap(q[k], q[k + 1])
         THEN << << IF q[k][1] < q[k + 1][1] THEN q[k][1] ELSE q[k + 1][1],
                    IF q[k + 1][2] > q[k][2] THEN q[k + 1][2] ELSE q[k][2] >> >> \o MergeFrom(q, k + 1, TRUE)
         ELSE << q[k] >> \o MergeFrom(q, k + 1, FALSE)
MergePass(q) == MergeFrom(q, 1, FALSE)
RECURSIVE MergeLoop(_)
MergeLoop(q) == IF ContainsOverlap(q) THEN MergeLoop(SortIv(MergePass(q))) ELSE q
MergeRanges(q) == MergeLoop(SortIv(q))

(* trim_rangelist(rangelist, start, end).                                                         *)
(*   design : keep every range that intersects (or touches the start of) [S,E)                    *)
(*   impl   : the code's end-point test - a range is kept only when one of its END POINTS lies in *)
(*            [S,E); a range enclosing the region (s < S, e >= E) is dropped  (deviation D12a)    *)
TrimKeeps(v, iv, S, E) ==
    IF v \in {"impl", "impl_trim"}
    THEN (iv[1] >= S /\ iv[1] < E) \/ (iv[2] >= S /\ iv[2] < E)
    ELSE iv[1] < E /\ iv[2] >= S
Max2(a, b) == IF a >= b THEN a ELSE b
Min2(a, b) == IF a <= b THEN a ELSE b
Trim(v, q, S, E) == LET kept == SelectSeq(q, LAMBDA iv : TrimKeeps(v, iv, S, E))
                    IN [k \in DOMAIN kept |-> << Max2(kept[k][1], S), Min2(kept[k][2], E) >>]

(* blacklisted_binning prologue: merge only when more than one interval, trim, append the sentinel *)
WorkList(v, S, E, BL) == Trim(v, IF Len(BL) > 1 THEN MergeRanges(BL) ELSE BL, S, E) \o << <<E, E + 1>> >>

(* per gap [a,b): total_bins from the requested size, equalised local size, the bins *)
TotalBins(a, b, B) == Max2(1, Len(FillRange(a, b, B)))
LocalBin(a, b, B)  == (b - a) \div TotalBins(a, b, B)
GapBins(a, b, B)   == FillRange(a, b, LocalBin(a, b, B))

(* fetch window of bin number fi (0-based) of the gap [a,b)                                        *)
(*   design : bin +- F clipped to the gap (gap ends are blacklist or region boundaries)            *)
(*   impl   : no extension on the left of bin 0 and on the right of bin total_bins-1, nothing else *)
(*            is clipped; total_bins is the count for the REQUESTED size, not the number of bins   *)
(*            actually produced with the equalised size  (deviation D12b)                          *)
Window(v, bin, fi, a, b, B, F) ==
    IF F = NoFrag THEN << bin[1], bin[2], bin[1], bin[2] >>
    ELSE IF v \in {"impl", "impl_window"}
         THEN << bin[1], bin[2],
                 IF fi = 0 THEN bin[1] ELSE bin[1] - F,
                 IF fi = TotalBins(a, b, B) - 1 THEN bin[2] ELSE bin[2] + F >>
         ELSE << bin[1], bin[2], Max2(a, bin[1] - F), Min2(b, bin[2] + F) >>

GapOut(v, a, b, B, F) == LET q == GapBins(a, b, B) IN [k \in DOMAIN q |-> Window(v, q[k], k - 1, a, b, B, F)]

(* the whole generator as one operator: walk the work list with the cursor `current` *)
RECURSIVE TileFrom(_, _, _, _, _, _)
TileFrom(v, w, i, current, B, F) ==
    IF i > Len(w) THEN <<>>
    ELSE IF w[i][1] = current THEN TileFrom(v, w, i + 1, w[i][2], B, F)
    ELSE GapOut(v, current, w[i][1], B, F) \o TileFrom(v, w, i + 1, w[i][2], B, F)
TileOut(v, S, E, B, F, BL) == TileFrom(v, WorkList(v, S, E, BL), 1, S, B, F)
=====================================================================================================
