INIT Init
NEXT Next
CONSTANTS
  Contigs = {"c1","c2"}
  AbsentContigs = {"cx"}
  NoCacheContigs = {}
  Positions = {0}
  Samples = {"s1", "s2"}
  GTSet = "tiny"
  ConfigSet = "phase"
  MaxRuns = 2
  MaxOps = 3
  Variant = "design"
  Record = FALSE
INVARIANT Inv_C18_Truth
INVARIANT Inv_C18_ModeEq
INVARIANT Inv_C18_CacheSound
INVARIANT Inv_C18_RuleAgrees
INVARIANT Inv_C18_OneContig
CHECK_DEADLOCK FALSE
