INIT Init
NEXT Next
CONSTANTS
  Schemes = {"ill", "filt", "und", "pln", "srr"}
  LibChoice = "repl3"
  NLanes = 1
  NChunks = 1
  MaxFiles = 1
  ReplIdx = {1, 2, 3, 4}
  SlibIdx = {0, 2}
  Merges = {0, 2}
  SEs = {TRUE}
  Ignores = {FALSE}
  Verboses = {TRUE, FALSE}
  Globs = {FALSE}
  Variant = "impl"
INVARIANT Inv_X03_Outcome
INVARIANT Inv_X03_Placement
INVARIANT Inv_X03_MateKey
INVARIANT Inv_X03_LibraryName
INVARIANT Inv_X03_LaneGrouping
INVARIANT Inv_X03_SlotOrder
INVARIANT Inv_X03_Pairing
INVARIANT Inv_X03_IgnoreWhole
INVARIANT Inv_X03_IgnoreReported
INVARIANT Inv_X03_Terminates
INVARIANT Inv_X03_OrderIndependent
CHECK_DEADLOCK FALSE
