INIT Init
NEXT Next
CONSTANTS
  Samples = {1, 2}
  MaxPos = 2
  ContigLen = 4
  BinSize = 2
  JobSpan = 2
  MaxObs = 2
  MaxTouch = 0
  Dyad = TRUE
  Revs = {FALSE, TRUE}
  JobK <- K0
  JobMV <- Km1
  MaxPost = 0
  PostKs <- PostKsPlain
  TrackHist = FALSE
  Variant = "dyad_after_bounds"
INVARIANT Inv_X04_NoCrash
INVARIANT Inv_X04_Counted
INVARIANT Inv_X04_Conserved
INVARIANT Inv_X04_SplitIndependent
INVARIANT Inv_X04_JobPrune
INVARIANT Inv_X04_SitesCoverCells
INVARIANT Inv_X04_PostOp
CHECK_DEADLOCK FALSE
