-------------------------------------- MODULE LibraryListingP --------------------------------------
(* X03 - P-level: what "grouping FASTQ files into libraries -> lanes -> mates" has to guarantee,    *)
(* written over an OBSERVATION of one call of SequencingLibraryLister.detect.  No algorithm.        *)
(* The same operators judge the final states of the design model (LibraryListing.tla) and every    *)
(* recorded call of the real detect() (Trace_LibraryListing.tla).                                   *)
(*                                                                                                *)
(* Abstract file (the name on disk is derived from it by the driver, see docs/X03.md):             *)
(*   [k |-> naming scheme, lib |-> sequence of name tokens (joined by "_"), lane, mate, ch]         *)
(*   k = "ill"  LIB_L00<lane>_R<mate>_00<ch>.fastq.gz          (Illumina bcl2fastq)                 *)
(*       "filt" LIB_L00<lane>_R<mate>_00<ch>_FLOWCELL.filt.fastq.gz   (BaseClear)                   *)
(*       "und"  d<ch>/LIB_R<mate>.fastq.gz      "pln"  d<ch>/LIBR<mate>.fastq.gz                    *)
(*       "srr"  d<ch>/SRRnnn_<mate>.fastq.gz                                                        *)
(*   (lane = 0 for the three schemes without lane; the chunk ch is the _00<ch> counter of the      *)
(*    laned schemes and a directory for the others: same base name, another directory)            *)
(* Options o: [replace |-> sequence of <<origin, replacement>>, hasslib, slib |-> tokens,           *)
(*             merge |-> 0 (off) | n (first n "_"-separated parts), se, ignore, verbose, glob]       *)
(* Observation r: [outcome |-> "returned" | "exit" | "raised",                                      *)
(*                 slots |-> sequence of [lib, lane, mate |-> "R1"|"R2"|.., fs |-> file indices],    *)
(*                 nlibs, nlanes |-> number of keys of the returned mapping,                        *)
(*                 printed |-> number of "lib lane" lines reported for ignored lanes (-1: unknown)] *)
(*   (after "exit" the slots are those of the lister's `libraries` attribute at that moment)       *)
EXTENDS Integers, Sequences, FiniteSets, TLC, Util

Join(toks, d) == IF toks = <<>> THEN "" ELSE FoldLeft(LAMBDA acc, t : acc \o d \o t, toks[1], Tail(toks))
FirstN(s, n) == SubSeq(s, 1, IF n < Len(s) THEN n ELSE Len(s))
(* -replace ORIGIN,REPLACEMENT ... applied one after the other; origins are whole tokens here *)
ReplTok(lib, rp) ==
    FoldLeft(LAMBDA acc, pr : [j \in DOMAIN acc |-> IF acc[j] = pr[1] THEN pr[2] ELSE acc[j]], lib, rp)

IsLaned(f) == f.k \in {"ill", "filt"}
IsSuffixScheme(f) == f.k \in {"und", "pln"}
Lib0(f) == Join(f.lib, "_")                    \* the library part of the file name
Lib1T(f, o) == ReplTok(f.lib, o.replace)
Lib1(f, o) == Join(Lib1T(f, o), "_")

(* library name as documented by demux.py's help:                                                  *)
(*   -slib  "Assume all files belong to the same library, this flag supplies the name"             *)
(*   -merge "given the samplename 'library_a_b': -merge _ yields 'library', -merge _2 'library_a'"  *)
(*          (merging is a notion of the laned schemes: several runs/lanes of one library)          *)
(*   -replace "Replace part of the library name by another string"                                 *)
ExpLib(f, o) ==
    IF o.hasslib THEN Join(o.slib, "_")
    ELSE IF IsLaned(f) /\ o.merge > 0 THEN Join(FirstN(Lib1T(f, o), o.merge), "_")
    ELSE Lib1(f, o)

(* named deviations of the code (see docs/X03.md); used by the design model as negative controls   *)
(* and by the trace spec to give a mismatch a specific signature.                                  *)
(*   "impl"         = the deviations still in the code (D301, D302, D304: not repaired, known)      *)
(*   "impl_asfound" = all deviations found on 2026-09-28 (D300 and D303 have been repaired since:   *)
(*                    their controls stay, a regression is an unexplained mismatch = VIOLATION)     *)
ImplNow == {"merge_nojoin", "slib_suffix", "slib_merged"}
Dev(V, d) == V = d \/ (V = "impl" /\ d \in ImplNow) \/ V = "impl_asfound"
DevLib(f, o, V) ==
    LET rp == IF Dev(V, "replace_verbose") /\ o.verbose /\ o.replace # <<>> THEN <<>> ELSE o.replace   \* D300: list rebound
        t1 == ReplTok(f.lib, rp)
        jn == IF Dev(V, "merge_nojoin") THEN "" ELSE "_"                                           \* D301
        mg(t) == IF o.merge > 0 THEN Join(FirstN(t, o.merge), jn) ELSE Join(t, "_")
    IN IF o.hasslib /\ ~(IsSuffixScheme(f) /\ Dev(V, "slib_suffix"))                                      \* D302
       THEN IF IsLaned(f) /\ Dev(V, "slib_merged") THEN mg(o.slib) ELSE Join(o.slib, "_")          \* D304
       ELSE IF IsLaned(f) THEN mg(t1) ELSE Join(t1, "_")

(* which files share a lane: the laned schemes by (library part of the name, lane number); the      *)
(* others have the one pseudo lane of their library, or with -slib one lane per original library   *)
LaneKey(f, o) == IF IsLaned(f) THEN <<"L", Lib0(f), f.lane>>
                 ELSE IF o.hasslib THEN <<"S", Lib1(f, o), 0>> ELSE <<"single", "", 0>>
EClass(f, o) == <<ExpLib(f, o), LaneKey(f, o)>>
(* two files are the two mates of one pair iff they agree in everything but the mate *)
Pid(f) == <<f.k, f.lib, f.lane, f.ch>>

Idx(files) == DOMAIN files
ClassesOf(files, o) == { EClass(files[i], o) : i \in Idx(files) }
Members(files, o, c) == { i \in Idx(files) : EClass(files[i], o) = c }
MatesOf(files, S) == { files[i].mate : i \in S }
NumMate(files, S, m) == Cardinality({ i \in S : files[i].mate = m })
(* a lane is complete: both mates with equally many files, or (with -se) one mate only *)
CompleteClass(files, o, c) ==
    LET S == Members(files, o, c)
    IN IF MatesOf(files, S) = {1, 2} THEN NumMate(files, S, 1) = NumMate(files, S, 2) ELSE o.se
Inconsistent(files, o) == \E c \in ClassesOf(files, o) : ~CompleteClass(files, o, c)

Placed(r) == UNION { SeqSet(r.slots[s].fs) : s \in DOMAIN r.slots }
SlotsWith(r, i) == { s \in DOMAIN r.slots : i \in SeqSet(r.slots[s].fs) }
SlotOf(r, i) == CHOOSE s \in DOMAIN r.slots : i \in SeqSet(r.slots[s].fs)
ALane(r, i) == <<r.slots[SlotOf(r, i)].lib, r.slots[SlotOf(r, i)].lane>>
ALanes(r) == { <<r.slots[s].lib, r.slots[s].lane>> : s \in DOMAIN r.slots }
ALibs(r) == { r.slots[s].lib : s \in DOMAIN r.slots }

---------------------------------------------------------------------------------------------------
(* the clauses; each is stated for the outcomes it talks about                                     *)
HasSlots(r) == r.outcome \in {"returned", "exit"}

(* the call returns the mapping or terminates the program - it does not crash *)
C_Outcome(files, o, r) == r.outcome \in {"returned", "exit"}

(* every input file is in at most one slot, at most once; nothing that is not an input file; no     *)
(* slot listed twice; without --ignore every file is placed                                        *)
C_Placement(files, o, r) ==
    HasSlots(r) =>
        /\ \A s \in DOMAIN r.slots : NoDup(r.slots[s].fs) /\ SeqSet(r.slots[s].fs) \subseteq Idx(files) /\ r.slots[s].fs # <<>>
        /\ \A i \in Idx(files) : Cardinality(SlotsWith(r, i)) <= 1
        /\ \A s, t \in DOMAIN r.slots :
              (r.slots[s].lib = r.slots[t].lib /\ r.slots[s].lane = r.slots[t].lane /\ r.slots[s].mate = r.slots[t].mate) => s = t
        /\ ((r.outcome = "exit" \/ ~o.ignore) => Placed(r) = Idx(files))
        /\ r.nlibs = Cardinality(ALibs(r)) /\ r.nlanes = Cardinality(ALanes(r))     \* no empty library / lane left behind

C_MateKey(files, o, r) ==
    HasSlots(r) => \A s \in DOMAIN r.slots : \A i \in SeqSet(r.slots[s].fs) :
                       r.slots[s].mate = (IF files[i].mate = 1 THEN "R1" ELSE "R2")

C_LibraryName(files, o, r) ==
    HasSlots(r) => \A i \in Placed(r) : r.slots[SlotOf(r, i)].lib = ExpLib(files[i], o)
FirstBadName(files, o, r) == CHOOSE i \in Placed(r) : r.slots[SlotOf(r, i)].lib # ExpLib(files[i], o)

(* same lane of the result <=> same lane by the naming convention *)
C_LaneGrouping(files, o, r) ==
    HasSlots(r) => \A i, j \in Placed(r) : (ALane(r, i) = ALane(r, j)) <=> (EClass(files[i], o) = EClass(files[j], o))

(* inside a slot the files keep the order of the input list (not demanded after glob expansion:     *)
(* the directory order is not the caller's)                                                        *)
C_SlotOrder(files, o, r) ==
    (HasSlots(r) /\ ~o.glob) => \A s \in DOMAIN r.slots : \A a, b \in DOMAIN r.slots[s].fs :
                                    a < b => r.slots[s].fs[a] < r.slots[s].fs[b]

(* the i-th R1 file and the i-th R2 file of a lane are the two mates of one pair.                    *)
(* Preconditions (otherwise no statement): both mate lists of the lane hold the same pairs; and -    *)
(* for an explicit file list - the caller lists the pairs of the R1 files and of the R2 files in     *)
(* the same relative order (any sorted list does).  After glob expansion there is no precondition   *)
(* on the order: it is the file system's.                                                          *)
OrderConsistent(files, S) ==
    \A a, b \in S : \A c, d \in S :
        (files[a].mate = 1 /\ files[b].mate = 1 /\ files[c].mate = 2 /\ files[d].mate = 2
         /\ Pid(files[a]) = Pid(files[c]) /\ Pid(files[b]) = Pid(files[d]) /\ a < b) => c < d
PairsMatch(files, S) ==
    /\ { Pid(files[i]) : i \in { x \in S : files[x].mate = 1 } } = { Pid(files[i]) : i \in { x \in S : files[x].mate = 2 } }
    /\ \A a, b \in S : (a # b /\ files[a].mate = files[b].mate) => Pid(files[a]) # Pid(files[b])
PairingInScope(files, o, S) == PairsMatch(files, S) /\ (o.glob \/ OrderConsistent(files, S))
LaneFiles(r, ln) == UNION { SeqSet(r.slots[s].fs) : s \in { t \in DOMAIN r.slots : <<r.slots[t].lib, r.slots[t].lane>> = ln } }
C_Pairing(files, o, r) ==
    (r.outcome = "returned") =>
        \A s, t \in DOMAIN r.slots :
            (/\ r.slots[s].lib = r.slots[t].lib /\ r.slots[s].lane = r.slots[t].lane
             /\ r.slots[s].mate = "R1" /\ r.slots[t].mate = "R2"
             /\ PairingInScope(files, o, LaneFiles(r, <<r.slots[s].lib, r.slots[s].lane>>)))
            => /\ Len(r.slots[s].fs) = Len(r.slots[t].fs)
               /\ \A a \in DOMAIN r.slots[s].fs : Pid(files[r.slots[s].fs[a]]) = Pid(files[r.slots[t].fs[a]])
PairingOutOfScope(files, o, r) ==
    r.outcome = "returned" /\ \E ln \in ALanes(r) : ~PairingInScope(files, o, LaneFiles(r, ln))

(* with --ignore: exactly the files of the complete lanes are returned - a lane is never returned   *)
(* in part, and no incomplete lane is returned; each dropped lane is reported once                 *)
C_IgnoreWhole(files, o, r) ==
    (r.outcome = "returned" /\ o.ignore) =>
        Placed(r) = { i \in Idx(files) : CompleteClass(files, o, EClass(files[i], o)) }
C_IgnoreReported(files, o, r) ==
    (r.outcome = "returned" /\ o.ignore /\ r.printed >= 0) =>
        r.printed = Cardinality({ c \in ClassesOf(files, o) : ~CompleteClass(files, o, c) })

(* without --ignore an inconsistent listing terminates the program, a consistent one is returned;    *)
(* with --ignore the call always returns                                                           *)
C_Terminates(files, o, r) ==
    HasSlots(r) => IF o.ignore THEN r.outcome = "returned"
                   ELSE (r.outcome = "exit") <=> Inconsistent(files, o)

(* order independence: the result as a mapping (library, lane, mate) -> SET of files and the         *)
(* outcome are a function of the set of input files                                                *)
Mapping(files, r) == { <<r.slots[s].lib, r.slots[s].lane, r.slots[s].mate, { files[i] : i \in SeqSet(r.slots[s].fs) }>> : s \in DOMAIN r.slots }

(* first failing clause, evaluated lazily in this order (later clauses presuppose the earlier ones) *)
FirstFailing(files, o, r) ==
    IF ~C_Outcome(files, o, r) THEN "Outcome"
    ELSE IF ~C_Placement(files, o, r) THEN "Placement"
    ELSE IF ~C_MateKey(files, o, r) THEN "MateKey"
    ELSE IF ~C_LibraryName(files, o, r) THEN "LibraryName"
    ELSE IF ~C_LaneGrouping(files, o, r) THEN "LaneGrouping"
    ELSE IF ~C_SlotOrder(files, o, r) THEN "SlotOrder"
    ELSE IF ~C_Pairing(files, o, r) THEN "Pairing"
    ELSE IF ~C_IgnoreWhole(files, o, r) THEN "IgnoreWhole"
    ELSE IF ~C_IgnoreReported(files, o, r) THEN "IgnoreReported"
    ELSE IF ~C_Terminates(files, o, r) THEN "Terminates"
    ELSE "ok"
=====================================================================================================
