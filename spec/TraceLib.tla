--------------------------------------- MODULE TraceLib ---------------------------------------
(* Shared plumbing of all Trace_*.tla specifications.                                          *)
(* A trace is an ndjson file of observations recorded from the real code ($TRACE_FILE).        *)
(* A trace spec consumes it line by line; per line it evaluates the property's definition on   *)
(* the recorded observation.  Verdicts are total: a contradicting observation prints one line  *)
(*   @@REJECT <line> <tid> <clause>                                                            *)
(* and the search continues, so one run judges every recorded case; TAccepted (POSTCONDITION)  *)
(* requires that every line has been consumed.                                                 *)
EXTENDS TLC, TLCExt, Json, IOUtils, Sequences, Integers, FiniteSets

Log == ndJsonDeserialize(IOEnv.TRACE_FILE)

Reject(line, tid, clause) == PrintT("@@REJECT " \o ToString(line) \o " " \o ToString(tid) \o " " \o clause)
Note(line, tid, text)     == PrintT("@@NOTE " \o ToString(line) \o " " \o ToString(tid) \o " " \o text)

(* Judge(l, v): v is the name of the first failing clause of the property, or "ok".            *)
Judge(line, v) == IF v = "ok" THEN TRUE ELSE Reject(line, Log[line].tid, v)

SeqToSet(s) == { s[i] : i \in DOMAIN s }
IsInjectiveSeq(s) == \A i, j \in DOMAIN s : s[i] = s[j] => i = j
Has(r, f) == f \in DOMAIN r
=================================================================================================
