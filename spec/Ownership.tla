---------------------------------------- MODULE Ownership ----------------------------------------
(* C08 - parallel tagging is equivalent to serial tagging (region-tiling mode).                   *)
(*                                                                                                *)
(* What is modelled (singlecellmultiomics at the pinned commit):                                  *)
(*   bamtagmultiome.tag_multiome_multi_processing   job list = ['*' job] ++ one job per bin,      *)
(*                                                  imap_unordered, merge of the job outputs      *)
(*   tagging.run_tagging_task  (lines 107-155)      per bin: MoleculeIterator over the FETCH      *)
(*                                                  window, loop body: no site -> continue,       *)
(*                                                  site >= fetch_end -> BREAK, not start<=site<end*)
(*                                                  -> continue, else write_tags + write          *)
(*   pysamiterators.MatePairIterator                a pair is released when its SECOND mate is    *)
(*                                                  read; a mate whose partner is outside the     *)
(*                                                  fetch window is released at end of stream     *)
(*                                                  (R1 orphans, then R2 orphans)                 *)
(*   molecule.iterator.MoleculeIterator.__iter__    rejected (invalid) fragments are yielded       *)
(*                                                  immediately, valid ones are buffered per      *)
(*                                                  match_hash (dict, insertion ordered) and      *)
(*                                                  yielded by the final flush, group by group    *)
(*   fragment classes (NlaIII / CHiC)               site is a function of R1 only; a fragment     *)
(*                                                  without R1 is rejected and located at R2.start*)
(*   a small design tiler (bins from cut points, window = bin +- margin clipped to the contig)    *)
(*                                                                                                *)
(* P-level (the property, no algorithm): SerialRecs = the records one serial pass writes, defined *)
(*   declaratively (molecule = class of valid fragments with equal strand, site, UMI; rank =      *)
(*   release order; rejected fragments are singletons); Inv_C08_OneOwner / _Complete / _Equal /   *)
(*   _NoForeign compare what the jobs wrote with it.                                              *)
(* D-level: the loop above, one action per arm of the loop body.                                  *)
(*   Variant = "design": the loop never stops early (proposed repair: `continue`)                 *)
(*   Variant = "impl"  : as coded - `break` at the first YIELDED molecule whose site >= fetch_end *)
(*                       (named deviation D19: molecules are yielded in release / buffer order,   *)
(*                       not in site order, so owned molecules can still be waiting in the buffer)*)
(*                                                                                                *)
(* Deliberate abstractions: one contig; UMI matching is exact (Hamming radius 0); no ejection      *)
(* (check_eject_every = 10000 is never reached by a fetch window in these bounds, and an ejected    *)
(* molecule lies far left of the position being read, so ejection only yields molecules early that *)
(* the final flush would yield anyway); one task per job (bp_chunked only concatenates tasks, each  *)
(* task builds a fresh iterator); coordinates are abstract cells (the replay scales them by 10).   *)
EXTENDS Integers, Sequences, FiniteSets, TLC, Json, Util

CONSTANTS Ln,          \* contig length: cells 0..Ln-1, half-open intervals <<a,b>>
          Tilings,     \* set of [cuts |-> <<c1,..,ck>> (strictly increasing, inside 1..Ln-1), m |-> fetch margin]
          MaxFrags,    \* libraries of 1..MaxFrags placed fragments (sequence = file order among equal coordinates)
          MaxLen,      \* read lengths 1..MaxLen
          SpanSlack,   \* fragment extent <= margin + SpanSlack.  0 = the statement's precondition; 2 = negative control
          Umis,        \* UMI values
          Invalid,     \* BOOLEAN - libraries may contain rejected fragments (no motif / qc-fail)
          NoSite,      \* BOOLEAN - libraries may contain placed rejected fragments without any site location
          MaxUnplaced, \* 0..MaxUnplaced unplaced reads (contig '*')
          PairedOK,    \* BOOLEAN - FALSE: single-end libraries only (small exhaustive scenario generator)
          EqualLen,    \* BOOLEAN - only libraries whose reads all have length MaxLen and no rejected fragments
          SiteOut,     \* 0: site inside the fragment (NlaIII: R1 5' end); 1: the base just outside it (CHiC)
          AnyOrder,    \* TRUE: jobs are taken in any order (imap_unordered); FALSE: ascending (reduction)
          Variant      \* "design" | "impl"

NoRead == <<-1, -1>>

(* ---------------------------------------- geometry ------------------------------------------- *)
Paired(f) == f.l2 > 0
R1(f) == IF f.rev THEN <<f.hi - f.l1, f.hi>> ELSE <<f.lo, f.lo + f.l1>>
R2(f) == IF ~Paired(f) THEN NoRead ELSE IF f.rev THEN <<f.lo, f.lo + f.l2>> ELSE <<f.hi - f.l2, f.hi>>
Site(f) == IF f.rev THEN f.hi - 1 + SiteOut ELSE f.lo - SiteOut
Extent(f) == f.hi - f.lo + SiteOut          \* cells covered by the reads and the site
MatesOf(f) == IF Paired(f) THEN {1, 2} ELSE {1}

FragSpace(M) ==
    { f \in [lo : 0 .. Ln - 1, hi : 1 .. Ln, rev : BOOLEAN, l1 : 1 .. MaxLen, l2 : 0 .. MaxLen,
             valid : BOOLEAN, nosite : BOOLEAN, umi : Umis] :
        /\ f.lo < f.hi /\ Extent(f) <= M + SpanSlack
        /\ f.l1 <= f.hi - f.lo /\ f.l2 <= f.hi - f.lo
        /\ (f.l2 = 0 => f.l1 = f.hi - f.lo) /\ (f.l2 > 0 => PairedOK)
        /\ Site(f) >= 0 /\ Site(f) < Ln
        /\ (f.valid \/ Invalid) /\ (f.nosite => (NoSite /\ ~f.valid))
        /\ (~f.valid => f.umi = MinOf(Umis))          \* the UMI of a rejected fragment is irrelevant
        /\ (EqualLen => (f.valid /\ f.l1 = MaxLen /\ f.l2 \in {0, MaxLen})) }

(* tiling: bins from cut points, fetch window = bin +- margin clipped to the contig *)
Bounds(t) == <<0>> \o t.cuts \o <<Ln>>
NBins(t) == Len(t.cuts) + 1
Bin(t, j) == <<Bounds(t)[j], Bounds(t)[j + 1]>>
Window(t, j) == << IF Bin(t, j)[1] - t.m < 0 THEN 0 ELSE Bin(t, j)[1] - t.m,
                   IF Bin(t, j)[2] + t.m > Ln THEN Ln ELSE Bin(t, j)[2] + t.m >>
InIv(x, iv) == iv[1] <= x /\ x < iv[2]
Sees(r, w) == r # NoRead /\ r[1] < w[2] /\ r[2] > w[1]      \* pysam fetch: reads OVERLAPPING the window

(* order of the records in the coordinate sorted file: (start, fragment index, mate) *)
Key(pos, i, mate) == pos * 64 + i * 4 + mate
Big == (Ln + 1) * 64

(* fragment i as the iterator of a job with fetch window w sees it *)
JobFrag(lib, i, w) ==
    LET f == lib[i]
        m1 == Sees(R1(f), w)
        m2 == Sees(R2(f), w)
        k1 == Key(R1(f)[1], i, 1)
        k2 == Key(R2(f)[1], i, 2)
    IN [ i |-> i,
         mates |-> (IF m1 THEN {1} ELSE {}) \cup (IF m2 THEN {2} ELSE {}),
         valid |-> m1 /\ f.valid,                                   \* no R1: rejected ("unmapped R1" / "R1_undefined")
         has   |-> IF m1 THEN ~f.nosite ELSE TRUE,
         site  |-> IF m1 THEN Site(f) ELSE R2(f)[1],                 \* fallback: start of the first read present
         rev   |-> f.rev, umi |-> f.umi,
         key   |-> IF ~Paired(f) THEN k1
                   ELSE IF m1 /\ m2 THEN (IF k1 > k2 THEN k1 ELSE k2)   \* released when the second mate is read
                   ELSE IF m1 THEN Big + k1                             \* orphans: end of stream, R1s first
                   ELSE 2 * Big + k2 ]

Whole == <<0, Ln>>
Released(lib, w) ==
    LET S == { JobFrag(lib, i, w) : i \in DOMAIN lib } IN
    SetToSortSeq({ x \in S : x.mates # {} }, LAMBDA a, b : a.key < b.key)

(* tiling sets used by the configurations (cfg files cannot hold records) *)
T_2bins    == { [cuts |-> <<3>>, m |-> 2] }                            \* Ln = 6
T_3bins    == { [cuts |-> <<2, 4>>, m |-> 1] }                         \* Ln = 6
T_m3       == { [cuts |-> <<3>>, m |-> 3] }                            \* Ln = 7: fetch_end of bin 1 = 6 < Ln
T_thorough == { [cuts |-> <<3>>, m |-> 3], [cuts |-> <<4>>, m |-> 2], [cuts |-> <<2, 5>>, m |-> 2] }   \* Ln = 7

(* ---------------------------------------- P-level -------------------------------------------- *)
FullKey(lib, i) == JobFrag(lib, i, Whole).key
Class(lib, i) == IF lib[i].valid
                 THEN { k \in DOMAIN lib : /\ lib[k].valid /\ lib[k].rev = lib[i].rev
                                           /\ Site(lib[k]) = Site(lib[i]) /\ lib[k].umi = lib[i].umi }
                 ELSE {i}
Rank(lib, i) == Cardinality({ k \in Class(lib, i) : FullKey(lib, k) < FullKey(lib, i) })
HasSiteF(lib, i) == ~lib[i].nosite

Rec(i, mate, site, rev, af, rc, qc) == [i |-> i, mate |-> mate, site |-> site, rev |-> rev, af |-> af, rc |-> rc, qc |-> qc]
SerialRecsP(lib) ==
    { Rec(p[1], p[2], IF HasSiteF(lib, p[1]) THEN Site(lib[p[1]]) ELSE -1, lib[p[1]].rev, Cardinality(Class(lib, p[1])),
          Rank(lib, p[1]), ~lib[p[1]].valid) : p \in { q \in (DOMAIN lib) \X {1, 2} : q[2] \in MatesOf(lib[q[1]]) } }
UnplacedRecs(n) == { Rec(MaxFrags + k, 1, -1, FALSE, 1, 0, TRUE) : k \in 1 .. n }

(* ---------------------------------------- D-level -------------------------------------------- *)
VARIABLES lib,      \* the placed fragments
          nun,      \* number of unplaced reads
          til,      \* the tiling
          pend,     \* jobs not yet run: 0 = the '*' job, j >= 1 = bin j
          cur,      \* running job, -1 = none
          stream,   \* MatePairIterator: fragments still to be released to the molecule iterator
          buffer,   \* MoleculeIterator.molecules_per_cell: Seq of [h, mols]; mols: Seq of [frs, umi]
          stopped,  \* the loop left by `break`
          out,      \* job -> Seq of written molecules (each a set of records)
          pc, merged
vars == <<lib, nun, til, pend, cur, stream, buffer, stopped, out, pc, merged>>

Jobs == 0 .. NBins(til)

Init == /\ til \in Tilings
        /\ lib \in UNION { [1 .. n -> FragSpace(til.m)] : n \in 1 .. MaxFrags }
        /\ nun \in 0 .. MaxUnplaced
        /\ pend = 0 .. NBins(til)
        /\ cur = -1 /\ stream = <<>> /\ buffer = <<>> /\ stopped = FALSE
        /\ out = [j \in 0 .. NBins(til) |-> <<>>]
        /\ pc = "run" /\ merged = <<>>

(* generate_tasks + Pool.imap_unordered: a worker takes a job *)
StartJob(j) ==
    /\ pc = "run" /\ cur = -1 /\ j \in pend
    /\ AnyOrder \/ j = MinOf(pend)
    /\ cur' = j /\ pend' = pend \ {j}
    /\ stream' = IF j = 0 THEN <<>> ELSE Released(lib, Window(til, j))
    /\ buffer' = <<>> /\ stopped' = FALSE
    /\ UNCHANGED <<lib, nun, til, out, pc, merged>>

(* the '*' job: fetch_start is None, nothing is filtered (tagging.py:117) *)
StarWrite ==
    /\ cur = 0 /\ Len(out[0]) < nun
    /\ out' = [out EXCEPT ![0] = Append(@, { Rec(MaxFrags + Len(out[0]) + 1, 1, -1, FALSE, 1, 0, TRUE) })]
    /\ UNCHANGED <<lib, nun, til, pend, cur, stream, buffer, stopped, pc, merged>>

(* MoleculeIterator: a valid fragment joins the first molecule of its hash group with the same UMI, or opens one *)
GroupIdx(buf, h) == IF \E g \in DOMAIN buf : buf[g].h = h THEN MinOf({ g \in DOMAIN buf : buf[g].h = h }) ELSE 0
MolIdx(mols, u) == IF \E k \in DOMAIN mols : mols[k].umi = u THEN MinOf({ k \in DOMAIN mols : mols[k].umi = u }) ELSE 0
AddToBuffer(buf, f) ==
    LET h == <<f.rev, f.site>>
        g == GroupIdx(buf, h) IN
    IF g = 0 THEN Append(buf, [h |-> h, mols |-> << [frs |-> <<f>>, umi |-> f.umi] >>])
    ELSE LET k == MolIdx(buf[g].mols, f.umi) IN
         IF k = 0 THEN [buf EXCEPT ![g].mols = Append(@, [frs |-> <<f>>, umi |-> f.umi])]
         ELSE [buf EXCEPT ![g].mols[k].frs = Append(@, f)]

IterBuffer ==
    /\ cur >= 1 /\ ~stopped /\ stream # <<>> /\ Head(stream).valid
    /\ buffer' = AddToBuffer(buffer, Head(stream))
    /\ stream' = Tail(stream)
    /\ UNCHANGED <<lib, nun, til, pend, cur, stopped, out, pc, merged>>

(* the molecule the iterator yields next: a rejected fragment at the head of the stream, or - once the stream is *)
(* exhausted - the head of the buffer (final flush: hash groups in insertion order)                              *)
Yields == cur >= 1 /\ ~stopped /\ \/ (stream # <<>> /\ ~Head(stream).valid)
                                   \/ (stream = <<>> /\ buffer # <<>>)
Y == IF stream # <<>> THEN <<Head(stream)>> ELSE Head(buffer).mols[1].frs
Consumed == /\ stream' = IF stream # <<>> THEN Tail(stream) ELSE stream
            /\ buffer' = IF stream # <<>> THEN buffer
                         ELSE IF Len(Head(buffer).mols) = 1 THEN Tail(buffer)
                         ELSE [buffer EXCEPT ![1].mols = Tail(@)]
(* tagging.py:119-125  the site of the first fragment that has one *)
YHas == \E k \in DOMAIN Y : Y[k].has
YSite == Y[MinOf({ k \in DOMAIN Y : Y[k].has })].site
MolRecs(frs, site) == { Rec(frs[k].i, mt, site, frs[1].rev, Len(frs), k - 1, ~frs[k].valid) : k \in DOMAIN frs, mt \in {1, 2} }
WrittenRecs(frs, site) == { r \in MolRecs(frs, site) : \E k \in DOMAIN frs : frs[k].i = r.i /\ r.mate \in frs[k].mates }

LoopNoSite ==            \* tagging.py:126-128  continue
    /\ Yields /\ ~YHas
    /\ Consumed
    /\ UNCHANGED <<lib, nun, til, pend, cur, stopped, out, pc, merged>>

LoopBreak ==             \* tagging.py:131-132  break   (as coded; absent from the design)
    /\ Variant = "impl"
    /\ Yields /\ YHas /\ YSite >= Window(til, cur)[2]
    /\ stopped' = TRUE
    /\ UNCHANGED <<lib, nun, til, pend, cur, stream, buffer, out, pc, merged>>

LoopSkip ==              \* tagging.py:135-136  continue
    /\ Yields /\ YHas
    /\ Variant = "impl" => YSite < Window(til, cur)[2]
    /\ ~InIv(YSite, Bin(til, cur))
    /\ Consumed
    /\ UNCHANGED <<lib, nun, til, pend, cur, stopped, out, pc, merged>>

LoopWrite ==             \* tagging.py:138-155  write_tags, write_pysam
    /\ Yields /\ YHas
    /\ InIv(YSite, Bin(til, cur))
    /\ out' = [out EXCEPT ![cur] = Append(@, WrittenRecs(Y, YSite))]
    /\ Consumed
    /\ UNCHANGED <<lib, nun, til, pend, cur, stopped, pc, merged>>

(* run_tagging_tasks returns (the generator is dropped after a break) *)
EndJob ==
    /\ cur >= 0
    /\ IF cur = 0 THEN Len(out[0]) = nun ELSE (stopped \/ (stream = <<>> /\ buffer = <<>>))
    /\ cur' = -1 /\ stream' = <<>> /\ buffer' = <<>> /\ stopped' = FALSE
    /\ UNCHANGED <<lib, nun, til, pend, out, pc, merged>>

(* merge_bams: concatenation of all job outputs (the merged file is sorted afterwards: a bag) *)
Merge ==
    /\ pc = "run" /\ cur = -1 /\ pend = {}
    /\ merged' = FoldLeft(LAMBDA acc, j : acc \o out[j], <<>>, [k \in 1 .. NBins(til) + 1 |-> k - 1])
    /\ pc' = "done"
    /\ UNCHANGED <<lib, nun, til, pend, cur, stream, buffer, stopped, out>>

Start == \E j \in Jobs : StartJob(j)
Next == \/ Start
        \/ StarWrite \/ IterBuffer \/ LoopNoSite \/ LoopBreak \/ LoopSkip \/ LoopWrite \/ EndJob \/ Merge
Spec == Init /\ [][Next]_vars

(* ---------------------------------------- properties ----------------------------------------- *)
OwnerBin(s) == CHOOSE j \in 1 .. NBins(til) : InIv(s, Bin(til, j))
Writers(i) == { j \in Jobs : \E k \in DOMAIN out[j] : \E r \in out[j][k] : r.i = i }
SitedFrags == { i \in DOMAIN lib : HasSiteF(lib, i) }

(* every state: a bin job only ever writes records of molecules whose (serial) site lies in its bin *)
Inv_C08_NoForeign ==
    \A j \in 1 .. NBins(til) : \A k \in DOMAIN out[j] : \A r \in out[j][k] :
        r.i \in SitedFrags /\ InIv(Site(lib[r.i]), Bin(til, j))

(* at the end: every serial molecule with a site was written by exactly the job whose bin contains the site *)
Inv_C08_OneOwner ==
    pc = "done" => \A i \in SitedFrags : Writers(i) = { OwnerBin(Site(lib[i])) }

(* ... and that job wrote it as ONE molecule with all records of the serial molecule (ranks, counts, bits) *)
Inv_C08_Complete ==
    pc = "done" => \A i \in SitedFrags :
        LET want == { r \in SerialRecsP(lib) : r.i \in Class(lib, i) }
            j == OwnerBin(Site(lib[i])) IN
        \E k \in DOMAIN out[j] : out[j][k] = want

(* the merged output is, as a bag, the serial output (molecules without any site location excepted) *)
Inv_C08_Equal ==
    pc = "done" =>
        LET want == { r \in SerialRecsP(lib) : r.i \in SitedFrags } \cup UnplacedRecs(nun)
            got == FlattenSeq([k \in DOMAIN merged |-> SetToSeq(merged[k])]) IN
        /\ \A r \in want : Cardinality({ k \in DOMAIN got : got[k] = r }) = 1
        /\ \A k \in DOMAIN got : got[k] \in want

(* without the exception: fails as soon as a placed fragment has no site location (negative control MC_Ownership_nosite_q):  *)
(* the `continue` arm of the loop loses records, i.e. the code depends on every placed fragment reporting SOME location       *)
(* (the fall-back "position the read is stored at" of NlaIIIFragment / CHICFragment.get_site_location)                         *)
Inv_C08_EqualAll ==
    pc = "done" =>
        LET want == SerialRecsP(lib) \cup UnplacedRecs(nun)
            got == FlattenSeq([k \in DOMAIN merged |-> SetToSeq(merged[k])]) IN
        /\ \A r \in want : Cardinality({ k \in DOMAIN got : got[k] = r }) = 1
        /\ \A k \in DOMAIN got : got[k] \in want

TypeOK == /\ cur \in -1 .. NBins(til) /\ pend \subseteq Jobs /\ pc \in {"run", "done"}

(* ---------------------------------------- scenario generator ---------------------------------- *)
(* spec -> code: every library x tiling of the bounded model with the model's prediction of what each bin job   *)
(* writes (for the variant it is run with); replayed into the real run_tagging_task by harness/drive_ownership.py *)
EqualHolds == Inv_C08_Equal /\ Inv_C08_OneOwner
SeqOfSet(S) == SetToSortSeq(S, LAMBDA a, b : a < b)
Scenario ==
    [ ln |-> Ln, cuts |-> til.cuts, m |-> til.m, siteout |-> SiteOut, nun |-> nun, variant |-> Variant,
      frags |-> [i \in DOMAIN lib |-> [lo |-> lib[i].lo, hi |-> lib[i].hi, rev |-> lib[i].rev, l1 |-> lib[i].l1,
                                        l2 |-> lib[i].l2, valid |-> lib[i].valid, umi |-> lib[i].umi]],
      pred |-> [j \in 1 .. NBins(til) |->
                  SeqOfSet(UNION { { r.i * 4 + r.mate : r \in out[j][k] } : k \in DOMAIN out[j] })],
      lost |-> ~EqualHolds ]
Emit == IF pc = "done" THEN PrintT("@@SCENARIO " \o ToJson(Scenario)) ELSE TRUE
EmitLost == IF pc = "done" /\ ~EqualHolds THEN PrintT("@@SCENARIO " \o ToJson(Scenario)) ELSE TRUE
=====================================================================================================
