INIT Init
NEXT Next
CONSTANTS
  NPaths = 4
  Stale = {1, 2}
  Ks = {1,2,3}
  MHs = {1,2,3}
  PEs = {1,2,3}
  BadChoices = {0,1}
  MaxTransient = 1
  MaxOps = 6
  Variant = "design"
  Record = FALSE
INVARIANT TypeOK
INVARIANT Inv_C19_Content
INVARIANT Inv_C19_Raise
INVARIANT Inv_C19_NoLeak
INVARIANT Inv_C19_NoPartial
INVARIANT Inv_C19_OSLimit
INVARIANT Inv_C19_RetryBound
PROPERTY Act_C19_NoTruncate
PROPERTY Act_C19_PruneBound
CHECK_DEADLOCK FALSE
