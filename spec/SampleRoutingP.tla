------------------------------------ MODULE SampleRoutingP ------------------------------------
(* Extension X05, P-level: what "route the records of selected samples to the file of their     *)
(* group" means, as definitions over an input and an observed result.  No algorithm here.       *)
(*                                                                                              *)
(* input   inp   : sequence of records [id, sm, rg, dg]; ids are distinct; sm = "" <=> the record *)
(*                 has no SM tag; rg = "" <=> no RG tag; dg = fingerprint of everything else      *)
(*         A     : the assignment as a RELATION, a set of <<sample, group>>                       *)
(*         G     : the groups that were listed (a group may be listed with no sample)             *)
(*         head  : -1 = no limit, otherwise the number of records to write in total              *)
(*         wrg   : write the group as read group;  prefix : prepended to the group ("" = none)     *)
(*         stem  : the output path without its final ".bam"                                       *)
(* result  raised: "" or the type of the exception that left the tool                             *)
(*         out   : function  file name -> [rgids : the IDs of the @RG header lines in order,       *)
(*                                          recs : the records of the file in order]              *)
EXTENDS Util, TLC

Str(cs) == FoldLeft(LAMBDA acc, c : acc \o c, "", cs)            \* sequence of 1-character strings -> string

(* singlecellmultiomics.utils.path.get_valid_filename on a sequence of characters: strip, spaces -> "_", *)
(* everything that is not alphanumeric, dash, underscore or dot is removed                               *)
AllowedChars == {"a","b","c","d","e","f","g","h","i","j","k","l","m","n","o","p","q","r","s","t","u","v","w","x","y","z",
                 "A","B","C","D","E","F","G","H","I","J","K","L","M","N","O","P","Q","R","S","T","U","V","W","X","Y","Z",
                 "0","1","2","3","4","5","6","7","8","9","_","-","."}
White == {" ", "\t", "\n", "\r"}
Strip(cs) == LET I == { i \in DOMAIN cs : cs[i] \notin White }
             IN IF I = {} THEN <<>> ELSE SubSeq(cs, MinOf(I), MaxOf(I))
CleanChars(cs) == LET st == Strip(cs)
                      mp == [i \in DOMAIN st |-> IF st[i] = " " THEN "_" ELSE st[i]]
                  IN SelectSeq(mp, LAMBDA c : c \in AllowedChars)

(* the assignment as a relation: from the API argument {group: [sample..]} (a sequence of [g, ss] in dictionary order)  *)
(* and from the lines of the command line's sample file ([s, hasg, g = the characters of the second column])          *)
RelOfAsg(asg) == UNION { { <<asg[i].ss[j], asg[i].g>> : j \in DOMAIN asg[i].ss } : i \in DOMAIN asg }
GroupsOfAsg(asg) == { asg[i].g : i \in DOMAIN asg }
LineGroup(ln) == IF ln.hasg THEN Str(CleanChars(ln.g)) ELSE ""
RelOfLines(lines) == { <<lines[i].s, LineGroup(lines[i])>> : i \in DOMAIN lines }
GroupsOfLines(lines) == { LineGroup(lines[i]) : i \in DOMAIN lines }

---------------------------------------------------------------------------------------------------
GroupsOf(A, s) == { p[2] : p \in { q \in A : q[1] = s } }
Conflict(A) == \E p, q \in A : p[1] = q[1] /\ p[2] # q[2]          \* a sample assigned to two groups
GroupOf(A, s) == CHOOSE g \in GroupsOf(A, s) : TRUE
IsSelected(A, r) == r.sm # "" /\ GroupsOf(A, r.sm) # {}
SelectedIdx(A, inp) == { i \in DOMAIN inp : IsSelected(A, inp[i]) }
Rank(A, inp, i) == Cardinality({ j \in SelectedIdx(A, inp) : j <= i })
(* the records that have to be written: all selected ones, or the first `head` of them *)
TakenIdx(A, inp, head) == { i \in SelectedIdx(A, inp) : head = -1 \/ Rank(A, inp, i) <= head }
FileName(stem, g) == stem \o g \o ".bam"
RGOf(prefix, g) == prefix \o g
IdxOfId(inp, id) == { i \in DOMAIN inp : inp[i].id = id }
WrittenIds(out) == UNION { { out[f].recs[k].id : k \in DOMAIN out[f].recs } : f \in DOMAIN out }
TotalWritten(out) == SumSetF(DOMAIN out, LAMBDA f : Len(out[f].recs))
Where(out, id) == UNION { { <<f, k>> : k \in { j \in DOMAIN out[f].recs : out[f].recs[j].id = id } } : f \in DOMAIN out }

(* ---- the clauses of the property ------------------------------------------------------------- *)
(* a legal input never makes the tool raise; an assignment of one sample to two groups is refused  *)
P_NoCrash(A, raised) == ~Conflict(A) => raised = ""
P_Refused(A, raised, out) == Conflict(A) => (raised = "ValueError" /\ \A f \in DOMAIN out : out[f].recs = <<>>)
(* one file per listed group, named stem+group+".bam", and no other file *)
P_Files(G, stem, out) == DOMAIN out = { FileName(stem, g) : g \in G }
(* every record that has to be written is written exactly once, and that in the file of its sample's group *)
P_ExactlyOnce(A, inp, head, stem, out) ==
    \A i \in TakenIdx(A, inp, head) :
        LET w == Where(out, inp[i].id)
        IN Cardinality(w) = 1 /\ \A p \in w : p[1] = FileName(stem, GroupOf(A, inp[i].sm))
(* nothing else is written: records of unselected samples, records without SM, records beyond the head limit *)
P_Unselected(A, inp, out) ==
    \A i \in DOMAIN inp : ~IsSelected(A, inp[i]) => Where(out, inp[i].id) = {}
P_Head(A, inp, head, out) ==
    /\ \A i \in SelectedIdx(A, inp) \ TakenIdx(A, inp, head) : Where(out, inp[i].id) = {}
    /\ TotalWritten(out) = Cardinality(TakenIdx(A, inp, head))
P_NoStrangers(inp, out) == \A id \in WrittenIds(out) : IdxOfId(inp, id) # {}
(* every file holds its records in the order of the input *)
P_Order(inp, out) ==
    \A f \in DOMAIN out : \A k1, k2 \in DOMAIN out[f].recs :
        k1 < k2 => \A i1 \in IdxOfId(inp, out[f].recs[k1].id), i2 \in IdxOfId(inp, out[f].recs[k2].id) : i1 < i2
(* a written record is the input record; its RG is prefix+group with write_group_rg, untouched otherwise *)
P_Content(A, inp, wrg, prefix, out) ==
    \A f \in DOMAIN out : \A k \in DOMAIN out[f].recs :
        LET o == out[f].recs[k] IN
        \A i \in IdxOfId(inp, o.id) :
            /\ o.sm = inp[i].sm /\ o.dg = inp[i].dg
            /\ (~wrg => o.rg = inp[i].rg)
P_RecordRG(A, inp, wrg, prefix, out) ==
    wrg => \A f \in DOMAIN out : \A k \in DOMAIN out[f].recs :
              \A i \in IdxOfId(inp, out[f].recs[k].id) :
                  IsSelected(A, inp[i]) => out[f].recs[k].rg = RGOf(prefix, GroupOf(A, inp[i].sm))
(* with write_group_rg the header of a group's file has exactly the @RG prefix+group; without it the  *)
(* read groups of the input header are kept                                                            *)
P_HeaderRG(G, wrg, prefix, stem, inrgids, out) ==
    \A g \in G : FileName(stem, g) \in DOMAIN out =>
        out[FileName(stem, g)].rgids = (IF wrg THEN <<RGOf(prefix, g)>> ELSE inrgids)

(* ---- split_bam_by_cluster: rows [s, c] of the annotation file; the group of cluster c is c \o ".sorted" --------------------- *)
SplitRel(rows) == { <<rows[i].s, rows[i].c \o ".sorted">> : i \in DOMAIN rows }
SplitGroups(rows) == { rows[i].c \o ".sorted" : i \in DOMAIN rows }
SplitDup(rows) == \E i, j \in DOMAIN rows : i # j /\ rows[i].s = rows[j].s          \* a sample on two lines: refused
(* the routing key of a record: its tag value, "Missing" without the tag; records flagged duplicate (and, in the reading where   *)
(* -mapq filters, records below the threshold: lowq) are not eligible and are represented with the key ""                       *)
SplitKey(r, filter) == IF r.dup \/ (filter /\ r.lowq) THEN "" ELSE IF r.sm = "" THEN "Missing" ELSE r.sm
SplitInp(inp, filter) == [i \in DOMAIN inp |-> [inp[i] EXCEPT !.sm = SplitKey(inp[i], filter)]]
SortKeyLE(a, b) == LET ta == IF a.tid < 0 THEN 1000000 ELSE a.tid  tb == IF b.tid < 0 THEN 1000000 ELSE b.tid
                   IN ta < tb \/ (ta = tb /\ (ta = 1000000 \/ a.pos <= b.pos))
(* every file is coordinate sorted (contig index, position; records without contig last; ties in any order) *)
P_Sorted(inp, out) ==
    \A f \in DOMAIN out : \A k1, k2 \in DOMAIN out[f].recs :
        k1 < k2 => \A i1 \in IdxOfId(inp, out[f].recs[k1].id), i2 \in IdxOfId(inp, out[f].recs[k2].id) : SortKeyLE(inp[i1], inp[i2])

(* the one result the clauses allow (used by the design model's step invariant and as the final catch-all *)
(* of the trace spec): for every listed group the selected-and-taken records of its samples, in order      *)
ExpectedRecs(A, inp, head, wrg, prefix, g) ==
    LET T == TakenIdx(A, inp, head)
        idx == SetToSortSeq({ i \in T : GroupOf(A, inp[i].sm) = g }, LAMBDA a, b : a < b)
    IN [k \in DOMAIN idx |-> [id |-> inp[idx[k]].id, sm |-> inp[idx[k]].sm, dg |-> inp[idx[k]].dg,
                              rg |-> IF wrg THEN RGOf(prefix, g) ELSE inp[idx[k]].rg]]
ExpectedOut(A, G, inp, head, wrg, prefix, stem, inrgids) ==
    [f \in { FileName(stem, g) : g \in G } |->
        LET g == CHOOSE x \in G : FileName(stem, x) = f
        IN [rgids |-> IF wrg THEN <<RGOf(prefix, g)>> ELSE inrgids,
            recs |-> ExpectedRecs(A, inp, head, wrg, prefix, g)]]
=================================================================================================
