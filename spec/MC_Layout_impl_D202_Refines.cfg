INIT Init
NEXT Next
CONSTANTS
  MaxL = 24
  Variant = "impl"
  Pairing = "cross"
  Only = {"DamID2andT_3u4b3u6b"}
INVARIANT Inv_C02_Refines
CHECK_DEADLOCK FALSE
