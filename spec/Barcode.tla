------------------------------------------ MODULE Barcode ------------------------------------------
(* C03 - barcode correction assigns the unique nearest whitelisted barcode or nothing.            *)
(*                                                                                                *)
(* Subsystem: singlecellmultiomics/barcodeFileParser/barcodeFileParser.py, one alias.              *)
(*                                                                                                *)
(* P-level : FileWl (what the whitelist file says: barcode -> index), Nearest(W,k,q) - the         *)
(*           property's own definition, no algorithm - and the invariants Inv_C03_*.               *)
(* D-level : the code, one action per loop body / critical section:                               *)
(*   Construct     BarcodeParser.__init__ per file: lazy -> pending_files[alias], else parse       *)
(*   Detect        parse_barcode_file, first pass  (index first or barcode first?)                 *)
(*   ParseLine     parse_barcode_file, second pass, one line -> addBarcode(distance 0)             *)
(*   CircleStep    expand(), first loop body: one whitelist entry, hamming_circle radius 0..k      *)
(*   Resolve       expand(), second loop: sort, skip on tie, addBarcode(index, origin, distance)   *)
(*   Lookup(q)     getIndexCorrectedBarcodeAndHammingDistance: exact -> extended -> lazy load      *)
(*   Answer        the recursive call after a lazy load (try_lazy_load_pending=False)              *)
(*   GetItem       BarcodeParser.__getitem__ (parser[alias]): the other public access that loads a     *)
(*                 pending alias (scCHIC reads parser['celseq2'] before any lookup)                    *)
(*                                                                                                *)
(* Letters are 1..A; letter A plays the role of 'N' = alphabet[-1] of hamming_circle              *)
(* (replacement letters are alphabet[0..A-2]; replacing a letter by itself yields 'N').           *)
(*                                                                                                *)
(* Variant = "design"     the intended behaviour (= the code at the pinned commit for one file     *)
(*                        per alias; for a second file of the same alias the extended table is     *)
(*                        rebuilt)                                                                *)
(* named deviations, negative controls (none of them is the behaviour of the pinned code on the    *)
(* statement's inputs; each is a realistic edit the repository's tests do not notice):            *)
(*   "tie_first"   Resolve assigns sortedDistances[0] even when the two best distances tie        *)
(*   "circle_noN"  hamming_circle without the N substitution (self-replacement keeps the letter)   *)
(*   "idx_line"    ParseLine stores the line number instead of the index column                    *)
(*   "tie_same_index" Resolve treats a tie of two entries with the SAME cell index as resolvable       *)
(*   "falsy_index" Lookup tests `barcodes.get(q)` for truth: a member with cell index 0 is missed     *)
(*   "getitem_noexpand"  __getitem__ loads the pending file but skips the Hamming expansion             *)
(*   "eager_expand_gated"  __init__ expands eagerly loaded aliases only when lazyLoad is None: with a     *)
(*                 partial lazy list (what demux.py passes) eager aliases stay exact-match only        *)
(*   "stale_ext"   AS CODED for two files mapping to one alias: expand() merges into the old        *)
(*                 extendedBarcodes, entries that became ties stay assigned (observation, see      *)
(*                 docs/C03.md; outside the statement's "one whitelist per alias")                 *)
EXTENDS Integers, Sequences, FiniteSets, TLC, Json, Util, BarcodeP

CONSTANTS A,         \* alphabet size (letters 1..A, A = 'N')
          L,         \* barcode length
          MaxLines,  \* lines per file
          Ks,        \* set of hammingDistanceExpansion values
          Fmts,      \* subset of {"bc", "bc_idx", "idx_bc"}
          NFiles,    \* set of file counts per alias, subset of {1, 2}
          Lazy,      \* the lazyLoad argument, subset of {"none", "this", "other", "star"}: None / a tuple naming this alias /
                     \* a tuple naming only OTHER aliases (demux.py: ("10x_3M-february-2018",)) / '*'
          ProbeMax,  \* pure table reads Lookup(q) are explored for strings with q[1] <= ProbeMax (A = all). The table invariants
                     \* quantify over ALL strings in every loaded state anyway; lookups that trigger or follow a lazy load are never restricted
          Touches,   \* how a lazy alias is first touched: subset of {"lookup", "getitem"}
          Variant

AllStrings == [1 .. L -> 1 .. A]

(* P-level: None, D, Nearest(W,k,q), Tied(W,k,q) come from BarcodeP.tla (the property's definition) *)

---------------------------------------------------------------------------------------------------
(* files *)
\* a file is [fmt, bcs (injective sequence of barcodes)]; the index written for line i is IdxOf(fmt, fno, i)
\* one-column files: the 1-based line number; two-column files: a 0-BASED index column, so that the cell index 0
\* (a falsy value in Python) occurs in both column orders and never equals the line number
\* barcode-first files repeat ONE index value (0) on every line: several barcodes of one cell - a string equally close to two of
\* them is still a tie; index-first files count 0, 1, ...
IdxOf(fmt, fno, i) == IF fmt = "bc" THEN i ELSE IF fmt = "bc_idx" THEN 0 ELSE i - 1
\* tokens of line i: <<"b", barcode>> looks like a barcode (all letters in ATCGNX), <<"i", n>> does not
LineTokens(f, fno, i) ==
    CASE f.fmt = "bc"     -> << <<"b", f.bcs[i]>> >>
      [] f.fmt = "bc_idx" -> << <<"b", f.bcs[i]>>, <<"i", IdxOf(f.fmt, fno, i)>> >>
      [] f.fmt = "idx_bc" -> << <<"i", IdxOf(f.fmt, fno, i)>>, <<"b", f.bcs[i]>> >>
LooksLikeBarcode(tok) == tok[1] = "b"

\* m = 0: an empty whitelist file (everything is unassigned)
InjSeqs(S, n) == UNION { { s \in [1 .. m -> S] : \A i, j \in 1 .. m : s[i] = s[j] => i = j } : m \in 0 .. n }

VARIABLES files,    \* the barcode directory: sequence of files mapping to the one alias (glob order)
          k, lazy,  \* constructor arguments (lazy: the lazyLoad argument as seen from this alias)
          pc, fi, li, idxNotFirst,         \* control state of __init__ / parse_barcode_file
          wl, order,                       \* barcodes[alias] (dict: function + insertion order)
          ext,                             \* extendedBarcodes[alias] : string -> <<index, origin, distance>>
          pending,                         \* alias in pending_files (value: file number) or 0
          space, ci,                       \* hammingSpace of the running expand(), position in `order`
          want, last,                      \* what a running lazy load serves: "no" | "lookup" | "getitem"; last answer <<q, result>>
          touch                            \* scenario: the first access to a lazy alias
IsLazy == lazy \in {"this", "star"}     \* per alias: `barcodeFileAlias in lazyLoad or lazyLoad == '*'`
vars == << files, k, lazy, pc, fi, li, idxNotFirst, wl, order, ext, pending, space, ci, want, last, touch >>

(* P-level truth: what the files say *)
FileWl == [ b \in UNION { { files[f].bcs[i] : i \in DOMAIN files[f].bcs } : f \in DOMAIN files } |->
                 LET f == CHOOSE f \in DOMAIN files : \E i \in DOMAIN files[f].bcs : files[f].bcs[i] = b
                     i == CHOOSE i \in DOMAIN files[f].bcs : files[f].bcs[i] = b
                 IN IdxOf(files[f].fmt, f, i) ]

EmptySpace == [ h \in AllStrings |-> {} ]

Init == /\ \E n \in NFiles : \E fs \in [1 .. n -> [fmt : Fmts, bcs : InjSeqs(AllStrings, MaxLines)]] :
              /\ \A f, g \in 1 .. n : f # g => (\A i \in DOMAIN fs[f].bcs, j \in DOMAIN fs[g].bcs : fs[f].bcs[i] # fs[g].bcs[j])
              /\ files = fs
        /\ k \in Ks
        /\ lazy \in Lazy
        /\ (IsLazy => Len(files) = 1)      \* pending_files holds one file per alias (see docs)
        /\ pc = "construct" /\ fi = 1 /\ li = 1 /\ idxNotFirst = FALSE
        /\ wl = <<>> /\ order = <<>> /\ ext = <<>> /\ pending = 0
        /\ space = EmptySpace /\ ci = 1 /\ want = "no" /\ last = None
        /\ touch \in (IF IsLazy THEN Touches ELSE {"lookup"})

---------------------------------------------------------------------------------------------------
(* D-level *)

(* __init__: per file of the directory *)
Construct ==
    /\ pc = "construct"
    /\ IF fi > Len(files) THEN pc' = "ready" /\ UNCHANGED pending
       ELSE IF IsLazy THEN pending' = fi /\ pc' = "ready"
       ELSE pc' = "detect" /\ UNCHANGED pending
    /\ UNCHANGED << files, k, lazy, fi, li, idxNotFirst, wl, order, ext, space, ci, want, last, touch >>

(* first pass of parse_barcode_file *)
Detect ==
    /\ pc = "detect"
    /\ idxNotFirst' = \E i \in DOMAIN files[fi].bcs :
                          LET t == LineTokens(files[fi], fi, i) IN Len(t) = 2 /\ LooksLikeBarcode(t[1])
    /\ li' = 1 /\ pc' = "lines"
    /\ UNCHANGED << files, k, lazy, fi, wl, order, ext, pending, space, ci, want, last, touch >>

(* dict assignment keeps the first insertion position *)
DictSet(f, ord, key, val) == << (key :> val) @@ f, IF key \in DOMAIN f THEN ord ELSE Append(ord, key) >>

(* second pass, one line: addBarcode(alias, barcode, index) *)
ParseLine ==
    /\ pc = "lines"
    /\ IF li > Len(files[fi].bcs)
       THEN /\ pc' = IF Variant = "getitem_noexpand" /\ want = "getitem" THEN "resolve"      \* (deviation) nothing to resolve
                     ELSE IF IsLazy \/ (k > 0 /\ (Variant # "eager_expand_gated" \/ lazy = "none")) THEN "circle"
                     ELSE "nextfile"      \* eager: `if hammingDistanceExpansion > 0` - whatever lazyLoad names for OTHER aliases
            /\ ci' = 1 /\ space' = EmptySpace
            /\ UNCHANGED << wl, order, li >>
       ELSE LET t == LineTokens(files[fi], fi, li)
                bc == IF Len(t) = 1 THEN t[1] ELSE IF idxNotFirst THEN t[1] ELSE t[2]
                ix == IF Len(t) = 1 THEN <<"i", li>> ELSE IF idxNotFirst THEN t[2] ELSE t[1]
                stored == IF Variant = "idx_line" THEN li ELSE ix[2]
                r == DictSet(wl, order, bc[2], stored)
            IN /\ wl' = r[1] /\ order' = r[2]
               /\ li' = li + 1
               /\ UNCHANGED << pc, ci, space >>
    /\ UNCHANGED << files, k, lazy, fi, idxNotFirst, ext, pending, want, last, touch >>

(* hamming_circle(s, n, alphabet): one generator event per (positions, replacements) *)
Sub(c, r) == IF Variant = "circle_noN" THEN r ELSE IF c = r THEN A ELSE r
CircleEvents(n) == UNION { { <<P, R>> : R \in [P -> 1 .. (A - 1)] } : P \in { P \in SUBSET (1 .. L) : Cardinality(P) = n } }
Cousin(s, ev) == [ i \in 1 .. L |-> IF i \in ev[1] THEN Sub(s[i], ev[2][i]) ELSE s[i] ]

(* expand(), first loop body for one barcode: hammingSpace[instance].append((distance, barcode)) *)
CircleStep ==
    /\ pc = "circle"
    /\ IF ci > Len(order) THEN pc' = "resolve" /\ UNCHANGED << space, ci >>
       ELSE LET b == order[ci]
                evs == UNION { { << n, ev >> : ev \in CircleEvents(n) } : n \in 0 .. k }
            IN /\ space' = [ h \in AllStrings |-> space[h] \cup { << e[1], b, e[2] >> : e \in { x \in evs : Cousin(b, x[2]) = h } } ]
               /\ ci' = ci + 1 /\ UNCHANGED pc
    /\ UNCHANGED << files, k, lazy, fi, li, idxNotFirst, wl, order, ext, pending, want, last, touch >>

LexLess(a, b) == \E i \in 1 .. L : a[i] < b[i] /\ \A j \in 1 .. (i - 1) : a[j] = b[j]

(* expand(), second loop (all of it): sorted(), tie test on the two best, addBarcode *)
Resolve ==
    /\ pc = "resolve"
    /\ LET hs == { h \in AllStrings : space[h] # {} }
           dmin(h) == MinOf({ e[1] : e \in space[h] })
           best(h) == { e \in space[h] : e[1] = dmin(h) }
           os(h) == { e[2] : e \in best(h) }
           first(S) == CHOOSE o \in S : \A p \in S : p = o \/ LexLess(o, p)
           tie(h) == /\ Cardinality(space[h]) > 1 /\ Cardinality(best(h)) > 1
                     /\ (Variant = "tie_same_index" /\ Cardinality(os(h)) > 1      \* (deviation) only a collision if the cells differ
                           => wl[first(os(h))] # wl[first(os(h) \ {first(os(h))})])
           kept == { h \in hs : Variant = "tie_first" \/ ~tie(h) }
           origin(h) == CHOOSE o \in { e[2] : e \in best(h) } : \A p \in { e[2] : e \in best(h) } : p = o \/ LexLess(o, p)
           new == [ h \in { x \in kept : dmin(x) > 0 } |-> << wl[origin(h)], origin(h), dmin(h) >> ]
       IN /\ ext' = IF Variant = "stale_ext" \/ fi = 1 THEN new @@ ext ELSE new
          \* addBarcode with distance 0 re-stores barcodes[alias][b] = its own index: no change
          /\ wl' = [ h \in { x \in kept : dmin(x) = 0 } |-> wl[origin(h)] ] @@ wl
    /\ IF want = "lookup" THEN pc' = "answer" /\ pending' = 0 /\ UNCHANGED want    \* del pending_files[alias]
       ELSE IF want = "getitem" THEN pc' = "ready" /\ pending' = 0 /\ want' = "no"   \* return self.barcodes.get(alias)
       ELSE pc' = "nextfile" /\ UNCHANGED << pending, want >>
    /\ space' = EmptySpace        \* local variable of expand() goes out of scope
    /\ UNCHANGED << files, k, lazy, fi, li, idxNotFirst, order, ci, last, touch >>

NextFile ==
    /\ pc = "nextfile"
    /\ fi' = fi + 1 /\ pc' = "construct"
    /\ UNCHANGED << files, k, lazy, li, idxNotFirst, wl, order, ext, pending, space, ci, want, last, touch >>

(* the two table reads of the lookup *)
Tables(q) == IF q \in DOMAIN wl /\ (Variant # "falsy_index" \/ wl[q] # 0) THEN << wl[q], q, 0 >>
             ELSE IF q \in DOMAIN ext THEN ext[q] ELSE None

Lookup(q) ==
    /\ pc = "ready" /\ last = None
    /\ (pending # 0 => touch = "lookup")        \* scenario: which access touches the lazy alias first
    /\ (pending = 0 => q[1] <= ProbeMax)
    /\ IF Tables(q) # None \/ pending = 0
       THEN last' = << q, Tables(q) >> /\ UNCHANGED << pc, want, fi >>
       ELSE want' = "lookup" /\ fi' = pending /\ pc' = "detect" /\ UNCHANGED last      \* parse_pending_barcode_file_of_alias
    /\ UNCHANGED << files, k, lazy, li, idxNotFirst, wl, order, ext, pending, space, ci, touch >>

(* parser[alias]: loads a pending alias (parse + expand) and returns barcodes.get(alias); no table is read *)
GetItem ==
    /\ pc = "ready" /\ last = None /\ pending # 0 /\ touch = "getitem"
    /\ want' = "getitem" /\ fi' = pending /\ pc' = "detect"
    /\ UNCHANGED << files, k, lazy, li, idxNotFirst, wl, order, ext, pending, space, ci, last, touch >>

(* the recursive call after the load. The load does not use the queried string and, while the alias is   *)
(* pending, both tables are empty so every string misses: the string is therefore chosen here (same      *)
(* behaviours as remembering it from Lookup(q), 1/|strings| of the states).                              *)
Answer(q) ==
    /\ pc = "answer"
    /\ last' = << q, Tables(q) >> /\ want' = "no" /\ pc' = "ready"
    /\ UNCHANGED << files, k, lazy, fi, li, idxNotFirst, wl, order, ext, pending, space, ci, touch >>

Next == Construct \/ Detect \/ ParseLine \/ CircleStep \/ Resolve \/ NextFile \/ GetItem \/ \E q \in AllStrings : (Lookup(q) \/ Answer(q))
Spec == Init /\ [][Next]_vars

---------------------------------------------------------------------------------------------------
(* Properties *)

(* Lookup/Answer only write `last`, so the table invariants are evaluated once per loaded table (last = None) *)
Loaded == pc = "ready" /\ pending = 0 /\ last = None

Inv_C03_Nearest == Loaded => \A q \in AllStrings : Tables(q) = Nearest(FileWl, k, q)
Inv_C03_Exact   == Loaded => \A b \in DOMAIN FileWl : Tables(b) = << FileWl[b], b, 0 >>
Inv_C03_NoTieAssigned == Loaded => \A q \in AllStrings : Tied(FileWl, k, q) => Tables(q) = None
(* what a caller observed, including through the lazy path *)
Inv_C03_Lookup  == last # None => last[2] = Nearest(FileWl, k, last[1])
(* parse: the exact table is the file *)
Inv_C03_Parse   == Loaded => wl = FileWl

TypeOK == /\ pc \in {"construct", "detect", "lines", "circle", "resolve", "nextfile", "ready", "answer"}
          /\ DOMAIN wl \subseteq AllStrings /\ DOMAIN ext \subseteq AllStrings
          /\ pending \in 0 .. 2

---------------------------------------------------------------------------------------------------
(* spec -> code: every initial state is a scenario (barcode directory + constructor arguments)  *)
Scenario == [ k |-> k, lazy |-> IsLazy, lazyarg |-> lazy, touch |-> touch, A |-> A, L |-> L,
              files |-> [ f \in DOMAIN files |-> [ fmt |-> files[f].fmt, bcs |-> files[f].bcs,
                                                   idx |-> [ i \in DOMAIN files[f].bcs |-> IdxOf(files[f].fmt, f, i) ] ] ] ]
Emit == IF pc = "construct" /\ fi = 1 THEN PrintT("@@SCENARIO " \o ToJson(Scenario)) ELSE TRUE
OnlyInit == pc = "construct" /\ fi = 1
=====================================================================================================
