------------------------------------------- MODULE Codec -------------------------------------------
(* C04 - read-name encoding round-trips: FASTQ header (demultiplexer) -> BAM tags (tagger).        *)
(*                                                                                                *)
(* Text is a sequence of character codes. A tag list is a sequence of <<key, value>>, key a       *)
(* string naming a two-letter SAM tag (two characters in the header).                             *)
(*                                                                                                *)
(* P-level (CodecP.tla): what must come back - Expect(tags), HeaderLen, the phred letter code      *)
(*          (QEnc/QDec as relations the implementation has to satisfy), Inv_C04_*.                  *)
(* D-level, one action per step of the pipeline at the pinned commit:                              *)
(*   Demux      UmiBarcodeDemuxMethod.demultiplex: TaggedRecord.tags from the Illumina header,      *)
(*              library, barcode lookup, UMI; addTagByTag('RQ', isPhred) -> phredToFastqHeaderSafe   *)
(*   AsFastq    TaggedRecord.asFastq: join k:v with ';', skip doNotWrite, refuse when too long      *)
(*   Align      the aligner copies the name into a BAM record (htslib: at most Limit characters)    *)
(*   Digest     QueryNameFlagger.digest(reads): loop over the slots of the fragment ([R1,R2], [R1,None],  *)
(*              [None,R2], ...): an empty slot is skipped, the first already tagged read ends the call,  *)
(*              every other read is decoded by the next two steps                                       *)
(*   FromName   TaggedRecord.fromTaggedBamRecord: split ';' / ':', addTagByTag(.., fqSafe)           *)
(*   TagRead    asIlluminaHeader + tagPysamRead: MI, SM, phred tags decoded, set_tag                 *)
(*                                                                                                *)
(* Variant = "design"        intended behaviour                                                    *)
(*           "impl_clamp"    D1: clamp index min(.., len(letters)) instead of len(letters)-1         *)
(*           "impl_limit"    D3: asFastq refuses only above Limit+1                                  *)
(*           "impl_plus"     D140: fqSafe at decode drops '+' of a dual sequencing index             *)
(*           "none_returns"  (seeded edit) digest returns at an empty slot: [None, R2] leaves R2 undecoded *)
(*           "drop_empty"    (seeded edit, not the pinned code) asFastq skips tags whose value is falsy: *)
(*                           an empty sequencing index (header "... 1:N:0:") is never restored          *)
EXTENDS Integers, Sequences, FiniteSets, TLC, Json, Util, CodecP

CONSTANTS ValChars,     \* characters library names are made of
          MaxLy,        \* maximal library name length
          QChars,       \* phred characters used for UMI qualities in the state machine
          MaxUmi,       \* UMI length 1..MaxUmi
          Indexes,      \* subset of {"single", "dual"}: sequencing index text "G" / "G+C"
          Limit,        \* scaled-down BAM name limit (the real one is CodecP!BamLimit = 254)
          Shapes,       \* fragment shapes handed to digest: subset of {"r", "rr", "rn", "nr"} (r = read, n = None)
          RequireSafe,  \* TRUE: inputs restricted to the statement's precondition (header-safe library names)
          Variant

VARIABLES inp, pc, tags, err, name, dec, bam, qname,
          frag, slot, decoded        \* the fragment (sequence of "r"/"n"), the slot digest is at, the slots decoded so far
vars == << inp, pc, tags, err, name, dec, bam, qname, frag, slot, decoded >>

FragOf(sh) == CASE sh = "r" -> <<"r">> [] sh = "rr" -> <<"r", "r">> [] sh = "rn" -> <<"r", "n">> [] sh = "nr" -> <<"n", "r">>

Txt(s) == s    \* readability: constants below are code sequences
cA == <<65>>   \* "A"
c1 == <<49>>

IdxText(kind) == IF kind = "dual" THEN <<71, 43, 67>> ELSE IF kind = "empty" THEN <<>> ELSE <<71>>
SeqsUpTo(S, n) == UNION { [1 .. m -> S] : m \in 1 .. n }

Init == /\ inp \in [ ly : SeqsUpTo(ValChars, MaxLy), uq : SeqsUpTo(QChars, MaxUmi), idx : { IdxText(x) : x \in Indexes } ]
        /\ (RequireSafe => \A i \in DOMAIN inp.ly : HeaderSafe(inp.ly[i]))
        /\ pc = "demux" /\ tags = <<>> /\ err = "" /\ name = <<>> /\ dec = <<>> /\ bam = <<>> /\ qname = <<>>
        /\ frag \in { FragOf(sh) : sh \in Shapes } /\ slot = 1 /\ decoded = {}

(* the tags the demultiplexer would write for this input, qualities still raw *)
RawTags == << <<"Is", <<64, 77>> >>,             \* "@M": the instrument field keeps the '@' of the FASTQ header line
              <<"La", c1>>, <<"CX", <<55>> >>, <<"RP", c1>>,   \* RP is doNotWrite
              <<"aa", inp.idx>> >> \o (IF inp.idx = <<>> THEN <<>> ELSE << <<"aA", inp.idx>> >>) \o    \* no index: no corrected index
           <<               <<"LY", inp.ly>>,
              <<"RX", [i \in DOMAIN inp.uq |-> 65]>>, <<"RQ", inp.uq>>,
              <<"bi", c1>>, <<"MX", <<83>> >>, <<"BC", <<67, 71>> >> >>

(* phredToFastqHeaderSafeQualities(method 3) *)
ClampTop == IF Variant = "impl_clamp" THEN NLetters ELSE NLetters - 1
EncIdx(c) == Min2(Max2(0, c - 33), ClampTop)
EncRaises(q) == \E i \in DOMAIN q : EncIdx(q[i]) >= NLetters         \* IndexError: string index out of range
EncQ(q) == [ i \in DOMAIN q |-> LetterCode(EncIdx(q[i])) ]

Demux ==
    /\ pc = "demux"
    /\ IF EncRaises(inp.uq)
       THEN err' = "IndexError" /\ pc' = "done" /\ UNCHANGED tags
       ELSE /\ tags' = [ i \in DOMAIN RawTags |-> IF RawTags[i][1] \in PhredTags THEN << RawTags[i][1], EncQ(RawTags[i][2]) >> ELSE RawTags[i] ]
            /\ pc' = "asfastq" /\ UNCHANGED err
    /\ UNCHANGED << inp, name, dec, bam, qname, frag, slot, decoded >>

Bound == IF Variant = "impl_limit" THEN Limit + 1 ELSE Limit

AsFastq ==
    /\ pc = "asfastq"
    /\ IF HeaderLen(tags) > Bound
       THEN err' = "refused" /\ pc' = "done" /\ UNCHANGED name      \* ValueError("The length of the demultiplexed header ...")
       ELSE name' = Header(IF Variant = "drop_empty" THEN SelectSeq(tags, LAMBDA t : Len(t[2]) > 0) ELSE tags)
            /\ pc' = "align" /\ UNCHANGED err
    /\ UNCHANGED << inp, tags, dec, bam, qname, frag, slot, decoded >>

Align ==
    /\ pc = "align"
    /\ IF RealLen(name) > Limit
       THEN err' = "query name too long" /\ pc' = "done"            \* htslib refuses; the pipeline breaks after demultiplexing
       ELSE pc' = "digest" /\ UNCHANGED err
    /\ UNCHANGED << inp, tags, name, dec, bam, qname, frag, slot, decoded >>

(* for read in reads: if read is None: continue; if read.has_tag('SM'): return; <decode> *)
Digest ==
    /\ pc = "digest"
    /\ IF slot > Len(frag) THEN pc' = "done" /\ UNCHANGED slot
       ELSE IF frag[slot] = "n"
            THEN (IF Variant = "none_returns" THEN pc' = "done" /\ UNCHANGED slot ELSE slot' = slot + 1 /\ UNCHANGED pc)
       ELSE pc' = "fromname" /\ UNCHANGED slot          \* (all mates carry the same name: one decode is modelled per read)
    /\ UNCHANGED << inp, tags, err, name, dec, bam, qname, frag, decoded >>

(* fqSafe applied by addTagByTag(key, value, isPhred=False) while decoding *)
SafeAtDecode(c) == HeaderSafe(c) \/ (Variant # "impl_plus" /\ c = 43)
FqSafe(v) == SelectSeq(v, SafeAtDecode)

FromName ==
    /\ pc = "fromname"
    /\ LET fields == SplitOn(name, 59)
           parts(f) == SplitOn(f, 58)
       IN IF \E i \in DOMAIN fields : Len(parts(fields[i])) # 2 \/ Len(parts(fields[i])[1]) # 1 \/ parts(fields[i])[1][1] < 1000
          THEN err' = "ValueError" /\ pc' = "done" /\ UNCHANGED dec         \* key, value = keyValue.split(':')
          ELSE /\ dec' = [ i \in DOMAIN fields |-> << KeyOf(parts(fields[i])[1][1]), FqSafe(parts(fields[i])[2]) >> ]
               /\ pc' = "tagread" /\ UNCHANGED err
    /\ UNCHANGED << inp, tags, name, bam, qname, frag, slot, decoded >>

TagRead ==
    /\ pc = "tagread"
    /\ LET d == TagFun(dec)
           has(k) == k \in DOMAIN d
           get(k) == IF has(k) THEN d[k] ELSE <<>>
           mi == get("BC") \o get("RX") \o get("aA")
           withMI == IF has("aA") THEN ("MI" :> mi) @@ d ELSE ("BK" :> c1) @@ d
           withSM == IF has("bi") THEN ("SM" :> (get("LY") \o <<95>> \o get("bi"))) @@ withMI
                     ELSE IF has("LY") THEN ("SM" :> (get("LY") \o <<95, 66, 85, 76, 75>>)) @@ withMI ELSE withMI
       IN /\ bam' = [ k \in DOMAIN withSM |-> IF k \in PhredTags THEN DecQ(withSM[k]) ELSE withSM[k] ]
          /\ qname' = get("Is") \o <<58>> \o get("La") \o <<58>> \o get("CX")
    /\ decoded' = decoded \cup {slot} /\ slot' = slot + 1 /\ pc' = "digest"
    /\ UNCHANGED << inp, tags, err, name, dec, frag >>

Next == Demux \/ AsFastq \/ Align \/ Digest \/ FromName \/ TagRead
Spec == Init /\ [][Next]_vars

---------------------------------------------------------------------------------------------------
(* Properties (definitions in CodecP) *)

Done == pc = "done"

(* quality code: total, monotone, exact up to the last letter, saturating above - checked on all 94 characters *)
Inv_C04_QTotal == pc = "demux" =>        \* state independent: evaluated once per behaviour
                  /\ \A c \in 33 .. 126 : EncIdx(c) < NLetters
                  /\ QCodeOK([ c \in 33 .. 126 |-> IF EncIdx(c) < NLetters THEN DecQ(<< LetterCode(EncIdx(c)) >>)[1] ELSE -1 ])

(* a header that cannot be stored never leaves the demultiplexer; what leaves it can be stored *)
Inv_C04_Refuse == /\ (pc \in {"align", "digest", "fromname", "tagread"} \/ (Done /\ err # "refused" /\ tags # <<>>)) => HeaderLen(tags) <= Limit
                  /\ err # "query name too long"

(* accepted input is never lost to an exception of the codec *)
Inv_C04_NoRaise == err \in {"", "refused"}

(* everything written is recovered *)
Inv_C04_RoundTrip == (Done /\ err = "") => /\ RoundTripOK(RawTags, bam, qname, <<77, 58, 49, 58, 55>>)
                                           /\ decoded = { i \in DOMAIN frag : frag[i] = "r" }      \* every present read

---------------------------------------------------------------------------------------------------
(* spec -> code: every initial state is a scenario; `over` = header length relative to the limit   *)
Scenario == [ ly |-> inp.ly, uq |-> inp.uq, idx |-> inp.idx,
              over |-> HeaderLen(RawTags) - Limit ]
Emit == IF pc = "demux" THEN PrintT("@@SCENARIO " \o ToJson(Scenario)) ELSE TRUE
OnlyInit == pc = "demux"
=====================================================================================================
