--------------------------------------- MODULE FeaturesOps ---------------------------------------
(* C16 - feature container lookups.  Constant-free definitions shared by the model               *)
(* (Features.tla) and the trace specification (Trace_Features.tla).                              *)
(*                                                                                               *)
(* A feature is <<start, end, name, strand>> (closed interval, strand "+" or "-"); a query       *)
(* strand is "+", "-" or "." (= None: any strand).  A bag is a sequence of <<contig, feature>>.  *)
(*                                                                                               *)
(*   P-level : TrueAt / TrueBetween / TrueAnnot* - the property's own definition over ALL        *)
(*             features added so far (no index, no memo).                                        *)
(*   D-level : the data structures of FeatureContainer (features.py): the per-contig index built *)
(*             by sort() (sorted list, startCoordinates, sorted endCoordinates, maxFeatureSizes, *)
(*             fastIndex), the lookup variants `nb` and `bdbnb` of _findFeaturesAt, the scan of  *)
(*             findFeaturesBetween, and functools.lru_cache as an LRU list of <<key, value>>.    *)
EXTENDS Integers, Sequences, FiniteSets, TLC, Util

AnyStrand == "."
StrandOK(f, st) == st = AnyStrand \/ f[4] = st
OnContig(bag, c) == { x[2] : x \in { y \in SeqSet(bag) : y[1] = c } }

---------------------------------------------------------------------------------------------------
(* P-level: exactly the features whose closed interval contains the point / overlaps the range *)
TrueAt(F, p, st) == { f \in F : f[1] <= p /\ p <= f[2] /\ StrandOK(f, st) }
TrueBetween(F, a, b, st) == { f \in F : f[1] <= b /\ a <= f[2] /\ StrandOK(f, st) }
(* read annotation: blocks are pysam blocks, half-open <<bs, be>> covering the bases bs .. be-1.   *)
(*   TrueAnnotBases  : features overlapping a base the read covers (method 0 queries every base)   *)
(*   TrueAnnotClosed : what the block queries [bs, be] of method 1 are entitled to return at most  *)
TrueAnnotBases(F, blocks, st) == UNION { TrueBetween(F, blocks[k][1], blocks[k][2] - 1, st) : k \in DOMAIN blocks }
TrueAnnotClosed(F, blocks, st) == UNION { TrueBetween(F, blocks[k][1], blocks[k][2], st) : k \in DOMAIN blocks }

---------------------------------------------------------------------------------------------------
(* D-level: index of one contig as built by sort() *)
StrandRank(s) == IF s = "+" THEN 0 ELSE 1
(* list.sort() on the tuples (start, end, name, strand, data); the model uses one name per (start,end,strand) *)
FeatLess(x, y) == \/ x[1] < y[1]
                  \/ (x[1] = y[1] /\ x[2] < y[2])
                  \/ (x[1] = y[1] /\ x[2] = y[2] /\ StrandRank(x[4]) < StrandRank(y[4]))
Max2(a, b) == IF a >= b THEN a ELSE b
Min2(a, b) == IF a <= b THEN a ELSE b
CountLess(q, v) == Cardinality({ k \in DOMAIN q : q[k] < v })          \* np.searchsorted(q, v, 'left') on a sorted q

(* the part of the index that does not need lookups *)
BaseIndex(fs) == [ feats  |-> fs,
                   starts |-> [k \in DOMAIN fs |-> fs[k][1]],
                   ends   |-> SortSeq([k \in DOMAIN fs |-> fs[k][2]], LAMBDA a, b : a < b),
                   maxlen |-> MaxOf({ fs[k][2] - fs[k][1] : k \in DOMAIN fs }),
                   fast   |-> <<>> ]

(* _findFeaturesAt(optim='nb'): candidates start at the left-most index the longest feature allows *)
FindNB(ix, p, st) ==
    LET n == Len(ix.feats)
        s == CountLess(ix.starts, p + 1)
        lo == CountLess(ix.starts, p - ix.maxlen)
    IN { ix.feats[k] : k \in { j \in (lo + 1) .. Min2(s, n) : ix.feats[j][2] >= p /\ StrandOK(ix.feats[j], st) } }

(* _findFeaturesAt(optim='bdbnb'): start from fastIndex[s-1] (Python index: s = 0 reads the LAST entry) *)
FindBDBNB(ix, p, st) ==
    LET n == Len(ix.feats)
        s == CountLess(ix.starts, p + 1)
        lo == IF s = 0 THEN ix.fast[n] ELSE ix.fast[s]
    IN { ix.feats[k] : k \in { j \in (lo + 1) .. Min2(s, n) : ix.feats[j][2] >= p /\ StrandOK(ix.feats[j], st) } }

(* the while-loop of findFeaturesBetween (without the two end-point lookups) *)
ScanBetween(ix, a, b, st) ==
    LET n == Len(ix.feats)
        i0 == Min2(Max2(0, CountLess(ix.starts, a) - 1), Max2(0, CountLess(ix.ends, b)))
    IN { ix.feats[k] : k \in { j \in (i0 + 1) .. n :
            /\ \A m \in (i0 + 1) .. j : ix.feats[m][1] <= b          \* the loop stops at the first start > b
            /\ Max2(a, ix.feats[j][1]) <= Min2(b, ix.feats[j][2])
            /\ StrandOK(ix.feats[j], st) } }

---------------------------------------------------------------------------------------------------
(* functools.lru_cache: list of <<key, value>>, least recently used first *)
MemoHas(memo, key) == \E k \in DOMAIN memo : memo[k][1] = key
MemoPos(memo, key) == CHOOSE k \in DOMAIN memo : memo[k][1] = key
MemoGet(memo, key) == memo[MemoPos(memo, key)][2]
MemoTouch(memo, key) == LET k == MemoPos(memo, key)
                        IN SubSeq(memo, 1, k - 1) \o SubSeq(memo, k + 1, Len(memo)) \o << memo[k] >>
MemoPut(memo, key, val, cap) == LET m == Append(memo, <<key, val>>)
                                IN IF Len(m) > cap THEN Tail(m) ELSE m
(* one call through the cache: [memo, val]; `fresh` is what the wrapped function would compute *)
Memoised(memo, cap, key, fresh) ==
    IF MemoHas(memo, key) THEN [memo |-> MemoTouch(memo, key), val |-> MemoGet(memo, key)]
    ELSE [memo |-> MemoPut(memo, key, fresh, cap), val |-> fresh]

(* sort(), per contig: lowestStarts through the MEMOISED lookup (optim='nb'), then fastIndex *)
RECURSIVE LowestStarts(_, _, _, _, _, _)
LowestStarts(ix, c, k, memo, cap, acc) ==
    IF k > Len(ix.feats) THEN [memo |-> memo, lowest |-> acc]
    ELSE LET r == Memoised(memo, cap, <<c, ix.feats[k][1], AnyStrand, "nb">>, FindNB(ix, ix.feats[k][1], AnyStrand))
         IN LowestStarts(ix, c, k + 1, r.memo, cap, Append(acc, MinOf({ f[1] : f \in r.val })))
SortContig(fs, c, memo, cap) ==
    LET ix == BaseIndex(fs)
        r  == LowestStarts(ix, c, 1, memo, cap, <<>>)
    IN [ ix   |-> [ix EXCEPT !.fast = [k \in DOMAIN fs |-> CountLess(ix.starts, r.lowest[k])]],
         memo |-> r.memo ]
=====================================================================================================
