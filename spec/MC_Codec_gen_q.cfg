INIT Init
NEXT Next
CONSTANTS
  ValChars = {97, 49, 45, 95}
  MaxLy = 2
  QChars = {33, 84, 85, 126}
  MaxUmi = 2
  Indexes = {"single", "dual", "empty"}
  Limit = 60
  Shapes = {"rr"}
  RequireSafe = TRUE
  Variant = "design"
CONSTRAINT Emit
CONSTRAINT OnlyInit
CHECK_DEADLOCK FALSE
