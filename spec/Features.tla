----------------------------------------- MODULE Features -----------------------------------------
(* C16 - feature lookups return exactly the overlapping features after any add history.          *)
(*                                                                                               *)
(* State machine of singlecellmultiomics.features.FeatureContainer, one action per public call   *)
(* (the code is sequential; sort() runs synchronously inside a lookup when the container is      *)
(* unsorted, so it is an operator used by two actions):                                          *)
(*   Add(c,f)              addFeature: append, sorted = False                                    *)
(*   Sort                  sort(): per contig sorted list, coordinate arrays, maxFeatureSizes,   *)
(*                         fastIndex computed BY CALLING THE MEMOISED LOOKUP (optim='nb')        *)
(*   QueryAt(c,p,st)       findFeaturesAt: lru_cache wrapper; on a miss _findFeaturesAt          *)
(*                         (auto-sort when unsorted, bdbnb path through fastIndex)               *)
(*   QueryBetween(c,a,b,st) findFeaturesBetween: scan + the two memoised end-point lookups       *)
(*   Annotate(c,blocks,st,m) findFeaturesAtPysamAlign: method 0 = one lookup per aligned base,   *)
(*                         method 1 = one findFeaturesBetween per block                          *)
(* P-level state: `bag` (every feature ever added) and `last` (the last answer); the invariants  *)
(* Inv_C16_* compare the answer with TrueAt/TrueBetween/TrueAnnot* over the bag.                 *)
(* Variant:                                                                                      *)
(*   "design"   the memo is dropped whenever the feature set or the index changes                *)
(*              (addFeature on a sorted container, sort())                                       *)
(*   "impl"     as coded at the pinned commit: the memo is never invalidated   (deviation D11)   *)
(*   "sortonly" memo dropped in sort() only: enough for add*/sort/query* histories, not for a    *)
(*              lookup that relies on the automatic sort                                         *)
(* Abstractions (named): one feature name; the unsorted list is kept in canonical order (its     *)
(* order is not observable by the modelled calls); findFeaturesBetween / findFeaturesAtPysamAlign *)
(* are only called on a sorted container (they do not sort themselves: add*/sort/query* pattern). *)
EXTENDS FeaturesOps, Json

CONSTANTS MaxCoord,      \* feature coordinates 0..MaxCoord, query coordinates -1..MaxCoord+1
          FeatStrands,   \* strands of features
          QStrands,      \* strands of queries ("." = None)
          NContigs,      \* contigs "c1" .. "c<NContigs>"
          MemoCap,       \* lru_cache maxsize (512 in the code)
          MaxFeat, MaxSorts, MaxQueries,
          BetweenOn,     \* TRUE: QueryBetween explored
          AnnotLevel,    \* 0: no Annotate, 1: one block set, 2: two block sets
          UnsortedQueries, \* TRUE: QueryAt may be called without an explicit sort() after an add
          TrackHist,     \* TRUE: `hist` records the operations (scenario generation)
          Variant

VARIABLES bag,       \* P-level: sequence of <<contig, feature>>, canonical order
          corder,    \* contigs in first-add order (dict order of self.features)
          sorted,    \* self.sorted
          ix,        \* contig -> index record built by the last sort()
          memo,      \* lru_cache of findFeaturesAt
          last,      \* last answer
          nAdd, nSort, nQ,
          hist
vars == <<bag, corder, sorted, ix, memo, last, nAdd, nSort, nQ, hist>>
mcview == <<bag, corder, sorted, ix, memo, last, nAdd, nSort, nQ>>

ContigSeq == [k \in 1 .. NContigs |-> "c" \o ToString(k)]
Contigs == SeqSet(ContigSeq)
CRank(c) == CHOOSE k \in DOMAIN ContigSeq : ContigSeq[k] = c
Feats == { f \in (0 .. MaxCoord) \X (0 .. MaxCoord) \X {"g"} \X FeatStrands : f[1] <= f[2] }
QPoints == (-1) .. (MaxCoord + 1)
BlockSets == IF AnnotLevel = 0 THEN {}
             ELSE IF AnnotLevel = 1 THEN { << <<0, 2>> >> }
             ELSE { << <<0, 2>> >>, << <<0, 1>>, <<MaxCoord - 1, MaxCoord>> >> }

BagLess(x, y) == CRank(x[1]) < CRank(y[1]) \/ (x[1] = y[1] /\ FeatLess(x[2], y[2]))
FeatSeqOf(b, c) == LET sel == SelectSeq(b, LAMBDA x : x[1] = c) IN [k \in DOMAIN sel |-> sel[k][2]]
NoAnswer == [kind |-> "none"]

Init == /\ bag = <<>> /\ corder = <<>> /\ sorted = TRUE /\ ix = <<>> /\ memo = <<>>
        /\ last = NoAnswer /\ nAdd = 0 /\ nSort = 0 /\ nQ = 0 /\ hist = <<>>

Rec(op) == hist' = IF TrackHist THEN Append(hist, op) ELSE hist

---------------------------------------------------------------------------------------------------
(* sort(): every contig of self.features in dict order; the memo is threaded through the lookups *)
RECURSIVE SortFrom(_, _, _, _, _)
SortFrom(b, co, k, acc, m) ==
    IF k > Len(co) THEN [ix |-> acc, memo |-> m]
    ELSE LET r == SortContig(FeatSeqOf(b, co[k]), co[k], m, MemoCap)
         IN SortFrom(b, co, k + 1, (co[k] :> r.ix) @@ acc, r.memo)
DoSort(b, co, m) == SortFrom(b, co, 1, ix, IF Variant \in {"design", "sortonly"} THEN <<>> ELSE m)

(* one findFeaturesAt call on a SORTED container through the cache; `site` separates the call      *)
(* conventions, which lru_cache keys differently (user / between: positional strand / annotate)   *)
AtSorted(ixx, m, c, p, st, site) ==
    Memoised(m, MemoCap, <<c, p, st, site>>, IF c \in DOMAIN ixx THEN FindBDBNB(ixx[c], p, st) ELSE {})

(* findFeaturesBetween on a sorted container *)
BetweenSorted(ixx, m, c, a, b, st) ==
    IF c \notin DOMAIN ixx THEN [memo |-> m, val |-> {}]
    ELSE LET r1 == AtSorted(ixx, m, c, a, st, "b")
             r2 == AtSorted(ixx, r1.memo, c, b, st, "b")
         IN [memo |-> r2.memo, val |-> ScanBetween(ixx[c], a, b, st) \cup r1.val \cup r2.val]

RECURSIVE AnnotBases(_, _, _, _, _, _)      \* method 0: positions in order
AnnotBases(ixx, m, c, ps, st, acc) ==
    IF ps = <<>> THEN [memo |-> m, val |-> acc]
    ELSE LET r == AtSorted(ixx, m, c, Head(ps), st, "a") IN AnnotBases(ixx, r.memo, c, Tail(ps), st, acc \cup r.val)
RECURSIVE AnnotBlocks(_, _, _, _, _, _)     \* method 1: blocks in order
AnnotBlocks(ixx, m, c, bs, st, acc) ==
    IF bs = <<>> THEN [memo |-> m, val |-> acc]
    ELSE LET r == BetweenSorted(ixx, m, c, Head(bs)[1], Head(bs)[2], st)
         IN AnnotBlocks(ixx, r.memo, c, Tail(bs), st, acc \cup r.val)
RECURSIVE BlockBases(_)
BlockBases(bs) == IF bs = <<>> THEN <<>>
                  ELSE [k \in 1 .. (Head(bs)[2] - Head(bs)[1]) |-> Head(bs)[1] + k - 1] \o BlockBases(Tail(bs))

---------------------------------------------------------------------------------------------------
Add(c, f) ==
    /\ nAdd < MaxFeat
    /\ bag' = SortSeq(Append(bag, <<c, f>>), BagLess)
    /\ corder' = IF c \in SeqSet(corder) THEN corder ELSE Append(corder, c)
    /\ memo' = IF Variant = "design" /\ sorted THEN <<>> ELSE memo
    /\ sorted' = FALSE
    /\ nAdd' = nAdd + 1
    /\ last' = NoAnswer
    /\ Rec([op |-> "add", c |-> c, f |-> f])
    /\ UNCHANGED <<ix, nSort, nQ>>

Sort ==
    /\ nSort < MaxSorts
    /\ LET r == DoSort(bag, corder, memo) IN ix' = r.ix /\ memo' = r.memo
    /\ sorted' = TRUE
    /\ nSort' = nSort + 1
    /\ last' = NoAnswer
    /\ Rec([op |-> "sort"])
    /\ UNCHANGED <<bag, corder, nAdd, nQ>>

QueryAt(c, p, st) ==
    /\ nQ < MaxQueries
    /\ (sorted \/ UnsortedQueries)
    /\ LET key == <<c, p, st, "u">> IN
       IF MemoHas(memo, key)
       THEN /\ last' = [kind |-> "at", c |-> c, a |-> p, st |-> st, res |-> MemoGet(memo, key)]
            /\ memo' = MemoTouch(memo, key)
            /\ UNCHANGED <<ix, sorted>>                       \* the wrapper answers: no sort happens
       ELSE LET s == IF sorted THEN [ix |-> ix, memo |-> memo] ELSE DoSort(bag, corder, memo)
                val == IF c \in DOMAIN s.ix THEN FindBDBNB(s.ix[c], p, st) ELSE {}
            IN /\ last' = [kind |-> "at", c |-> c, a |-> p, st |-> st, res |-> val]
               /\ memo' = MemoPut(s.memo, key, val, MemoCap)
               /\ ix' = s.ix /\ sorted' = TRUE
    /\ nQ' = nQ + 1
    /\ Rec([op |-> "at", c |-> c, a |-> p, st |-> st])
    /\ UNCHANGED <<bag, corder, nAdd, nSort>>

QueryBetween(c, a, b, st) ==
    /\ BetweenOn /\ nQ < MaxQueries /\ sorted /\ a <= b
    /\ LET r == BetweenSorted(ix, memo, c, a, b, st)
       IN /\ last' = [kind |-> "between", c |-> c, a |-> a, b |-> b, st |-> st, res |-> r.val]
          /\ memo' = r.memo
    /\ nQ' = nQ + 1
    /\ Rec([op |-> "between", c |-> c, a |-> a, b |-> b, st |-> st])
    /\ UNCHANGED <<bag, corder, sorted, ix, nAdd, nSort>>

Annotate(c, blocks, st, m) ==
    /\ nQ < MaxQueries /\ sorted
    /\ LET r == IF c \notin DOMAIN ix THEN [memo |-> memo, val |-> {}]
                ELSE IF m = 0 THEN AnnotBases(ix, memo, c, BlockBases(blocks), st, {})
                ELSE AnnotBlocks(ix, memo, c, blocks, st, {})
       IN /\ last' = [kind |-> "annot", c |-> c, blocks |-> blocks, st |-> st, m |-> m, res |-> r.val]
          /\ memo' = r.memo
    /\ nQ' = nQ + 1
    /\ Rec([op |-> "annot", c |-> c, blocks |-> blocks, st |-> st, m |-> m])
    /\ UNCHANGED <<bag, corder, sorted, ix, nAdd, nSort>>

Next == \/ \E c \in Contigs, f \in Feats : Add(c, f)
        \/ Sort
        \/ \E c \in Contigs, p \in QPoints, st \in QStrands : QueryAt(c, p, st)
        \/ \E c \in Contigs, a \in QPoints, b \in QPoints, st \in QStrands : QueryBetween(c, a, b, st)
        \/ \E c \in Contigs, bs \in BlockSets, st \in QStrands, m \in {0, 1} : Annotate(c, bs, st, m)
Spec == Init /\ [][Next]_vars

---------------------------------------------------------------------------------------------------
(* Properties (P-level) *)
Inv_C16_At == last.kind = "at" => last.res = TrueAt(OnContig(bag, last.c), last.a, last.st)
Inv_C16_Between == last.kind = "between" => last.res = TrueBetween(OnContig(bag, last.c), last.a, last.b, last.st)
Inv_C16_Annotate ==
    last.kind = "annot" =>
        LET F == OnContig(bag, last.c) IN
        IF last.m = 0 THEN last.res = TrueAnnotBases(F, last.blocks, last.st)
        ELSE TrueAnnotBases(F, last.blocks, last.st) \subseteq last.res /\ last.res \subseteq TrueAnnotClosed(F, last.blocks, last.st)

(* D-level lemmas of the design: why it is right *)
Inv_D_MemoFresh == \A k \in DOMAIN memo :
                      memo[k][2] = TrueAt(OnContig(bag, memo[k][1][1]), memo[k][1][2], memo[k][1][3])
Inv_D_MemoEmptyWhenUnsorted == ~sorted => memo = <<>>
Inv_D_IndexFresh ==
    sorted => \A c \in SeqSet(corder) :
                /\ c \in DOMAIN ix
                /\ ix[c].feats = FeatSeqOf(bag, c)
                /\ \A k \in DOMAIN ix[c].feats :
                      ix[c].fast[k] = CountLess(ix[c].starts,
                                                MinOf({ f[1] : f \in TrueAt(OnContig(bag, c), ix[c].starts[k], AnyStrand) }))
Inv_D_MemoBound == Len(memo) <= MemoCap

---------------------------------------------------------------------------------------------------
(* spec -> code: with TrackHist and VIEW mcview TLC reaches every distinct state once and `hist`   *)
(* is the first history found for it; every state that follows a query prints its history.        *)
EmitScenario == IF last.kind # "none" THEN PrintT("@@SCENARIO " \o ToJson(hist)) ELSE TRUE
=====================================================================================================
