INIT Init
NEXT Next
CONSTANTS
  Samples = {1, 2}
  MaxPos = 3
  ContigLen = 4
  BinSize = 2
  JobSpan = 2
  MaxObs = 1
  MaxTouch = 0
  Dyad = FALSE
  Revs = {FALSE}
  JobK <- K0
  JobMV <- Km1
  MaxPost = 1
  PostKs <- PostKsAll
  TrackHist = FALSE
  Variant = "impl_asfound"
INVARIANT Inv_X04_NoCrash
INVARIANT Inv_X04_Counted
INVARIANT Inv_X04_Conserved
INVARIANT Inv_X04_SplitIndependent
INVARIANT Inv_X04_JobPrune
INVARIANT Inv_X04_SitesCoverCells
INVARIANT Inv_X04_PostOp
CHECK_DEADLOCK FALSE
