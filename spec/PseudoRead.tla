---------------------------------------- MODULE PseudoRead ----------------------------------------
(* C15 - consensus pseudo-reads are well-formed and span exactly the molecule coverage.           *)
(*                                                                                               *)
(* Code: Molecule.deduplicate_majority -> get_base_confidence_dict / phredscores_to_base_call /  *)
(*       get_dedup_reads -> generate_partial_reads (get_CIGAR, get_aligned_blocks,               *)
(*       extract_stretch_from_dict) -> get_consensus_read + create_MD_tag                        *)
(*       (molecule.py:390-451, 751-860, 1170-1199, 1363-1374; sequtils.py:245-265, 301-335).      *)
(*                                                                                               *)
(* An observation is <<base, q>> (a read base aligned to a position, phred q).                   *)
(* P-level: Covered, BlocksOf, RecordBlocks, DecodeMD, CallP (only where the rule is exact:      *)
(*          Decidable), the Inv_C15_* operators on a list of records.                            *)
(* D-level: AddRead (loop body of get_base_confidence_dict), CallAll (the dict comprehension     *)
(*          over phredscores_to_base_call, with the coded likelihood in exact integers),         *)
(*          BuildCigar (get_CIGAR), StepOp (loop body of generate_partial_reads) and Finish       *)
(*          (its last yield); every yield builds a record as get_dedup_reads does.               *)
(* Variant = "design"    MD computed over the aligned (M) blocks only                             *)
(*           "impl_D10"  as coded: zip(reference[start:end) INCLUDING skipped stretches, bases)  *)
(*           "impl_D9"   as coded on NumPy >= 2: the call helper raises (np.product is gone),    *)
(*                       so no record is ever produced                                            *)
(*           "split_ge"  seeded deviation: splits at gaps >= max_N_span and forgets the gap       *)
(*           "umi_max"   seeded deviation: the molecule's UMI is the largest one seen, not the most common *)
(*           "maxn_falsy" seeded deviation: `if max_N_span and ...` - max_N_span = 0 behaves like None         *)
(*           "site_leftmost"  seeded deviation: the molecule keeps the left-most cut also on the reverse strand *)
(*           "tf_no_overflow"  seeded deviation: the record's TF tag leaves out the fragments    *)
(*                       refused because of max_associated_fragments (the source reads count them)*)
EXTENDS Integers, FiniteSets, Sequences, TLC, Util

CONSTANTS Pos,        \* reference positions 1..P (a set; must be an interval starting at 1)
          ReadBases,  \* bases a read can show (may contain "N")
          Quals,      \* subset of {10, 20, 30}
          MaxReads,
          Refs,       \* set of reference sequences (Seq over {"A","C","G","T"}) of length P
          UMIs,       \* UMIs a fragment can carry (integers in the model)
          Sites,      \* cut sites a fragment can have (CHIC molecule built with an assignment radius)
          Cap,        \* max_associated_fragments (0 stands for None): further fragments are refused and counted as overflow
          MaxNs1,     \* values of max_N_span + 1; 0 stands for None (a .cfg cannot hold -1)
          Variant

(* reference sets for the .cfg files (Refs <- RefsTwo / RefsAC) *)
RefsTwo == { [ p \in Pos |-> "A" ], [ p \in Pos |-> IF p % 2 = 1 THEN "A" ELSE "C" ] }
RefsAC  == [ Pos -> {"A", "C"} ]

---------------------------------------------------------------------------------------------------
(* P-level: coverage, blocks, records *)

Covered(conf) == { p \in DOMAIN conf : conf[p] # <<>> }
(* inclusive maximal runs <<s, e>> of a set of integers *)
BlocksOf(S) == { <<s, e>> \in S \X S : /\ s <= e /\ \A x \in s .. e : x \in S
                                        /\ (s - 1) \notin S /\ (e + 1) \notin S }

(* positions of the M operations of a record [start, cigar] *)
RECURSIVE MPositions(_, _, _)
MPositions(ops, i, r) ==
    IF i > Len(ops) THEN <<>>
    ELSE IF ops[i].op = "M" THEN [ k \in 1 .. ops[i].n |-> r + k - 1 ] \o MPositions(ops, i + 1, r + ops[i].n)
    ELSE IF ops[i].op \in {"N", "D"} THEN MPositions(ops, i + 1, r + ops[i].n)
    ELSE MPositions(ops, i + 1, r)
RecPositions(rec) == MPositions(rec.cigar, 1, rec.start)        \* sequence, in query order
QueryLen(ops) == LET g(o) == IF o.op \in {"M", "I", "S"} THEN o.n ELSE 0 IN SumSeqF(ops, g)

(* MD decoding: a token is [n |-> k] (k matching bases, copied from the record) or [b |-> X] (one
   mismatch, reference base X).  Zero-length runs may be omitted (the code omits them).           *)
RECURSIVE DecodeMD(_, _, _, _)
DecodeMD(md, i, seq, qi) ==
    IF i > Len(md) THEN <<>>
    ELSE IF "n" \in DOMAIN md[i]
         THEN IF qi + md[i].n > Len(seq) THEN <<"?">>      \* runs past the record: cannot match
              ELSE SubSeq(seq, qi + 1, qi + md[i].n) \o DecodeMD(md, i + 1, seq, qi + md[i].n)
    ELSE IF "b" \in DOMAIN md[i] THEN <<md[i].b>> \o DecodeMD(md, i + 1, seq, qi + 1)
    ELSE <<"^">>                                              \* deletion token: a pseudo-read has no D
MDMatches(rec, refAt(_)) ==
    LET pos == RecPositions(rec) IN DecodeMD(rec.md, 1, rec.seq, 0) = [ k \in DOMAIN pos |-> refAt(pos[k]) ]

---------------------------------------------------------------------------------------------------
(* P-level: the call rule, only where it is an exact integer comparison (DESIGN 3.15)            *)

Informative(bag) == SelectSeq(bag, LAMBDA o : o[1] # "N")      \* an observed N says nothing
BasesIn(bag) == { bag[i][1] : i \in DOMAIN bag }
Count(bag, b) == Cardinality({ i \in DOMAIN bag : bag[i][1] = b })
EqualQ(bag) == \A i, j \in DOMAIN bag : bag[i][2] = bag[j][2]

(* (i) all qualities equal and >= 10: strict plurality, tie -> N.  (ii) superseded by (iv).
   (iii) low qualities, exact without real arithmetic: the error probability e = 10^(-q/10) is >= 1/2 iff
   10^q <= 2^10 = 1024 iff q <= 3 (LowQLemma below).  The caller compares the likelihood of a base,
   prod over its observations of (1 - e_i) * 4^(n_b - 1), with that of the pseudo-base N, prod over ALL observations of
   e_i * 4^(n - 1).  If every observation has q <= 3 then every e_i > 1/2 > 1 - e_i and N wins whatever was seen;
   if only ONE distinct base was seen and every q >= 4 then every 1 - e_i > e_i and that base wins.  A single base
   with qualities on both sides of the threshold is left undecided.
   (iv) exactly two observations with different bases (monotonicity, no real arithmetic): equal qualities -> the two
   likelihoods 1 - e are equal, the two best are tied (or N is ahead of both) -> N for EVERY quality; different qualities
   q1 > q2 >= 4 -> 1 - e1 > 1 - e2 and, because q1 >= 5 gives e1 < 0.317 and q2 >= 4 gives e2 < 0.399, also
   1 - e1 > 0.68 > 4 * e1 * e2 (the N hypothesis) -> the base with the higher quality, up to phred 93.          *)
(* (v) phred 0 is an error probability of exactly 1 (rational, no real arithmetic): the likelihood of a base that has a
   phred-0 observation is exactly 0, that of the N hypothesis, a product of e_i > 0, is positive.  If the ONLY observed
   base has such an observation nothing observed can be called: N.                                                     *)
HasZero(bag) == \E i \in DOMAIN bag : bag[i][2] = 0
AllLow(bag)  == \A i \in DOMAIN bag : bag[i][2] <= 3
AllHigh(bag) == \A i \in DOMAIN bag : bag[i][2] >= 4
OneBase(bag) == Cardinality(BasesIn(bag)) = 1
Decidable(bag0) == LET bag == Informative(bag0) IN
    \/ bag = <<>>
    \/ AllLow(bag)
    \/ (OneBase(bag) /\ HasZero(bag))
    \/ (OneBase(bag) /\ AllHigh(bag))
    \/ (EqualQ(bag) /\ bag[1][2] >= 10)
    \/ (Len(bag) = 2 /\ (EqualQ(bag) \/ AllHigh(bag)))
CallP(bag0) == LET bag == Informative(bag0) IN
    IF bag = <<>> THEN "N"
    ELSE IF AllLow(bag) THEN "N"
    ELSE IF OneBase(bag) THEN (IF HasZero(bag) THEN "N" ELSE bag[1][1])
    ELSE IF EqualQ(bag) THEN
        LET W == { b \in BasesIn(bag) : \A o \in BasesIn(bag) \ {b} : Count(bag, b) > Count(bag, o) }
        IN IF W = {} THEN "N" ELSE CHOOSE b \in W : TRUE
    ELSE \* two observations, different qualities
        IF bag[1][2] > bag[2][2] THEN bag[1][1] ELSE bag[2][1]
(* 10^(-q/10) >= 1/2  <=>  10^q <= 2^10, checked over the whole phred range in integers *)
RECURSIVE IntPow10(_)
IntPow10(q) == IF q = 0 THEN 1 ELSE 10 * IntPow10(q - 1)
LowQLemma == \A q \in 0 .. 9 : (IntPow10(q) <= 1024) <=> (q <= 3)

(* "most likely" in exact integers.  q = 10k  =>  P(correct) = (10^k - 1)/10^k, an error goes to each of
   the three other bases with (1/10^k)/3.  Likelihood of base b, times 3^n * 10^(sum k):
       prod_{i shows b} 3*(10^k_i - 1)  *  prod_{i shows another base} 1                          *)
Pow10(k) == IF k = 1 THEN 10 ELSE IF k = 2 THEN 100 ELSE 1000
K(q) == q \div 10
ProdF(bag, f(_)) == FoldLeft(LAMBDA acc, o : acc * f(o), 1, bag)
MLik(bag, b) == LET f(o) == IF o[1] = b THEN 3 * (Pow10(K(o[2])) - 1) ELSE 1 IN ProdF(bag, f)
MLCall(bag0) == LET bag == Informative(bag0)
                    W == { b \in BasesIn(bag) : \A o \in BasesIn(bag) \ {b} : MLik(bag, b) > MLik(bag, o) }
                IN IF bag = <<>> \/ W = {} THEN "N" ELSE CHOOSE b \in W : TRUE

---------------------------------------------------------------------------------------------------
(* P-level: the property on a finished run.  recs: sequence of records
   [start, cigar, seq, nq, md, rev, tags]; conf: position -> observations; refAt: the reference.   *)
Inv_Exists(recs, conf) == Covered(conf) # {} => recs # <<>>
Inv_Lens(recs)  == \A i \in DOMAIN recs : Len(recs[i].seq) = QueryLen(recs[i].cigar) /\ recs[i].nq = Len(recs[i].seq)
Inv_Blocks(recs, conf) ==
    LET all == [ i \in DOMAIN recs |-> RecPositions(recs[i]) ]
        tot == LET g(s) == Len(s) IN SumSeqF(all, g)
    IN /\ UNION { SeqSet(all[i]) : i \in DOMAIN all } = Covered(conf)
       /\ tot = Cardinality(Covered(conf))                     \* no position twice
(* the contract of the max_N_span argument ("never bridge a gap longer than this"; the statement's quantifier names
   "large gaps beyond max_N_span"): no record spans an N operation longer than max_N_span (-1 = None: no limit).
   That shorter gaps are NOT cut is design-level only (Inv_D_Split). *)
GapsIn(rec) == { rec.cigar[i].n : i \in { j \in DOMAIN rec.cigar : rec.cigar[j].op = "N" } }
Inv_MaxNSpan(recs, k) == k < 0 \/ \A i \in DOMAIN recs : \A g \in GapsIn(recs[i]) : g <= k
Inv_MD(recs, refAt(_)) == \A i \in DOMAIN recs : MDMatches(recs[i], refAt)
Inv_Call(recs, conf) ==
    \A i \in DOMAIN recs :
        LET pos == RecPositions(recs[i]) IN
        \A k \in DOMAIN pos : (pos[k] \in DOMAIN conf /\ k <= Len(recs[i].seq) /\ Decidable(conf[pos[k]]))
                                => recs[i].seq[k] = CallP(conf[pos[k]])
(* the molecule's UMI is the most common UMI of its fragments; with a tie either of the tied ones *)
CountOf(U, u) == Cardinality({ i \in DOMAIN U : U[i] = u })
ModeSet(U) == { u \in SeqSet(U) : \A v \in SeqSet(U) : CountOf(U, u) >= CountOf(U, v) }
(* the site of a CHIC molecule whose fragments were cut at (slightly) different places: the outermost cut -
   the smallest coordinate on the forward strand, the largest on the reverse strand (CHICMolecule._add_fragment) *)
ExpSite(S, rev) == IF rev THEN MaxOf(SeqSet(S)) ELSE MinOf(SeqSet(S))
Inv_Tags(recs, mol, U, S, rev) == \A i \in DOMAIN recs :
    /\ recs[i].tags.SM = mol.SM /\ recs[i].tags.DS = ExpSite(S, rev) /\ recs[i].tags.TF = mol.TF
    /\ recs[i].tags.RX \in ModeSet(U)

---------------------------------------------------------------------------------------------------
(* D-level *)

(* the coded likelihood  prod(p_i) / 0.25^(n_b - 1), scaled by 10^(sum of all k): an integer        *)
RECURSIVE Pow4(_)
Pow4(n) == IF n <= 0 THEN 1 ELSE 4 * Pow4(n - 1)
LikD(bag, b) == LET f(o) == IF o[1] = b THEN Pow10(K(o[2])) - 1 ELSE Pow10(K(o[2])) IN
                Pow4(Count(bag, b) - 1) * ProdF(bag, f)
LikN(bag) == Pow4(Len(bag) - 1)                                    \* probs['N'] = [1 - p for every non-N observation]
(* phredscores_to_base_call: most_common(); the two best equal -> N *)
CallD(bag0) ==
    LET bag == Informative(bag0)
        cand == BasesIn(bag) \cup {"N"}
        L(b) == IF b = "N" THEN LikN(bag) ELSE LikD(bag, b)
        best == CHOOSE b \in cand : \A o \in cand : L(b) >= L(o)
    IN IF bag = <<>> THEN "N"                                       \* {'N': 0.25} alone
       ELSE IF \E o \in cand \ {best} : L(o) = L(best) THEN "N" ELSE best

(* create_MD_tag(reference_seq, query_seq): zip, runs of matches, reference base on a mismatch *)
RECURSIVE MDOf(_, _, _, _)
MDOf(refseq, seq, i, run) ==
    IF i > Len(refseq) \/ i > Len(seq) THEN (IF run > 0 THEN << [n |-> run] >> ELSE <<>>)
    ELSE IF refseq[i] = seq[i] THEN MDOf(refseq, seq, i + 1, run + 1)
    ELSE (IF run > 0 THEN << [n |-> run] >> ELSE <<>>) \o << [b |-> refseq[i]] >> \o MDOf(refseq, seq, i + 1, 0)

VARIABLES ref,      \* the reference sequence
          maxN,     \* max_N_span (-1 = None)
          strand,   \* molecule strand
          nfrag,    \* number of fragments (a fragment has one or two reads)
          nreads,
          sites,    \* cut sites of the accepted fragments in arrival order
          umis,     \* UMIs of the accepted fragments in arrival order (Molecule.umi_counter)
          overflow, \* fragments refused by max_associated_fragments (Molecule.overflow_fragments)
          open,     \* TRUE when the last fragment can still take a second read
          conf,     \* get_base_confidence_dict: position -> observations in arrival order
          pc,       \* "collect" | "call" | "cigar" | "walk" | "done"
          calls,    \* position -> called base
          cigar, ix, refpos, refstart, refend, pCigar, pSeq,     \* generate_partial_reads locals
          recs, raised
vars == <<ref, maxN, strand, nfrag, nreads, sites, umis, overflow, open, conf, pc, calls, cigar, ix, refpos, refstart, refend, pCigar, pSeq, recs, raised>>

(* the molecule's fragment count as written on its source reads by write_tags: associated + overflow *)
MolTags == [SM |-> "cell", TF |-> nfrag + overflow]
(* CHICMolecule._add_fragment: the first fragment sets the site, later ones move it outwards *)
SiteStep(cur, s) == IF strand /\ Variant # "site_leftmost" THEN (IF s > cur THEN s ELSE cur) ELSE (IF s < cur THEN s ELSE cur)
SiteD == FoldLeft(SiteStep, sites[1], sites)
(* update_umi: umi_counter.most_common(1) - the highest count, the earliest seen among equals *)
UmiD == IF Variant = "umi_max" THEN MaxOf(SeqSet(umis))
        ELSE LET first(u) == MinOf({ i \in DOMAIN umis : umis[i] = u })
             IN CHOOSE u \in ModeSet(umis) : \A v \in ModeSet(umis) : first(u) <= first(v)
(* write_tags_to_psuedoreads *)
RecTags == [SM |-> "cell", RX |-> UmiD, DS |-> SiteD, TF |-> IF Variant = "tf_no_overflow" THEN nfrag ELSE nfrag + overflow]

Reads == UNION { { [ p \in s .. e |-> <<bb[p], q>> ] : bb \in [ s .. e -> ReadBases ], q \in Quals }
                 : <<s, e>> \in { x \in Pos \X Pos : x[1] <= x[2] } }

Init == /\ ref \in Refs /\ maxN \in { x - 1 : x \in MaxNs1 } /\ strand \in BOOLEAN
        /\ nfrag = 0 /\ nreads = 0 /\ sites = <<>> /\ umis = <<>> /\ overflow = 0 /\ open = FALSE
        /\ conf = [ p \in Pos |-> <<>> ]
        /\ pc = "collect" /\ calls = <<>> /\ cigar = <<>> /\ ix = 1
        /\ refpos = 0 /\ refstart = 0 /\ refend = 0 /\ pCigar = <<>> /\ pSeq = <<>>
        /\ recs = <<>> /\ raised = FALSE

(* get_base_confidence_dict, one read: obs[(chrom, rpos)][qbase].append(confidence) *)
AddRead(r, second, u, st) ==
    /\ pc = "collect" /\ nreads < MaxReads
    /\ second => (open /\ u = MinOf(UMIs) /\ st = MinOf(Sites))     \* UMI and site belong to the fragment, not to its second mate
    /\ nreads' = nreads + 1
    /\ IF ~second /\ Cap > 0 /\ nfrag >= Cap
       THEN \* Molecule._add_fragment: overflow_fragments += 1; raise OverflowError - the fragment (both mates) stays out
            /\ overflow' = overflow + 1 /\ open' = FALSE /\ UNCHANGED <<nfrag, conf, umis, sites>>
       ELSE /\ nfrag' = IF second THEN nfrag ELSE nfrag + 1
            /\ umis' = IF second THEN umis ELSE Append(umis, u)        \* umi_counter[fragment.umi] += 1; update_umi()
            /\ sites' = IF second THEN sites ELSE Append(sites, st)
            /\ open' = ~second
            /\ conf' = [ p \in Pos |-> IF p \in DOMAIN r THEN Append(conf[p], r[p]) ELSE conf[p] ]
            /\ UNCHANGED overflow
    /\ UNCHANGED <<ref, maxN, strand, pc, calls, cigar, ix, refpos, refstart, refend, pCigar, pSeq, recs, raised>>

EndCollect ==
    /\ pc = "collect" /\ nfrag > 0
    /\ pc' = "call"
    /\ UNCHANGED <<ref, maxN, strand, nfrag, nreads, sites, umis, overflow, open, conf, calls, cigar, ix, refpos, refstart, refend, pCigar, pSeq, recs, raised>>

(* obs = {position: phredscores_to_base_call(probs) ...} *)
CallAll ==
    /\ pc = "call"
    /\ IF Variant = "impl_D9"
       THEN /\ raised' = TRUE /\ pc' = "done" /\ UNCHANGED calls      \* AttributeError: numpy has no attribute 'product'
       ELSE /\ calls' = [ p \in Covered(conf) |-> CallD(conf[p]) ]
            /\ pc' = "cigar" /\ UNCHANGED raised
    /\ UNCHANGED <<ref, maxN, strand, nfrag, nreads, sites, umis, overflow, open, conf, cigar, ix, refpos, refstart, refend, pCigar, pSeq, recs>>

(* get_CIGAR: M for every aligned block, N between consecutive blocks *)
RECURSIVE CigarOf(_, _)
CigarOf(blocks, prevEnd) ==
    IF blocks = {} THEN <<>>
    ELSE LET b == CHOOSE x \in blocks : \A y \in blocks : x[1] <= y[1] IN
         (IF prevEnd >= 0 THEN << [op |-> "N", n |-> b[1] - prevEnd - 1] >> ELSE <<>>)
         \o << [op |-> "M", n |-> b[2] - b[1] + 1] >> \o CigarOf(blocks \ {b}, b[2])
BuildCigar ==
    /\ pc = "cigar"
    /\ cigar' = CigarOf(BlocksOf(Covered(conf)), -1)
    /\ refpos' = MinOf(Covered(conf)) /\ refstart' = MinOf(Covered(conf))
    /\ ix' = 1 /\ pc' = "walk"
    /\ UNCHANGED <<ref, maxN, strand, nfrag, nreads, sites, umis, overflow, open, conf, calls, refend, pCigar, pSeq, recs, raised>>

(* the record get_dedup_reads / get_consensus_read build from one yield of generate_partial_reads *)
MRef(start, ops) == LET pos == MPositions(ops, 1, start) IN [ k \in DOMAIN pos |-> ref[pos[k]] ]
Record(rs, re, ops, bases) ==
    [start |-> rs, cigar |-> ops, seq |-> bases, nq |-> Len(bases),
     md |-> IF Variant = "impl_D10" THEN MDOf(SubSeq(ref, rs, re - 1), bases, 1, 0)     \* reference.fetch(chrom, start, end)
            ELSE MDOf(MRef(rs, ops), bases, 1, 0),
     rev |-> strand, tags |-> RecTags]

(* one iteration of `for operation, amount in CIGAR` *)
StepOp ==
    /\ pc = "walk" /\ ix <= Len(cigar)
    /\ LET o == cigar[ix] IN
       IF o.op = "N" THEN
           /\ IF (IF Variant = "maxn_falsy" THEN maxN > 0 ELSE maxN >= 0)        \* `is not None`; the deviation tests truthiness: 0 acts like None
                 /\ (IF Variant = "split_ge" THEN o.n >= maxN ELSE o.n > maxN)
              THEN /\ recs' = Append(recs, Record(refstart, refend, pCigar, pSeq))          \* yield, then clear
                   /\ pCigar' = <<>> /\ pSeq' = <<>>
              ELSE /\ pCigar' = Append(pCigar, o) /\ UNCHANGED <<recs, pSeq>>
           /\ refpos' = refpos + o.n
           /\ UNCHANGED <<refstart, refend>>
       ELSE
           /\ refstart' = IF pCigar = <<>> THEN refpos ELSE refstart
           /\ refpos' = refpos + o.n /\ refend' = refpos + o.n
           /\ pCigar' = Append(pCigar, o)
           /\ pSeq' = pSeq \o [ k \in 1 .. o.n |-> calls[refpos + k - 1] ]               \* extract_stretch_from_dict
           /\ UNCHANGED recs
    /\ ix' = ix + 1
    /\ UNCHANGED <<ref, maxN, strand, nfrag, nreads, sites, umis, overflow, open, conf, pc, calls, cigar, raised>>

Finish ==
    /\ pc = "walk" /\ ix > Len(cigar)
    /\ recs' = Append(recs, Record(refstart, refend, pCigar, pSeq))
    /\ pc' = "done"
    /\ UNCHANGED <<ref, maxN, strand, nfrag, nreads, sites, umis, overflow, open, conf, calls, cigar, ix, refpos, refstart, refend, pCigar, pSeq, raised>>

Next == \/ \E r \in Reads, second \in BOOLEAN, u \in UMIs, st \in Sites : AddRead(r, second, u, st)
        \/ EndCollect \/ CallAll \/ BuildCigar \/ StepOp \/ Finish
Spec == Init /\ [][Next]_vars

---------------------------------------------------------------------------------------------------
(* Properties of the model (state invariants, decided when the run is finished) *)
Done == pc = "done"
RefAt(p) == ref[p]
Inv_C15_Exists == Done => (~raised /\ Inv_Exists(recs, conf))
Inv_C15_Blocks == Done => Inv_Blocks(recs, conf)
Inv_C15_Lens   == Done => Inv_Lens(recs)
Inv_C15_MD     == Done => Inv_MD(recs, RefAt)
Inv_C15_Call   == Done => Inv_Call(recs, conf)
Inv_C15_MaxNSpan == Done => Inv_MaxNSpan(recs, maxN)
Inv_C15_Tags   == Done => (Inv_Tags(recs, MolTags, umis, sites, strand) /\ \A i \in DOMAIN recs : recs[i].rev = strand)

(* design-level only (not part of the statement): records are cut exactly at gaps longer than max_N_span *)
Inv_D_Split == Done => /\ \A i \in DOMAIN recs : \A g \in GapsIn(recs[i]) : maxN < 0 \/ g <= maxN
                       /\ \A i \in 1 .. (Len(recs) - 1) :
                            LET a == RecPositions(recs[i]) b == RecPositions(recs[i + 1])
                            IN maxN >= 0 /\ b[1] - a[Len(a)] - 1 > maxN

(* the exact call rule of the P-level is the maximum-likelihood call wherever it is decidable, and the
   coded likelihood agrees with it there (all bags of the model's alphabet up to MaxReads observations) *)
ObsU == ReadBases \X Quals
BagsUpTo(n) == UNION { [ 1 .. k -> ObsU ] : k \in 0 .. n }
Inv_C15_CallLemma ==
    /\ LowQLemma
    /\    \A bag \in BagsUpTo(MaxReads) : Decidable(bag) => (CallP(bag) = MLCall(bag) /\ CallD(bag) = CallP(bag))
=====================================================================================================
