INIT Init
NEXT Next
CONSTANTS
  MaxClip = 2
  Clip3s = {0}
  ReadLens = {10}
  FlankIds = {4}
  FlankPairs = "diag"
  MMBases = {"A"}
  BoundaryPs = {}
  XBases = {"A"}
  Protos = {"nla"}
  Variant = "impl_revmotif"
INVARIANT Inv_C09_NlaTruth
INVARIANT Inv_C09_CycleShift
INVARIANT Inv_C09_ChicTruth
INVARIANT Inv_C09_Mirror
INVARIANT Inv_C09_RejectFlag
INVARIANT Inv_Gen
CHECK_DEADLOCK FALSE
