INIT Init
NEXT Next
CONSTANTS
  Kind = "plain"
  HD = 0
  Radius = 0
  Cap = 0
  CacheSize = 8
  ReadLens = {1}
  Cells = {1}
  Contigs = {1}
  Strands = {0}
  Sites = {0,1}
  Lens = {2, 3, 4}
  Umis = {0}
  Valids = {TRUE}
  MaxFrags = 4
  Scheds = {1000, 0}
  Poolings = {0, 1}
  Variant = "design"
INVARIANT Inv_Conservation
INVARIANT Inv_C06_Homogeneous
INVARIANT Inv_C06_Linked
INVARIANT Inv_C06_Exact
INVARIANT Inv_C06_ExactHD
INVARIANT Inv_C06_OnePrimary
INVARIANT Inv_C06_Counts
INVARIANT Inv_C06_Idempotent
INVARIANT Inv_C07_ExactlyOnce
INVARIANT Inv_C07_SamePartition
INVARIANT Inv_C07_NoPremature
INVARIANT Inv_C07_PoolingAgnostic
CHECK_DEADLOCK FALSE
