INIT Init
NEXT Next
CONSTANTS
  Kind = "plain"
  HD = 0
  Radius = 0
  Cap = 0
  CacheSize = 4
  ReadLens = {9}
  Cells = {1}
  Contigs = {1}
  Strands = {0}
  Sites = {0,1,2,3}
  Lens = {1, 2}
  Umis = {0}
  Valids = {TRUE}
  MaxFrags = 4
  Scheds = {2}
  Poolings = {0}
  Variant = "design"
INVARIANT Inv_Conservation
CONSTRAINT Emit
CHECK_DEADLOCK FALSE
