INIT Init
NEXT Next
CONSTANTS
  MinCoord = 0
  MaxCoord = 5
  BinSizes = {1,2,3,5}
  FragSizes = {0,2}
  AllowNoFrag = TRUE
  BLPad = 1
  MaxBL = 1
  Variant = "impl_window"
INVARIANT Inv_C17_Window
CHECK_DEADLOCK FALSE
