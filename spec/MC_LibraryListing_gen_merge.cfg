INIT Init
NEXT Next
CONSTANTS
  Schemes = {"ill", "filt"}
  LibChoice = "merge"
  NLanes = 1
  NChunks = 1
  MaxFiles = 3
  ReplIdx = {1}
  SlibIdx = {0, 2}
  Merges = {0, 1, 2}
  SEs = {TRUE}
  Ignores = {FALSE}
  Verboses = {FALSE}
  Globs = {FALSE}
  Variant = "design"
CONSTRAINT Emit
CHECK_DEADLOCK FALSE
