INIT Init
NEXT Next
CONSTANTS
  Ln = 6
  Tilings <- T_2bins
  MaxFrags = 3
  MaxLen = 1
  SpanSlack = 0
  Umis = {1, 2}
  Invalid = FALSE
  NoSite = FALSE
  MaxUnplaced = 0
  PairedOK = TRUE
  EqualLen = FALSE
  SiteOut = 0
  AnyOrder = FALSE
  Variant = "design"
INVARIANT TypeOK
INVARIANT Inv_C08_NoForeign
INVARIANT Inv_C08_OneOwner
INVARIANT Inv_C08_Complete
INVARIANT Inv_C08_Equal
CHECK_DEADLOCK FALSE
