INIT Init
NEXT Next
CONSTANTS
  MaxContigs = 3
  MaxN = 2
  MaxStar = 1
  Modes = {"multi"}
  Variant = "design"
CONSTRAINT Emit
CHECK_DEADLOCK FALSE
