--------------------------------------- MODULE Trace_Pipeline ---------------------------------------
(* X02 trace spec: judges recorded executions of the REAL chained pipeline                         *)
(*    FASTQ -> demultiplexer -> (abstract aligner) -> tagger CLI -> count table                     *)
(* against the end-to-end invariants E1..E4 of Pipeline.tla.                                       *)
(*                                                                                               *)
(* line 1   {"ev":"whitelist","wl":[[index, [letters], "string"], ...], "strategy", "alias"}       *)
(*          the barcode whitelist as read by the generator's own 5-line reader                     *)
(* line n   {"ev":"pipeline","cfg":{hd,uhd,entry,threads,modes,tables}, "strategy",                *)
(*           "lib":{name, contigs, lanes, hdr:{is,rn,fc,idx},                                      *)
(*                  pairs:[{id,x,y,tile,lane, bck,cell,mmpos,mmbase,bad, umi, map,c,p,rev,          *)
(*                          l1,l2,gap,primer,ins1,ins2}]},          <- the generator's ground truth *)
(*           "demux":{raised,processed, d1,d2 (demultiplexed FASTQ R1/R2), r1,r2 (rejects)},       *)
(*           "aln":[records the trusted aligner wrote],                                            *)
(*           "runs":[{mode,raised,status,readable, recs:[tagged BAM re-read from disk],            *)
(*                    tables:[{dedup,r1only,bin,raised,rows:[{sm,key,w2,exact}]}]}]}                *)
(* Every expected quantity is recomputed here from lib.pairs, lib.hdr, cfg.hd and the whitelist:   *)
(* the accepted cell of a pair is the UNIQUE whitelist entry within cfg.hd of its raw barcode       *)
(* (C03's definition), its true molecule is (cell, contig, cut site, strand, UMI).                 *)
(* Verdict = "ok" or "<first failing clause>" / "<clause>|<tagger mode>".                          *)
(* Clauses starting with machinery_ judge the harness' own abstract aligner, not the code.         *)
EXTENDS TraceLib, Util
VARIABLE l

WL == Log[1].wl
WLPos == [k \in { WL[i][1] : i \in DOMAIN WL } |-> CHOOSE i \in DOMAIN WL : WL[i][1] = k]
WLOfBc == [b \in { WL[i][2] : i \in DOMAIN WL } |-> WL[CHOOSE i \in DOMAIN WL : WL[i][2] = b][1]]
BcChars(k) == WL[WLPos[k]][2]
BcStr(k) == WL[WLPos[k]][3]

Cat(cs) == FoldLeft(LAMBDA a, c : a \o c, "", cs)

(* raw barcode that was sequenced *)
Raw(p) == IF p.bck = "bad" THEN p.bad
          ELSE IF p.bck = "mm" THEN [BcChars(p.cell) EXCEPT ![p.mmpos] = p.mmbase]
          ELSE BcChars(p.cell)

(* C03: assigned to a whitelist entry iff it is within distance k and strictly closer than every other one (k <= 1) *)
Lookup(q, k) ==
    IF q \in DOMAIN WLOfBc THEN WLOfBc[q]
    ELSE IF k = 0 THEN 0
    ELSE LET near == { i \in DOMAIN WL : Len(WL[i][2]) = Len(q) /\ Hamming(WL[i][2], q) = 1 }
         IN IF Cardinality(near) = 1 THEN WL[CHOOSE i \in near : TRUE][1] ELSE 0

B2I(b) == IF b THEN 1 ELSE 0

Verdict(e) ==
    IF e.ev # "pipeline" THEN "ok" ELSE
    LET lib == e.lib
        P == lib.pairs
        N == Len(P)
        hd == e.cfg.hd
        cellOf == [i \in DOMAIN P |-> Lookup(Raw(P[i]), hd)]                 \* 0: not accepted
        XS == { P[i].x : i \in DOMAIN P }
        IdxOfX == [x \in XS |-> CHOOSE i \in DOMAIN P : P[i].x = x]
        Acc == { i \in DOMAIN P : cellOf[i] # 0 }
        R1Mapped(i) == P[i].map # "none"
        MateMapped(i, m) == P[i].map = "both" \/ (P[i].map = "r1" /\ m = 1)
        Mol(i) == <<cellOf[i], P[i].c, P[i].p, P[i].rev, P[i].umi>>
        CountedPairs == { i \in Acc : R1Mapped(i) }
        SM(i) == lib.name \o "_" \o ToString(cellOf[i])
        Name(i) == lib.hdr.is \o ":" \o lib.hdr.rn \o ":" \o lib.hdr.fc \o ":" \o ToString(P[i].lane) \o ":" \o P[i].tile
                   \o ":" \o ToString(P[i].x) \o ":" \o ToString(P[i].y)
        dx == e.demux
        Xs(q) == [k \in DOMAIN q |-> q[k].cx]
        allX == [i \in DOMAIN P |-> P[i].x]
        known(q) == \A k \in DOMAIN q : q[k].cx \in XS
        dmxOk(r, m) == LET i == IdxOfX[r.cx] p == P[i] IN
            /\ r.bi = ToString(cellOf[i]) /\ r.rx = p.umi /\ r.bcr = Raw(p) /\ r.BC = BcChars(cellOf[i])
            /\ r.ly = lib.name /\ r.la = ToString(p.lane) /\ r.mx = e.strategy /\ r.aa = lib.hdr.idx /\ ~r.rr
            /\ r.rs = p.primer
            /\ r.seq = (IF m = 1 THEN p.ins1 ELSE p.ins2) /\ r.ql = Len(r.seq)
        rejOk(r, m) == LET p == P[IdxOfX[r.cx]] IN
            /\ r.rr /\ r.la = ToString(p.lane)
            /\ r.seq = (IF m = 1 THEN Cat(p.umi) \o Cat(Raw(p)) \o p.ins1 ELSE p.primer \o p.ins2) /\ r.ql = Len(r.seq)
        alnOk(a) == LET i == IdxOfX[a.cx] p == P[i] IN
            /\ a.unmapped = ~MateMapped(i, a.mate)
            /\ (~a.unmapped /\ a.mate = 1) => (a.ref = p.c /\ a.rev = p.rev /\ (IF p.rev THEN a.rend = p.p + 4 ELSE a.pos = p.p))
            /\ a.seq = (IF a.unmapped \/ ~a.rev THEN (IF a.mate = 1 THEN p.ins1 ELSE p.ins2) ELSE a.seq)
        AlnOf(cx, m) == CHOOSE k \in DOMAIN e.aln : e.aln[k].cx = cx /\ e.aln[k].mate = m
        DemuxVerdict ==
            IF dx.raised # "" THEN "E1_demux_raised"
            ELSE IF dx.processed # N THEN "E1_processed_count"
            ELSE IF ~(known(dx.d1) /\ known(dx.d2) /\ known(dx.r1) /\ known(dx.r2)) THEN "E2_unknown_record_in_sinks"
            ELSE IF Xs(dx.d1) # Xs(dx.d2) \/ Xs(dx.r1) # Xs(dx.r2) THEN "E1_mates_not_in_lockstep"
            ELSE IF ~SameBag(Xs(dx.d1) \o Xs(dx.r1), allX) THEN "E1_pairs_in_eq_rejects_plus_demultiplexed"
            ELSE IF SeqSet(Xs(dx.r1)) # { P[i].x : i \in (DOMAIN P) \ Acc } THEN "E4_rejected_iff_barcode_not_accepted"
            ELSE IF \E k \in DOMAIN dx.r1 : ~rejOk(dx.r1[k], 1) \/ ~rejOk(dx.r2[k], 2) THEN "E4_reject_keeps_the_read"
            ELSE IF \E k \in DOMAIN dx.d1 : ~dmxOk(dx.d1[k], 1) \/ ~dmxOk(dx.d2[k], 2) THEN "E2_demultiplexed_identity"
            ELSE IF Len(e.aln) # 2 * Len(dx.d1) \/ ~known(e.aln) THEN "machinery_aligner_count"
            ELSE IF \E k \in DOMAIN e.aln : ~alnOk(e.aln[k]) THEN "machinery_aligner_placement"
            ELSE "ok"
        (* tagged BAM of one tagger run *)
        TagOk(t) == LET i == IdxOfX[t.cx] p == P[i] IN
            /\ t.SM = SM(i) /\ t.RX = p.umi /\ t.BC = BcChars(cellOf[i]) /\ t.bcr = Raw(p) /\ t.bi = ToString(cellOf[i])
            /\ t.LY = lib.name /\ t.La = ToString(p.lane) /\ t.Fc = lib.hdr.fc /\ t.MX = e.strategy /\ t.aa = lib.hdr.idx
            /\ t.RG = lib.hdr.fc \o "." \o ToString(p.lane) \o "." \o SM(i)
            /\ t.aA = lib.hdr.idx /\ t.MI = Cat(BcChars(cellOf[i])) \o Cat(p.umi) \o lib.hdr.idx
        SiteOk(t) == LET p == P[IdxOfX[t.cx]] IN
            (~t.unmapped /\ R1Mapped(IdxOfX[t.cx])) => (t.hasDS /\ t.DS = p.p /\ t.hasRS /\ t.RS = B2I(p.rev))
        SameAlignment(t) == LET a == e.aln[AlnOf(t.cx, t.mate)] IN
            t.seq = a.seq /\ t.unmapped = a.unmapped /\ t.ref = a.ref /\ t.pos = a.pos /\ t.rev = a.rev
        Primaries(recs, i) == { k \in DOMAIN recs : /\ recs[k].mate = 1 /\ ~recs[k].dup /\ recs[k].cx \in XS
                                                     /\ IdxOfX[recs[k].cx] \in CountedPairs /\ Mol(IdxOfX[recs[k].cx]) = Mol(i) }
        (* expected count table: rows <<sample, key, 2 * count>> *)
        KeyOf(i, b) == IF b = 0 THEN <<P[i].c>>
                       ELSE <<P[i].c, ToString((P[i].p \div b) * b), ToString((P[i].p \div b) * b + b)>>
        Groups(b) == { <<cellOf[i], KeyOf(i, b)>> : i \in CountedPairs }
        Members(g, b) == { i \in CountedPairs : <<cellOf[i], KeyOf(i, b)>> = g }
        ExpRows(tb) == { << lib.name \o "_" \o ToString(g[1]), g[2],
                            2 * (IF tb.dedup THEN Cardinality({ Mol(i) : i \in Members(g, tb.bin) })
                                             ELSE Cardinality(Members(g, tb.bin))) >> : g \in Groups(tb.bin) }
        GotRows(tb) == { << tb.rows[k].sm, tb.rows[k].key, tb.rows[k].w2 >> : k \in DOMAIN tb.rows }
        TableVerdict(tb) ==
            IF tb.raised # "" THEN "E3_count_table_raised"
            ELSE IF \E k \in DOMAIN tb.rows : ~tb.rows[k].exact THEN "E3_weight_not_half_integral"
            ELSE IF Cardinality(GotRows(tb)) # Len(tb.rows) THEN "E3_duplicate_rows"
            ELSE IF \E r \in GotRows(tb) : ~\E i \in Acc : r[1] = SM(i) THEN "E4_table_has_foreign_sample"
            ELSE IF GotRows(tb) # ExpRows(tb) THEN
                 (IF tb.dedup THEN "E3_dedup_table_eq_distinct_true_molecules" ELSE "E3_table_eq_accepted_mapped_fragments")
            ELSE "ok"
        RunVerdict(run) ==
            LET recs == run.recs
                mate(m) == SelectSeq(recs, LAMBDA t : t.mate = m)
                bad == { k \in DOMAIN run.tables : TableVerdict(run.tables[k]) # "ok" }
            IN
            IF run.raised # "" \/ ~run.readable THEN "E1_tagger_raised"
            ELSE IF ~known(recs) THEN "E2_unknown_record_in_tagged_bam"
            ELSE IF \E k \in DOMAIN recs : recs[k].cx \in SeqSet(Xs(dx.r1)) THEN "E4_rejected_pair_in_tagged_bam"
            ELSE IF \E m \in {1, 2} : ~SameBag(Xs(mate(m)), Xs(dx.d1)) THEN "E1_tagged_records_eq_demultiplexed_pairs"
            ELSE IF Len(recs) # 2 * Len(dx.d1) THEN "E1_extra_records_in_tagged_bam"
            ELSE IF N # Len(dx.r1) + Len(mate(1)) THEN "E1_pairs_in_eq_rejects_plus_tagged_R1"
            ELSE IF \E k \in DOMAIN recs : recs[k].name # Name(IdxOfX[recs[k].cx]) THEN "E2_name_round_trip"
            ELSE IF \E k \in DOMAIN recs : ~TagOk(recs[k]) THEN "E2_tag_identity"
            ELSE IF \E k \in DOMAIN recs : ~SameAlignment(recs[k]) THEN "E2_alignment_untouched"
            ELSE IF \E k \in DOMAIN recs : ~SiteOk(recs[k]) THEN "E2_cut_site_and_strand"
            ELSE IF \E i \in CountedPairs : Cardinality(Primaries(recs, i)) # 1 THEN "E3_one_primary_per_true_molecule"
            ELSE IF bad # {} THEN TableVerdict(run.tables[MinOf(bad)])
            ELSE "ok"
        badRuns == { k \in DOMAIN e.runs : RunVerdict(e.runs[k]) # "ok" }
    IN IF DemuxVerdict # "ok" THEN DemuxVerdict
       ELSE IF badRuns # {} THEN RunVerdict(e.runs[MinOf(badRuns)]) \o "|" \o e.runs[MinOf(badRuns)].mode
       ELSE "ok"

TInit == l = 1
TNext == /\ l <= Len(Log)
         /\ Judge(l, Verdict(Log[l]))
         /\ l' = l + 1
TAccepted == TLCGet("stats").diameter - 1 = Len(Log)
=====================================================================================================
