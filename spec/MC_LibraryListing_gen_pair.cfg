INIT Init
NEXT Next
CONSTANTS
  Schemes = {"ill"}
  LibChoice = "one"
  NLanes = 2
  NChunks = 2
  MaxFiles = 4
  ReplIdx = {1}
  SlibIdx = {0}
  Merges = {0}
  SEs = {TRUE, FALSE}
  Ignores = {TRUE, FALSE}
  Verboses = {FALSE}
  Globs = {TRUE, FALSE}
  Variant = "design"
CONSTRAINT Emit
CHECK_DEADLOCK FALSE
