INIT Init
NEXT Next
CONSTANTS
  N = 2
  K = 2
  NCells = 1
  MateChoices = {2}
  RejectChoices = {TRUE,FALSE}
  MaxPairChoices = {0,1}
  Classes = {"A","N","W","E"}
  PriorChoices = {"none"}
  PlainStrats = {}
  PairLevelOnly = TRUE
  Variant = "design"
CONSTRAINT Emit
CHECK_DEADLOCK FALSE
