------------------------------------- MODULE SampleRouting -------------------------------------
(* Extension X05 (not a listed property): bamProcessing/bamExtractSamples.py - extract_samples()  *)
(* and the parsing of the sample/group file by its command line.                                   *)
(*                                                                                                 *)
(* D-level: the program as written, one action per loop body                                       *)
(*   ParseLine   (cli) one line of the sample file: sample [group]; the group is cleaned with        *)
(*               get_valid_filename and the sample added to capture_samples[group] (a set)          *)
(*   OpenHandle  one output file per group: output_path with the group in front of ".bam";          *)
(*               with write_group_rg the header's RG list is replaced by the one @RG prefix+group    *)
(*   MapSample   sample2handle / sample2group construction; a sample in two groups -> ValueError     *)
(*   Route       one input record: no SM / sample not selected -> skipped; otherwise RG is set        *)
(*               (write_group_rg), the record written to its group's handle, `written` incremented;  *)
(*               the head limit ends the loop                                                        *)
(*   CloseHandle close (and index) every output file                                                 *)
(* P-level: SampleRoutingP (clauses P_xxx) - checked in the final state; Inv_X05_Step is the inductive  *)
(* form: while the loop runs the files hold exactly what the property demands for the prefix read.     *)
(*                                                                                                 *)
(* Variant: "design" or one named deviation (negative controls):                                    *)
(*   missing_sm_crash   (D500, as found) r.get_tag('SM') on a record without SM raises KeyError        *)
(*   replace_all_bam    (D501, as found) str.replace puts the group before EVERY ".bam" of the path   *)
(*   dup_same_group     (D502, as found) a sample listed twice in ONE group's list is refused           *)
(*   head_after_write   (D503, as found) the limit is tested only after a write: head=0 writes one     *)
(*   head_per_group     the limit is counted per group instead of in total                            *)
(*   head_off_by_one    `written > head`                                                              *)
(*   first_group_wins / last_group_wins   a sample in two groups is not refused                        *)
(*   write_before_rg    the record is written before its RG is set                                    *)
(*   rg_without_prefix  the records get the group, the header prefix+group                            *)
(*   header_rg_kept     the input's @RG lines stay next to the new one                                *)
(*   unselected_to_first  a record of an unselected sample goes to the first handle                    *)
(*   cli_no_clean       the group name is used as typed (file name = raw text)                        *)
(*   cli_group_as_sample  capture_samples[group].add(group)                                           *)
(*   impl               = the deviations found in the code at the pinned commit (D500..D503)           *)
(* Mode = "split" is the second tool, split_bam_by_cluster.py: see the section in front of ParseRow.   *)
EXTENDS SampleRoutingP, Json

CONSTANTS SampleNames, NoSM, AsgSamples, GroupNames, MaxRecs, MaxGroups, MaxPerGroup, HeadMax, WRGs, Prefix,
          StemWithBam, Mode, MaxLines, Variant,
          NoCols, AddChrs, DupFlags, LowQFlags, PosMax, MapqReading          \* Mode = "split" only (split_bam_by_cluster.py)

AsFound == {"missing_sm_crash", "replace_all_bam", "dup_same_group", "head_after_write"}
Dev(d) == Variant = d \/ (Variant = "impl" /\ d \in AsFound)

Stem == IF StemWithBam THEN <<"x", ".bam", "y">> ELSE <<"out">>
InRG == <<"old">>
Name(g) == IF Dev("replace_all_bam")
           THEN Str([i \in DOMAIN Stem |-> IF Stem[i] = ".bam" THEN g \o ".bam" ELSE Stem[i]]) \o g \o ".bam"
           ELSE Str(Stem) \o g \o ".bam"
RG(g) == Prefix \o g

SmChoices == SampleNames \cup (IF NoSM THEN {""} ELSE {})
MkRecs(q) == [i \in DOMAIN q |-> [id |-> i, sm |-> q[i], rg |-> "old", dg |-> "d" \o ToString(i), dup |-> FALSE, lowq |-> FALSE, tid |-> 0, pos |-> i]]
SplitRecChoices == [sm : SmChoices, dup : DupFlags, lowq : LowQFlags, pos : 1 .. PosMax]
MkSplitRecs(q) == [i \in DOMAIN q |-> [id |-> i, sm |-> q[i].sm, rg |-> "old", dg |-> "d" \o ToString(i), dup |-> q[i].dup, lowq |-> q[i].lowq,
                                       tid |-> 0, pos |-> q[i].pos]]
RowChoices == [s : AsgSamples \cup {"Missing"}, c : GroupNames]
HeaderRow == [s |-> "cell", c |-> "cluster"]
Entries == { [g |-> g, ss |-> ss] : g \in GroupNames, ss \in BoundedSeq(AsgSamples, MaxPerGroup) }
AsgChoices == { q \in BoundedSeq(Entries, MaxGroups) : \A i, j \in DOMAIN q : q[i].g = q[j].g => i = j }   \* dictionary keys are distinct
RawGroups == { <<"g">>, <<"h">>, <<"g", "/">>, <<"'">>, <<"g", " ", "h">> }
LineChoices == { [s |-> s, hasg |-> FALSE, g |-> <<>>] : s \in AsgSamples }
               \cup { [s |-> s, hasg |-> TRUE, g |-> g] : s \in AsgSamples, g \in RawGroups }

VARIABLES pc, inp, lines, asg, head, wrg, li, cs, corder, gi, mi, mj, s2g, files, open, ri, written, wpg, raised, sx
vars == <<pc, inp, lines, asg, head, wrg, li, cs, corder, gi, mi, mj, s2g, files, open, ri, written, wpg, raised, sx>>

Empty == [x \in {} |-> 0]
NoSx == [rows |-> <<>>, nocol |-> FALSE, chr |-> FALSE, indexed |-> {}]
InitSplit == /\ inp \in { MkSplitRecs(q) : q \in BoundedSeq(SplitRecChoices, MaxRecs) }
             /\ sx \in [rows : BoundedSeq(RowChoices, MaxLines), nocol : NoCols, chr : AddChrs, indexed : {{}}]
             /\ head = -1 /\ wrg = FALSE /\ lines = <<>> /\ asg = <<>> /\ pc = "sparse"
             /\ li = 1
             /\ cs = Empty /\ corder = <<>> /\ gi = 1 /\ mi = 1 /\ mj = 1 /\ s2g = Empty /\ files = Empty
             /\ open = {} /\ ri = 1 /\ written = 0 /\ wpg = Empty /\ raised = ""
InitRoute ==
        /\ inp \in { MkRecs(q) : q \in BoundedSeq(SmChoices, MaxRecs) }
        /\ sx = NoSx
        /\ head \in {-1} \cup (0 .. HeadMax)
        /\ wrg \in WRGs
        /\ IF Mode = "cli" THEN /\ lines \in BoundedSeq(LineChoices, MaxLines) /\ asg = <<>> /\ pc = "parse"
                           ELSE /\ lines = <<>> /\ asg \in AsgChoices /\ pc = "open"
        /\ li = 1 /\ cs = Empty /\ corder = <<>> /\ gi = 1 /\ mi = 1 /\ mj = 1 /\ s2g = Empty /\ files = Empty
        /\ open = {} /\ ri = 1 /\ written = 0 /\ wpg = Empty /\ raised = ""
Init == IF Mode = "split" THEN InitSplit ELSE InitRoute

(* the P-level reading of the input *)
A == IF Mode = "cli" THEN RelOfLines(lines) ELSE RelOfAsg(asg)
G == IF Mode = "cli" THEN GroupsOfLines(lines) ELSE GroupsOfAsg(asg)

---------------------------------------------------------------------------------------------------
ParseLine ==
    /\ pc = "parse"
    /\ IF li > Len(lines)
       THEN /\ asg' = [k \in DOMAIN corder |-> [g |-> corder[k], ss |-> SetToSeq(cs[corder[k]])]]
            /\ pc' = "open"
            /\ UNCHANGED <<li, cs, corder>>
       ELSE LET ln == lines[li]
                g == IF ~ln.hasg THEN "" ELSE IF Dev("cli_no_clean") THEN Str(ln.g) ELSE Str(CleanChars(ln.g))
                s == IF Dev("cli_group_as_sample") /\ ln.hasg THEN g ELSE ln.s
            IN /\ cs' = IF g \in DOMAIN cs THEN [cs EXCEPT ![g] = @ \cup {s}] ELSE cs @@ (g :> {s})
               /\ corder' = IF g \in DOMAIN cs THEN corder ELSE Append(corder, g)
               /\ li' = li + 1
               /\ UNCHANGED <<asg, pc>>
    /\ UNCHANGED <<inp, lines, head, wrg, gi, mi, mj, s2g, files, open, ri, written, wpg, raised, sx>>

OpenHandle ==
    /\ pc = "open"
    /\ IF gi > Len(asg)
       THEN pc' = "map" /\ UNCHANGED <<gi, files, open, wpg>>
       ELSE LET g == asg[gi].g
                hdr == IF ~wrg THEN InRG
                       ELSE IF Dev("header_rg_kept") THEN InRG \o <<RG(g)>> ELSE <<RG(g)>>
            IN /\ files' = [f \in DOMAIN files \cup {Name(g)} |-> IF f = Name(g) THEN [rgids |-> hdr, recs |-> <<>>] ELSE files[f]]
               /\ open' = open \cup {Name(g)}
               /\ wpg' = wpg @@ (g :> 0)
               /\ gi' = gi + 1 /\ pc' = pc
    /\ UNCHANGED <<inp, lines, asg, head, wrg, li, cs, corder, mi, mj, s2g, ri, written, raised, sx>>

MapSample ==
    /\ pc = "map"
    /\ IF mi > Len(asg) THEN pc' = "loop" /\ UNCHANGED <<mi, mj, s2g, raised>>
       ELSE IF mj > Len(asg[mi].ss) THEN mi' = mi + 1 /\ mj' = 1 /\ UNCHANGED <<pc, s2g, raised>>
       ELSE LET s == asg[mi].ss[mj]  g == asg[mi].g
            IN IF s \in DOMAIN s2g
               THEN IF (s2g[s] = g /\ ~Dev("dup_same_group")) \/ Dev("first_group_wins")
                    THEN mj' = mj + 1 /\ UNCHANGED <<mi, pc, s2g, raised>>
                    ELSE IF Dev("last_group_wins")
                    THEN s2g' = [s2g EXCEPT ![s] = g] /\ mj' = mj + 1 /\ UNCHANGED <<mi, pc, raised>>
                    ELSE raised' = "ValueError" /\ pc' = "done" /\ UNCHANGED <<mi, mj, s2g>>
               ELSE s2g' = s2g @@ (s :> g) /\ mj' = mj + 1 /\ UNCHANGED <<mi, pc, raised>>
    /\ UNCHANGED <<inp, lines, asg, head, wrg, li, cs, corder, gi, files, open, ri, written, wpg, sx>>

HeadReached(w) == head # -1 /\ (IF Dev("head_off_by_one") THEN w > head ELSE w >= head)
WriteTo(g, r) ==
    LET o == [id |-> r.id, sm |-> r.sm, dg |-> r.dg,
              rg |-> IF wrg /\ ~Dev("write_before_rg") THEN (IF Dev("rg_without_prefix") THEN g ELSE RG(g)) ELSE r.rg]
    IN /\ files' = [files EXCEPT ![Name(g)].recs = Append(@, o)]
       /\ written' = written + 1
       /\ wpg' = [wpg EXCEPT ![g] = @ + 1]
Route ==
    /\ pc = "loop"
    /\ IF ~Dev("head_after_write") /\ ~Dev("head_per_group") /\ HeadReached(written)
       THEN pc' = "close" /\ UNCHANGED <<ri, files, written, wpg, raised>>           \* limit reached: nothing more is read
       ELSE IF ri > Len(inp)
       THEN pc' = "close" /\ UNCHANGED <<ri, files, written, wpg, raised>>           \* end of the input
       ELSE LET r == inp[ri] IN
            IF r.sm = ""
            THEN IF Dev("missing_sm_crash")
                 THEN raised' = "KeyError" /\ pc' = "done" /\ UNCHANGED <<ri, files, written, wpg>>
                 ELSE ri' = ri + 1 /\ UNCHANGED <<pc, files, written, wpg, raised>>
            ELSE IF r.sm \notin DOMAIN s2g
            THEN IF Dev("unselected_to_first") /\ Len(asg) > 0
                 THEN WriteTo(asg[1].g, r) /\ ri' = ri + 1 /\ UNCHANGED <<pc, raised>>
                 ELSE ri' = ri + 1 /\ UNCHANGED <<pc, files, written, wpg, raised>>
            ELSE LET g == s2g[r.sm] IN
                 IF Dev("head_per_group")
                 THEN IF head # -1 /\ wpg[g] >= head
                      THEN ri' = ri + 1 /\ UNCHANGED <<pc, files, written, wpg, raised>>
                      ELSE WriteTo(g, r) /\ ri' = ri + 1 /\ UNCHANGED <<pc, raised>>
                 ELSE /\ WriteTo(g, r) /\ ri' = ri + 1 /\ raised' = raised
                      /\ pc' = IF Dev("head_after_write") /\ HeadReached(written + 1) THEN "close" ELSE pc
    /\ UNCHANGED <<inp, lines, asg, head, wrg, li, cs, corder, gi, mi, mj, s2g, open, sx>>

CloseHandle ==
    /\ pc = "close"
    /\ IF open = {} THEN pc' = "done" /\ open' = open
       ELSE open' = open \ {CHOOSE f \in open : TRUE} /\ pc' = pc
    /\ UNCHANGED <<inp, lines, asg, head, wrg, li, cs, corder, gi, mi, mj, s2g, files, ri, written, wpg, raised, sx>>

---------------------------------------------------------------------------------------------------
(* Mode = "split": split_bam_by_cluster.py main().  Same shape - build the sample map, open one file per cluster, route every   *)
(* record, close - with these differences: the annotation file (first line = column names unless --annot_no_colnames, a sample  *)
(* on two lines is refused BEFORE any file is opened), duplicate-flagged records are skipped, a record without the tag is       *)
(* looked up under the name "Missing", the records go to <bname>.<cluster>.unsorted.bam which is sorted into                     *)
(* <bname>.<cluster>.sorted.bam, indexed and removed; --add_chr_prefix renames the contigs of the header; -mapq is parsed and   *)
(* not used (MapqReading = "ignored"; "filter" is the other admissible reading of the option).                                  *)
(* deviations: split_skip_always / split_skip_never (column-name line), split_dup_last_wins, split_keep_dups,                    *)
(*   split_no_missing_name (record without the tag skipped although "Missing" is listed), split_no_sort, split_no_cleanup,       *)
(*   split_no_index, split_prefix_some (header renamed only for the first cluster), split_first_cluster_all                      *)
AnnotLines == IF sx.nocol THEN sx.rows ELSE <<HeaderRow>> \o sx.rows
SStem == "in."
Tmp(c) == SStem \o c \o ".unsorted.bam"
Srt(c) == SStem \o c \o ".sorted.bam"
Eligible(r) == ~r.dup /\ (MapqReading = "ignored" \/ ~r.lowq)
RouteKey(r) == IF r.sm = "" THEN "Missing" ELSE r.sm

ParseRow ==
    /\ pc = "sparse"
    /\ LET first == IF Dev("split_skip_always") THEN 2 ELSE IF Dev("split_skip_never") THEN 1       \* the first line holds the column
                 ELSE IF sx.nocol THEN 1 ELSE 2 IN                                                    \* names unless --annot_no_colnames
       IF (IF li < first THEN first ELSE li) > Len(AnnotLines)
       THEN /\ pc' = "sopen" /\ corder' = SetToSeq({ s2g[s] : s \in DOMAIN s2g }) /\ UNCHANGED <<li, s2g, raised>>
       ELSE LET k == IF li < first THEN first ELSE li
                row == AnnotLines[k]
            IN IF row.s \in DOMAIN s2g
               THEN IF Dev("split_dup_last_wins")
                    THEN s2g' = [s2g EXCEPT ![row.s] = row.c] /\ li' = k + 1 /\ UNCHANGED <<pc, corder, raised>>
                    ELSE raised' = "Exception" /\ pc' = "done" /\ UNCHANGED <<li, s2g, corder>>
               ELSE s2g' = s2g @@ (row.s :> row.c) /\ li' = k + 1 /\ UNCHANGED <<pc, corder, raised>>
    /\ UNCHANGED <<inp, lines, asg, head, wrg, cs, gi, mi, mj, files, open, ri, written, wpg, sx>>

OpenCluster ==
    /\ pc = "sopen"
    /\ IF gi > Len(corder) THEN pc' = "sloop" /\ UNCHANGED <<gi, files, open>>
       ELSE LET c == corder[gi]
                chr == sx.chr /\ (~Dev("split_prefix_some") \/ gi = 1)
            IN /\ files' = files @@ (Tmp(c) :> [rgids |-> InRG, recs |-> <<>>, chr |-> chr])
               /\ open' = open \cup {Tmp(c)} /\ gi' = gi + 1 /\ pc' = pc
    /\ UNCHANGED <<inp, lines, asg, head, wrg, li, cs, corder, mi, mj, s2g, ri, written, wpg, raised, sx>>

RouteSplit ==
    /\ pc = "sloop"
    /\ IF ri > Len(inp) THEN pc' = "sfin" /\ gi' = 1 /\ UNCHANGED <<ri, files, written>>
       ELSE LET r == inp[ri]
                key == IF r.sm = "" /\ Dev("split_no_missing_name") THEN "" ELSE RouteKey(r)
                o == [id |-> r.id, sm |-> IF Eligible(r) THEN RouteKey(r) ELSE "", dg |-> r.dg, rg |-> r.rg]
            IN IF (~Eligible(r) /\ ~(r.dup /\ Dev("split_keep_dups"))) \/ key \notin DOMAIN s2g
               THEN IF Dev("split_first_cluster_all") /\ Len(corder) > 0 /\ Eligible(r)
                    THEN files' = [files EXCEPT ![Tmp(corder[1])].recs = Append(@, o)] /\ written' = written + 1 /\ ri' = ri + 1 /\ UNCHANGED <<pc, gi>>
                    ELSE ri' = ri + 1 /\ UNCHANGED <<pc, gi, files, written>>
               ELSE /\ files' = [files EXCEPT ![Tmp(s2g[key])].recs = Append(@, o)]
                    /\ written' = written + 1 /\ ri' = ri + 1 /\ UNCHANGED <<pc, gi>>
    /\ UNCHANGED <<inp, lines, asg, head, wrg, li, cs, corder, mi, mj, s2g, open, wpg, raised, sx>>

PosOfId(id) == inp[id].pos
FinishCluster ==                              \* close, sort into the final file, index
    /\ pc = "sfin"
    /\ IF gi > Len(corder) THEN pc' = "sclean" /\ gi' = 1 /\ UNCHANGED <<files, open, sx>>
       ELSE LET c == corder[gi]
                srt == IF Dev("split_no_sort") THEN files[Tmp(c)].recs
                       ELSE SortSeq(files[Tmp(c)].recs, LAMBDA a, b : PosOfId(a.id) < PosOfId(b.id))
            IN /\ files' = files @@ (Srt(c) :> [files[Tmp(c)] EXCEPT !.recs = srt])
               /\ open' = open \ {Tmp(c)}
               /\ sx' = IF Dev("split_no_index") THEN sx ELSE [sx EXCEPT !.indexed = @ \cup {Srt(c)}]
               /\ gi' = gi + 1 /\ pc' = pc
    /\ UNCHANGED <<inp, lines, asg, head, wrg, li, cs, corder, mi, mj, s2g, ri, written, wpg, raised>>

CleanCluster ==                               \* remove the unsorted temporary file
    /\ pc = "sclean"
    /\ IF gi > Len(corder) THEN pc' = "done" /\ UNCHANGED <<gi, files>>
       ELSE /\ files' = IF Dev("split_no_cleanup") THEN files ELSE [f \in DOMAIN files \ {Tmp(corder[gi])} |-> files[f]]
            /\ gi' = gi + 1 /\ pc' = pc
    /\ UNCHANGED <<inp, lines, asg, head, wrg, li, cs, corder, mi, mj, s2g, open, ri, written, wpg, raised, sx>>

Next == ParseLine \/ OpenHandle \/ MapSample \/ Route \/ CloseHandle \/ ParseRow \/ OpenCluster \/ RouteSplit \/ FinishCluster \/ CleanCluster
Spec == Init /\ [][Next]_vars

---------------------------------------------------------------------------------------------------
Done == pc = "done"
Ok == Done /\ raised = "" /\ ~Conflict(A)
InStr == Str(Stem)
Inv_X05_NoCrash     == Done => P_NoCrash(A, raised)
Inv_X05_Refused     == Done => P_Refused(A, raised, files)
Inv_X05_Files       == Ok => P_Files(G, InStr, files)
Inv_X05_ExactlyOnce == (Ok /\ P_Files(G, InStr, files)) => P_ExactlyOnce(A, inp, head, InStr, files)
Inv_X05_Unselected  == Ok => P_Unselected(A, inp, files)
Inv_X05_Head        == Ok => P_Head(A, inp, head, files)
Inv_X05_Order       == Ok => P_Order(inp, files)
Inv_X05_Content     == Ok => P_Content(A, inp, wrg, Prefix, files)
Inv_X05_RecordRG    == Ok => P_RecordRG(A, inp, wrg, Prefix, files)
Inv_X05_HeaderRG    == Ok => P_HeaderRG(G, wrg, Prefix, InStr, InRG, files)
Inv_X05_Closed      == Ok => open = {}
(* inductive form: during the loop the files are exactly the demanded result for the records read so far *)
Inv_X05_Step ==
    /\ (pc = "loop" /\ ~Conflict(A)) => files = ExpectedOut(A, G, SubSeq(inp, 1, ri - 1), head, wrg, Prefix, InStr, InRG)
    /\ Ok => files = ExpectedOut(A, G, inp, head, wrg, Prefix, InStr, InRG)
    /\ (pc = "loop") => ~Conflict(A)

(* ---- Mode = "split": the same clauses over the annotation rows; the group of a cluster c is "c.sorted" so that the file of      *)
(* the cluster is FileName("in.", "c.sorted") = in.c.sorted.bam                                                                 *)
SA == SplitRel(sx.rows)
SG == SplitGroups(sx.rows)
SInp == SplitInp(inp, MapqReading = "filter")
SOk == Done /\ raised = "" /\ ~SplitDup(sx.rows)
Inv_X05s_Refused     == (Done /\ SplitDup(sx.rows)) => (raised = "Exception" /\ DOMAIN files = {})
Inv_X05s_NoCrash     == (Done /\ ~SplitDup(sx.rows)) => raised = ""
Inv_X05s_Files       == SOk => P_Files(SG, SStem, files)
Inv_X05s_ExactlyOnce == (SOk /\ P_Files(SG, SStem, files)) => P_ExactlyOnce(SA, SInp, -1, SStem, files)
Inv_X05s_Unselected  == SOk => (P_Unselected(SA, SInp, files) /\ P_NoStrangers(SInp, files))
Inv_X05s_Content     == SOk => P_Content(SA, SInp, FALSE, "", files)
Inv_X05s_Sorted      == SOk => P_Sorted(SInp, files)
Inv_X05s_Header      == SOk => (\A f \in DOMAIN files : files[f].chr = sx.chr /\ files[f].rgids = InRG)
Inv_X05s_Indexed     == SOk => sx.indexed = DOMAIN files
Inv_X05s_Closed      == SOk => open = {}

(* scenario generator: every initial choice with the final result of the design *)
Emit == IF Done THEN PrintT("@@SCENARIO " \o ToJson([mode |-> Mode, sms |-> [i \in DOMAIN inp |-> inp[i].sm], asg |-> asg, lines |-> lines,
                                                       head |-> head, wrg |-> wrg, prefix |-> Prefix, stem |-> Stem,
                                                       recs |-> [i \in DOMAIN inp |-> [sm |-> inp[i].sm, dup |-> inp[i].dup, lowq |-> inp[i].lowq, pos |-> inp[i].pos]],
                                                       rows |-> sx.rows, nocol |-> sx.nocol, chr |-> sx.chr])) /\ FALSE
        ELSE TRUE
=====================================================================================================
