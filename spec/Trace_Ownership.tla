------------------------------------- MODULE Trace_Ownership -------------------------------------
(* C08 - observations of the real tagger (one serial pass vs. a set of jobs) judged by the P-level      *)
(* definitions of Ownership.tla, re-stated over raw observations:                                       *)
(*   {"ev":"run","tid","mode","method","contigs":[len,..],                                               *)
(*    "serial":[{"s","sc","recs":[{"q","m","f","c","p","e","t"}]}],   one entry per molecule the serial    *)
(*                        pass yielded: s / sc its cut site and contig id (-1: none); per record: q name,  *)
(*                        m mate, f flag, c contig id, p start, e end, t all tags except mi / ix           *)
(*    "plan":[[{"c","s","e","fs","fe"}]]   the planned jobs (wrapper around generate_tasks)                *)
(*    "jobs":[{"tasks":[{"c","s","e","fs","fe"}],"recs":[{"q","m","f","c","p","t","ix"}]}],  returned jobs  *)
(*                        task: c = -1 the '*' job; c = -2 no region at all; s = -1 whole contig          *)
(*    "merged":[{"q","m","f","c","p","t"}]  the merged output (empty: the union of the jobs is the output) *)
(*    "raised": exception type of the parallel run or "",  "pred"/"wrote": scenario replays only,         *)
(*    "req": api mode only - the fragment_size requested from tag_multiome_multi_processing}              *)
(* Nothing computed by the driver is trusted: owners, writers, extents, margins and the bag comparison   *)
(* are all recomputed here.                                                                              *)
EXTENDS TraceLib, Util

VARIABLE l

Rng(q) == { q[i] : i \in DOMAIN q }
Key(r) == <<r.q, r.m>>
Proj(r) == <<r.q, r.m, r.f, r.c, r.p, r.t>>
KeyOfProj(x) == <<x[1], x[2]>>

(* ---- tasks ---- *)
AllTasks(e) == UNION { Rng(e.plan[j]) : j \in DOMAIN e.plan }      \* the job list handed to the workers
RegionTasks(e) == { t \in AllTasks(e) : t.c >= 0 /\ t.s >= 0 }
CLen(e, c) == e.contigs[c + 1]
Owns(t, c, s) == (t.c = c \/ t.c = -2) /\ (t.s = -1 \/ (t.s <= s /\ s < t.e))     \* t.c = -2: a task without any region
Owners(e, c, s) == { j \in DOMAIN e.jobs : \E t \in Rng(e.jobs[j].tasks) : Owns(t, c, s) }

(* the region tasks of every tiled contig partition [0, len) *)
TilingOK(e) ==
    \A c \in { t.c : t \in RegionTasks(e) } :
        LET T == { t \in RegionTasks(e) : t.c = c } IN
        /\ \A t \in T : t.s < t.e
        /\ \A x \in T : x.s = 0 \/ \E y \in T : y.e = x.s
        /\ \E x \in T : x.e = CLen(e, c)
        /\ \A x, y \in T : (x.s < y.e /\ y.s < x.e) => x = y
        /\ Cardinality(T) = Cardinality({ <<t.s, t.e>> : t \in T })

(* a fetch window that starts before the contig is not a region of the genome (pysam refuses it); tilers producing it are C17 *)
WindowsOK(e) == \A t \in RegionTasks(e) : t.fs >= 0

(* ---- serial molecules ---- *)
Mols(e) == DOMAIN e.serial
MRecs(e, g) == Rng(e.serial[g].recs)
MKeys(e, g) == { Key(r) : r \in MRecs(e, g) }
Placed(e, g) == \E r \in MRecs(e, g) : r.c >= 0
Sited(e, g) == e.serial[g].s >= 0 /\ e.serial[g].sc >= 0
(* placed molecules without any site location (the code's `continue` arm): no bin "contains its cut site" *)
NoSiteMols(e) == { g \in Mols(e) : Placed(e, g) /\ ~Sited(e, g) }
(* sited molecules of a tiled contig whose site is not a base of the contig (site < 0 or >= length): no bin of any tiling of *)
(* the genome can contain it; observation only *)
OutsideMols(e) == { g \in Mols(e) : /\ Sited(e, g) /\ \E t \in RegionTasks(e) : t.c = e.serial[g].sc
                                    /\ (e.serial[g].s < 0 \/ e.serial[g].s >= CLen(e, e.serial[g].sc)) }
(* Only molecules whose site is not a base of the genome are exempt from the comparison.  A placed molecule for which the     *)
(* code reports no site location at all has no owner bin (OneOwner / Complete do not speak about it), but "the same records"  *)
(* still covers its records: region jobs drop such molecules (`continue`, tagging.py:126-128), so they must not exist - every *)
(* shipped fragment class falls back to the position a read is stored at.                                                      *)
SkipKeys(e) == UNION { MKeys(e, g) : g \in OutsideMols(e) }

(* extent of a fragment = cells covered by its reads and its cut site: "one fragment length" of the statement *)
(* per molecule: the placed records, the names among them, and (one table) lowest start / highest end per name *)
MolExt(e, g) ==
    LET R == { r \in MRecs(e, g) : r.c >= 0 }
        Q == { r.q : r \in R }
        st == IF Sited(e, g) /\ \A r \in R : r.c = e.serial[g].sc THEN { e.serial[g].s } ELSE {}
        \* identical (name-less) geometry is shared by PCR duplicates: work on the distinct (q, p, e) triples
        T == { <<r.q, r.p, r.e>> : r \in R }
        ext(q) == LET Tq == { t \in T : t[1] = q } IN
                  MaxOf({ t[3] : t \in Tq } \cup { x + 1 : x \in st }) - MinOf({ t[2] : t \in Tq } \cup st)
    IN IF Q = {} THEN 0 ELSE MaxOf({ ext(q) : q \in Q })
MolContig(e, g) == LET R == { r \in MRecs(e, g) : r.c >= 0 } IN IF R = {} THEN -1 ELSE (CHOOSE r \in R : TRUE).c
MaxExt(e, c) == MaxOf({0} \cup { MolExt(e, g) : g \in { x \in Mols(e) : MolContig(e, x) = c } })
MarginOK(e) ==
    LET mx == [c \in 0 .. (Len(e.contigs) - 1) |-> MaxExt(e, c)] IN
    \A t \in RegionTasks(e) :
        /\ t.fs <= t.s /\ t.e <= t.fe
        /\ (t.s - t.fs >= mx[t.c] \/ t.fs <= 0)
        /\ (t.fe - t.e >= mx[t.c] \/ t.fe >= CLen(e, t.c))
(* the region-tiling API is judged end to end on its REQUEST: "req" = the fragment_size handed to                      *)
(* tag_multiome_multi_processing; the windows its own tiler produces are part of the system under test, so a tiler     *)
(* that drops margins shows up as lost / duplicated / changed records.  Hand-made tilings (tasks, scn) are inputs:     *)
(* there the precondition is on the windows themselves.                                                               *)
RequestOK(e) == \A c \in 0 .. (Len(e.contigs) - 1) : e.req >= MaxExt(e, c)
ByRequest(e) == Has(e, "req")
InScope(e) == IF ByRequest(e) THEN RequestOK(e) ELSE TilingOK(e) /\ WindowsOK(e) /\ MarginOK(e)

(* ---- what was written ---- *)
JobKeys(e) == [j \in DOMAIN e.jobs |-> { Key(r) : r \in Rng(e.jobs[j].recs) }]
Output(e) == IF Len(e.merged) > 0 THEN [i \in DOMAIN e.merged |-> Proj(e.merged[i])]
             ELSE FlattenSeq([j \in DOMAIN e.jobs |-> [i \in DOMAIN e.jobs[j].recs |-> Proj(e.jobs[j].recs[i])]])

(* Inv_C08_OneOwner: every sited serial molecule is written by exactly the job whose bin contains its site *)
OwnerVerdict(e) ==
    LET JK == JobKeys(e)
        S == { g \in Mols(e) : Sited(e, g) }
        MK == [g \in S |-> MKeys(e, g)]                 \* tables: computed once per event
        O == [g \in S |-> Owners(e, e.serial[g].sc, e.serial[g].s)]
        W == [g \in S |-> { j \in DOMAIN e.jobs : JK[j] \cap MK[g] # {} }]
        G == { g \in S : Cardinality(O[g]) = 1 }
        \* bases of a tiled contig that belong to no bin (only the repo's own tiler can do that to an in-scope run)
        U == { g \in S \ OutsideMols(e) : O[g] = {} /\ \E t \in RegionTasks(e) : t.c = e.serial[g].sc }
    IN IF U # {} THEN "Inv_C08_OneOwner_site_in_no_bin"
       ELSE IF \A g \in G : W[g] = O[g] THEN "ok"
       ELSE IF \E g \in G : W[g] = {} THEN "Inv_C08_OneOwner_unwritten"
       ELSE IF \E g \in G : ~(W[g] \subseteq O[g]) /\ O[g] \subseteq W[g] THEN "Inv_C08_OneOwner_also_foreign_job"
       ELSE "Inv_C08_OneOwner_wrong_job"

(* Inv_C08_Complete: the owner wrote every record of the molecule once, as one molecule (one ix) *)
(* (evaluated job by job with the job's key set bound once: TLC re-evaluates function-valued LETs on every application) *)
CompleteVerdict(e) ==
    LET S == { g \in Mols(e) : Sited(e, g) }
        own(g) == Owners(e, e.serial[g].sc, e.serial[g].s)
        G == { g \in S : Cardinality(own(g)) = 1 }
        BadRecords(j) ==
            LET recs == e.jobs[j].recs
                ks == { Key(recs[i]) : i \in DOMAIN recs }
                dupfree == Cardinality(ks) = Len(recs)
            IN \E g \in { x \in G : own(x) = {j} } :
                  LET mk == MKeys(e, g) IN
                  \/ ~(mk \subseteq ks)
                  \/ (~dupfree /\ \E k \in mk : Cardinality({ i \in DOMAIN recs : Key(recs[i]) = k }) # 1)
        Split(j) ==
            LET ki == { <<Key(r), r.ix>> : r \in Rng(e.jobs[j].recs) }
            IN \E g \in { x \in G : own(x) = {j} } :
                  LET mk == MKeys(e, g) IN Cardinality({ p[2] : p \in { x \in ki : x[1] \in mk } }) > 1
    IN IF \E j \in DOMAIN e.jobs : BadRecords(j) THEN "Inv_C08_Complete_records"
       ELSE IF \E j \in DOMAIN e.jobs : Split(j) THEN "Inv_C08_Complete_split"
       ELSE "ok"

(* Inv_C08_Equal: the output is, as a bag of (name, mate, flag, contig, pos, tags \ {mi, ix}), the serial output *)
EqualVerdict(e) ==
    LET skip == SkipKeys(e)
        want == { Proj(r) : r \in { x \in UNION { MRecs(e, g) : g \in Mols(e) } : Key(x) \notin skip } }
        out == Output(e)
        got == { i \in DOMAIN out : KeyOfProj(out[i]) \notin skip }
        gotset == { out[i] : i \in got }
        wantkeys == { KeyOfProj(w) : w \in want }
        gotkeys == { KeyOfProj(x) : x \in gotset }
        nosite == UNION { MKeys(e, g) : g \in NoSiteMols(e) }
    IN IF Cardinality(gotset) = Cardinality(got) /\ gotset = want THEN "ok"
       ELSE IF (wantkeys \ gotkeys) \cap nosite # {} THEN "Inv_C08_Equal_missing_molecule_without_site"
       ELSE IF wantkeys \ gotkeys # {} THEN "Inv_C08_Equal_missing"
       \* some (name, mate) of the serial output occurs more than once in the output
       ELSE IF Cardinality({ i \in got : KeyOfProj(out[i]) \in wantkeys }) > Cardinality(wantkeys) THEN "Inv_C08_Equal_duplicated"
       ELSE IF want \ gotset # {} THEN "Inv_C08_Equal_changed"
       ELSE "Inv_C08_Equal_extra"

Judged(e) ==
    LET ov == OwnerVerdict(e) IN
    IF ov # "ok" THEN ov
    ELSE LET cv == CompleteVerdict(e) IN
         IF cv # "ok" THEN cv ELSE EqualVerdict(e)

(* sc = InScope(e), computed once per event in TNext (the extents of all fragments are behind it) *)
Verdict(e, sc) ==
    IF e.ev # "run" THEN "unknown_event"
    ELSE IF ~sc THEN "ok"                               \* outside the statement's precondition: observation only
    ELSE IF e.raised # "" THEN "Inv_C08_raised"
    ELSE Judged(e)

(* informational observations *)
Notes(i, e, v, sc) ==
    LET tok == TilingOK(e) /\ WindowsOK(e)
        mok == sc IN
    /\ IF ByRequest(e) /\ ~mok THEN Note(i, e.tid, "precondition_not_met_requested_fragment_size") ELSE TRUE
    /\ IF ByRequest(e) /\ mok /\ ~(tok /\ MarginOK(e)) THEN Note(i, e.tid, "api_tiler_windows_below_request") ELSE TRUE
    /\ IF ~ByRequest(e) /\ ~TilingOK(e) THEN Note(i, e.tid, "precondition_not_met_tiling") ELSE TRUE
    /\ IF ~ByRequest(e) /\ TilingOK(e) /\ ~WindowsOK(e) THEN Note(i, e.tid, "precondition_not_met_window_outside_contig") ELSE TRUE
    /\ IF ~ByRequest(e) /\ tok /\ ~mok THEN Note(i, e.tid, "precondition_not_met_margin") ELSE TRUE
    /\ IF ~mok /\ e.raised = "" /\ Judged(e) # "ok" THEN Note(i, e.tid, "differs_outside_precondition") ELSE TRUE
    /\ IF NoSiteMols(e) # {} THEN Note(i, e.tid, "no_site_molecule") ELSE TRUE
    /\ IF mok /\ OutsideMols(e) # {} THEN Note(i, e.tid, "site_outside_every_bin") ELSE TRUE
    /\ IF Has(e, "pred")
       THEN (IF e.wrote = e.pred THEN Note(i, e.tid, "as_coded_model_predicts_jobs")
             ELSE IF v = "ok" THEN Note(i, e.tid, "design_model_predicts_jobs")
             ELSE Note(i, e.tid, "model_divergence"))
       ELSE TRUE

TInit == l = 1
TNext == l <= Len(Log) /\ LET sc == InScope(Log[l])
                            v == Verdict(Log[l], sc)
                        IN Judge(l, v) /\ Notes(l, Log[l], v, sc) /\ l' = l + 1
TAccepted == TLCGet("stats").diameter - 1 = Len(Log)
=====================================================================================================
