------------------------------------- MODULE Trace_Ownership -------------------------------------
(* C08 - observations of the real tagger (one serial pass vs. a set of jobs) judged by the P-level      *)
(* definitions of Ownership.tla, re-stated over raw observations:                                       *)
(*   {"ev":"run","tid","mode","method","contigs":[len,..],                                               *)
(*    "serial":[{"q","m","f","c","p","e","t","g","s","sc"}],   one per record of the serial output;       *)
(*                        q name, m mate, f flag, c contig id, p start, e end, t tags (mi, ix removed),   *)
(*                        g ordinal of the serial molecule, s / sc its cut site (-1: none)                *)
(*    "jobs":[{"tasks":[{"c","s","e","fs","fe"}],"recs":[{"q","m","f","c","p","t","ix"}]}],              *)
(*                        task: c = -1 the '*' job; s = -1 whole contig (contig-per-process)              *)
(*    "merged":[{"q","m","f","c","p","t"}]  the merged output (empty: the union of the jobs is the output) *)
(*    "raised": exception type of the parallel run or "",  "pred"/"wrote": scenario replays only}        *)
(* Nothing computed by the driver is trusted: owners, writers, extents, margins and the bag comparison   *)
(* are all recomputed here.                                                                              *)
EXTENDS TraceLib, Util

VARIABLE l

Rng(q) == { q[i] : i \in DOMAIN q }
Key(r) == <<r.q, r.m>>
Proj(r) == <<r.q, r.m, r.f, r.c, r.p, r.t>>

(* ---- tasks ---- *)
AllTasks(e) == UNION { Rng(e.jobs[j].tasks) : j \in DOMAIN e.jobs }
RegionTasks(e) == { t \in AllTasks(e) : t.c >= 0 /\ t.s >= 0 }
CLen(e, c) == e.contigs[c + 1]
Owns(t, c, s) == t.c = c /\ (t.s = -1 \/ (t.s <= s /\ s < t.e))
Owners(e, c, s) == { j \in DOMAIN e.jobs : \E t \in Rng(e.jobs[j].tasks) : Owns(t, c, s) }

(* the region tasks of every tiled contig partition [0, len) *)
TilingOK(e) ==
    \A c \in { t.c : t \in RegionTasks(e) } :
        LET T == { t \in RegionTasks(e) : t.c = c } IN
        /\ \A t \in T : t.s < t.e
        /\ \A x \in T : x.s = 0 \/ \E y \in T : y.e = x.s
        /\ \E x \in T : x.e = CLen(e, c)
        /\ \A x, y \in T : (x.s < y.e /\ y.s < x.e) => x = y
        /\ Cardinality(T) = Cardinality({ <<t.s, t.e>> : t \in T })

(* ---- serial molecules / fragments ---- *)
Mols(e) == { r.g : r \in Rng(e.serial) }
MolRecs(e, g) == { r \in Rng(e.serial) : r.g = g }
Placed(e, g) == \E r \in MolRecs(e, g) : r.c >= 0
Sited(e, g) == \A r \in MolRecs(e, g) : r.s >= 0 /\ r.sc >= 0
SiteOf(e, g) == (CHOOSE r \in MolRecs(e, g) : TRUE).s
SiteContig(e, g) == (CHOOSE r \in MolRecs(e, g) : TRUE).sc
(* placed molecules without any site location: the code's `continue` arm; outside "the bin that contains its cut site" *)
NoSiteMols(e) == { g \in Mols(e) : Placed(e, g) /\ ~Sited(e, g) }
NoSiteKeys(e) == { Key(r) : r \in { x \in Rng(e.serial) : x.g \in NoSiteMols(e) } }

(* sited molecules of a tiled contig whose site lies in no bin at all (outside [0, len)): no job can be "the one whose bin *)
(* contains its cut site"; observation only *)
OutsideMols(e) == { g \in Mols(e) : /\ Sited(e, g) /\ \E t \in RegionTasks(e) : t.c = SiteContig(e, g)
                                    /\ Owners(e, SiteContig(e, g), SiteOf(e, g)) = {} }
SkipKeys(e) == NoSiteKeys(e) \cup { Key(r) : r \in { x \in Rng(e.serial) : x.g \in OutsideMols(e) } }

(* extent of a fragment = cells covered by its reads and its cut site; "one fragment length" of the statement *)
FragExt(e, q) ==
    LET R == { r \in Rng(e.serial) : r.q = q /\ r.c >= 0 }
        lo == MinOf({ r.p : r \in R } \cup { r.s : r \in { x \in R : x.s >= 0 /\ x.sc = x.c } })
        hi == MaxOf({ r.e : r \in R } \cup { r.s + 1 : r \in { x \in R : x.s >= 0 /\ x.sc = x.c } })
    IN hi - lo
MaxExt(e, c) ==
    LET Q == { r.q : r \in { x \in Rng(e.serial) : x.c = c } } IN
    IF Q = {} THEN 0 ELSE MaxOf({ FragExt(e, q) : q \in Q })
MarginOK(e) ==
    LET mx == [c \in 0 .. (Len(e.contigs) - 1) |-> MaxExt(e, c)] IN
    \A t \in RegionTasks(e) :
        /\ t.fs <= t.s /\ t.e <= t.fe
        /\ (t.s - t.fs >= mx[t.c] \/ t.fs <= 0)
        /\ (t.fe - t.e >= mx[t.c] \/ t.fe >= CLen(e, t.c))

(* ---- what was written ---- *)
JobRecs(e, j) == Rng(e.jobs[j].recs)
Writers(e, K) == { j \in DOMAIN e.jobs : \E r \in JobRecs(e, j) : Key(r) \in K }
Output(e) == IF Len(e.merged) > 0 THEN [i \in DOMAIN e.merged |-> Proj(e.merged[i])]
             ELSE FlattenSeq([j \in DOMAIN e.jobs |-> [i \in DOMAIN e.jobs[j].recs |-> Proj(e.jobs[j].recs[i])]])
KeyOfProj(x) == <<x[1], x[2]>>

(* sited serial molecules: owner jobs (by cut site) and writer jobs (by records) *)
SitedMols(e) == { g \in Mols(e) : Sited(e, g) }
OwnTab(e) == [g \in SitedMols(e) |-> Owners(e, SiteContig(e, g), SiteOf(e, g))]
WriTab(e) == [g \in SitedMols(e) |-> Writers(e, { Key(r) : r \in MolRecs(e, g) })]

OwnerVerdict(e) ==
    LET O == OwnTab(e)
        W == WriTab(e)
        G == { g \in SitedMols(e) : Cardinality(O[g]) = 1 }
    IN IF \E g \in G : W[g] = {} THEN "Inv_C08_OneOwner_unwritten"
       ELSE IF \E g \in G : ~(W[g] \subseteq O[g]) /\ O[g] \subseteq W[g] THEN "Inv_C08_OneOwner_also_foreign_job"
       ELSE IF \E g \in G : W[g] # O[g] THEN "Inv_C08_OneOwner_wrong_job"
       ELSE "ok"

CompleteVerdict(e) ==
    LET O == OwnTab(e)
        G == { g \in SitedMols(e) : Cardinality(O[g]) = 1 }
        Own == [g \in G |-> CHOOSE j \in O[g] : TRUE]
        Mine == [g \in G |-> { i \in DOMAIN e.jobs[Own[g]].recs :
                                 Key(e.jobs[Own[g]].recs[i]) \in { Key(r) : r \in MolRecs(e, g) } }]
    IN IF \E g \in G : \E r \in MolRecs(e, g) :
              Cardinality({ i \in Mine[g] : Key(e.jobs[Own[g]].recs[i]) = Key(r) }) # 1 THEN "Inv_C08_Complete_records"
       ELSE IF \E g \in G : Cardinality({ e.jobs[Own[g]].recs[i].ix : i \in Mine[g] }) > 1 THEN "Inv_C08_Complete_split"
       ELSE "ok"

EqualVerdict(e) ==
    LET skip == SkipKeys(e)
        want == { Proj(r) : r \in { x \in Rng(e.serial) : Key(x) \notin skip } }
        out == Output(e)
        got == { i \in DOMAIN out : KeyOfProj(out[i]) \notin skip }
        N(w) == Cardinality({ i \in got : out[i] = w })
        NK(k) == Cardinality({ i \in got : KeyOfProj(out[i]) = k })
    IN IF \E w \in want : NK(KeyOfProj(w)) = 0 THEN "Inv_C08_Equal_missing"
       ELSE IF \E w \in want : NK(KeyOfProj(w)) > 1 THEN "Inv_C08_Equal_duplicated"
       ELSE IF \E w \in want : N(w) # 1 THEN "Inv_C08_Equal_changed"
       ELSE IF \E i \in got : out[i] \notin want THEN "Inv_C08_Equal_extra"
       ELSE "ok"

InScope(e) == TilingOK(e) /\ MarginOK(e)

Judged(e) ==
    LET ov == OwnerVerdict(e) IN
    IF ov # "ok" THEN ov
    ELSE LET cv == CompleteVerdict(e) IN
         IF cv # "ok" THEN cv ELSE EqualVerdict(e)

Verdict(e) ==
    IF e.ev # "run" THEN "unknown_event"
    ELSE IF ~InScope(e) THEN "ok"                       \* outside the statement's precondition: observation only
    ELSE IF e.raised # "" THEN "Inv_C08_raised"
    ELSE Judged(e)

(* informational observations *)
Notes(i, e, v) ==
    LET tok == TilingOK(e)
        mok == tok /\ MarginOK(e) IN
    /\ IF ~tok THEN Note(i, e.tid, "precondition_not_met_tiling") ELSE TRUE
    /\ IF tok /\ ~mok THEN Note(i, e.tid, "precondition_not_met_margin") ELSE TRUE
    /\ IF ~mok /\ e.raised = "" /\ Judged(e) # "ok" THEN Note(i, e.tid, "differs_outside_precondition") ELSE TRUE
    /\ IF NoSiteMols(e) # {} THEN Note(i, e.tid, "no_site_molecule") ELSE TRUE
    /\ IF mok /\ OutsideMols(e) # {} THEN Note(i, e.tid, "site_outside_every_bin") ELSE TRUE
    /\ IF Has(e, "pred")
       THEN (IF e.wrote = e.pred THEN Note(i, e.tid, "as_coded_model_predicts_jobs")
             ELSE IF v = "ok" THEN Note(i, e.tid, "design_model_predicts_jobs")
             ELSE Note(i, e.tid, "model_divergence"))
       ELSE TRUE

TInit == l = 1
TNext == l <= Len(Log) /\ LET v == Verdict(Log[l]) IN Judge(l, v) /\ Notes(l, Log[l], v) /\ l' = l + 1
TAccepted == TLCGet("stats").diameter - 1 = Len(Log)
=====================================================================================================
