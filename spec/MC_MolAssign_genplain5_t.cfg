INIT Init
NEXT Next
CONSTANTS
  Kind = "plain"
  HD = 0
  Radius = 0
  Cap = 0
  CacheSize = 6
  ReadLens = {9}
  Cells = {1}
  Contigs = {1}
  Strands = {0}
  Sites = {0,2}
  Lens = {1, 3}
  Umis = {0, 1, 6}
  Valids = {TRUE}
  MaxFrags = 5
  Scheds = {0}
  Poolings = {0}
  Variant = "design"
INVARIANT Inv_Conservation
CONSTRAINT Emit
CHECK_DEADLOCK FALSE
