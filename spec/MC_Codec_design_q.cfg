INIT Init
NEXT Next
CONSTANTS
  ValChars = {97, 49, 45, 95}
  MaxLy = 2
  QChars = {33, 84, 85, 126}
  MaxUmi = 2
  Indexes = {"single", "dual", "empty"}
  Limit = 60
  Shapes = {"r", "rr", "rn", "nr"}
  RequireSafe = TRUE
  Variant = "design"
INVARIANT Inv_C04_QTotal
INVARIANT Inv_C04_Refuse
INVARIANT Inv_C04_NoRaise
INVARIANT Inv_C04_RoundTrip
CHECK_DEADLOCK FALSE
