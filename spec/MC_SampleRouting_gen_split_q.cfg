INIT Init
NEXT Next
CONSTANTS
  SampleNames = {"a", "b"}
  NoSM = TRUE
  AsgSamples = {"a", "b"}
  GroupNames = {"g", "h"}
  MaxRecs = 2
  MaxGroups = 2
  MaxPerGroup = 2
  HeadMax = 2
  WRGs = {TRUE, FALSE}
  Prefix = "P_"
  StemWithBam = FALSE
  Mode = "split"
  MaxLines = 2
  Variant = "design"
  NoCols = {TRUE, FALSE}
  AddChrs = {TRUE, FALSE}
  DupFlags = {TRUE, FALSE}
  LowQFlags = {FALSE}
  PosMax = 2
  MapqReading = "ignored"
CONSTRAINT Emit
CHECK_DEADLOCK FALSE
