INIT Init
NEXT Next
CONSTANTS
  Variant = "design"
  LenA = 8
  LenB = 3
  BinSizes = {2, 3}
  Bpjs = {1, 4}
  Mfss = {0, 2}
  KindSet = {"good", "unpaired"}
  KwargsSet = {"empty"}
  UseKeySet = {FALSE}
  NFiles = 1
  MaxRecs = 1
  Threads = 1
CONSTRAINT Emit
CHECK_DEADLOCK FALSE
