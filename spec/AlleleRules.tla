--------------------------------------- MODULE AlleleRules ---------------------------------------
(* C18 - what an allele lookup must answer, as a function of the VCF record at the position.     *)
(* Pure operators (no state) shared by Alleles.tla (model) and Trace_Alleles.tla (judgement of   *)
(* recorded executions).                                                                         *)
(*   site = [ref |-> "C", alts |-> <<"T", ...>>, gt |-> [sample |-> <<allele, ...>>]]            *)
(*          alleles are the strings pysam reports (sampleData.alleles), "." = missing (None)     *)
(*   sel  = [explicit |-> BOOLEAN, s |-> set of sample names]  (select_samples; explicit = FALSE: None) *)
(*   ign  = set of <<ref, alt>> (ignore_conversions; {} = None)                                  *)
(* P-level: Class / AnswerOK.  Reading of the statement (sample-centric): a site is judged by the  *)
(* genotypes of the SELECTED samples only - "returns exactly the selected samples whose genotype  *)
(* at that single-nucleotide site contains the base".  If every allele the selected samples carry *)
(* is a single nucleotide, the site is informative for them (two distinct bases, or a missing     *)
(* genotype next to a called one) and no CARRIED conversion ref>base is ignored, the carriers     *)
(* must be returned ("store"); alleles merely listed in REF/ALT, or carried only by samples that  *)
(* are not selected, do not matter.  One corner stays open ("either": nothing or the carriers,   *)
(* but the same in every loading mode): a selected sample carries a multi-base allele while a     *)
(* missing genotype is present (the code's `monomorphic` flag resets `bad`).                      *)
(* D-level: StoreCode is the decision procedure of fetchChromosome (alleleTools.py:256-303) with *)
(* its flags used/bad/monomorphic in the order of the code.                                      *)
EXTENDS Integers, FiniteSets, Sequences, Util

Bases == {"A", "C", "G", "T"}
Missing == "."

SelSamples(site, sel) == IF sel.explicit THEN sel.s \cap DOMAIN site.gt ELSE DOMAIN site.gt
AllelesOf(site, s)    == SeqSet(site.gt[s])
Called(site, s)       == AllelesOf(site, s) \cap Bases
Carriers(site, sel, b) == { s \in SelSamples(site, sel) : b \in Called(site, s) }
CalledBases(site, sel) == { b \in Bases : Carriers(site, sel, b) # {} }
Mono(site, sel)  == \E s \in SelSamples(site, sel) : Missing \in AllelesOf(site, s)
Multi(site, sel) == \E s \in SelSamples(site, sel) : AllelesOf(site, s) \ (Bases \cup {Missing}) # {}
IgnCalled(site, sel, ign) == \E b \in CalledBases(site, sel) : <<site.ref, b>> \in ign
(* single-character alleles that are not nucleotides (spanning deletion '*', unknown base 'N'): the code treats them  *)
(* as bases, the statement says nothing about them: a site where a selected sample carries one is "either"         *)
Odd == {"*", "N"}
OddCarried(site, sel) == \E s \in SelSamples(site, sel) : AllelesOf(site, s) \cap Odd # {}
IgnAny(site, ign) == \E a \in SeqSet(site.alts) : <<site.ref, a>> \in ign
NonSNVRecord(site) == site.ref \notin Bases \/ \E a \in SeqSet(site.alts) : a \notin Bases

(* P-level classification of a site for a configuration *)
Class(site, sel, ign) ==
    LET cb == CalledBases(site, sel) IN
    IF OddCarried(site, sel) THEN "either"
    ELSE IF cb = {} THEN "drop"                                                \* nobody selected carries a single base
    ELSE IF ~Mono(site, sel) /\ (Multi(site, sel) \/ Cardinality(cb) < 2) THEN "drop"   \* not a SNV site / uninformative
    ELSE IF IgnCalled(site, sel, ign) THEN "drop"                              \* involves an ignored conversion
    ELSE IF Mono(site, sel) /\ Multi(site, sel) THEN "either"
    ELSE "store"

(* is `ans` (set of samples, {} = None) an admissible answer of getAllelesAt(.., b) at this site? *)
AnswerOK(site, sel, ign, b, ans) ==
    LET cl == Class(site, sel, ign) IN
    CASE cl = "drop"   -> ans = {}
      [] cl = "store"  -> ans = Carriers(site, sel, b)
      [] cl = "either" -> ans = {} \/ ans = Carriers(site, sel, b)
HasLocOK(site, sel, ign, ans) ==
    LET cl == Class(site, sel, ign) IN
    CASE cl = "drop" -> ans = FALSE [] cl = "store" -> ans = TRUE [] cl = "either" -> TRUE

---------------------------------------------------------------------------------------------------
(* Unphased genotypes (phased = FALSE): the resolver does not look at the samples; the alleles of  *)
(* the record get the letters U, V, W, X, Y, Z in the order REF, ALT1, ALT2, ... and a lookup of   *)
(* base b answers the letter of the allele equal to b.  P-level reading:                           *)
(*   - a record with a multi-base REF is not a single-nucleotide site under any reading: drop;     *)
(*   - an ignored conversion REF>ALT for a listed single-base ALT: drop (all listed alleles count  *)
(*     as present, no genotype is consulted);                                                      *)
(*   - a listed multi-base ALT next to single-base alleles, or a record without any ALT, is not    *)
(*     determined by the statement: either (nothing, or the letters);                              *)
(*   - otherwise: store.                                                                           *)
AllelesOfRecord(site) == <<site.ref>> \o site.alts
Letters == <<"U", "V", "W", "X", "Y", "Z">>
ULetters(site, b) == { Letters[i] : i \in { k \in DOMAIN AllelesOfRecord(site) : k <= 6 /\ AllelesOfRecord(site)[k] = b } }
UIgn(site, ign) == \E a \in SeqSet(site.alts) \cap Bases : <<site.ref, a>> \in ign
UClass(site, ign) ==
    IF site.ref \in Odd THEN "either"
    ELSE IF site.ref \notin Bases THEN "drop"
    ELSE IF UIgn(site, ign) THEN "drop"
    ELSE IF site.alts = <<>> \/ \E a \in SeqSet(site.alts) : a \notin Bases THEN "either"
    ELSE "store"
UAnswerOK(site, ign, b, ans) ==
    LET cl == UClass(site, ign) IN
    CASE cl = "drop" -> ans = {} [] cl = "store" -> ans = ULetters(site, b) [] cl = "either" -> ans = {} \/ ans = ULetters(site, b)
UHasLocOK(site, ign, ans) ==
    LET cl == UClass(site, ign) IN
    CASE cl = "drop" -> ans = FALSE [] cl = "store" -> ans = TRUE [] cl = "either" -> TRUE
(* D-level: the unphased branch of fetchChromosome (l.296-303): every allele of the record single-base *)
UStoreCode(site, ign) ==
    /\ \A a \in SeqSet(AllelesOfRecord(site)) : a \in Bases
    /\ ~\E a \in SeqSet(AllelesOfRecord(site)) : <<site.ref, a>> \in ign
(* mutation control (seeded change C18-r2m4): only the ALT alleles are tested *)
UStoreCodeAltsOnly(site, ign) ==
    /\ \A a \in SeqSet(site.alts) : a \in Bases
    /\ ~\E a \in SeqSet(AllelesOfRecord(site)) : <<site.ref, a>> \in ign

---------------------------------------------------------------------------------------------------
(* D-level: the code's decision for phased genotypes, flag by flag *)
StoreCode(site, sel, ign) ==
    LET cb       == CalledBases(site, sel)
        used     == cb # {}
        assigned == { s \in SelSamples(site, sel) : Called(site, s) # {} }
        bad0 == Multi(site, sel)
        bad1 == IF sel.explicit /\ used /\ Cardinality(assigned) # Cardinality(sel.s) THEN TRUE ELSE bad0
        bad2 == IF Mono(site, sel) /\ cb # {} THEN FALSE ELSE IF Cardinality(cb) < 2 THEN TRUE ELSE bad1
        bad3 == IF ~bad2 THEN IgnCalled(site, sel, ign) ELSE bad2
    IN used /\ ~bad3

(* mutation controls (seeded changes C18-m1, C18-m4): record-centric variants of the procedure *)
StoreCodeIgnListed(site, sel, ign) ==       \* ignored conversions tested against the LISTED alts
    LET cb == CalledBases(site, sel)
        bad2 == IF Mono(site, sel) /\ cb # {} THEN FALSE ELSE IF Cardinality(cb) < 2 THEN TRUE ELSE Multi(site, sel)
    IN cb # {} /\ ~bad2 /\ ~IgnAny(site, ign)
StoreCodeRecordSNV(site, sel, ign) ==       \* a multi-base allele anywhere in the record spoils the site
    LET cb == CalledBases(site, sel)
        bad2 == IF Mono(site, sel) /\ cb # {} THEN FALSE ELSE IF Cardinality(cb) < 2 THEN TRUE ELSE NonSNVRecord(site)
    IN cb # {} /\ ~(IF ~bad2 THEN IgnCalled(site, sel, ign) ELSE bad2)
=================================================================================================
