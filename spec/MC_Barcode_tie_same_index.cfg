INIT Init
NEXT Next
CONSTANTS
  A = 4
  L = 2
  MaxLines = 2
  Ks = {1, 2}
  Fmts = {"bc_idx"}
  NFiles = {1}
  Lazy = {"none"}
  ProbeMax = 5
  Touches = {"lookup", "getitem"}
  Variant = "tie_same_index"
INVARIANT TypeOK
INVARIANT Inv_C03_Nearest
INVARIANT Inv_C03_Exact
INVARIANT Inv_C03_NoTieAssigned
INVARIANT Inv_C03_Lookup
INVARIANT Inv_C03_Parse
CHECK_DEADLOCK FALSE
