------------------------------------ MODULE MolAssignProps ------------------------------------
(* P-level of C06 / C07: the properties' own definitions, no algorithm, no constants, no state.  *)
(* Shared verbatim by the design model (MolAssign.tla, which applies them to its state) and by   *)
(* the trace spec (Trace_MolAssign.tla, which applies them to observations of the real code).    *)
(*                                                                                               *)
(* A fragment is a record  [cell, contig, strand, site, start, end, umi, valid]                  *)
(*   strand 0 = forward, 1 = reverse; umi = sequence of letters A=0 C=1 G=2 T=3 N=4; [start,end) = span *)
(* F is the input sequence of fragments (index = fragment id); a group is a set / sequence of    *)
(* indices into F.                                                                               *)
EXTENDS Integers, Sequences, FiniteSets, Util

---------------------------------------------------------------------------------------------------
(* relations between two fragments *)

(* UMI letters are small integers, NLetter = "N" (unknown base).  The code base counts a position as a     *)
(* mismatch only when both letters are known (utils/sequtils.hamming_distance); with distance 0 the      *)
(* UMIs have to be identical strings.  This is the most permissive reading of "within the allowed        *)
(* Hamming distance" for UMIs containing N and the one used here.                                        *)
NLetter == 4
HammingN(a, b) == Cardinality({ i \in DOMAIN a : a[i] # b[i] /\ a[i] # NLetter /\ b[i] # NLetter })
UmiClose(hd, a, b) == a = b \/ (hd > 0 /\ Len(a) = Len(b) /\ HammingN(a, b) <= hd)

(* "same cut site within the assignment radius".  nla: the site hash is exact whatever the radius; *)
(* chic: distance of the cut sites; plain fragments have no cut site: the code's documented      *)
(* relation is "start or end within the radius" (Fragment.__eq__).                               *)
SiteClose(kind, radius, f, g) ==
    /\ f.contig = g.contig
    /\ CASE kind = "nla"   -> f.site = g.site
         [] kind = "chic"  -> Abs(f.site - g.site) <= radius
         [] kind = "plain" -> (Abs(f.start - g.start) <= radius \/ Abs(f["end"] - g["end"]) <= radius)

SameClass(f, g) == /\ f.cell = g.cell /\ f.contig = g.contig /\ f.strand = g.strand
                   /\ f.site = g.site /\ f.umi = g.umi

(* connectedness of the finite set S under the symmetric relation R *)
Connected(S, R(_, _)) ==
    IF S = {} THEN TRUE
    ELSE LET x0 == CHOOSE x \in S : TRUE
             G[k \in 0 .. Cardinality(S)] ==
                 IF k = 0 THEN {x0}
                 ELSE LET prev == G[k - 1]      \* bound once: TLC does not memoise recursive function calls
                      IN prev \cup { y \in S \ prev : \E x \in prev : R(x, y) \/ R(y, x) }
         IN G[Cardinality(S)] = S

---------------------------------------------------------------------------------------------------
(* C06, per molecule (ids = set of fragment indices) *)

(* fragments of one molecule share cell and strand (and contig), and their cut sites hang        *)
(* together within the radius (most permissive reading: single linkage)                          *)
Homogeneous(kind, radius, F, ids) ==
    /\ \A i, j \in ids : F[i].cell = F[j].cell /\ F[i].strand = F[j].strand /\ F[i].contig = F[j].contig
    /\ LET R(i, j) == SiteClose(kind, radius, F[i], F[j]) IN Connected(ids, R)

(* ... and are linked by UMIs within the allowed Hamming distance (single linkage; hd = 0: equal) *)
Linked(hd, F, ids) == LET R(i, j) == UmiClose(hd, F[i].umi, F[j].umi) IN Connected(ids, R)

OnlyValid(F, ids) == \A i \in ids : F[i].valid

(* C06, whole partition: with distance 0 (and radius 0) the molecules are exactly the classes of  *)
(* identical (cell, site, strand, UMI).  groups = set of sets of indices, V = the valid indices   *)
(* that take part (overflow-rejected fragments are handed in separately by the caller).          *)
Classes(F, V) == { { j \in V : SameClass(F[i], F[j]) } : i \in V }
Exact(F, V, groups) == groups = Classes(F, V)

(* The same for a Hamming distance > 0, wherever the ground truth is unambiguous: when "UMI within the     *)
(* distance" is transitive on the UMIs seen at one (cell, contig, strand, site) - so that it is an        *)
(* equivalence there - the fragments of that site are grouped exactly by it.  (With a non-transitive      *)
(* constellation, e.g. AA-AC-CC at distance 1, the statement does not say which chain members belong       *)
(* together and nothing is demanded.)  For hd = 0 this is Exact.                                          *)
SameSite(f, g) == f.cell = g.cell /\ f.contig = g.contig /\ f.strand = g.strand /\ f.site = g.site
ExactHD(hd, F, V, groups) ==
    LET SC(i) == { j \in V : SameSite(F[i], F[j]) }
        leaders == { i \in V : \A j \in SC(i) : i <= j }
        Us(i) == { F[j].umi : j \in SC(i) }
        Transitive(U) == \A a, b, c \in U : (UmiClose(hd, a, b) /\ UmiClose(hd, b, c)) => UmiClose(hd, a, c)
        Together(i, j) == \E g \in groups : i \in g /\ j \in g
    IN \A l \in leaders : Transitive(Us(l)) =>
           \A i, j \in SC(l) : Together(i, j) <=> UmiClose(hd, F[i].umi, F[j].umi)

(* tags: recs = sequence of [dup, rc, af, tf] of the fragments of one molecule *)
OnePrimary(recs) == Cardinality({ k \in DOMAIN recs : ~recs[k].dup }) = 1
Counts(recs, overflow) ==
    /\ \A k \in DOMAIN recs : recs[k].af = Len(recs) /\ recs[k].tf = Len(recs) + overflow
    /\ { recs[k].rc : k \in DOMAIN recs } = 0 .. (Len(recs) - 1)
DupBag(recs) == Cardinality({ k \in DOMAIN recs : recs[k].dup })

---------------------------------------------------------------------------------------------------
(* C07.  emits = sequence of [ids (sequence of indices), at (number of input fragments consumed  *)
(* when the molecule was handed out)]                                                            *)

GroupsOf(emits) == { SeqSet(emits[k].ids) : k \in DOMAIN emits }

(* every valid fragment is emitted exactly once, nothing else is emitted *)
ExactlyOnce(F, emits) ==
    LET V == { i \in DOMAIN F : F[i].valid }
        occ(i) == SumSeqF(emits, LAMBDA m : Cardinality({ k \in DOMAIN m.ids : m.ids[k] = i }))
    IN /\ \A k \in DOMAIN emits : \A x \in SeqSet(emits[k].ids) : x \in V
       /\ \A i \in V : occ(i) = 1

(* no molecule is emitted while a later fragment could still join it: a later fragment that is   *)
(* identical in (cell, contig, strand, site, UMI) to a member joins under every configuration    *)
(* (unless the molecule is full: `cap`, 0 = unlimited)                                           *)
NoPremature(F, emits, cap) ==
    \A k \in DOMAIN emits :
        (cap = 0 \/ Len(emits[k].ids) < cap) =>
            \A j \in (emits[k].at + 1) .. Len(F) :
                F[j].valid => \A i \in SeqSet(emits[k].ids) : ~SameClass(F[i], F[j])

(* Pooling methods and plain fragments.  Plain fragments are matched by "same start or same end"; pooling  *)
(* method 0 compares a candidate with every member, method 1 with the molecule's envelope (min start, max   *)
(* end).  Envelope match implies member match, so the two can only differ when method 0 lets a fragment     *)
(* join a molecule whose envelope at that moment it does not touch ("interior join", finding D61).  G0 =    *)
(* the groups method 0 produced (indices = arrival order).  Without an interior join both methods must      *)
(* give the same molecules (verified by TLC on the design model).                                          *)
PlainKey(f, g)  == f.cell = g.cell /\ f.contig = g.contig /\ f.strand = g.strand /\ f.umi = g.umi
PlainLink(f, g) == PlainKey(f, g) /\ (f.start = g.start \/ f["end"] = g["end"])
InteriorJoin(F, G0) ==
    \E g \in G0 : \E h \in g :
        LET prior == { i \in g : i < h } IN
        /\ prior # {}
        /\ F[h].start # MinOf({ F[i].start : i \in prior })
        /\ F[h]["end"] # MaxOf({ F[i]["end"] : i \in prior })

(* the precondition of C07 inside which the design (correct ejection) keeps the promise - see     *)
(* MolAssign.tla: MC_MolAssign_c07_* verify it, MC_MolAssign_beyond_* show it is tight.          *)
Span(f) == f["end"] - f.start
C07Region(F, radius, cache) == \A i \in DOMAIN F : 2 * (Span(F[i]) + radius) <= cache

(* release position of a fragment out of the mate-pair iterator: the start of its later mate     *)
Rel(f, readlen) == IF f.start >= f["end"] - readlen THEN f.start ELSE f["end"] - readlen
SortedInput(F, readlen) ==
    \A i \in DOMAIN F : i > 1 =>
        \/ F[i - 1].contig < F[i].contig
        \/ (F[i - 1].contig = F[i].contig /\ Rel(F[i - 1], readlen) <= Rel(F[i], readlen))
=================================================================================================
