INIT Init
NEXT Next
CONSTANTS
  MaxCoord = 16
  MaxBin = 6
  RefLen = 14
  MaxReads = 3
  Weights = {1, 2}
  Variant = "design"
INVARIANT Inv_C10_Membership
INVARIANT Inv_C10_Single
INVARIANT Inv_C10_Table
INVARIANT Inv_C10_Total
INVARIANT Inv_C10_NoDouble
CHECK_DEADLOCK FALSE
