----------------------------------------- MODULE Alleles -----------------------------------------
(* C18 - allele lookups agree with the VCF in every loading mode.                                *)
(* Subject: singlecellmultiomics/alleleTools/alleleTools.py (AlleleResolver).                    *)
(* A behaviour is a HISTORY: several resolver instances (runs) one after another over the same   *)
(* VCF and the same cache directory, each with its own flags (lazyLoad, use_cache) and           *)
(* configuration (select_samples, ignore_conversions), each answering lookups in any contig      *)
(* order.  Actions (one per side effect of the code):                                            *)
(*   StartRun        __init__: flag handling (l.82-89), eager load when not lazy (l.134-135)      *)
(*   Query           getAllelesAt / has_location is entered                                       *)
(*   NoFetch         `if self.lazyLoad and chrom not in self.locationToAllele` is false           *)
(*   FetchCacheHit   fetchChromosome(clear=True): cache file exists -> read_cached (l.215-228)    *)
(*   FetchVCF        clear, sentinel, read the contig from the VCF with the informative-site rule *)
(*   FetchAbsent     clear, sentinel, pysam raises ValueError('invalid contig')                   *)
(*   WriteCacheTmp / RenameCache    write_cache: <file>.unfinished, then os.rename (l.144-158)    *)
(*   Answer          the dictionary lookup that produces the return value                         *)
(*   EndRun / Crash  the instance goes away (Crash: at any point, e.g. between tmp and rename)    *)
(* Variant:                                                                                      *)
(*   "design"          self.lazyLoad reflects the use_cache override; has_location on a contig   *)
(*                     absent from the VCF is False; the cache key covers the whole configuration *)
(*   "impl_lazyflag"   (D13) self.lazyLoad is stored before `if use_cache: lazyLoad = True`:      *)
(*                     use_cache=True, lazyLoad=False never loads anything                       *)
(*   "impl_hasloc"     (D14) has_location returns True from the `invalid contig` handler          *)
(*   "mut_ign_listed" / "mut_record_snv"  mutation controls (seeded changes C18-m1 / C18-m4): the  *)
(*                     informative-site procedure looks at the alleles LISTED in the record       *)
(*   "mut_unphased_alts"  mutation control (seeded change C18-r2m4): the unphased branch tests     *)
(*                     only the ALT alleles for being single-base                                *)
(*   "impl_cachekey"   the cache file name is <contig>[_<samples>].tsv.gz: ignore_conversions and *)
(*                     phased are not part of it, a run with another setting reads a foreign table *)
EXTENDS AlleleRules, TLC, Json

CONSTANTS Contigs, AbsentContigs, NoCacheContigs, Positions, Samples,
          GTSet,       \* "tiny" | "small" | "full": menu of genotypes a sample can have at a site
          ConfigSet,   \* "one" | "ign" | "sel" | "all": configurations a run can have
          MaxRuns, MaxOps, Variant,
          Record       \* TRUE: keep the ghost `hist` (scenario generation for replay); FALSE: exhaustive checking

AllContigs == Contigs \cup AbsentContigs
GTMenu == IF GTSet = "tiny" THEN { <<"C", "C">>, <<"T", "T">> }
          ELSE IF GTSet = "small" THEN { <<"C", "C">>, <<"T", "T">>, <<".", ".">> }
          ELSE { <<"C", "C">>, <<"T", "T">>, <<".", ".">>, <<"C", "T">>, <<"T", "GT">>, <<"GT">> }
NoSite == [ref |-> "-", alts |-> <<>>, gt |-> [s \in Samples |-> <<>>]]
(* every record lists a multi-base ALT (GT) and a second SNV ALT (G) that may be carried by nobody *)
(* plus, in the full menu, pure SNV records (C>T and C>T,G) and a deletion record (REF = CA, ALT = C) *)
SnvGT == { <<"C", "C">>, <<"T", "T">>, <<"C", "T">> }
DelGT == { <<"C", "C">>, <<"CA", "CA">>, <<".", ".">> }
ExtraSites == IF GTSet # "full" THEN {}
              ELSE { [ref |-> "C", alts |-> a, gt |-> g] : a \in { <<"T">>, <<"T", "G">> }, g \in [Samples -> SnvGT] }
                   \cup { [ref |-> "CA", alts |-> <<"C">>, gt |-> g] : g \in [Samples -> DelGT] }
SiteMenu == { [ref |-> "C", alts |-> <<"T", "GT", "G">>, gt |-> g] : g \in [Samples -> GTMenu] } \cup ExtraSites \cup {NoSite}
SelAll == [explicit |-> FALSE, s |-> {}]
SelOne == [explicit |-> TRUE, s |-> {CHOOSE s \in Samples : TRUE}]
SelBoth == [explicit |-> TRUE, s |-> Samples]
(* ph = the constructor argument `phased` (TRUE: every sample is a haplotype; FALSE: allele letters U, V, ..) *)
Configs == CASE ConfigSet = "one" -> { [sel |-> SelAll, ign |-> {}, ph |-> TRUE] }
             [] ConfigSet = "ign" -> { [sel |-> SelAll, ign |-> {}, ph |-> TRUE], [sel |-> SelAll, ign |-> {<<"C", "T">>}, ph |-> TRUE] }
             [] ConfigSet = "sel" -> { [sel |-> SelAll, ign |-> {}, ph |-> TRUE], [sel |-> SelOne, ign |-> {}, ph |-> TRUE],
                                       [sel |-> SelBoth, ign |-> {}, ph |-> TRUE] }
             [] ConfigSet = "all" -> { [sel |-> x, ign |-> y, ph |-> TRUE] : x \in {SelAll, SelOne}, y \in {{}, {<<"C", "T">>}, {<<"C", "G">>}} }
             [] ConfigSet = "phase" -> { [sel |-> SelAll, ign |-> {}, ph |-> TRUE], [sel |-> SelAll, ign |-> {}, ph |-> FALSE],
                                         [sel |-> SelAll, ign |-> {<<"C", "T">>}, ph |-> FALSE] }
             [] ConfigSet = "allph" -> { [sel |-> x, ign |-> y, ph |-> z] : x \in {SelAll, SelOne}, y \in {{}, {<<"C", "T">>}, {<<"C", "G">>}},
                                                                           z \in BOOLEAN }
QBases == {"C", "T"}

VARIABLES vcf,      \* [Contigs -> [Positions -> SiteMenu]]
          run,      \* [on, lazy, cache, selfLazy]: the live instance; selfLazy is the attribute self.lazyLoad
          cfg,      \* configuration of the live instance
          loaded,   \* [AllContigs -> [in: BOOLEAN, tab]]: `in` = contig is a key of locationToAllele
          cache,    \* function: existing cache files (key -> table)
          pend,     \* the lookup being processed
          badTruth, \* ghost: some answer contradicted the VCF (P-level definition)
          badEq,    \* ghost: some answer differed from the eager answer for the same configuration
          nruns, nops,
          hist      \* ghost (Record only): the runs started and the lookups answered, with the design's answers
vars == <<vcf, run, cfg, loaded, cache, pend, badTruth, badEq, nruns, nops, hist>>

---------------------------------------------------------------------------------------------------
(* tables: sets of <<pos, base, samples>> *)
UStore(site, cf) == IF Variant = "mut_unphased_alts" THEN UStoreCodeAltsOnly(site, cf.ign) ELSE UStoreCode(site, cf.ign)
Store(site, cf) == CASE ~cf.ph -> UStore(site, cf)
                     [] Variant = "mut_ign_listed" -> StoreCodeIgnListed(site, cf.sel, cf.ign)
                     [] Variant = "mut_record_snv" -> StoreCodeRecordSNV(site, cf.sel, cf.ign)
                     [] OTHER -> StoreCode(site, cf.sel, cf.ign)
Answers(site, cf, b) == IF cf.ph THEN Carriers(site, cf.sel, b) ELSE ULetters(site, b)
TableOf(c, cf) == { <<p, b, Answers(vcf[c][p], cf, b)>> :
                        p \in { q \in Positions : vcf[c][q] # NoSite /\ Store(vcf[c][q], cf) },
                        b \in Bases } \ { <<p, b, {}>> : p \in Positions, b \in Bases }
LookupT(T, p, b) == IF \E t \in T : t[1] = p /\ t[2] = b THEN (CHOOSE t \in T : t[1] = p /\ t[2] = b)[3] ELSE {}
HasT(T, p) == \E t \in T : t[1] = p
NotLoaded == [in |-> FALSE, tab |-> {}]
Cacheable(c) == c \notin NoCacheContigs
Key(c, cf) == <<c, cf.sel, IF Variant = "impl_cachekey" THEN {} ELSE cf.ign, IF Variant = "impl_cachekey" THEN TRUE ELSE cf.ph>>
NoPend == [op |-> "none", c |-> "-", p |-> 0, b |-> "-", stage |-> "-", exc |-> FALSE]

Init == /\ vcf \in [Contigs -> [Positions -> SiteMenu]]
        /\ run = [on |-> FALSE, lazy |-> FALSE, cache |-> FALSE, selfLazy |-> FALSE]
        /\ cfg \in Configs
        /\ loaded = [c \in AllContigs |-> NotLoaded]
        /\ cache = << >>
        /\ pend = NoPend
        /\ badTruth = FALSE /\ badEq = FALSE
        /\ nruns = 0 /\ nops = 0 /\ hist = <<>>

StartRun(lazy, usecache, cf) ==
    /\ ~run.on /\ nruns < MaxRuns
    /\ run' = [on |-> TRUE, lazy |-> lazy, cache |-> usecache,
               selfLazy |-> IF Variant = "impl_lazyflag" THEN lazy ELSE lazy \/ usecache]
    /\ cfg' = cf
    /\ loaded' = IF lazy \/ usecache THEN [c \in AllContigs |-> NotLoaded]
                 ELSE [c \in AllContigs |-> IF c \in Contigs /\ TableOf(c, cf) # {}
                                            THEN [in |-> TRUE, tab |-> TableOf(c, cf)] ELSE NotLoaded]
    /\ nruns' = nruns + 1 /\ nops' = 0 /\ pend' = NoPend
    /\ hist' = IF Record THEN Append(hist, [ev |-> "start", lazy |-> lazy, cache |-> usecache, cfg |-> cf]) ELSE hist
    /\ UNCHANGED <<vcf, cache, badTruth, badEq>>

Query(op, c, p, b) ==
    /\ run.on /\ pend.op = "none" /\ nops < MaxOps
    /\ pend' = [op |-> op, c |-> c, p |-> p, b |-> b, stage |-> "new", exc |-> FALSE]
    /\ UNCHANGED <<vcf, run, cfg, loaded, cache, badTruth, badEq, nruns, nops, hist>>

FetchNeeded == run.selfLazy /\ ~loaded[pend.c].in
Cleared(c, entry) == [d \in AllContigs |-> IF d = c THEN entry ELSE NotLoaded]
UsesCache(c) == run.cache /\ Cacheable(c)

NoFetch == /\ pend.op # "none" /\ pend.stage = "new" /\ ~FetchNeeded
           /\ pend' = [pend EXCEPT !.stage = "ready"]
           /\ UNCHANGED <<vcf, run, cfg, loaded, cache, badTruth, badEq, nruns, nops, hist>>

FetchCacheHit ==
    /\ pend.op # "none" /\ pend.stage = "new" /\ FetchNeeded
    /\ UsesCache(pend.c) /\ Key(pend.c, cfg) \in DOMAIN cache
    /\ loaded' = Cleared(pend.c, [in |-> TRUE, tab |-> cache[Key(pend.c, cfg)]])
    /\ pend' = [pend EXCEPT !.stage = "ready"]
    /\ UNCHANGED <<vcf, run, cfg, cache, badTruth, badEq, nruns, nops, hist>>

FetchVCF ==
    /\ pend.op # "none" /\ pend.stage = "new" /\ FetchNeeded /\ pend.c \in Contigs
    /\ ~(UsesCache(pend.c) /\ Key(pend.c, cfg) \in DOMAIN cache)
    /\ loaded' = Cleared(pend.c, [in |-> TRUE, tab |-> TableOf(pend.c, cfg)])
    /\ pend' = [pend EXCEPT !.stage = IF UsesCache(pend.c) THEN "wtmp" ELSE "ready"]
    /\ UNCHANGED <<vcf, run, cfg, cache, badTruth, badEq, nruns, nops, hist>>

FetchAbsent ==      \* the sentinel entry is made before pysam raises: the contig counts as loaded afterwards
    /\ pend.op # "none" /\ pend.stage = "new" /\ FetchNeeded /\ pend.c \in AbsentContigs
    /\ ~(UsesCache(pend.c) /\ Key(pend.c, cfg) \in DOMAIN cache)
    /\ loaded' = Cleared(pend.c, [in |-> TRUE, tab |-> {}])
    /\ pend' = [pend EXCEPT !.stage = "ready", !.exc = TRUE]
    /\ UNCHANGED <<vcf, run, cfg, cache, badTruth, badEq, nruns, nops, hist>>

WriteCacheTmp == /\ pend.stage = "wtmp" /\ pend' = [pend EXCEPT !.stage = "wren"]
                 /\ UNCHANGED <<vcf, run, cfg, loaded, cache, badTruth, badEq, nruns, nops, hist>>
RenameCache ==   /\ pend.stage = "wren"
                 /\ cache' = (Key(pend.c, cfg) :> loaded[pend.c].tab) @@ cache
                 /\ pend' = [pend EXCEPT !.stage = "ready"]
                 /\ UNCHANGED <<vcf, run, cfg, loaded, badTruth, badEq, nruns, nops, hist>>

SiteAt(c, p) == IF c \in Contigs THEN vcf[c][p] ELSE NoSite
EagerTab(c, cf) == IF c \in Contigs THEN TableOf(c, cf) ELSE {}
(* P-level: the answer is what the VCF says (definition in AlleleRules) *)
TruthOK(q, ans, has) ==
    LET site == SiteAt(q.c, q.p) IN
    IF q.op = "get" THEN (IF site = NoSite THEN ans = {}
                          ELSE IF cfg.ph THEN AnswerOK(site, cfg.sel, cfg.ign, q.b, ans) ELSE UAnswerOK(site, cfg.ign, q.b, ans))
    ELSE (IF site = NoSite THEN has = FALSE
          ELSE IF cfg.ph THEN HasLocOK(site, cfg.sel, cfg.ign, has) ELSE UHasLocOK(site, cfg.ign, has))
(* ... and the same as an eager instance with the same configuration gives (also on "either" sites) *)
EqOK(q, ans, has) ==
    IF q.op = "get" THEN ans = LookupT(EagerTab(q.c, cfg), q.p, q.b) ELSE has = HasT(EagerTab(q.c, cfg), q.p)

Answer ==
    /\ pend.stage = "ready"
    /\ LET e == loaded[pend.c]
           ans == IF pend.op = "get" /\ e.in THEN LookupT(e.tab, pend.p, pend.b) ELSE {}
           has == IF pend.op # "has" THEN FALSE
                  ELSE IF pend.exc /\ Variant = "impl_hasloc" THEN TRUE
                  ELSE e.in /\ HasT(e.tab, pend.p)
       IN /\ badTruth' = (badTruth \/ ~TruthOK(pend, ans, has))
          /\ badEq' = (badEq \/ ~EqOK(pend, ans, has))
          /\ hist' = IF Record THEN Append(hist, [ev |-> "op", op |-> pend.op, c |-> pend.c, p |-> pend.p, b |-> pend.b,
                                                  ans |-> ans, has |-> has]) ELSE hist
    /\ pend' = NoPend /\ nops' = nops + 1
    /\ UNCHANGED <<vcf, run, cfg, loaded, cache, nruns>>

Stop == /\ run' = [run EXCEPT !.on = FALSE] /\ loaded' = [c \in AllContigs |-> NotLoaded] /\ pend' = NoPend
        /\ UNCHANGED <<vcf, cfg, cache, badTruth, badEq, nruns, nops, hist>>
EndRun == run.on /\ pend.op = "none" /\ Stop
Crash  == ~Record /\ run.on /\ pend.stage = "wren" /\ Stop     \* the process dies between writing <file>.unfinished and the rename

Next == \/ \E lazy, uc \in BOOLEAN, cf \in Configs : StartRun(lazy, uc, cf)
        \/ \E c \in AllContigs, p \in Positions, b \in QBases : Query("get", c, p, b)
        \/ \E c \in AllContigs, p \in Positions : Query("has", c, p, "-")
        \/ NoFetch \/ FetchCacheHit \/ FetchVCF \/ FetchAbsent \/ WriteCacheTmp \/ RenameCache \/ Answer
        \/ EndRun \/ Crash
Spec == Init /\ [][Next]_vars

---------------------------------------------------------------------------------------------------
(* Properties *)
Inv_C18_Truth == ~badTruth
Inv_C18_ModeEq == ~badEq

(* a published cache file always holds the complete table of its key *)
Inv_C18_CacheSound == \A k \in DOMAIN cache : cache[k] = TableOf(k[1], [sel |-> k[2], ign |-> k[3], ph |-> k[4]])

(* the code's informative-site procedure realises the P-level classification *)
Inv_C18_RuleAgrees ==
    nruns = 0 =>        \* depends on the VCF only: evaluated in the initial states
    \A c \in Contigs, p \in Positions, cf \in Configs :
        vcf[c][p] # NoSite =>
            LET cl == IF cf.ph THEN Class(vcf[c][p], cf.sel, cf.ign) ELSE UClass(vcf[c][p], cf.ign) IN
            /\ cl = "store" => Store(vcf[c][p], cf)
            /\ cl = "drop" => ~Store(vcf[c][p], cf)

(* lazy instances hold at most one contig *)
Inv_C18_OneContig == run.on /\ run.selfLazy => Cardinality({c \in AllContigs : loaded[c].in}) <= 1

---------------------------------------------------------------------------------------------------
(* Scenario generation (spec -> code): a finished history of the design with the answers it gives *)
Final == nruns = MaxRuns /\ ~run.on
Emit == IF Final /\ Record
        THEN PrintT("@@SCENARIO " \o ToJson([vcf |-> vcf, hist |-> hist]))
        ELSE TRUE
=================================================================================================
