------------------------------------- MODULE HandleLimiter -------------------------------------
(* C19 - per-cell file splitting under handle limits and open() failures.                       *)
(* Subject: singlecellmultiomics/pyutils/handlelimiter.py (HandleLimiter.write / prune / close), *)
(* used by fastqProcessing/fastqHandle.py (FastqHandle(single_cell=True)).                       *)
(*                                                                                               *)
(* D-level: HandleLimiter.write(path, x) is split into the steps of the code so that TLC         *)
(* explores every interleaving of the operating system's fault model with the retry loop:        *)
(*   BeginWrite      write() is entered                                                          *)
(*   EnsureEntry     `if path not in self.openHandles: self.openHandles[path] = {}`   (l.20-22)   *)
(*   TryOpen_*       one evaluation of gzip.open/open inside the `while failedOpening` loop;     *)
(*                   'a' iff path in self.seen, else 'w' (truncates) and seen.add     (l.25-42)   *)
(*   OpenFailed_CloseOthers   `except: if len(self.openHandles) > 1: self.close()`    (l.43-46)   *)
(*   OpenFailed_Raise         `else: ... raise`                                       (l.47-54)   *)
(*   DoWrite         handle.write; lastw; pruneIntervalCounter += 1                   (l.55-60)   *)
(*   Prune           close the least recently written handles beyond maxHandles       (l.64-79)   *)
(*   Close           close()                                                          (l.81-95)   *)
(* Environment (fault model of the statement): an open() fails                                   *)
(*   - with EMFILE iff K descriptors are already open (K >= 1),                                   *)
(*   - always for one permanently failing path `bad`,                                            *)
(*   - at most MaxTransient times for no lasting reason (transient failure).                     *)
(* Files of an earlier run may already exist at some target paths (constant Stale): the first    *)
(* open of a path in this run must replace them ('w'), every re-open must append ('a').          *)
(*                                                                                               *)
(* Variant selects the intended design or the behaviour of the code at the pinned commit:        *)
(*   "design"        OpenFailed_CloseOthers closes all OTHER handles and keeps the entry that is *)
(*                   being opened; OpenFailed_Raise removes the half-made entry before raising.  *)
(*   "impl_closeall" (D16) close() pops every entry including the one being opened; the retry    *)
(*                   opens the file and then fails with KeyError on self.openHandles[path]: the  *)
(*                   record is lost, the freshly opened handle is leaked, KeyError is raised     *)
(*                   although the file could be opened.                                          *)
(*   "impl_partial"  the raise path leaves the half-made entry `{}` behind: the next write to    *)
(*                   that path raises KeyError('handle') without trying to open, and prune()     *)
(*                   raises KeyError('lastw') while sorting.                                     *)
(*   "impl"          both, i.e. the code as written.                                             *)
(*                                                                                               *)
(* P-level: Inv_C19_Content, Inv_C19_Raise (the statement); Inv_C19_NoLeak, Act_C19_NoTruncate,  *)
(* Act_C19_PruneBound, Inv_C19_OSLimit are design-level obligations.                             *)
EXTENDS Integers, FiniteSets, Sequences, TLC, Json, Util

CONSTANTS NPaths,        \* target files are 1..NPaths
          Stale,         \* paths at which a file of an EARLIER run already exists (stale content <<0>>) when this run starts
          Ks,            \* set of OS descriptor limits to explore (K chosen in Init)
          MHs,           \* set of maxHandles settings
          PEs,           \* set of pruneEvery settings
          BadChoices,    \* set of choices for the permanently failing path (0 = none)
          MaxTransient,  \* number of transient open() failures the environment may inject
          MaxOps,        \* write()/close() calls per behaviour
          Variant,
          Record         \* TRUE: keep the ghost `trace` (scenario generation); FALSE: exhaustive checking

Paths == 1 .. NPaths
DevCloseAll == Variant \in {"impl", "impl_closeall"}
DevPartial  == Variant \in {"impl", "impl_partial"}
MutSeenEarly == Variant = "mut_seen_early"   \* seeded change C19-m4: seen.add(path) before the open attempt (mutation control)

VARIABLES K, maxh, pe, bad,     \* configuration / environment parameters, fixed in Init
          ent,       \* openHandles: [Paths -> {"none","partial","open"}]; "partial" = entry `{}` without 'handle'
          lastw,     \* [Paths -> Nat] stamp of the last write through the current handle
          clock,     \* abstract time.time(): strictly increasing with every write
          seen,      \* self.seen
          ctr,       \* self.pruneIntervalCounter
          disk,      \* [Paths -> Seq(record)] file content (as it is once the handle is closed)
          fds,       \* [Paths -> Nat] descriptors the OS holds open for the path (tracked or leaked)
          log,       \* ghost: records of the write() calls that returned normally, per path
          pc, cur,   \* control state of the current write() call
          tbudget,   \* transient failures the environment may still inject
          nops, att, \* counters: calls made, open() attempts made
          tfs,       \* ghost: attempt numbers at which a transient failure was injected
          illegit,   \* ghost: an exception left write() although the file could be opened / had been opened
          trace      \* ghost (Record only): per call the expected observation
vars == <<K, maxh, pe, bad, ent, lastw, clock, seen, ctr, disk, fds, log, pc, cur, tbudget, nops, att, tfs, illegit, trace>>
cfgvars == <<K, maxh, pe, bad>>

NumEnt  == Cardinality({p \in Paths : ent[p] # "none"})
OpenSet(e) == {p \in Paths : e[p] = "open"}
NumFds  == LET f(p) == fds[p] IN SumSetF(Paths, f)
MustFail == cur.p = bad \/ NumFds >= K
SeenAfterFail == IF MutSeenEarly THEN seen \cup {cur.p} ELSE seen

Done(op, raised, e2) ==      \* the call returns (or raises): remember what an observer must see
    trace' = IF Record THEN Append(trace, [op |-> op, p |-> cur.p, x |-> cur.x, raised |-> raised, open |-> OpenSet(e2)])
             ELSE trace

Init == /\ K \in Ks /\ maxh \in MHs /\ pe \in PEs /\ bad \in BadChoices
        /\ ent = [p \in Paths |-> "none"] /\ lastw = [p \in Paths |-> 0] /\ clock = 0
        /\ seen = {} /\ ctr = 0
        /\ disk = [p \in Paths |-> IF p \in Stale THEN <<0>> ELSE <<>>] /\ fds = [p \in Paths |-> 0] /\ log = [p \in Paths |-> <<>>]
        /\ pc = "idle" /\ cur = [p |-> 0, x |-> 0]
        /\ tbudget = MaxTransient /\ nops = 0 /\ att = 0 /\ tfs = {} /\ illegit = FALSE /\ trace = <<>>

BeginWrite(p) ==
    /\ pc = "idle" /\ nops < MaxOps
    /\ cur' = [p |-> p, x |-> nops + 1] /\ nops' = nops + 1 /\ pc' = "ensure"
    /\ UNCHANGED <<cfgvars, ent, lastw, clock, seen, ctr, disk, fds, log, tbudget, att, tfs, illegit, trace>>

EnsureEntry ==
    /\ pc = "ensure"
    /\ IF ent[cur.p] = "none"
       THEN ent' = [ent EXCEPT ![cur.p] = "partial"] /\ pc' = "open"
       ELSE ent' = ent /\ pc' = "write"      \* also taken for a left-over partial entry (impl_partial)
    /\ UNCHANGED <<cfgvars, lastw, clock, seen, ctr, disk, fds, log, cur, tbudget, nops, att, tfs, illegit, trace>>

(* the open() succeeds; mode 'a' iff the path was written before, otherwise 'w' truncates *)
TryOpen_Ok ==
    /\ pc = "open" /\ ~MustFail
    /\ att' = att + 1
    /\ fds' = [fds EXCEPT ![cur.p] = @ + 1]
    /\ disk' = IF cur.p \in seen THEN disk ELSE [disk EXCEPT ![cur.p] = <<>>]
    /\ IF ent[cur.p] = "partial"
       THEN /\ ent' = [ent EXCEPT ![cur.p] = "open"] /\ seen' = seen \cup {cur.p} /\ pc' = "write"
            /\ UNCHANGED <<illegit, trace>>
       ELSE \* impl_closeall: the entry was popped by close(); `self.openHandles[path]['handle'] = <new handle>` raises
            \* KeyError after the file was opened; the generic except sees len(openHandles) = 0 and re-raises.
            /\ ent' = ent /\ seen' = seen /\ pc' = "idle" /\ illegit' = TRUE
            /\ Done("w", TRUE, ent)
    /\ UNCHANGED <<cfgvars, lastw, clock, ctr, log, cur, tbudget, nops, tfs>>

TryOpen_FailHard ==          \* EMFILE or the permanently failing path
    /\ pc = "open" /\ MustFail
    /\ att' = att + 1 /\ pc' = "failed" /\ seen' = SeenAfterFail
    /\ UNCHANGED <<cfgvars, ent, lastw, clock, ctr, disk, fds, log, cur, tbudget, nops, tfs, illegit, trace>>

TryOpen_FailTransient ==
    /\ pc = "open" /\ ~MustFail /\ tbudget > 0
    /\ att' = att + 1 /\ pc' = "failed" /\ tbudget' = tbudget - 1 /\ tfs' = tfs \cup {att + 1} /\ seen' = SeenAfterFail
    /\ UNCHANGED <<cfgvars, ent, lastw, clock, ctr, disk, fds, log, cur, nops, illegit, trace>>

OpenFailed_CloseOthers ==
    /\ pc = "failed" /\ NumEnt > 1
    /\ LET keep == IF DevCloseAll THEN {} ELSE {cur.p} IN
       ent' = [p \in Paths |-> IF p \in keep THEN ent[p] ELSE "none"]
    /\ fds' = [p \in Paths |-> IF ent[p] = "open" THEN fds[p] - 1 ELSE fds[p]]
    /\ pc' = "open"
    /\ UNCHANGED <<cfgvars, lastw, clock, seen, ctr, disk, log, cur, tbudget, nops, att, tfs, illegit, trace>>

OpenFailed_Raise ==
    /\ pc = "failed" /\ NumEnt <= 1
    /\ illegit' = (illegit \/ NumFds # 0)       \* justified only if nothing at all is open any more
    /\ LET e2 == IF DevPartial THEN ent ELSE [ent EXCEPT ![cur.p] = "none"] IN
       ent' = e2 /\ Done("w", TRUE, e2)
    /\ pc' = "idle"
    /\ UNCHANGED <<cfgvars, lastw, clock, seen, ctr, disk, fds, log, cur, tbudget, nops, att, tfs>>

DoWrite ==
    /\ pc = "write"
    /\ IF ent[cur.p] = "open"
       THEN /\ disk' = [disk EXCEPT ![cur.p] = Append(@, cur.x)]
            /\ log' = [log EXCEPT ![cur.p] = Append(@, cur.x)]
            /\ clock' = clock + 1 /\ lastw' = [lastw EXCEPT ![cur.p] = clock + 1]
            /\ ctr' = ctr + 1
            /\ IF ctr + 1 >= pe THEN pc' = "prune" /\ trace' = trace
                                ELSE pc' = "idle" /\ Done("w", FALSE, ent)
            /\ UNCHANGED illegit
       ELSE \* impl_partial: `self.openHandles[path]['handle']` on a left-over `{}` entry raises KeyError
            /\ illegit' = TRUE /\ pc' = "idle" /\ Done("w", TRUE, ent)
            /\ UNCHANGED <<disk, log, clock, lastw, ctr>>
    /\ UNCHANGED <<cfgvars, ent, seen, fds, cur, tbudget, nops, att, tfs>>

Victims(n) == {p \in OpenSet(ent) : Cardinality({q \in OpenSet(ent) : lastw[q] < lastw[p]}) < n}

Prune ==
    /\ pc = "prune"
    /\ IF NumEnt > maxh
       THEN IF \E p \in Paths : ent[p] = "partial"
            THEN \* impl_partial: the sort key reads ['lastw'] of a `{}` entry: KeyError after the record was written,
                 \* pruneIntervalCounter is not reset (every later write raises again)
                 /\ illegit' = TRUE /\ Done("w", TRUE, ent) /\ UNCHANGED <<ent, fds, ctr>>
            ELSE LET v == Victims(NumEnt - maxh)
                     e2 == [p \in Paths |-> IF p \in v THEN "none" ELSE ent[p]] IN
                 /\ ent' = e2 /\ fds' = [p \in Paths |-> IF p \in v THEN fds[p] - 1 ELSE fds[p]]
                 /\ ctr' = 0 /\ Done("w", FALSE, e2) /\ UNCHANGED illegit
       ELSE ctr' = 0 /\ Done("w", FALSE, ent) /\ UNCHANGED <<ent, fds, illegit>>
    /\ pc' = "idle"
    /\ UNCHANGED <<cfgvars, lastw, clock, seen, disk, log, cur, tbudget, nops, att, tfs>>

Close ==
    /\ pc = "idle" /\ nops < MaxOps /\ NumEnt > 0
    /\ nops' = nops + 1
    /\ ent' = [p \in Paths |-> "none"]
    /\ fds' = [p \in Paths |-> IF ent[p] = "open" THEN fds[p] - 1 ELSE fds[p]]
    /\ trace' = IF Record THEN Append(trace, [op |-> "c", p |-> 0, x |-> 0, raised |-> FALSE, open |-> {}]) ELSE trace
    /\ UNCHANGED <<cfgvars, lastw, clock, seen, ctr, disk, log, pc, cur, tbudget, att, tfs, illegit>>

Next == \/ \E p \in Paths : BeginWrite(p)
        \/ EnsureEntry \/ TryOpen_Ok \/ TryOpen_FailHard \/ TryOpen_FailTransient
        \/ OpenFailed_CloseOthers \/ OpenFailed_Raise \/ DoWrite \/ Prune \/ Close
Spec == Init /\ [][Next]_vars

---------------------------------------------------------------------------------------------------
(* Properties *)

TypeOK == /\ ent \in [Paths -> {"none", "partial", "open"}]
          /\ pc \in {"idle", "ensure", "open", "failed", "write", "prune"}
          /\ \A p \in Paths : fds[p] \in 0 .. MaxOps
          /\ ctr \in 0 .. MaxOps /\ seen \subseteq Paths

(* statement, sentence 1: each file holds exactly the records written for it (in THIS run), in write order;  *)
(* a stale file of an earlier run is replaced by the first open of the run (a path no write() returned for is  *)
(* not an output of the run and keeps whatever it held)                                                     *)
Inv_C19_Content == pc = "idle" => \A p \in Paths : log[p] # <<>> => disk[p] = log[p]

(* statement, sentence 2: write() raises only when the file cannot be opened with everything else closed *)
Inv_C19_Raise == ~illegit

(* every descriptor the OS holds is reachable through openHandles (nothing leaked, nothing double-opened) *)
Inv_C19_NoLeak == \A p \in Paths : fds[p] = IF ent[p] = "open" THEN 1 ELSE 0

(* no half-made entry survives a call *)
Inv_C19_NoPartial == pc = "idle" => \A p \in Paths : ent[p] # "partial"

(* the environment never lets the process exceed the limit *)
Inv_C19_OSLimit == NumFds <= K

(* once a path has been opened in this run it is never re-opened in truncating mode *)
IsPrefixOf(a, b) == Len(a) <= Len(b) /\ SubSeq(b, 1, Len(a)) = a
Act_C19_NoTruncate == [][\A p \in seen : IsPrefixOf(disk[p], disk'[p])]_vars

(* prune() leaves at most maxHandles entries *)
Act_C19_PruneBound == [][pc = "prune" /\ ~illegit' => Cardinality({p \in Paths : ent'[p] # "none"}) <= maxh]_vars

(* the retry loop makes at most two attempts per call (termination of `while failedOpening`) *)
Inv_C19_RetryBound == att <= 2 * nops

---------------------------------------------------------------------------------------------------
(* Scenario generation (spec -> code): a finished behaviour of the design, with what an observer must see *)
Final == nops = MaxOps /\ pc = "idle"
Emit == IF Final /\ Record
        THEN PrintT("@@SCENARIO " \o ToJson([K |-> K, mh |-> maxh, pe |-> pe, bad |-> bad, tfs |-> tfs, stale |-> Stale,
                                             ops |-> trace, disk |-> disk, raised_unjustified |-> illegit]))
        ELSE TRUE
=================================================================================================
