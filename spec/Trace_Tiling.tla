--------------------------------------- MODULE Trace_Tiling ---------------------------------------
(* Observations of the real tiling functions (bamBinCounts.py, utils/binning.py) judged by the   *)
(* P-level definitions of TilingOps.tla.  Events (raw observations, recorded by drive_tiling.py): *)
(*  {"ev":"tile","tid","src","S","E","B","F"(-1 = None),"bl":[[s,e]..],"out":[[bs,be(,fs,fe)]..],"raised":""} *)
(*  {"ev":"fill","tid","a","b","step","out":[[s,e]..],"raised":""}                                *)
(*  every event carries "raised": exception type name / "DoesNotTerminate", "" when the call returned *)
(*  {"ev":"chunk","tid","bp","jobs":[[contig,s,e,..]..],"chunks":[[[contig,s,e,..]..]..]}         *)
(*  {"ev":"trim","tid","bl","S","E","out"}   {"ev":"merge","tid","bl","out"}   (helpers: notes only) *)
(*  {"ev":"wl","tid","allowed":[contig..],"seen":[contig..]}  contig whitelist of blacklisted_binning_contigs (note only) *)
(*  an event with a field "soft":"<reason>" is an observed-only input variant: a failing verdict is a @@NOTE soft_... *)
(* A tile observation that satisfies the property but differs from the design operator TileOut    *)
(* is reported as @@NOTE divergence_from_design (informational).                                   *)
EXTENDS TraceLib, TilingOps

VARIABLE l

Pairs(q) == [k \in DOMAIN q |-> << q[k][1], q[k][2] >>]
(* tuples as yielded: 2 fields without fragment size, 4 with *)
Norm(q) == [k \in DOMAIN q |-> IF Len(q[k]) = 2 THEN << q[k][1], q[k][2], q[k][1], q[k][2] >>
                               ELSE << q[k][1], q[k][2], q[k][3], q[k][4] >>]
TilePre(e) == /\ e.S <= e.E /\ e.B >= 1 /\ (e.F = NoFrag \/ e.F >= 0)
              /\ \A k \in DOMAIN e.bl : e.bl[k][1] <= e.bl[k][2]
TileShapeOk(e) == \A k \in DOMAIN e.out : Len(e.out[k]) = (IF e.F = NoFrag THEN 2 ELSE 4)

TileV(e) ==
    IF ~TilePre(e) THEN "ok"
    ELSE IF e.raised # "" THEN "Inv_C17_Raised"
    ELSE IF ~TileShapeOk(e) THEN "Inv_C17_TupleShape"
    ELSE TileVerdict(e.S, e.E, e.B, e.F, Pairs(e.bl), Norm(e.out))

TileNote(line, e) ==
    IF ~TilePre(e) THEN Note(line, e.tid, "outside_precondition")
    ELSE IF ~Has(e, "soft") /\ e.raised = "" /\ TileShapeOk(e) /\ TileV(e) = "ok"
            /\ Norm(e.out) # TileOut("design", e.S, e.E, e.B, e.F, Pairs(e.bl))
         THEN Note(line, e.tid, "divergence_from_design")
    ELSE TRUE

(* Totality: every verdict below is defined for malformed outputs as well (inverted or empty bins,   *)
(* tuples of the wrong length, inverted windows, empty output): shapes are tested before any field   *)
(* is accessed, and no recursive operator is evaluated on observation-sized data.                    *)
AllLen(q, n) == \A k \in DOMAIN q : Len(q[k]) = n
FillV(e) == IF e.step < 1 THEN "ok"
            ELSE IF e.raised # "" THEN "Inv_C17_Raised"
            ELSE IF ~AllLen(e.out, 2) THEN "Inv_C17_TupleShape"
            ELSE IF P_Fill(e.a, e.b, e.step, Pairs(e.out)) THEN "ok" ELSE "Inv_C17_Fill"

(* jobs are compared field by field only when the lengths agree (TLC refuses to compare a string with an integer) *)
ChunkShapeOk(e) == LET n == IF Len(e.jobs) = 0 THEN 0 ELSE Len(e.jobs[1])
                   IN \A c \in DOMAIN e.chunks : AllLen(e.chunks[c], n)
ChunkV(e) == IF e.raised # "" THEN "Inv_C17_Raised"
             ELSE IF ~ChunkShapeOk(e) THEN "Inv_C17_Chunk_job_altered"
             ELSE IF P_Chunk(e.jobs, e.chunks) THEN "ok" ELSE "Inv_C17_Chunk"

HelperNote(line, e) ==
    IF e.ev = "wl" THEN (IF SeqSet(e.seen) \subseteq SeqSet(e.allowed) THEN TRUE ELSE Note(line, e.tid, "contig_outside_whitelist_tiled")) ELSE
    IF e.ev \in {"trim", "merge"} /\ e.raised # "" THEN Note(line, e.tid, "helper_raised")
    ELSE IF e.ev \in {"trim", "merge"} /\ ~AllLen(e.out, 2) THEN Note(line, e.tid, "helper_output_malformed")
    ELSE IF e.ev = "trim" /\ Pairs(e.out) # Trim("design", Pairs(e.bl), e.S, e.E)
    THEN Note(line, e.tid, "helper_trim_differs_from_design")
    ELSE IF e.ev = "merge" /\ Pairs(e.out) # MergeRanges(Pairs(e.bl))
    THEN Note(line, e.tid, "helper_merge_differs_from_design")
    ELSE TRUE

Verdict(e) == CASE e.ev = "tile"  -> TileV(e)
                [] e.ev = "fill"  -> FillV(e)
                [] e.ev = "chunk" -> ChunkV(e)
                [] e.ev \in {"trim", "merge", "wl"} -> "ok"
                [] OTHER -> "unknown_event"

TInit == l = 1
TNext == /\ l <= Len(Log)
         /\ (IF Has(Log[l], "soft") /\ Verdict(Log[l]) # "ok"       \* observed-only input variants (see docs): never an alarm
             THEN Note(l, Log[l].tid, "soft_" \o Log[l].soft \o "_" \o Verdict(Log[l]))
             ELSE Judge(l, Verdict(Log[l])))
         /\ (IF Log[l].ev = "tile" THEN TileNote(l, Log[l]) ELSE HelperNote(l, Log[l]))
         /\ l' = l + 1
TAccepted == TLCGet("stats").diameter - 1 = Len(Log)
=====================================================================================================
