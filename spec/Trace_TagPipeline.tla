------------------------------------- MODULE Trace_TagPipeline -------------------------------------
(* C20: observations of the status file / output after injected failures of the real tagger CLI,     *)
(* judged by TagPipeline!C20Clause on what the implementation left on disk.                          *)
(*  {"ev":"case","tid","pipeline","method","scn":{pipeline,size,prev,at,kind,job,k,tries},            *)
(*   "fault":{proc,site,when,nth,kind},"fired","exit","timeout","interrupted",                        *)
(*   "status": content class of the status file ("none","unfinished","fail","ok","other"),            *)
(*   "status_writes":[..],"exists","readable","so","bai","index_usable","via_index",                  *)
(*   "in":[record..],"out":[record..]}        final state after the run ended / died / was killed     *)
(*  {"ev":"snap", ... same observation fields ..., "n"}  state on disk right after the n-th           *)
(*   write of the status file (an observer polling the status file sees exactly this)                *)
EXTENDS TraceLib, TagRecords

TP == INSTANCE TagPipeline WITH Mutation <- "none", NMol <- 0, NJobs <- 0, Pipelines <- {}, PrevChoices <- {}, SizeChoices <- {},
                                StatusOrder <- "design", PlanVariant <- "design",
                                pipeline <- "", prev <- FALSE, size <- <<>>, pc <- "", status <- "", unsorted <- <<>>, out <- <<>>,
                                bai <- "", w <- <<>>, planned <- {}, collected <- {}, tries <- 0, crashed <- FALSE,
                                crashAt <- "", crashKind <- "", crashJob <- 0, tempLeft <- FALSE

VARIABLE l

Primary(q) == SelectSeq(q, LAMBDA r : ~r.sec)

(* the abstract observation of TagPipeline, computed from the raw one.  The first sentence of the     *)
(* statement (no success after an interruption) is about failures at a step of the run, i.e. after     *)
(* the run announced itself with "unfinished" (crash point "start" is before that).                   *)
Obs(e) == LET all == Primary(e["in"])
              in  == IF e.no_rejects THEN SelectValid(all) ELSE all     \* --no_rejects: the rejected fragments are not expected
              out == Primary(e.out)
          IN [status      |-> e.status,
              interrupted |-> e.interrupted /\ e.scn.at # "start",
              exists      |-> e.exists,
              readable    |-> e.readable,
              sorted      |-> e.so = "coordinate" /\ CoordSorted(e.out),
              \* an index that belongs to THIS output: present, not older than the BAM, and every placed record is reachable through it
              indexed     |-> e.bai /\ e.index_usable /\ e.index_fresh
                              /\ e.via_index = Cardinality({ k \in DOMAIN e.out : e.out[k].tid >= 0 }),
              complete    |-> ContainsAll(InKeys(in), OutKeys(all, out)),
              reheadered  |-> ReadGroupsDeclared(out, e.hdr_rg)]

Verdict(e) == IF e.ev \in {"case", "snap"} THEN TP!C20Clause(Obs(e)) ELSE "unknown_event"

(* D-level, informational: order of the status writes of the run *)
NoteOf(e) == IF e.ev = "case" /\ ~TP!StatusSequenceOK(e.status_writes) THEN "divergence_status_write_sequence" ELSE ""

TInit == l = 1
TNext == /\ l <= Len(Log)
         /\ Judge(l, Verdict(Log[l]))
         /\ (IF NoteOf(Log[l]) # "" THEN Note(l, Log[l].tid, NoteOf(Log[l])) ELSE TRUE)
         /\ l' = l + 1
TAccepted == TLCGet("stats").diameter - 1 = Len(Log)
=====================================================================================================
