------------------------------------------- MODULE Taps -------------------------------------------
(* C14 - TAPS methylation calls reflect reference context and observed conversion.               *)
(*                                                                                               *)
(* P-level (the property's own definitions, no algorithm; also used by Trace_Taps.tla):          *)
(*   Target(rev, conv)      which reference base is the conversion target                        *)
(*   Ctx / Kind             the three bases on the strand that carries the C, CpG/CHG/CHH         *)
(*   ExpLetters             the call letters the statement allows at a position                  *)
(*   InSafe / FragVote / ConsAt   mate-overlap-safe span of a fragment, the fragment's call,     *)
(*                          the molecule consensus (strict plurality of fragment calls, as C13)  *)
(*   Inv_C14_*              the clauses of the statement                                         *)
(* D-level (shaped like singlecellmultiomics/molecule/taps.py + molecule.py + sequtils.py):      *)
(*   SelectTarget           expected_base_to_be_converted        (taps.py:245)                   *)
(*   FragmentConsensus      one iteration of `for fragment in self` in Molecule.get_consensus    *)
(*                          = get_consensus_dictionaries (safe span, only_include_refbase)       *)
(*                          + pick_best_base_call               (molecule.py:2691, sequtils:401) *)
(*   Majority               argmax / "proper" (tie removal)     (molecule.py:2717-2734)          *)
(*   CallPosition           one item of the dict comprehension = TAPS.position_to_context with   *)
(*                          the explicit context_mapping table  (taps.py:66-135, 267-280)        *)
(*   TagRead                one iteration of `for read in reads` in set_methylation_call_tags    *)
(*                          (XM string + MC,uC,sZ,sz,sX,sx,sH,sh) (molecule.py:1964-2016)        *)
(* Variant = "design" is the code as read at the pinned commit (no defect was found for C14);    *)
(* every other value is a NAMED hypothetical deviation used as negative control (see docs).      *)
EXTENDS Integers, Sequences, FiniteSets, TLC, Util, Json

CONSTANTS L,          \* length of the reference window (= of the contig): truncation at both ends
          Alphabet,   \* letters of the reference
          Mode,       \* "context": all references, one full-span fragment | "geometry": all mate geometries
          GeomRefs,   \* references used in geometry mode, by name (see RefByName)
          MaxFrags,   \* 1 or 2 fragments in geometry mode
          DistMode,   \* "zero": default dove distances | "mixed": also (dove_R1_distance, dove_R2_distance) = (1,0), (0,1)
          Variant

Bases == {"A", "C", "G", "T"}
Dot == "."

---------------------------------------------------------------------------------------------------
(* P-level: reference, target, context *)
Upper(c) == CASE c = "a" -> "A" [] c = "c" -> "C" [] c = "g" -> "G" [] c = "t" -> "T" [] c = "n" -> "N" [] OTHER -> c
Comp(b)  == CASE b = "A" -> "T" [] b = "T" -> "A" [] b = "C" -> "G" [] b = "G" -> "C" [] OTHER -> b
(* positions are 0-based as in pysam; "-" is "beyond the contig" *)
RefAt(ref, p) == IF p >= 0 /\ p < Len(ref) THEN Upper(ref[p + 1]) ELSE "-"
Target(rev, conv) == IF conv = "F" THEN (IF rev THEN "G" ELSE "C") ELSE (IF rev THEN "C" ELSE "G")
ConvOf(t) == IF t = "C" THEN "T" ELSE "A"
(* the three bases 5'->3' on the strand carrying the C (for a reference G: the reverse complement) *)
Ctx(ref, p, t) == IF t = "C" THEN << RefAt(ref, p), RefAt(ref, p + 1), RefAt(ref, p + 2) >>
                  ELSE << Comp(RefAt(ref, p)), Comp(RefAt(ref, p - 1)), Comp(RefAt(ref, p - 2)) >>
CtxComplete(c) == c[2] \in Bases /\ c[3] \in Bases
Kind(c) == IF c[2] = "G" THEN "z" ELSE IF c[3] = "G" THEN "x" ELSE "h"      \* CpG / CHG / CHH, complete contexts only
Up(k) == CASE k = "z" -> "Z" [] k = "x" -> "X" [] k = "h" -> "H" [] OTHER -> k
Low(k) == CASE k = "Z" -> "z" [] k = "X" -> "x" [] k = "H" -> "h" [] OTHER -> k
IsUpperCall(k) == k \in {"Z", "X", "H"}
CallLetters == {"z", "x", "h", "Z", "X", "H"}

(* The letters the statement allows for a call on target base t at p when the consensus shows `cons`.     *)
(* Complete ACGT context: exactly one letter, upper case iff the consensus shows the conversion.          *)
(* Truncated context / non-ACGT context base: "no call" is accepted (DESIGN 3.14); if the second base is  *)
(* a G the context is a CpG whatever the third base is, so z/Z is accepted as well.                       *)
(* Consensus shows neither the target nor its conversion (a third base): not a conversion, so upper case  *)
(* is excluded; "no call" and the lower-case letter are both accepted (most permissive reading).          *)
ExpLetters(ref, p, t, cons) ==
    LET c == Ctx(ref, p, t)
        kinds == IF CtxComplete(c) THEN {Kind(c)} ELSE IF c[2] = "G" THEN {"z"} ELSE {}
    IN IF cons = ConvOf(t) THEN (IF CtxComplete(c) THEN {Up(Kind(c))} ELSE {Dot} \cup {Up(k) : k \in kinds})
       ELSE IF cons = t    THEN (IF CtxComplete(c) THEN {Kind(c)} ELSE {Dot} \cup kinds)
       ELSE {Dot} \cup kinds

---------------------------------------------------------------------------------------------------
(* P-level: abstract reads and fragments.                                                        *)
(* read     = [mate |-> 1|2, rev |-> BOOLEAN, start |-> Int, end |-> Int (exclusive),            *)
(*             al |-> sequence of [p |-> reference position, b |-> base, q |-> quality] ]        *)
(* fragment = [reads |-> sequence of 1 or 2 reads]                                               *)
HasMate(f, m) == \E i \in DOMAIN f.reads : f.reads[i].mate = m
MateOf(f, m)  == f.reads[CHOOSE i \in DOMAIN f.reads : f.reads[i].mate = m]
Inward(f)  == HasMate(f, 1) /\ HasMate(f, 2) /\ MateOf(f, 1).rev # MateOf(f, 2).rev
FwdMate(f) == IF MateOf(f, 1).rev THEN MateOf(f, 2) ELSE MateOf(f, 1)
RevMate(f) == IF MateOf(f, 1).rev THEN MateOf(f, 1) ELSE MateOf(f, 2)
(* the mate-overlap-safe span: from the start of the forward mate to the last base of the reverse mate *)
(* With configured dove distances (methylation_consensus_kwargs: dove_R1_distance / dove_R2_distance, fields dr1 / dr2 of  *)
(* the fragment) the span is shortened by that many bases at the outer end of the respective mate.                       *)
DoveDist(f, r) == IF r.mate = 1 THEN f.dr1 ELSE f.dr2
InSafe(f, p) == Inward(f) /\ FwdMate(f).start + DoveDist(f, FwdMate(f)) <= p
                          /\ p <= RevMate(f)["end"] - 1 - DoveDist(f, RevMate(f))
ReadCalls(r, p) == { << r.al[i].b, r.al[i].q >> : i \in { j \in DOMAIN r.al : r.al[j].p = p } }
FragCalls(f, p) == UNION { ReadCalls(f.reads[i], p) : i \in DOMAIN f.reads }
(* the fragment's call (C13): the higher-quality mate; equal quality and different bases, or N: no call *)
FragVote(f, p) ==
    LET cs == FragCalls(f, p) IN
    IF ~InSafe(f, p) \/ cs = {} THEN "none"
    ELSE LET best == MaxOf({ c[2] : c \in cs })
             top  == { c[1] : c \in { d \in cs : d[2] = best } }
         IN IF Cardinality(top) = 1 /\ top \subseteq Bases THEN CHOOSE b \in top : TRUE ELSE "none"
NVotes(frags, p, b) == Cardinality({ i \in DOMAIN frags : FragVote(frags[i], p) = b })
(* molecule consensus over the safe spans: strict plurality, otherwise absent *)
ConsAt(frags, p) ==
    LET v == [ b \in Bases |-> NVotes(frags, p, b) ]
        win == { b \in Bases : v[b] > 0 /\ \A b2 \in Bases \ {b} : v[b2] < v[b] }
    IN IF win = {} THEN "none" ELSE CHOOSE b \in win : TRUE
SafeCovered(frags, p) == \E i \in DOMAIN frags : InSafe(frags[i], p) /\ FragCalls(frags[i], p) # {}
(* molecule strand = orientation of read 1 (all fragments of a molecule share it) *)
MolRev(frags) == LET S == { i \in DOMAIN frags : HasMate(frags[i], 1) } IN
                 IF S = {} THEN FALSE ELSE MateOf(frags[MinOf(S)], 1).rev
StrandDefined(frags) == \E i \in DOMAIN frags : HasMate(frags[i], 1)
StrandConsistent(frags) == \A i, j \in DOMAIN frags : (HasMate(frags[i], 1) /\ HasMate(frags[j], 1))
                                                        => MateOf(frags[i], 1).rev = MateOf(frags[j], 1).rev
Positions(frags) == UNION { UNION { { al[j].p : j \in DOMAIN al } :
                                    al \in { frags[i].reads[k].al : k \in DOMAIN frags[i].reads } } : i \in DOMAIN frags }

---------------------------------------------------------------------------------------------------
(* P-level: the clauses of C14 on an observed (or modelled) result.                              *)
(*   calls : function  position -> letter   (the molecule's methylation_call_dict)               *)
(*   tagged: sequence of [al, xm, tot]      (reads with the XM string and the count tags)        *)
CallClause(ref, t, frags, p, letter) ==
    LET cons == ConsAt(frags, p)
        exp  == ExpLetters(ref, p, t, cons)
    IN
    IF letter = Dot THEN
        (* an entry without a letter is not a call; it contradicts the statement only where a  *)
        (* letter is required: on target, consensus defined, complete context                    *)
        (IF RefAt(ref, p) = t /\ cons # "none" /\ Dot \notin exp THEN "Inv_C14_Letter" ELSE "ok")
    ELSE IF letter \notin CallLetters THEN "Inv_C14_Letter_alphabet"
    ELSE IF RefAt(ref, p) # t THEN "Inv_C14_OnTarget"
    ELSE IF ~SafeCovered(frags, p) THEN "Inv_C14_DoveSafe"
    ELSE IF cons = "none" THEN "Inv_C14_OnConsensus"
    ELSE IF letter \in exp THEN "ok"
    ELSE IF Low(letter) \in { Low(x) : x \in exp } THEN "Inv_C14_Case"
    ELSE "Inv_C14_Letter"

CountOf(calls, k) == Cardinality({ p \in DOMAIN calls : calls[p] = k })
Totals(calls) == [ MC |-> CountOf(calls, "Z") + CountOf(calls, "X") + CountOf(calls, "H"),
                   uC |-> CountOf(calls, "z") + CountOf(calls, "x") + CountOf(calls, "h"),
                   sZ |-> CountOf(calls, "Z"), sz |-> CountOf(calls, "z"),
                   sX |-> CountOf(calls, "X"), sx |-> CountOf(calls, "x"),
                   sH |-> CountOf(calls, "H"), sh |-> CountOf(calls, "h") ]
TotalTags == <<"MC", "uC", "sZ", "sz", "sX", "sx", "sH", "sh">>

(* one read: XM has one character per aligned base; each letter in it is a call and must be right *)
ReadClause(ref, t, frags, calls, r) ==
    IF Len(r.xm) # Len(r.al) THEN "Inv_C14_XMLen"
    ELSE LET (* a letter equal to the molecule's call at that position has been judged with the call (MolClause looks at  *)
             (* the reads only when every call is "ok"); any other letter is judged on its own                        *)
             same(i) == r.al[i].p \in DOMAIN calls /\ calls[r.al[i].p] = r.xm[i]
             bad == { i \in DOMAIN r.xm : r.xm[i] # Dot /\ ~same(i) /\ CallClause(ref, t, frags, r.al[i].p, r.xm[i]) # "ok" }
         IN IF bad # {} THEN "Inv_C14_XM_" \o CallClause(ref, t, frags, r.al[MinOf(bad)].p, r.xm[MinOf(bad)])
            ELSE IF \E k \in DOMAIN TotalTags : r.tot[TotalTags[k]] # Totals(calls)[TotalTags[k]] THEN "Inv_C14_Totals"
            ELSE "ok"

(* first failing clause over a whole molecule, "ok" if none *)
MolClause(ref, conv, frags, calls, tagged) ==
    LET t == Target(MolRev(frags), conv)
        badc == { p \in DOMAIN calls : CallClause(ref, t, frags, p, calls[p]) # "ok" }
        badr == { i \in DOMAIN tagged : ReadClause(ref, t, frags, calls, tagged[i]) # "ok" }
    IN IF badc # {} THEN CallClause(ref, t, frags, MinOf(badc), calls[MinOf(badc)])
       ELSE IF badr # {} THEN ReadClause(ref, t, frags, calls, tagged[MinOf(badr)])
       ELSE "ok"

(* design-level completeness (NOT part of the statement): every target position with a consensus has an entry *)
ExpectedDomain(ref, conv, frags) ==
    LET t == Target(MolRev(frags), conv) IN { p \in Positions(frags) : RefAt(ref, p) = t /\ ConsAt(frags, p) # "none" }

---------------------------------------------------------------------------------------------------
(* Scenarios of the bounded model.  A model read is ungapped: [mate, rev, start, seq, qual].     *)
AbsRead(r) == [ mate |-> r.mate, rev |-> r.rev, start |-> r.start, end |-> r.start + Len(r.seq),
                al |-> [ i \in DOMAIN r.seq |-> [ p |-> r.start + i - 1, b |-> r.seq[i], q |-> r.qual[i] ] ] ]
AbsFrag(f, dr1, dr2) == [ reads |-> [ i \in DOMAIN f.reads |-> AbsRead(f.reads[i]) ], dr1 |-> dr1, dr2 |-> dr2 ]
AbsFrags(fs, dr1, dr2) == [ i \in DOMAIN fs |-> AbsFrag(fs[i], dr1, dr2) ]

(* base shown by a read at reference position p under an observation pattern *)
ReadBase(ref, p, t, pat) ==
    LET rb == RefAt(ref, p) IN
    IF rb = t THEN (CASE pat = "keep" -> t [] pat = "conv" -> ConvOf(t) [] pat = "other" -> (IF t = "C" THEN "A" ELSE "T")
                      [] pat = "n" -> "N")
    ELSE IF rb \in Bases THEN rb ELSE "A"
MkRead(ref, t, mate, rev, a, b, pat, q) ==
    [ mate |-> mate, rev |-> rev, start |-> a, seq |-> [ i \in 1 .. (b - a) |-> ReadBase(ref, a + i - 1, t, pat) ],
      qual |-> [ i \in 1 .. (b - a) |-> q ] ]
(* inward-facing pair: forward mate on [a,b), reverse mate on [c,d); read 1 is the reverse mate iff rev *)
MkPair(ref, t, rev, a, b, c, d, pf, pr, qf, qr) ==
    [ reads |-> << MkRead(ref, t, IF rev THEN 2 ELSE 1, FALSE, a, b, pf, qf),
                   MkRead(ref, t, IF rev THEN 1 ELSE 2, TRUE, c, d, pr, qr) >> ]
MkSingle(ref, t, rev, a, b, pf, qf) == [ reads |-> << MkRead(ref, t, 1, rev, a, b, pf, qf) >> ]

Intervals == { <<a, b>> \in (0 .. L) \X (0 .. L) : a < b }
QualPairs == { <<1, 0>>, <<0, 1>>, <<0, 0>> }     \* phred 0 is a legal quality: it must win over "no call" and tie with itself
Pats2 == {"keep", "conv"}
Scn(ref, rev, conv, fs, dd) == [ ref |-> ref, rev |-> rev, conv |-> conv, frags |-> fs, dr1 |-> dd[1], dr2 |-> dd[2] ]
DistPairs == IF DistMode = "mixed" THEN { <<0, 0>>, <<1, 0>>, <<0, 1>> } ELSE { <<0, 0>> }
(* context mode: every reference window over the alphabet, one fragment whose mates both span the whole contig *)
IsContextScenario(s) ==
    \E ref \in [1 .. L -> Alphabet], rev \in BOOLEAN, conv \in {"F", "R"}, pat \in {"keep", "conv", "other"} :
        s = Scn(ref, rev, conv, << MkPair(ref, Target(rev, conv), rev, 0, L, 0, L, pat, pat, 2, 2) >>, <<0, 0>>)
(* geometry mode: references in which every position is a target for some strand/convention; every placement *)
(* of the two mates (overlapping, dove-tailed on either side, disjoint, outward), every quality relation,     *)
(* single-end fragments, and optionally a second fragment of the same molecule (same read-1 interval)         *)
RefByName(n) == CASE n = "allC" -> [ i \in 1 .. L |-> "C" ]
                  [] n = "allG" -> [ i \in 1 .. L |-> "G" ]
                  [] n = "CG"   -> [ i \in 1 .. L |-> IF i % 2 = 1 THEN "C" ELSE "G" ]
                  [] n = "GC"   -> [ i \in 1 .. L |-> IF i % 2 = 1 THEN "G" ELSE "C" ]
IsGeometryScenario(s) ==
    \E n \in GeomRefs, rev \in BOOLEAN, conv \in {"F", "R"}, dd \in DistPairs :
        LET ref == RefByName(n) t == Target(rev, conv) IN
        \/ \E ab \in Intervals, pf \in Pats2 : s = Scn(ref, rev, conv, << MkSingle(ref, t, rev, ab[1], ab[2], pf, 2) >>, dd)
        \/ \E ab \in Intervals, cd \in Intervals, pf \in Pats2, pr \in Pats2, qq \in QualPairs :
              LET f1 == MkPair(ref, t, rev, ab[1], ab[2], cd[1], cd[2], pf, pr, qq[1], qq[2]) IN
              \/ s = Scn(ref, rev, conv, << f1 >>, dd)
              \/ /\ MaxFrags >= 2
                 /\ \E xy \in Intervals, pm \in Pats2 :
                      s = Scn(ref, rev, conv,
                              << f1, IF rev THEN MkPair(ref, t, rev, xy[1], xy[2], cd[1], cd[2], pm, pm, 1, 2)
                                            ELSE MkPair(ref, t, rev, ab[1], ab[2], xy[1], xy[2], pm, pm, 2, 1) >>, dd)
IsScenario(s) == IF Mode = "context" THEN IsContextScenario(s) ELSE IsGeometryScenario(s)

---------------------------------------------------------------------------------------------------
(* D-level *)
VARIABLES scn,      \* the molecule being processed (reference window, strand, convention, fragments)
          pc,       \* "target" | "frag" | "majority" | "call" | "tag" | "done"
          target,   \* expected_base_to_be_converted
          fi,       \* index of the next fragment in get_consensus
          tally,    \* position -> [base -> number of fragments]      (consensii)
          cons,     \* position -> base                               (c_pos_consensus)
          todo,     \* positions still to be given a context          (the dict comprehension, ascending)
          calls,    \* position -> letter                             (methylation_call_dict[..]['context'])
          ri,       \* index of the next read in set_methylation_call_tags
          tagged    \* sequence of [al, xm, tot]
vars == <<scn, pc, target, fi, tally, cons, todo, calls, ri, tagged>>

Empty == [ x \in {} |-> 0 ]
Get(f, k, dflt) == IF k \in DOMAIN f THEN f[k] ELSE dflt
Put(f, k, v) == [ x \in DOMAIN f \cup {k} |-> IF x = k THEN v ELSE f[x] ]
SortedSeq(S) == LET F[T \in SUBSET S] == IF T = {} THEN <<>> ELSE <<MinOf(T)>> \o F[T \ {MinOf(T)}] IN F[S]

Init == /\ IsScenario(scn)
        /\ pc = "target" /\ target = "-" /\ fi = 1 /\ tally = Empty /\ cons = Empty /\ todo = <<>>
        /\ calls = Empty /\ ri = 1 /\ tagged = <<>>

(* taps.py:245  ('G' if strand else 'C') if taps_strand == 'F' else ('C' if strand else 'G') *)
SelectTarget ==
    /\ pc = "target"
    /\ target' = (IF Variant = "target_ignores_convention" THEN (IF scn.rev THEN "G" ELSE "C")
                  ELSE IF scn.conv = "F" THEN (IF scn.rev THEN "G" ELSE "C") ELSE (IF scn.rev THEN "C" ELSE "G"))
    /\ pc' = "frag"
    /\ UNCHANGED <<scn, fi, tally, cons, todo, calls, ri, tagged>>

(* sequtils.read_to_consensus_dict: aligned columns within [start, end] whose MD reference base is the target *)
ReadDict(r, lo, hi, bounded) ==
    LET keep == { i \in DOMAIN r.seq : LET p == r.start + i - 1 IN
                    /\ (~bounded \/ (p >= lo /\ p <= hi))
                    /\ RefAt(scn.ref, p) = target }
    IN [ p \in { r.start + i - 1 : i \in keep } |-> << r.seq[p - r.start + 1], r.qual[p - r.start + 1] >> ]
(* sequtils.pick_best_base_call over (R1 call, R2 call); <<>> = None *)
PickBest(c1, c2) ==
    LET s1 == IF c1 = <<>> THEN [b |-> "none", q |-> -1, tie |-> FALSE] ELSE [b |-> c1[1], q |-> c1[2], tie |-> FALSE]
        s2 == IF c2 = <<>> THEN s1
              ELSE IF c2[2] > s1.q THEN [b |-> c2[1], q |-> c2[2], tie |-> FALSE]
              ELSE IF c2[2] = s1.q /\ c2[1] # s1.b THEN [s1 EXCEPT !.tie = TRUE]
              ELSE s1
    IN IF s2.tie \/ s2.b = "none" THEN "N" ELSE s2.b
(* molecule.py:2691-2710 + sequtils.get_consensus_dictionaries *)
FragmentConsensus ==
    /\ pc = "frag"
    /\ fi <= Len(scn.frags)
    /\ LET f == scn.frags[fi]
           has1 == \E i \in DOMAIN f.reads : f.reads[i].mate = 1
           has2 == \E i \in DOMAIN f.reads : f.reads[i].mate = 2
       IN IF ~has1 \/ ~has2      \* `if dove_safe and not fragment.has_R2() or not fragment.has_R1(): continue`
          THEN tally' = tally
          ELSE LET r1 == f.reads[CHOOSE i \in DOMAIN f.reads : f.reads[i].mate = 1]
                   r2 == f.reads[CHOOSE i \in DOMAIN f.reads : f.reads[i].mate = 2]
                   e1 == r1.start + Len(r1.seq)
                   e2 == r2.start + Len(r2.seq)
                   inward == r1.rev # r2.rev          \* otherwise ValueError, swallowed: fragment contributes nothing
                   (* sequtils.py:411-414: start = forward mate's start + its dove distance, end = reverse mate's end - its distance - 1 *)
                   lo == IF r1.rev THEN (IF Variant = "dove_distance_sign" THEN r2.start - scn.dr2 ELSE r2.start + scn.dr2)
                         ELSE r1.start + scn.dr1
                   hi == IF Variant = "safe_end_off_by_one" THEN (IF r1.rev THEN e1 - scn.dr1 ELSE e2 - scn.dr2)
                         ELSE (IF r1.rev THEN e1 - scn.dr1 - 1 ELSE e2 - scn.dr2 - 1)
                   bounded == Variant # "dove_unsafe"
                   d1 == ReadDict(r1, lo, hi, bounded)
                   d2 == ReadDict(r2, lo, hi, bounded)
                   ps == DOMAIN d1 \cup DOMAIN d2
                   vote(p) == PickBest(Get(d1, p, <<>>), Get(d2, p, <<>>))
                   voted == { p \in ps : vote(p) # "N" }
               IN IF ~inward THEN tally' = tally
                  ELSE tally' = [ p \in DOMAIN tally \cup voted |->
                                   LET old == Get(tally, p, [b \in Bases |-> 0]) IN
                                   IF p \in voted THEN [old EXCEPT ![vote(p)] = @ + 1] ELSE old ]
    /\ fi' = fi + 1
    /\ UNCHANGED <<scn, pc, target, cons, todo, calls, ri, tagged>>

(* molecule.py:2717-2734: argmax; rows whose maximum is not unique are dropped *)
Majority ==
    /\ pc = "frag"
    /\ fi > Len(scn.frags)
    /\ LET mx(p) == MaxOf({ tally[p][b] : b \in Bases })
           proper == { p \in DOMAIN tally : Cardinality({ b \in Bases : tally[p][b] = mx(p) }) = 1 }
       IN /\ cons' = [ p \in proper |-> CHOOSE b \in Bases : tally[p][b] = mx(p) ]
          /\ todo' = SortedSeq(proper)
    /\ pc' = "call"
    /\ UNCHANGED <<scn, target, fi, tally, calls, ri, tagged>>

(* TAPS.context_mapping: the explicit table of taps.py:42-61 *)
MapLower == [ c \in { <<"C", "G", x>> : x \in Bases } |-> "z" ]
            @@ [ c \in { <<"C", x, "G">> : x \in {"A", "C", "T"} } |-> "x" ]
            @@ [ c \in { <<"C", x, y>> : x \in {"A", "C", "T"}, y \in {"A", "C", "T"} } |-> "h" ]
(* pysam.FastaFile.fetch(contig, a, b): ValueError for a < 0, silently truncated at the contig end *)
Err == << "ValueError" >>
Fetch(ref, a, b) == IF a < 0 THEN Err ELSE [ i \in 1 .. (IF b > Len(ref) THEN Len(ref) - a ELSE b - a) |-> Upper(ref[a + i]) ]
RevComp(s) == [ i \in DOMAIN s |-> Comp(s[Len(s) + 1 - i]) ]
(* taps.py:66-135 position_to_context(ref_base = target, observed_base = consensus) *)
PositionToContext(ref, p, qbase) ==
    LET ctx == IF target = "C" THEN Fetch(ref, p, p + 3)
               ELSE LET o == IF Variant = "context_offset" THEN Fetch(ref, p - 1, p + 2) ELSE Fetch(ref, p - 2, p + 1) IN
                    IF o = Err THEN o
                    ELSE IF Variant = "context_not_reverse_complemented" THEN o
                    ELSE IF Variant = "context_complement_only" THEN [ i \in DOMAIN o |-> Comp(o[i]) ]
                    ELSE RevComp(o)
        methylated == IF ctx = Err THEN "none"
                      ELSE IF target = "C" THEN (IF qbase = "T" THEN "yes" ELSE IF qbase = "C" THEN "no" ELSE "none")
                      ELSE (IF qbase = "A" THEN "yes" ELSE IF qbase = "G" THEN "no" ELSE "none")
        low == IF ctx \in DOMAIN MapLower THEN MapLower[ctx] ELSE Dot
        low2 == IF Variant = "chg_table_entry_wrong" /\ ctx = <<"C", "C", "G">> THEN "h" ELSE low
    IN IF methylated = "none" THEN Dot
       ELSE IF Variant = "case_swapped" THEN (IF methylated = "yes" THEN low2 ELSE Up(low2))
       ELSE IF methylated = "yes" THEN Up(low2) ELSE low2
CallPosition ==
    /\ pc = "call"
    /\ todo # <<>>
    /\ LET p == Head(todo) IN calls' = Put(calls, p, PositionToContext(scn.ref, p, cons[p]))
    /\ todo' = Tail(todo)
    /\ UNCHANGED <<scn, pc, target, fi, tally, cons, ri, tagged>>
CallsDone ==
    /\ pc = "call"
    /\ todo = <<>>
    /\ pc' = "tag"
    /\ UNCHANGED <<scn, target, fi, tally, cons, todo, calls, ri, tagged>>

AllReads == LET F[i \in 0 .. Len(scn.frags)] == IF i = 0 THEN <<>> ELSE F[i - 1] \o scn.frags[i].reads IN F[Len(scn.frags)]
(* molecule.py:1964-2016, one read *)
TagRead ==
    /\ pc = "tag"
    /\ ri <= Len(AllReads)
    /\ LET r == AbsRead(AllReads[ri])
           xm == [ i \in DOMAIN r.al |-> Get(calls, r.al[i].p, Dot) ]
           xmcalls == [ i \in { j \in DOMAIN xm : xm[j] # Dot } |-> xm[i] ]
           tot == IF Variant = "totals_per_read" THEN Totals(xmcalls)
                  ELSE IF Variant = "mc_omits_chh" THEN [Totals(calls) EXCEPT !.MC = Totals(calls).sZ + Totals(calls).sX]
                  ELSE Totals(calls)
           xmout == IF Variant = "xm_only_calls" THEN SelectSeq(xm, LAMBDA c : c # Dot) ELSE xm
       IN tagged' = Append(tagged, [ al |-> r.al, xm |-> xmout, tot |-> tot ])
    /\ ri' = ri + 1
    /\ UNCHANGED <<scn, pc, target, fi, tally, cons, todo, calls>>
Finish ==
    /\ pc = "tag"
    /\ ri > Len(AllReads)
    /\ pc' = "done"
    /\ UNCHANGED <<scn, target, fi, tally, cons, todo, calls, ri, tagged>>

Next == SelectTarget \/ FragmentConsensus \/ Majority \/ CallPosition \/ CallsDone \/ TagRead \/ Finish
Spec == Init /\ [][Next]_vars

---------------------------------------------------------------------------------------------------
(* Properties of the model: the P-level clauses on the (partial) result in every reachable state *)
(* call clauses are evaluated while the calls are being produced, read clauses while the reads are  *)
(* being tagged (later states carry the same calls / reads), the whole-molecule verdict at the end *)
PF == AbsFrags(scn.frags, scn.dr1, scn.dr2)
PT == Target(MolRev(PF), scn.conv)
(* (each state with pc = "call" checks the call added last; every prefix is a reachable state)     *)
NoCallClause(names) == (pc = "call" /\ calls # Empty) =>
                           LET p == MaxOf(DOMAIN calls) IN CallClause(scn.ref, PT, PF, p, calls[p]) \notin names
Inv_C14_OnTarget    == NoCallClause({"Inv_C14_OnTarget"})
Inv_C14_DoveSafe    == NoCallClause({"Inv_C14_DoveSafe"})
Inv_C14_OnConsensus == NoCallClause({"Inv_C14_OnConsensus"})
Inv_C14_Letter      == NoCallClause({"Inv_C14_Letter", "Inv_C14_Letter_alphabet"})
Inv_C14_Case        == NoCallClause({"Inv_C14_Case"})
Inv_C14_XMLen       == \A i \in DOMAIN tagged : Len(tagged[i].xm) = Len(tagged[i].al)
Inv_C14_XMLetter    == (pc = "tag" /\ tagged # <<>>) => LET fr == PF t == PT r == tagged[Len(tagged)] IN
                           \A k \in DOMAIN r.xm : r.xm[k] # Dot => CallClause(scn.ref, t, fr, r.al[k].p, r.xm[k]) = "ok"
Inv_C14_Totals      == pc = "tag" => LET tt == Totals(calls) IN
                           \A i \in DOMAIN tagged : \A k \in DOMAIN TotalTags : tagged[i].tot[TotalTags[k]] = tt[TotalTags[k]]
(* the whole-molecule verdict used by the trace spec agrees with the clause-wise invariants *)
Inv_C14_All         == pc = "done" => MolClause(scn.ref, scn.conv, PF, calls, tagged) = "ok"

(* design-level (not C14): the code's table is the CpG/CHG/CHH definition; the call set is complete; *)
(* the D-level consensus equals the P-level consensus                                              *)
Inv_D_Table    == \A c \in { <<"C", x, y>> : x \in Bases, y \in Bases } : c \in DOMAIN MapLower /\ MapLower[c] = Kind(c)
Inv_D_Complete == pc = "done" => DOMAIN calls = ExpectedDomain(scn.ref, scn.conv, PF)
Inv_D_Cons     == pc = "call" /\ calls = Empty => \A p \in DOMAIN cons : cons[p] = ConsAt(PF, p)
Inv_D_Target   == pc # "target" => target = PT

(* scenario generator (spec -> code): print every initial state, explore nothing else *)
Emit == pc = "target" /\ PrintT("@@SCENARIO " \o ToJson(scn))
=====================================================================================================
