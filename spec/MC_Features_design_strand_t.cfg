INIT Init
NEXT Next
CONSTANTS
  MaxCoord = 1
  FeatStrands = {"+","-"}
  QStrands = {".","+","-"}
  NContigs = 2
  MemoCap = 3
  MaxFeat = 2
  MaxSorts = 2
  MaxQueries = 2
  BetweenOn = TRUE
  AnnotLevel = 0
  UnsortedQueries = TRUE
  TrackHist = FALSE
  Variant = "design"
INVARIANT Inv_C16_At
INVARIANT Inv_C16_Between
INVARIANT Inv_C16_Annotate
INVARIANT Inv_D_MemoFresh
INVARIANT Inv_D_MemoEmptyWhenUnsorted
INVARIANT Inv_D_IndexFresh
INVARIANT Inv_D_MemoBound
CHECK_DEADLOCK FALSE
