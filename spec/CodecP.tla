------------------------------------------ MODULE CodecP ------------------------------------------
(* C04, P-level: what the read-name codec has to guarantee, as definitions on plain data          *)
(* (text = sequence of character codes; tag list = sequence of <<key, value>>).                   *)
(* Shared by the design spec (Codec.tla) and the trace spec (Trace_Codec.tla).                    *)
EXTENDS Integers, Sequences, FiniteSets, Functions, SequencesExt

Min2(a, b) == IF a < b THEN a ELSE b
Max2(a, b) == IF a > b THEN a ELSE b

(* ---- pinned facts of the format (tags.py at the pinned commit) ---- *)
PhredTags  == {"QX", "QT", "RQ", "BZ", "QM", "lq", "aQ", "AQ", "E2", "EQ", "eq", "is", "H1", "H3"}
DoNotWrite == {"RP"}
BamLimit   == 254            \* l_read_name is a uint8 that counts the terminating NUL: 254 characters (measured with pysam)

HeaderSafe(c) == (c >= 97 /\ c <= 122) \/ (c >= 65 /\ c <= 90) \/ (c >= 48 /\ c <= 57) \/ c = 45 \/ c = 95

(* ---- the 52-letter phred code: letter i <-> phred i ---- *)
NLetters == 52
LetterCode(i) == IF i < 26 THEN 97 + i ELSE 65 + (i - 26)                \* string.ascii_letters[i]
LetterIdx(c)  == IF c >= 97 /\ c <= 122 THEN c - 97 ELSE IF c >= 65 /\ c <= 90 THEN c - 65 + 26 ELSE -1
DecQ(v) == [ i \in DOMAIN v |-> LetterIdx(v[i]) + 33 ]
TopPhredChar == 33 + NLetters - 1                                        \* 84
Saturate(v) == [ i \in DOMAIN v |-> Min2(Max2(v[i], 33), TopPhredChar) ]

(* f[c] = character obtained by decoding the encoding of phred character c, c in 33..126:          *)
(* total, exact up to the top of the table, above it saturating (never below the top, never above c), monotone *)
QCodeOK(ff) == LET f == ff IN
              /\ \A c \in 33 .. TopPhredChar : f[c] = c
              /\ \A c \in (TopPhredChar + 1) .. 126 : f[c] >= TopPhredChar /\ f[c] <= c
              /\ \A c \in 33 .. 125 : f[c] <= f[c + 1]

(* ---- header serialisation ---- *)
Written(tags) == SelectSeq(tags, LAMBDA t : t[1] \notin DoNotWrite)
HeaderLen(tags) == LET w == Written(tags) IN
                   FoldLeft(LAMBDA acc, t : acc + 3 + Len(t[2]), 0, w) + (IF Len(w) > 0 THEN Len(w) - 1 ELSE 0)

(* model-side representation of the header: a key is one token 1000+n standing for its two characters *)
KeyTable == << "Is", "RN", "Fc", "La", "Ti", "CX", "CY", "RP", "Fi", "CN", "aa", "aA", "aI", "LY", "RX", "RQ", "bi", "bc", "MX", "BC",
               "rS", "lh", "lq", "dt", "MI", "SM", "BK" >>
KeyTok(k) == 1000 + (CHOOSE i \in DOMAIN KeyTable : KeyTable[i] = k)
KeyOf(tok) == KeyTable[tok - 1000]
Header(tags) == LET w == Written(tags)
                    piece(i) == (IF i > 1 THEN <<59>> ELSE <<>>) \o << KeyTok(w[i][1]), 58 >> \o w[i][2]
                    F[i \in 0 .. Len(w)] == IF i = 0 THEN <<>> ELSE F[i - 1] \o piece(i)
                IN F[Len(w)]
RealLen(h) == Len(h) + Cardinality({ i \in DOMAIN h : h[i] >= 1000 })

SplitOn(s, c) == LET cuts == <<0>> \o SelectSeq([ i \in 1 .. Len(s) |-> IF s[i] = c THEN i ELSE 0 ], LAMBDA x : x > 0) \o << Len(s) + 1 >>
                 IN [ j \in 1 .. (Len(cuts) - 1) |-> SubSeq(s, cuts[j] + 1, cuts[j + 1] - 1) ]

(* dict semantics: the last assignment of a key wins *)
TagFun(seq) == [ k \in { seq[i][1] : i \in DOMAIN seq } |->
                   seq[CHOOSE i \in DOMAIN seq : seq[i][1] = k /\ \A j \in DOMAIN seq : seq[j][1] = k => j <= i][2] ]

(* ---- the round trip ---- *)
StripAt(v) == IF Len(v) > 0 /\ v[1] = 64 THEN Tail(v) ELSE v        \* the FASTQ '@' is not part of the instrument name

(* what the BAM tag k must hold when the demultiplexer wrote (k, v) with the raw (un-encoded) value v *)
ExpectRaw(k, v) == IF k \in PhredTags THEN Saturate(v) ELSE IF k = "Is" THEN StripAt(v) ELSE v

FirstBadKey(raw, bam) ==
    LET w == Written(raw)
        bad == { i \in DOMAIN w : ~(w[i][1] \in DOMAIN bam /\ bam[w[i][1]] = ExpectRaw(w[i][1], w[i][2])) }
    IN IF bad = {} THEN "" ELSE w[CHOOSE i \in bad : \A j \in bad : i <= j][1]

Val(f, k) == IF k \in DOMAIN f THEN f[k] ELSE <<>>

SampleOK(raw, bam) == LET r == TagFun(raw) IN
    "SM" \in DOMAIN bam /\ bam["SM"] = Val(r, "LY") \o <<95>> \o (IF "bi" \in DOMAIN r THEN r["bi"] ELSE <<66, 85, 76, 75>>)
(* the index of the molecular identifier is the corrected sequencing index aA; where the demultiplexer wrote none  *)
(* (no index parser configured / header without index) the statement makes no claim about MI                       *)
MoleculeOK(raw, bam) == LET r == TagFun(raw) IN
    "aA" \in DOMAIN r => ("MI" \in DOMAIN bam /\ bam["MI"] = Val(r, "BC") \o Val(r, "RX") \o Val(r, "aA"))

RoundTripOK(raw, bam, qname, coords) ==
    /\ FirstBadKey(raw, bam) = ""
    /\ SampleOK(raw, bam)
    /\ MoleculeOK(raw, bam)
    /\ qname = coords
=====================================================================================================
