---------------------------------------- MODULE TagPipeline ----------------------------------------
(* C20 - the status marker reports success only for a complete, sorted, indexed output.            *)
(* (also carries the sort / re-header / index half of C05)                                          *)
(*                                                                                                 *)
(* The tagger CLI (bamtagmultiome.run_multiome_tagging) maintains `<output>.status.txt`:            *)
(*      unfinished  ->  FAIL, The file is not complete  |  Reached end. All ok!                     *)
(* next to the output BAM, its index and temporary files.  This module is a program-counter model   *)
(* of the side effects of both pipelines on those files, one action per side effect, with a Crash    *)
(* (exception or hard kill) enabled at EVERY program counter.                                       *)
(*                                                                                                 *)
(* single process (bamtagmultiome.py:453-546, bamFunctions.sorted_bam_file / sort_and_index):       *)
(*   StatusUnfinished VerifyInput RemoveOld OpenInput OpenUnsorted WriteMolecule* [StatusOk impl]   *)
(*   CloseUnsorted AddReadGroups SortBegin (SortFail) SortEnd Index RemoveUnsorted [StatusOk design]*)
(* multiprocess (bamtagmultiome.py:273-450, tagging.run_tagging_tasks, bamFunctions.merge_bams):    *)
(*   StatusUnfinished VerifyInput RemoveOld OpenInput Plan { worker j: WOpen WWrite* WClose WAddRG  *)
(*   WSort WIndex WRemoveUnsorted WReturn } Collect HeaderBam MergeBegin MergeEnd IndexMerged       *)
(*   RemoveParts RemoveTemp(may fail silently) StatusOk                                             *)
(*                                                                                                 *)
(* StatusOrder = "design": StatusOk is the LAST side effect of the single pipeline.                 *)
(* StatusOrder = "impl"  : as coded at the pinned commit (bamtagmultiome.py:546, inside the         *)
(*                         `with sorted_bam_file(...)` block): StatusOk precedes close, re-header,  *)
(*                         sort and index (named deviation D17).                                    *)
(* PlanVariant = "design": every job is planned.   "impl": the contig-per-process plan may drop    *)
(*                         jobs (D4, see JobPlan.tla) - seen from here as an arbitrary subset.      *)
(* Mutation (negative controls for deviations that were never in the code, seeded one token away):   *)
(*   "sort_no_reraise"         : sort_and_index does not re-raise when the sort failed at the last     *)
(*                               temp location too: the half-written output is indexed, run goes on    *)
(*   "worker_swallows_ioerror" : run_tagging_tasks treats an I/O error inside a task like a timed-out  *)
(*                               region (`except OSError`): the job file is kept with records missing  *)
EXTENDS Integers, Sequences, FiniteSets, TLC, Json, TagRecords

(*   "interrupt_swallowed"     : the molecule loop of the single pipeline catches KeyboardInterrupt,     *)
(*                               stops writing and falls through to close / sort / index / status ok   *)
(*   "reheader_error_swallowed": an error inside add_readgroups_to_header is treated as non-fatal: the  *)
(*                               un-reheadered file is sorted, indexed and reported ok                  *)
(*   "merge_skips_missing_parts": merge_bams silently drops per-job files that no longer exist          *)
(*   "index_error_swallowed"   : sort_and_index ignores a failing index step                            *)
CONSTANTS Mutation,     \* "none" | "sort_no_reraise" | "worker_swallows_ioerror" | "interrupt_swallowed"
          NMol,         \* molecules per pipeline / per job: 0..NMol
          NJobs,        \* jobs of the multiprocess pipeline (job 1 is the `*` job)
          Pipelines,    \* subset of {"single", "multi"}
          PrevChoices,  \* subset of BOOLEAN: does a complete earlier run (status ok) exist at start
          SizeChoices,  \* set of size vectors [1..NJobs -> 0..NMol] (single uses the sum)
          StatusOrder, PlanVariant

---------------------------------------------------------------------------------------------------
(* P-level: the property on an abstract observation                                                *)
(*   obs = [status, interrupted, exists, readable, sorted, indexed, complete]                       *)
(* returns "ok" or the name of the first failing clause                                             *)
C20Clause(obs) ==
    IF obs.status # "ok" THEN "ok"
    ELSE IF obs.interrupted THEN "Inv_C20_ok_after_interruption"
    ELSE IF ~obs.exists     THEN "Inv_C20_exists"
    ELSE IF ~obs.readable   THEN "Inv_C20_readable"
    ELSE IF ~obs.sorted     THEN "Inv_C20_sorted"
    ELSE IF ~obs.indexed    THEN "Inv_C20_indexed"
    ELSE IF ~obs.complete   THEN "Inv_C20_complete"
    ELSE IF ~obs.reheadered THEN "Inv_C20_reheadered"     \* the re-header step failed (its effect is absent): "fails at any step"
    ELSE "ok"

(* D-level bookkeeping check used only for DIVERGENCE notes: the status writes of one run in the    *)
(* design order are a prefix of <<unfinished, ok>> or <<unfinished, fail>>                          *)
StatusSequenceOK(ws) == \/ ws = <<>> \/ ws = <<"unfinished">> \/ ws = <<"unfinished", "ok">> \/ ws = <<"unfinished", "fail">>

---------------------------------------------------------------------------------------------------
VARIABLES pipeline,  \* "single" | "multi"
          prev,      \* a complete earlier run (output, index, status ok) is on disk at start
          size,      \* molecules per job
          pc,        \* parent program counter
          status,    \* "none" | "unfinished" | "fail" | "ok"     content class of <out>.status.txt
          unsorted,  \* [st: "absent"|"open"|"closed", n, rg]      <out>.bam.unsorted (single pipeline)
          out,       \* [st: "absent"|"partial" (truncated)|"short" (readable, records missing)|"complete", n, sorted, rg]
          bai,       \* "absent" | "ok"
          w,         \* worker/job state  [j -> [pc, n]]
          planned, collected,
          tries,     \* failed sort attempts (sort_and_index retries at 3 temp locations)
          crashed, crashAt, crashKind, crashJob,
          tempLeft   \* the temporary folder could not be removed (reported on stderr only)
vars == <<pipeline, prev, size, pc, status, unsorted, out, bai, w, planned, collected, tries, crashed, crashAt, crashKind, crashJob, tempLeft>>

Jobs == 1 .. NJobs
AllSizes == [Jobs -> 0 .. NMol]
GenSizesQ == {<<1, 2, 1>>}                           \* scenario generation (NJobs = 3): `*` job, two contig jobs
GenSizesT == {<<1, 2, 1>>, <<0, 1, 2>>, <<2, 0, 1>>, <<0, 0, 0>>}     \* incl. an input without any record
Sum(f) == FoldSet(LAMBDA j, acc : acc + f[j], 0, DOMAIN f)
Total == Sum(size)

NoFile == [st |-> "absent", n |-> 0, sorted |-> FALSE, rg |-> FALSE]
WIdle == [pc |-> "idle", n |-> 0]

Init == /\ pipeline \in Pipelines
        /\ size \in SizeChoices
        /\ pc = "start"
        /\ prev \in PrevChoices
        /\ IF prev THEN status = "ok" /\ out = [st |-> "complete", n |-> Total, sorted |-> TRUE, rg |-> TRUE] /\ bai = "ok"
                   ELSE status = "none" /\ out = NoFile /\ bai = "absent"
        /\ unsorted = [st |-> "absent", n |-> 0, rg |-> FALSE]
        /\ w = [j \in Jobs |-> WIdle]
        /\ planned = {} /\ collected = {}
        /\ tries = 0
        /\ crashed = FALSE /\ crashAt = "" /\ crashKind = "" /\ crashJob = 0 /\ tempLeft = FALSE

Step(from, to) == ~crashed /\ pc = from /\ pc' = to
Same(v) == UNCHANGED v

---------------------------------------------------------------------------------------------------
(* common prefix  (run_multiome_tagging, bamtagmultiome.py:650-667)                                 *)
StatusUnfinished == /\ Step("start", "verify") /\ status' = "unfinished"
                    /\ UNCHANGED <<pipeline, prev, size, unsorted, out, bai, w, planned, collected, tries, crashed, crashAt, crashKind, crashJob, tempLeft>>
VerifyInput      == /\ Step("verify", "rmold")
                    /\ UNCHANGED <<pipeline, prev, size, status, unsorted, out, bai, w, planned, collected, tries, crashed, crashAt, crashKind, crashJob, tempLeft>>
RemoveOld        == /\ Step("rmold", "openin") /\ out' = NoFile /\ bai' = "absent"
                    /\ UNCHANGED <<pipeline, prev, size, status, unsorted, w, planned, collected, tries, crashed, crashAt, crashKind, crashJob, tempLeft>>
OpenInput        == /\ Step("openin", IF pipeline = "single" THEN "open" ELSE "plan")
                    /\ UNCHANGED <<pipeline, prev, size, status, unsorted, out, bai, w, planned, collected, tries, crashed, crashAt, crashKind, crashJob, tempLeft>>

---------------------------------------------------------------------------------------------------
(* single process pipeline *)
OpenUnsorted  == /\ Step("open", "loop") /\ unsorted' = [st |-> "open", n |-> 0, rg |-> FALSE]
                 /\ UNCHANGED <<pipeline, prev, size, status, out, bai, w, planned, collected, tries, crashed, crashAt, crashKind, crashJob, tempLeft>>
WriteMolecule == /\ ~crashed /\ pc = "loop" /\ unsorted.n < Total
                 /\ unsorted' = [unsorted EXCEPT !.n = @ + 1]
                 /\ UNCHANGED <<pipeline, prev, size, pc, status, out, bai, w, planned, collected, tries, crashed, crashAt, crashKind, crashJob, tempLeft>>
LoopInterruptSwallowed ==                         \* only under Mutation = "interrupt_swallowed": not a crash, the run goes on
                 /\ Mutation = "interrupt_swallowed" /\ Step("loop", "close") /\ unsorted.n < Total
                 /\ UNCHANGED <<pipeline, prev, size, status, unsorted, out, bai, w, planned, collected, tries, crashed, crashAt, crashKind, crashJob, tempLeft>>
LoopEnd       == /\ Step("loop", "close") /\ unsorted.n = Total
                 /\ status' = IF StatusOrder = "impl" THEN "ok" ELSE status      \* D17: success reported here
                 /\ UNCHANGED <<pipeline, prev, size, unsorted, out, bai, w, planned, collected, tries, crashed, crashAt, crashKind, crashJob, tempLeft>>
CloseUnsorted == /\ Step("close", "addrg") /\ unsorted' = [unsorted EXCEPT !.st = "closed"]
                 /\ UNCHANGED <<pipeline, prev, size, status, out, bai, w, planned, collected, tries, crashed, crashAt, crashKind, crashJob, tempLeft>>
AddRGWrite    == /\ Step("addrg", "addrg2")                                   \* re-headered copy written to a temp file
                 /\ UNCHANGED <<pipeline, prev, size, status, unsorted, out, bai, w, planned, collected, tries, crashed, crashAt, crashKind, crashJob, tempLeft>>
AddRGRename   == /\ Step("addrg2", "sort") /\ unsorted' = [unsorted EXCEPT !.rg = TRUE]    \* atomic rename over the unsorted file
                 /\ UNCHANGED <<pipeline, prev, size, status, out, bai, w, planned, collected, tries, crashed, crashAt, crashKind, crashJob, tempLeft>>
AddRGSwallowed == /\ Mutation = "reheader_error_swallowed" /\ ~crashed /\ pc \in {"addrg", "addrg2"} /\ pc' = "sort"
                 /\ UNCHANGED <<pipeline, prev, size, status, unsorted, out, bai, w, planned, collected, tries, crashed, crashAt, crashKind, crashJob, tempLeft>>
LoseUnsorted  == /\ ~crashed /\ pc = "sort" /\ unsorted.st = "closed" /\ crashKind # "vanish"    \* environment: the file vanishes / is emptied
                 /\ unsorted' = [unsorted EXCEPT !.st = "lost"] /\ crashKind' = "vanish" /\ crashAt' = pc
                 /\ UNCHANGED <<pipeline, prev, size, pc, status, out, bai, w, planned, collected, tries, crashed, crashJob, tempLeft>>
SortBegin     == /\ Step("sort", "sorting") /\ unsorted.st = "closed"   \* (a lost input makes every attempt fail: only Crash remains)
                            \* what a dying sort leaves behind: a truncated or a short but readable file
                 /\ \E left \in {"partial", "short"} : out' = [st |-> left, n |-> 0, sorted |-> TRUE, rg |-> FALSE]
                 /\ UNCHANGED <<pipeline, prev, size, status, unsorted, bai, w, planned, collected, tries, crashed, crashAt, crashKind, crashJob, tempLeft>>
SortFail      == /\ Step("sorting", "sort") /\ tries < 2 /\ tries' = tries + 1          \* caught, retried elsewhere
                 /\ UNCHANGED <<pipeline, prev, size, status, unsorted, out, bai, w, planned, collected, crashed, crashAt, crashKind, crashJob, tempLeft>>
SortGiveUp    == /\ Mutation = "sort_no_reraise" /\ Step("sorting", "index") /\ tries = 2      \* third failure not re-raised
                 /\ UNCHANGED <<pipeline, prev, size, status, unsorted, out, bai, w, planned, collected, tries, crashed, crashAt, crashKind, crashJob, tempLeft>>
SortEnd       == /\ Step("sorting", "index") /\ out' = [st |-> "complete", n |-> unsorted.n, sorted |-> TRUE, rg |-> unsorted.rg]
                 /\ UNCHANGED <<pipeline, prev, size, status, unsorted, bai, w, planned, collected, tries, crashed, crashAt, crashKind, crashJob, tempLeft>>
LoseSorted    == /\ ~crashed /\ pc = "index" /\ out.st = "complete" /\ crashKind # "vanish"
                 /\ out' = [out EXCEPT !.st = "absent"] /\ crashKind' = "vanish" /\ crashAt' = pc
                 /\ UNCHANGED <<pipeline, prev, size, pc, status, unsorted, bai, w, planned, collected, tries, crashed, crashJob, tempLeft>>
IndexBegin    == /\ Step("index", "indexing") /\ out.st \in {"short", "complete"} /\ bai' = "partial"
                 /\ UNCHANGED <<pipeline, prev, size, status, unsorted, out, w, planned, collected, tries, crashed, crashAt, crashKind, crashJob, tempLeft>>
IndexEnd      == /\ Step("indexing", "rmunsorted") /\ bai' = "ok"
                 /\ UNCHANGED <<pipeline, prev, size, status, unsorted, out, w, planned, collected, tries, crashed, crashAt, crashKind, crashJob, tempLeft>>
IndexErrorSwallowed == /\ Mutation = "index_error_swallowed" /\ Step("indexing", "rmunsorted")     \* truncated / no index left, run goes on
                 /\ UNCHANGED <<pipeline, prev, size, status, unsorted, out, bai, w, planned, collected, tries, crashed, crashAt, crashKind, crashJob, tempLeft>>
RemoveUnsorted == /\ Step("rmunsorted", IF StatusOrder = "impl" THEN "done" ELSE "statusok")
                  /\ unsorted' = [unsorted EXCEPT !.st = "absent"]
                  /\ UNCHANGED <<pipeline, prev, size, status, out, bai, w, planned, collected, tries, crashed, crashAt, crashKind, crashJob, tempLeft>>
StatusOk      == /\ Step("statusok", "done") /\ status' = "ok"
                 /\ UNCHANGED <<pipeline, prev, size, unsorted, out, bai, w, planned, collected, tries, crashed, crashAt, crashKind, crashJob, tempLeft>>

---------------------------------------------------------------------------------------------------
(* multiprocess pipeline *)
Plan == /\ Step("plan", "pool")
        /\ IF PlanVariant = "design" THEN planned' = Jobs ELSE planned' \in SUBSET Jobs
        /\ UNCHANGED <<pipeline, prev, size, status, unsorted, out, bai, w, collected, tries, crashed, crashAt, crashKind, crashJob, tempLeft>>

WStep(j, from, to) == /\ ~crashed /\ pc = "pool" /\ j \in planned /\ w[j].pc = from
                      /\ w' = [w EXCEPT ![j].pc = to]
                      /\ UNCHANGED <<pipeline, prev, size, pc, status, unsorted, out, bai, planned, collected, tries, crashed, crashAt, crashKind, crashJob, tempLeft>>
WOpen(j)   == WStep(j, "idle", "open")
WWrite(j)  == /\ ~crashed /\ pc = "pool" /\ j \in planned /\ w[j].pc = "open" /\ w[j].n < size[j]
              /\ w' = [w EXCEPT ![j].n = @ + 1]
              /\ UNCHANGED <<pipeline, prev, size, pc, status, unsorted, out, bai, planned, collected, tries, crashed, crashAt, crashKind, crashJob, tempLeft>>
WClose(j)  == w[j].n = size[j] /\ WStep(j, "open", "closed")
WSwallow(j) == Mutation = "worker_swallows_ioerror" /\ w[j].n < size[j] /\ WStep(j, "open", "closed")   \* rest of the task skipped
WAddRGWrite(j)  == WStep(j, "closed", "rgtmp")
WAddRG(j)  == WStep(j, "rgtmp", "rg")
WSort(j)   == WStep(j, "rg", "sorted")
WIndex(j)  == WStep(j, "sorted", "indexed")
WRemoveUnsorted(j) == WStep(j, "indexed", "clean")
WReturn(j) == WStep(j, "clean", "ret")        \* returns its path, or deletes the file and returns None when size[j] = 0

Collect    == /\ Step("pool", "header") /\ \A j \in planned : w[j].pc = "ret"
              /\ collected' = { j \in planned : w[j].n > 0 }
              /\ UNCHANGED <<pipeline, prev, size, status, unsorted, out, bai, w, planned, tries, crashed, crashAt, crashKind, crashJob, tempLeft>>
HeaderBam  == /\ Step("header", "merge")
              /\ UNCHANGED <<pipeline, prev, size, status, unsorted, out, bai, w, planned, collected, tries, crashed, crashAt, crashKind, crashJob, tempLeft>>
LosePart(j) == /\ ~crashed /\ pc = "merge" /\ j \in collected /\ w[j].pc = "ret" /\ crashKind # "vanish"   \* a per-job file vanishes
               /\ w' = [w EXCEPT ![j].pc = "lost"] /\ crashKind' = "vanish" /\ crashAt' = pc /\ crashJob' = j
               /\ UNCHANGED <<pipeline, prev, size, pc, status, unsorted, out, bai, planned, collected, tries, crashed, tempLeft>>
PartsThere == \A j \in collected : w[j].pc = "ret"
MergeBegin == /\ Step("merge", "merging") /\ (PartsThere \/ Mutation = "merge_skips_missing_parts")
              /\ \E left \in {"partial", "short"} : out' = [st |-> left, n |-> 0, sorted |-> TRUE, rg |-> FALSE]
              /\ UNCHANGED <<pipeline, prev, size, status, unsorted, bai, w, planned, collected, tries, crashed, crashAt, crashKind, crashJob, tempLeft>>
MergeEnd   == /\ Step("merging", "indexmerged")
              /\ out' = [st |-> "complete", n |-> Sum([j \in { x \in collected : w[x].pc = "ret" } |-> w[j].n]), sorted |-> TRUE, rg |-> TRUE]   \* merge -c keeps the @RG of the parts
              /\ UNCHANGED <<pipeline, prev, size, status, unsorted, bai, w, planned, collected, tries, crashed, crashAt, crashKind, crashJob, tempLeft>>
IndexMergedBegin == /\ Step("indexmerged", "indexingmerged") /\ bai' = "partial"
               /\ UNCHANGED <<pipeline, prev, size, status, unsorted, out, w, planned, collected, tries, crashed, crashAt, crashKind, crashJob, tempLeft>>
IndexMerged == /\ Step("indexingmerged", "rmparts") /\ bai' = "ok"
               /\ UNCHANGED <<pipeline, prev, size, status, unsorted, out, w, planned, collected, tries, crashed, crashAt, crashKind, crashJob, tempLeft>>
RemoveParts == /\ Step("rmparts", "rmtemp")
               /\ UNCHANGED <<pipeline, prev, size, status, unsorted, out, bai, w, planned, collected, tries, crashed, crashAt, crashKind, crashJob, tempLeft>>
RemoveTemp  == /\ Step("rmtemp", "statusok")
               /\ UNCHANGED <<pipeline, prev, size, status, unsorted, out, bai, w, planned, collected, tries, crashed, crashAt, crashKind, crashJob, tempLeft>>
RemoveTempFails == /\ Step("rmtemp", "statusok") /\ tempLeft' = TRUE     \* rmtree raises: caught, reported on stderr, run continues
               /\ UNCHANGED <<pipeline, prev, size, status, unsorted, out, bai, w, planned, collected, tries, crashed, crashAt, crashKind, crashJob>>

---------------------------------------------------------------------------------------------------
(* failures: terminal.  kind "exception": a Python exception propagates (inside the molecule loop   *)
(* of the single pipeline the except arm writes FAIL first); kind "kill": the process disappears.   *)
Kinds == {"exception", "ioerror", "interrupt", "kill"}
(* ioerror: an OSError (disk full, truncated read), a Python exception like any other.  interrupt: SIGINT /      *)
(* KeyboardInterrupt, a BaseException: `except Exception` arms (FAIL status, sort retry) do not see it, and a     *)
(* pool worker that receives it dies like a killed one.                                                           *)
Caught(kind) == kind \in {"exception", "ioerror"}
Crash(kind) ==
    /\ ~crashed /\ pc # "done"
    /\ crashed' = TRUE
    /\ IF crashJob > 0 \/ crashKind = "vanish" THEN UNCHANGED <<crashAt, crashKind, crashJob>>     \* the hung parent of a killed worker is killed
       ELSE crashAt' = pc /\ crashKind' = kind /\ crashJob' = 0
    /\ status' = IF Caught(kind) /\ pipeline = "single" /\ pc = "loop" THEN "fail" ELSE status
    /\ UNCHANGED <<pipeline, prev, size, pc, unsorted, out, bai, w, planned, collected, tries, tempLeft>>

(* a worker raising: the exception is re-raised in the parent by imap_unordered; a worker killed:  *)
(* multiprocessing.Pool never delivers the result, the parent waits forever until it is killed too *)
WorkerCrash(j, kind) ==
    /\ ~crashed /\ pc = "pool" /\ j \in planned /\ w[j].pc \notin {"ret", "dead"}
    /\ IF Caught(kind)
       THEN crashed' = TRUE /\ crashAt' = "worker:" \o w[j].pc /\ crashKind' = kind /\ crashJob' = j /\ Same(w)
       ELSE w' = [w EXCEPT ![j].pc = "dead"] /\ crashAt' = "worker:" \o w[j].pc /\ crashJob' = j /\ crashKind' = kind /\ Same(crashed)
    /\ UNCHANGED <<pipeline, prev, size, pc, status, unsorted, out, bai, planned, collected, tries, tempLeft>>

SingleNext == OpenUnsorted \/ WriteMolecule \/ LoopInterruptSwallowed \/ LoopEnd \/ CloseUnsorted \/ AddRGWrite \/ AddRGRename \/ AddRGSwallowed \/ LoseUnsorted \/ SortBegin \/ SortFail \/ SortGiveUp \/ SortEnd
              \/ LoseSorted \/ IndexBegin \/ IndexEnd \/ IndexErrorSwallowed \/ RemoveUnsorted
WorkerNext == \E j \in Jobs : WOpen(j) \/ WWrite(j) \/ WClose(j) \/ WSwallow(j) \/ WAddRGWrite(j) \/ WAddRG(j) \/ WSort(j) \/ WIndex(j) \/ WRemoveUnsorted(j) \/ WReturn(j)
MultiNext  == Plan \/ Collect \/ HeaderBam \/ (\E j \in Jobs : LosePart(j)) \/ MergeBegin \/ MergeEnd \/ IndexMergedBegin \/ IndexMerged \/ RemoveParts \/ RemoveTemp \/ RemoveTempFails
AnyCrash       == \E kind \in Kinds : Crash(kind)
AnyWorkerCrash == \E j \in Jobs, kind \in Kinds : WorkerCrash(j, kind)
Next == StatusUnfinished \/ VerifyInput \/ RemoveOld \/ OpenInput \/ SingleNext \/ WorkerNext \/ MultiNext \/ StatusOk
        \/ AnyCrash \/ AnyWorkerCrash
Spec == Init /\ [][Next]_vars

---------------------------------------------------------------------------------------------------
(* Properties *)
Obs == [status |-> status,
        interrupted |-> crashed /\ crashAt # "start",
        exists |-> out.st # "absent", readable |-> out.st \in {"short", "complete"}, sorted |-> out.sorted,
        indexed |-> bai = "ok", complete |-> out.st = "complete" /\ out.n = Total, reheadered |-> out.rg]
Inv_C20 == C20Clause(Obs) = "ok"
(* the remaining half of C05: a run that finished left a sorted, indexed, re-headered output *)
Inv_C05_Finished == pc = "done" => out.st = "complete" /\ out.sorted /\ out.rg /\ bai = "ok"
Inv_Type == /\ status \in {"none", "unfinished", "fail", "ok"}
            /\ out.st \in {"absent", "partial", "short", "complete"}
            /\ status = "fail" => crashed

(* scenario generation (rule 13): every crash point of the design model *)
Emit == IF crashed \/ (\E j \in Jobs : w[j].pc = "dead") \/ pc = "done" \/ crashKind = "vanish"
        THEN PrintT("@@SCENARIO " \o ToJson([pipeline |-> pipeline, size |-> size, prev |-> prev,
                                             at |-> IF pc = "done" /\ ~crashed THEN "done" ELSE crashAt,
                                             kind |-> IF pc = "done" /\ ~crashed THEN (IF tempLeft THEN "rmtree_fails" ELSE "none") ELSE crashKind,
                                             job |-> crashJob, left |-> out.st,
                                             k |-> IF crashJob > 0 THEN w[crashJob].n ELSE unsorted.n, tries |-> tries]))
        ELSE TRUE
=====================================================================================================
