INIT Init
NEXT Next
CONSTANTS
  Contigs = {"c1","c2"}
  AbsentContigs = {"cx"}
  NoCacheContigs = {}
  Positions = {0}
  Samples = {"s1", "s2"}
  GTSet = "full"
  ConfigSet = "allph"
  MaxRuns = 3
  MaxOps = 5
  Variant = "design"
  Record = TRUE
CONSTRAINT Emit
CHECK_DEADLOCK FALSE
