---------------------------------------- MODULE Trace_Taps ----------------------------------------
(* Observations of real TAPS molecules (TAPSNlaIIIMolecule / TAPSCHICMolecule after __finalise__) *)
(* judged by the P-level definitions of Taps.tla (MolClause = the clauses of C14).                *)
(*                                                                                               *)
(* {"ev":"mol","tid":n,"src":"random|context|geometry","cls":"nla|chic","conv":"F|R",            *)
(*  "contig":name,"ref":[letters of the whole contig as written to the FASTA file],               *)
(*  "strand":0|1|-1 (as reported by the molecule), "raised":"" | exception type,                  *)
(*  "pre":"" | name of an input class outside the quantifier, "refobj":"fasta|cached",            *)
(*  "history":"once|incremental|requery", "post":"none|write_tags|pseudo" (what was done after      *)
(*  __finalise__: Molecule.write_tags(), or write_tags_to_psuedoreads() on tag-less copies of the  *)
(*  reads - then XM/tot are those of the copies), "post_raised":"" | exception type,               *)
(*  "frags":[{"reads":[{"mate":1|2,"rev":bool,"start":int,"cigar":[[op,len]..],"seq":[..],       *)
(*                      "qual":[..],"has_xm":bool,"xm":[..],"tot":{"MC":..,"uC":..,...}}]}],      *)
(*  "calls":[{"contig":name,"p":pos,"letter":"z|Z|x|X|h|H|.","cons":base}]}                       *)
(* Everything the verdict needs (aligned columns from the CIGAR, safe spans, fragment votes,      *)
(* consensus, context, letter, totals) is recomputed here from these raw fields.                  *)
EXTENDS TraceLib, Util

T == INSTANCE Taps WITH L <- 0, Alphabet <- {}, Mode <- "trace", GeomRefs <- {}, MaxFrags <- 0, DistMode <- "zero", Variant <- "design",
                        scn <- 0, pc <- "trace", target <- "-", fi <- 0, tally <- 0, cons <- 0, todo <- 0, calls <- 0,
                        ri <- 0, tagged <- 0

VARIABLE l

(* CIGAR walk: M/=/X consume both, I/S the query, D/N the reference, H/P nothing *)
Expand(cigar) == FoldLeft(LAMBDA acc, c : acc \o [ i \in 1 .. c[2] |-> c[1] ], <<>>, cigar)
Walk(r) ==
    FoldLeft(LAMBDA s, op :
                 IF op \in {0, 7, 8} THEN [ q |-> s.q + 1, p |-> s.p + 1,
                                            al |-> Append(s.al, [ p |-> s.p, b |-> r.seq[s.q + 1], q |-> r.qual[s.q + 1] ]) ]
                 ELSE IF op \in {1, 4} THEN [ s EXCEPT !.q = @ + 1 ]
                 ELSE IF op \in {2, 3} THEN [ s EXCEPT !.p = @ + 1 ]
                 ELSE s,
             [ q |-> 0, p |-> r.start, al |-> <<>> ], Expand(r.cigar))
AbsRead(r) == LET w == Walk(r) IN [ mate |-> r.mate, rev |-> r.rev, start |-> r.start, end |-> w.p, al |-> w.al ]
(* e.dr1 / e.dr2: the dove_R1_distance / dove_R2_distance handed to the molecule (methylation_consensus_kwargs; 0 = default) *)
AbsFrags(e) == [ i \in DOMAIN e.frags |-> [ reads |-> [ k \in DOMAIN e.frags[i].reads |-> AbsRead(e.frags[i].reads[k]) ],
                                            dr1 |-> e.dr1, dr2 |-> e.dr2 ] ]
ReadsOf(e) == FoldLeft(LAMBDA acc, f : acc \o f.reads, <<>>, e.frags)
Tagged(e) == LET rs == ReadsOf(e) IN [ i \in DOMAIN rs |-> [ al |-> Walk(rs[i]).al, xm |-> rs[i].xm, tot |-> rs[i].tot ] ]
CallsOf(e) == LET S == SeqSet(e.calls) IN [ p \in { c.p : c \in S } |-> (CHOOSE c \in S : c.p = p).letter ]

(* e.pre names an input class outside the statement's quantifier (e.g. "unmapped_mate"): observed, never judged *)
Precondition(e) == LET fr == AbsFrags(e) IN T!StrandDefined(fr) /\ T!StrandConsistent(fr)

MolVerdict(e) ==
    IF e.pre # "" THEN "ok"
    ELSE IF e.raised # "" THEN "Raised_" \o e.raised
    ELSE IF ~Precondition(e) THEN "ok"
    ELSE IF \E i \in DOMAIN e.calls : e.calls[i].contig # e.contig THEN "Inv_C14_OnTarget_contig"
    ELSE IF Cardinality({ c.p : c \in SeqSet(e.calls) }) # Len(e.calls) THEN "duplicate_call_position"
    ELSE IF \E r \in SeqSet(ReadsOf(e)) : ~r.has_xm THEN "Inv_C14_XMLen_no_call_string"
    ELSE T!MolClause(e.ref, e.conv, AbsFrags(e), CallsOf(e), Tagged(e))

(* TAPS.position_to_context called directly with the true reference base of the position as ref_base:             *)
(* {"ev":"ctx","tid":n,"contig","ref":[..],"p":pos,"obs":observed base (either case),"symbol":returned letter,"raised"} *)
(* a C or G is a potential target of some strand/convention: the letter must be one ExpLetters allows for that base;    *)
(* any other reference base is not a target: no letter                                                                  *)
CtxVerdict(e) ==
    LET rb  == T!RefAt(e.ref, e.p)
        exp == T!ExpLetters(e.ref, e.p, rb, T!Upper(e.obs))
    IN IF e.raised # "" THEN "Raised_" \o e.raised
       ELSE IF rb \notin {"C", "G"} THEN (IF e.symbol = "." THEN "ok" ELSE "Inv_C14_OnTarget")
       ELSE IF e.symbol \in exp THEN "ok"
       ELSE IF T!Low(e.symbol) \in { T!Low(x) : x \in exp } THEN "Inv_C14_Case"
       ELSE "Inv_C14_Letter"

Verdict(e) == CASE e.ev = "mol" -> MolVerdict(e)
                [] e.ev = "ctx" -> CtxVerdict(e)
                [] OTHER -> "unknown_event"

(* informational observations (never rejects) *)
Observe(line, e) ==
    IF e.ev # "mol" THEN TRUE
    ELSE IF e.pre # "" THEN Note(line, e.tid, "outside_quantifier_" \o e.pre \o
                                              (IF e.raised # "" THEN "_raises_" \o e.raised ELSE "_no_exception"))
    ELSE IF e.raised # "" THEN TRUE
    ELSE IF ~Precondition(e) THEN Note(line, e.tid, "outside_precondition_strand")
    ELSE LET fr == AbsFrags(e)
             cl == CallsOf(e)
             t  == T!Target(T!MolRev(fr), e.conv)
             missing == T!ExpectedDomain(e.ref, e.conv, fr) \ DOMAIN cl
             trunc == { p \in DOMAIN cl : T!RefAt(e.ref, p) = t /\ ~T!CtxComplete(T!Ctx(e.ref, p, t)) }
             cgend == { p \in trunc : T!Ctx(e.ref, p, t)[2] = "G" /\ cl[p] = "." }
             rs == Tagged(e)
             xmdiff == \E i \in DOMAIN rs : Len(rs[i].xm) = Len(rs[i].al) /\
                          \E k \in DOMAIN rs[i].xm : rs[i].xm[k] # (IF rs[i].al[k].p \in DOMAIN cl THEN cl[rs[i].al[k].p] ELSE ".")
             strandfield == e.strand # (IF T!MolRev(fr) THEN 1 ELSE 0)
             consfield == \E i \in DOMAIN e.calls : e.calls[i].cons # T!ConsAt(fr, e.calls[i].p)
         IN /\ (IF e.post_raised # "" THEN Note(line, e.tid, "post_step_" \o e.post \o "_raises_" \o e.post_raised) ELSE TRUE)
            /\ (IF missing # {} THEN Note(line, e.tid, "divergence_missing_call") ELSE TRUE)
            /\ (IF trunc # {} THEN Note(line, e.tid, "truncated_or_nonACGT_context") ELSE TRUE)
            /\ (IF cgend # {} THEN Note(line, e.tid, "CpG_with_incomplete_third_base_not_called") ELSE TRUE)
            /\ (IF xmdiff THEN Note(line, e.tid, "divergence_xm_differs_from_molecule_calls") ELSE TRUE)
            /\ (IF strandfield THEN Note(line, e.tid, IF e.strand = -1 THEN "molecule_strand_undetermined_by_the_code"
                                                       ELSE "divergence_molecule_strand_field") ELSE TRUE)
            /\ (IF consfield THEN Note(line, e.tid, "divergence_consensus_field_of_call_differs_from_plurality") ELSE TRUE)

TInit == l = 1
TNext == l <= Len(Log) /\ Judge(l, Verdict(Log[l])) /\ Observe(l, Log[l]) /\ l' = l + 1
TAccepted == TLCGet("stats").diameter - 1 = Len(Log)
=====================================================================================================
