-------------------------------------- MODULE Trace_CutSite --------------------------------------
(* Observations of the real NlaIIIFragment / CHICFragment judged by the P-level definitions of    *)
(* CutSite.tla.  One event = both orientations of one simulated cut:                              *)
(*   {"ev":"pair","tid":n,"src":"model"|"random",                                                 *)
(*    "a":{"scn":<scenario>,"read":{rev,start,end,cigar,seq},"out":{raised,has_ds,ds,has_rs,rs,   *)
(*          has_rz,rz,rr,qcfail,valid,hash:{valid[,strand,css,chrom,pos,sample]},has_loc,loc}},   *)
(*    "b":{... the same for the mirror image of a.scn ...}                                        *)
(*    optionally "a2","b2": a second read of the same cut (CutSite!Companion) in both             *)
(*    orientations and "eq_a","eq_b" in {"true","false","raised"}: real `frag == frag2`}          *)
(*    optionally "passes":2 (the fragments were constructed twice over the same read objects,     *)
(*    same options: re-tagging must give the same, still correct outcome - judged as usual) and   *)
(*    "prepass":"other_options" (see JudgeOrNote).                                                *)
(*   {"ev":"degenerate","tid":n,"proto":..,"what":"r1_none"|"r1_unmapped"|"r1_qcfail","out":{..}} *)
(* Nothing computed by the driver is trusted: TLC checks that a.scn is a well-formed cut, that    *)
(* b.scn is its mirror image, and that the alignment records handed to the code are the ones the  *)
(* specification derives from the scenarios (clauses generator_mismatch_*: machinery, not code).  *)
EXTENDS TraceLib

CS == INSTANCE CutSite WITH MaxClip <- 6, Clip3s <- {0}, ReadLens <- {10}, FlankIds <- {1}, FlankPairs <- "diag",
                            MMBases <- {"A"}, BoundaryPs <- {}, XBases <- {"A"}, Protos <- {"nla"}, Variant <- "design",
                            scn <- <<>>, pc <- <<>>, frag <- <<>>

VARIABLE l

SameRead(obs, d) == /\ obs.rev = d.rev /\ obs.start = d.start /\ obs["end"] = d["end"]
                    /\ obs.cigar = d.cigar /\ obs.seq = d.seq

(* raw observation -> outcome record of the specification (RS is stored by pysam as an integer) *)
ObsOut(o) == [has_ds |-> o.has_ds, ds |-> o.ds, has_rs |-> o.has_rs /\ o.rs \in {0, 1}, rs |-> (o.rs = 1),
              qcfail |-> o.qcfail, valid |-> o.valid, hash |-> o.hash, has_loc |-> o.has_loc, loc |-> o.loc]

Side(x, v) == IF v = "ok" THEN "ok" ELSE v \o ":" \o x

(* optional second read of the same cut (fields a2, b2, eq_a, eq_b): the code's own fragment equality *)
CompanionVerdict(e) ==
    IF ~Has(e, "a2") THEN "ok"
    ELSE IF e.a2.scn # CS!Companion(e.a.scn) \/ e.b2.scn # CS!MirrorScn(e.a2.scn) \/ ~CS!WellFormed(e.a2.scn) THEN "generator_mismatch_companion"
    ELSE IF ~SameRead(e.a2.read, CS!DeriveRead(e.a2.scn)) \/ ~SameRead(e.b2.read, CS!DeriveRead(e.b2.scn)) THEN "generator_mismatch_read"
    ELSE IF e.eq_a = "raised" \/ e.eq_b = "raised" THEN (IF CS!InScope(e.a.scn) THEN "Inv_C09_raised:ab" ELSE "ok")
    ELSE Side("ab", CS!DedupVerdict(e.a.scn, e.eq_a = "true", e.eq_b = "true"))

(* mxinfo = what the driver read off the REAL registered demultiplexing strategy named by the MX tag: does it remove the *)
(* ligated T (sequenceCapture[0].start = barcodeLength + umiLength + 1)? The scenario's layout must be that ground truth *)
LayoutOk(x) == (x.scn.proto = "chic" /\ Has(x, "mxinfo") /\ x.mxinfo.registered) => (x.mxinfo.demux_trims = (x.scn.kind = "trimmed"))

Verdict(e) ==
    IF e.ev = "degenerate" THEN "ok"        \* R1 missing / unmapped / flagged qcfail on input: outside the statement (DegNote)
    ELSE IF e.ev # "pair" THEN "unknown_event"
    ELSE LET sa == e.a.scn  sb == e.b.scn  oa == ObsOut(e.a.out)  ob == ObsOut(e.b.out) IN
    IF ~CS!WellFormed(sa) THEN "generator_mismatch_scenario"
    ELSE IF sb # CS!MirrorScn(sa) THEN "generator_mismatch_mirror"
    ELSE IF ~SameRead(e.a.read, CS!DeriveRead(sa)) \/ ~SameRead(e.b.read, CS!DeriveRead(sb)) THEN "generator_mismatch_read"
    ELSE IF ~LayoutOk(e.a) \/ ~LayoutOk(e.b) THEN "generator_mismatch_layout"
    ELSE IF CS!InScope(sa) /\ e.a.out.raised # "" THEN "Inv_C09_raised:a"
    ELSE IF CS!InScope(sb) /\ e.b.out.raised # "" THEN "Inv_C09_raised:b"
    ELSE IF e.a.out.raised # "" \/ e.b.out.raised # "" THEN "ok"
    ELSE LET va == Side("a", CS!TruthVerdict(sa, oa))
             vb == Side("b", CS!TruthVerdict(sb, ob))
             vm == Side("ab", CS!MirrorVerdict(sa, oa, ob))
         IN IF va # "ok" THEN va ELSE IF vb # "ok" THEN vb ELSE IF vm # "ok" THEN vm ELSE CompanionVerdict(e)

(* informational: recognised-sequence tag differs from CATG on an accepted CATG read (outside the statement) *)
RzNote(e) == LET x == IF e.a.out.has_ds /\ e.a.scn.proto = "nla" /\ e.a.scn.kind = "ok" /\ e.a.out.rz # "CATG" THEN "rz_not_CATG" ELSE ""
             IN IF x = "" THEN TRUE ELSE Note(l, e.tid, x)

(* degenerate inputs: the statement does not say what happens; a site tag on them is reported as a NOTE *)
DegNote(e) == IF e.ev = "degenerate" /\ (e.out.has_ds \/ e.out.valid) THEN Note(l, e.tid, "degenerate_" \o e.what \o "_" \o e.proto \o (IF e.out.has_ds THEN "_has_site_tag" ELSE "") \o (IF e.out.valid THEN "_valid" ELSE "")) ELSE TRUE
(* a strategy whose real layout contradicts the MX naming rule of the fragment class: report when the site is then off *)
LayoutNote(e) == IF e.ev = "pair" /\ e.a.scn.proto = "chic" /\ ~CS!LayoutRuleAgrees(e.a.scn) /\ e.a.out.has_ds /\ ~e.a.scn.opts.no_cigar
                    /\ e.a.out.ds \notin CS!OkSites(e.a.scn)
                 THEN Note(l, e.tid, "mx_rule_disagrees_with_demux_layout_site_off_by_" \o ToString(e.a.out.ds - CS!TrueSite(e.a.scn)))
                 ELSE TRUE
RzNote2(e) == IF e.ev = "pair" THEN RzNote(e) /\ LayoutNote(e) ELSE TRUE
TInit == l = 1
(* events with "prepass":"other_options" re-tag reads that an earlier pass with OTHER options had tagged: outside the    *)
(* quantifier (fresh simulated fragments); what the property's clauses would say is reported as a NOTE, never a reject *)
JudgeOrNote(e) == IF Has(e, "prepass") /\ e.prepass = "other_options"
                  THEN (IF Verdict(e) = "ok" THEN TRUE ELSE Note(l, e.tid, "retag_other_options_" \o Verdict(e)))
                  ELSE Judge(l, Verdict(e))
TNext == l <= Len(Log) /\ JudgeOrNote(Log[l]) /\ RzNote2(Log[l]) /\ DegNote(Log[l]) /\ l' = l + 1
TAccepted == TLCGet("stats").diameter - 1 = Len(Log)
=====================================================================================================
