INIT Init
NEXT Next
CONSTANTS
  Kind = "plain"
  HD = 0
  Radius = 0
  Cap = 0
  CacheSize = 8
  ReadLens = {1}
  Cells = {1}
  Contigs = {1}
  Strands = {0}
  Sites = {0,1}
  Lens = {2, 3, 4}
  Umis = {0}
  Valids = {TRUE}
  MaxFrags = 4
  Scheds = {0}
  Poolings = {0}
  Variant = "design"
INVARIANT Inv_Conservation
CONSTRAINT Emit
CHECK_DEADLOCK FALSE
