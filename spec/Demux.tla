------------------------------------------- MODULE Demux -------------------------------------------
(* C01 - demultiplexing conserves every read pair (demultiplexed XOR rejected).                  *)
(*                                                                                              *)
(* D-level model of DemultiplexingStrategyLoader.demultiplex (demultiplexingStrategyLoader.py    *)
(* 171-250) together with its two sinks (FastqHandle joint / per cell) as driven by the entry    *)
(* code of demux.py 455-503.  One action per arm of the loop body:                               *)
(*                                                                                              *)
(*   ReadPair          FastqIterator.__next__ : one record from every mate file (lock step),     *)
(*                     processedReadPairs = p + 1                                  (l.191-193)   *)
(*   WriteAccepted     strategy.demultiplex returns, targetFile.write, yield += 1  (l.197-201,239) *)
(*   RejectViaBase     NonMultiplexable -> baseDemux.demultiplex(reason) -> rejectHandle.write    *)
(*                                                                                 (l.203-210)   *)
(*   RejectRaw         ... baseDemux raises NonMultiplexable too (sequencing index unknown):      *)
(*                     header;RR:..;Rr:.. + the raw lines                          (l.212-221)   *)
(*   RejectBaseFails   ... baseDemux raises anything else (header not parsable at all)            *)
(*   HandleError       strategy.demultiplex / targetFile.write raise anything else (l.224-239)   *)
(*   CutOff/Finish     maxReadPairs test (l.240-242), counters to the log handle   (l.244-250)   *)
(*                                                                                              *)
(* The outcome of (pair, strategy) is a parameter of the environment, chosen in Init:            *)
(*   "A" strategy demultiplexes the pair          "N" NonMultiplexable, base demux formats it    *)
(*   "W" NonMultiplexable and the base demux raises NonMultiplexable as well (raw fallback)      *)
(*   "X" NonMultiplexable and the base demux raises another exception                            *)
(*   "E" the strategy (or formatting its records) raises another exception                       *)
(*                                                                                              *)
(* Variant = "design": what the property needs.  Named as-coded deviations (negative controls):  *)
(*   "D2"  HandleError writes nothing and still counts the pair as yield         (l.224-239)     *)
(*   "D101" the raw fallback record has no trailing newline: the next record written to the same  *)
(*         rejects file is glued to its quality line                             (l.214-221)     *)
(*   "D102" the raw fallback rebinds the loop variable `reads` to a list of str; every later      *)
(*         strategy of the same pair then raises AttributeError                  (l.214)         *)
(*   "D103" an exception other than NonMultiplexable from the base demux inside the               *)
(*         NonMultiplexable handler leaves demultiplex(): the run aborts         (l.207-212)     *)
(*   "D104" the per-cell sink (FastqHandle.write, single_cell) reads record.tags, but the bulk    *)
(*         strategy (IlluminaBaseDemultiplexer, shortName ILLU) returns formatted strings:        *)
(*         AttributeError, so an accepted pair takes the HandleError arm    (fastqHandle.py:39)   *)
(*   "impl" all of them (the code at the pinned commit).                                         *)
(* History: prior = "stale" - an earlier run into the same output prefix left per-cell files      *)
(* behind.  HandleLimiter opens a path it has not written in THIS run with 'wb' (truncate), so    *)
(* the first write of the run replaces the stale content; the joint sink is truncated when        *)
(* FastqHandle is constructed.  A per-cell file that the run never writes is left alone by the    *)
(* code and is not part of the observation.  Seeded deviation (negative control, not as-coded):   *)
(*   "S_append_existing"  append whenever the file exists: stale records stay in the sink.        *)
(* Not modelled: the clamp arithmetic of phredToFastqHeaderSafeQualities (D1, property C04) -    *)
(* here it is one of the causes of outcome "E"; HandleLimiter faults (C19).                      *)
EXTENDS DemuxProps, TLC, Json

CONSTANTS N,               \* pairs in the library
          K,               \* selected strategies
          NCells,          \* 1 = joint sink, > 1 = one target sink per cell (--scsepf)
          MateChoices,     \* subset of {1,2}
          RejectChoices,   \* subset of BOOLEAN
          MaxPairChoices,  \* subset of 0..N, 0 = no cut-off
          Classes,         \* subset of {"A","N","W","X","E"}
          PairLevelOnly,   \* TRUE: only outcome matrices the replay driver can realise
          PriorChoices,    \* subset of {"none","stale"}: per-cell files of an earlier run under the same prefix
          PlainStrats,     \* strategies that return already formatted records (str) instead of tagged records
          Variant

Dev(d) == Variant = "impl" \/ Variant = d

VARIABLES out, cellOf, mates, hasRej, maxPairs, prior,   \* the scenario, fixed in Init
          pc, pos, si, stale,                        \* control state of the loop
          tgt, rej, yields, processed, logged        \* sinks and counters
scn  == <<out, cellOf, mates, hasRej, maxPairs, prior>>
vars == <<out, cellOf, mates, hasRej, maxPairs, prior, pc, pos, si, stale, tgt, rej, yields, processed, logged>>

Pairs  == 1 .. N
Strats == 1 .. K

(* pair-level classes hit every strategy alike ("W": unknown sequencing index, "E": header that   *)
(* no parser accepts / phred overflow in the UMI); "A"/"N" depend on the strategy's whitelist     *)
Realisable(o) == \A p \in Pairs : (\E k \in Strats : o[p][k] \in {"W", "E", "X"}) => \A k \in Strats : o[p][k] = o[p][1]

StaleRec == [id |-> 0, s |-> 0, ok |-> TRUE]      \* a record of the earlier run: not a pair of this input

Init ==
    /\ out \in [Pairs -> [Strats -> Classes]]
    /\ (PairLevelOnly => Realisable(out))
    /\ cellOf \in [Pairs -> 1 .. NCells]
    /\ mates \in MateChoices
    /\ hasRej \in RejectChoices
    /\ maxPairs \in MaxPairChoices
    /\ pc = "read" /\ pos = 0 /\ si = 1 /\ stale = FALSE
    /\ prior \in PriorChoices
    /\ tgt = [c \in 1 .. NCells |-> [m \in 1 .. 2 |-> IF prior = "stale" /\ NCells > 1 THEN <<StaleRec>> ELSE <<>>]]
    /\ rej = [m \in 1 .. 2 |-> <<>>]
    /\ yields = [k \in Strats |-> 0]
    /\ processed = 0
    /\ logged = FALSE

TRec(p, k)         == [id |-> p, s |-> k, ok |-> TRUE]
(* the per-cell file of cell c has not been written in this run yet (only stale content, or none) *)
Fresh(c)           == \A i \in DOMAIN tgt[c][1] : tgt[c][1][i].id = 0
RRec(p, k, m, nl)  == [id |-> p, s |-> k, ok |-> TRUE, faithful |-> TRUE, reason |-> TRUE, reasonGiven |-> TRUE, content |-> <<p, m>>, nl |-> nl]
AppendMates(f, r(_)) == [m \in 1 .. 2 |-> IF m <= mates THEN Append(f[m], r(m)) ELSE f[m]]

(* what strategy k does with the current pair: after the rebinding of D102 it is handed strings *)
Eff(p, k) == IF stale THEN "E"
             ELSE IF out[p][k] = "A" /\ NCells > 1 /\ k \in PlainStrats /\ Dev("D104") THEN "E"   \* the sink raises
             ELSE out[p][k]

Advance ==
    IF si < K THEN si' = si + 1 /\ pc' = "strat"
    ELSE si' = 1 /\ pc' = IF maxPairs # 0 /\ processed >= maxPairs THEN "finish" ELSE "read"

ReadPair ==
    /\ pc = "read" /\ pos < N
    /\ pos' = pos + 1 /\ processed' = pos + 1 /\ si' = 1 /\ stale' = FALSE /\ pc' = "strat"
    /\ UNCHANGED <<scn, tgt, rej, yields, logged>>

WriteAccepted ==
    /\ pc = "strat" /\ Eff(pos, si) = "A"
    /\ LET c    == cellOf[pos]
           base == IF Fresh(c) /\ Variant # "S_append_existing"
                   THEN [m \in 1 .. 2 |-> <<>>]            \* first write of this run: opened with 'wb'
                   ELSE tgt[c]                              \* path in `seen`: handle still open or reopened with 'ab'
       IN tgt' = [tgt EXCEPT ![c] = AppendMates(base, LAMBDA m : TRec(pos, si))]
    /\ yields' = [yields EXCEPT ![si] = @ + 1]
    /\ Advance
    /\ UNCHANGED <<scn, pos, stale, rej, processed, logged>>

RejectViaBase ==
    /\ pc = "strat" /\ Eff(pos, si) = "N"
    /\ rej' = IF hasRej THEN AppendMates(rej, LAMBDA m : RRec(pos, si, m, TRUE)) ELSE rej
    /\ Advance
    /\ UNCHANGED <<scn, pos, stale, tgt, yields, processed, logged>>

RejectRaw ==
    /\ pc = "strat" /\ Eff(pos, si) = "W"
    /\ rej' = IF hasRej THEN AppendMates(rej, LAMBDA m : RRec(pos, si, m, ~Dev("D101"))) ELSE rej
    /\ stale' = IF hasRej /\ Dev("D102") THEN TRUE ELSE stale
    /\ Advance
    /\ UNCHANGED <<scn, pos, tgt, yields, processed, logged>>

RejectBaseFails ==
    /\ pc = "strat" /\ Eff(pos, si) = "X"
    /\ IF hasRej /\ Dev("D103")
       THEN pc' = "crashed" /\ UNCHANGED <<si, rej>>          \* the exception leaves demultiplex()
       ELSE /\ rej' = IF hasRej THEN AppendMates(rej, LAMBDA m : RRec(pos, si, m, TRUE)) ELSE rej
            /\ Advance
    /\ UNCHANGED <<scn, pos, stale, tgt, yields, processed, logged>>

HandleError ==
    /\ pc = "strat" /\ Eff(pos, si) = "E"
    /\ IF Dev("D2")
       THEN /\ yields' = [yields EXCEPT ![si] = @ + 1]        \* falls through to the yield counter
            /\ rej' = rej                                      \* nothing is written anywhere
       ELSE /\ yields' = yields
            /\ rej' = IF hasRej THEN AppendMates(rej, LAMBDA m : RRec(pos, si, m, TRUE)) ELSE rej
    /\ Advance
    /\ UNCHANGED <<scn, pos, stale, tgt, processed, logged>>

Finish ==
    /\ (pc = "read" /\ pos = N) \/ pc = "finish"
    /\ logged' = TRUE /\ pc' = "done"
    /\ UNCHANGED <<scn, pos, si, stale, tgt, rej, yields, processed>>

Next == ReadPair \/ WriteAccepted \/ RejectViaBase \/ RejectRaw \/ RejectBaseFails \/ HandleError \/ Finish
Spec == Init /\ [][Next]_vars

---------------------------------------------------------------------------------------------------
(* the observation of the current state, in the shape DemuxProps judges *)
StreamWF(q) == \A i \in 1 .. (Len(q) - 1) : q[i].nl
Obs ==
    [ N |-> N, n |-> IF maxPairs = 0 THEN N ELSE Min2(N, maxPairs), K |-> K, mates |-> mates, hasRej |-> hasRej,
      raised |-> pc = "crashed",
      acc |-> [p \in Pairs |-> [k \in Strats |-> out[p][k] = "A"]],
      processed |-> processed, yields |-> [k \in Strats |-> yields[k]],
      logged |-> logged, logProcessed |-> processed, logYields |-> [k \in Strats |-> yields[k]],
      tgt |-> [c \in 1 .. NCells |-> [m \in 1 .. mates |-> [wf |-> TRUE, recs |-> IF Fresh(c) THEN <<>> ELSE tgt[c][m]]]],
      rej |-> IF hasRej THEN << [m \in 1 .. mates |-> [wf |-> StreamWF(rej[m]), recs |-> rej[m]]] >> ELSE <<>> ]

Quiescent == pc \in {"done", "crashed"}

Inv_C01_Once           == Quiescent => POnce(Obs)
Inv_C01_AtMostOnce     == PAtMostOnce(Obs) /\ PNoForeign(Obs)
Inv_C01_MateSync       == PMateSync(Obs)
Inv_C01_Order          == POrder(Obs)
Inv_C01_Counters       == PYields(Obs) /\ (Quiescent => PCounters(Obs))
Inv_C01_WellFormed     == PWellFormed(Obs)
Inv_C01_RejectFaithful == PRejectFaithful(Obs) /\ PRejectReasonGiven(Obs)
                          /\ \A m \in 1 .. mates : \A i \in DOMAIN rej[m] : rej[m][i].content = <<rej[m][i].id, m>>
Inv_Verdict            == Quiescent => PVerdict(Obs) = "ok"      \* the clause chain used on real traces agrees

TypeOK == /\ pc \in {"read", "strat", "finish", "done", "crashed"} /\ pos \in 0 .. N /\ si \in Strats
          /\ processed = pos /\ (Variant = "design" => ~stale)

---------------------------------------------------------------------------------------------------
(* spec -> code: every finished behaviour of the design is a scenario for the real loader.       *)
(* The expected sinks are printed as id/strategy pairs; the replay driver realises each outcome   *)
(* class by a pair class of the generated library.                                              *)
Ids(q) == [i \in DOMAIN q |-> <<q[i].id, q[i].s>>]
Scenario ==
    [ out |-> out, cells |-> cellOf, mates |-> mates, hasRej |-> hasRej, maxPairs |-> maxPairs,
      exp |-> [ tgt |-> [c \in 1 .. NCells |-> Ids(tgt[c][1])], rej |-> Ids(rej[1]),
                yields |-> [k \in Strats |-> yields[k]], processed |-> processed ] ]
Emit == IF pc = "done" THEN PrintT("@@SCENARIO " \o ToJson(Scenario)) ELSE TRUE
=====================================================================================================
