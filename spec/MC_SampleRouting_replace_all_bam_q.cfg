INIT Init
NEXT Next
CONSTANTS
  SampleNames = {"a", "b", "c"}
  NoSM = TRUE
  AsgSamples = {"a", "b"}
  GroupNames = {"g", "h"}
  MaxRecs = 1
  MaxGroups = 1
  MaxPerGroup = 2
  HeadMax = 0
  WRGs = {TRUE, FALSE}
  Prefix = "P_"
  StemWithBam = TRUE
  Mode = "api"
  MaxLines = 0
  Variant = "replace_all_bam"
  NoCols = {FALSE}
  AddChrs = {FALSE}
  DupFlags = {FALSE}
  LowQFlags = {FALSE}
  PosMax = 1
  MapqReading = "ignored"
INVARIANT Inv_X05_NoCrash
INVARIANT Inv_X05_Refused
INVARIANT Inv_X05_Files
INVARIANT Inv_X05_ExactlyOnce
INVARIANT Inv_X05_Unselected
INVARIANT Inv_X05_Head
INVARIANT Inv_X05_Order
INVARIANT Inv_X05_Content
INVARIANT Inv_X05_RecordRG
INVARIANT Inv_X05_HeaderRG
INVARIANT Inv_X05_Closed
CHECK_DEADLOCK FALSE
