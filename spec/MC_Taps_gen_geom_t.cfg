INIT Init
NEXT Next
CONSTANTS
  L = 4
  Alphabet = {"A", "C", "G", "T", "N"}
  Mode = "geometry"
  GeomRefs = {"allC", "allG", "CG", "GC"}
  MaxFrags = 1
  DistMode = "mixed"
  Variant = "design"
CONSTRAINT Emit
CHECK_DEADLOCK FALSE
