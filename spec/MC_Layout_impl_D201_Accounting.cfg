INIT Init
NEXT Next
CONSTANTS
  MaxL = 24
  Variant = "impl"
  Pairing = "cross"
  Only = {"DamID2_8bp_noCA"}
INVARIANT Inv_C02_Accounting
CHECK_DEADLOCK FALSE
