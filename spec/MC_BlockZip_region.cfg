INIT Init
NEXT Next
CONSTANTS
  Contigs = {"c1", "c2"}
  MaxPos = 1
  Datas = {"x", "y"}
  MaxWrites = 3
  MaxGets = 2
  Variant = "region"
INVARIANT Inv_X01_Lookup
CHECK_DEADLOCK FALSE
