INIT Init
NEXT Next
CONSTANTS
  NPaths = 3
  Stale = {1, 2}
  Ks = {2}
  MHs = {3}
  PEs = {3}
  BadChoices = {0}
  MaxTransient = 0
  MaxOps = 4
  Variant = "impl_closeall"
  Record = FALSE
INVARIANT Inv_C19_NoLeak
CHECK_DEADLOCK FALSE
