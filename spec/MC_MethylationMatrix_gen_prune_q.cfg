INIT Init
NEXT Next
CONSTANTS
  Samples = {1, 2}
  MaxPos = 3
  ContigLen = 4
  BinSize = 2
  JobSpan = 2
  MaxObs = 2
  MaxTouch = 1
  Dyad = FALSE
  Revs = {FALSE}
  JobK <- K1
  JobMV <- K0
  MaxPost = 0
  PostKs <- PostKsPlain
  TrackHist = TRUE
  Variant = "design"
CONSTRAINT Emit
CHECK_DEADLOCK FALSE
