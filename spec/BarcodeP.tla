----------------------------------------- MODULE BarcodeP -----------------------------------------
(* C03, P-level: the property's own definition of barcode correction - no algorithm.             *)
(* Shared by the design spec (Barcode.tla) and the trace spec (Trace_Barcode.tla), so that the    *)
(* real code is judged by exactly the definition the model is checked against.                   *)
(* A barcode is a sequence of letter codes; W is a function barcode -> cell index.               *)
EXTENDS Integers, FiniteSets

None == <<>>

(* Hamming distance of two equally long sequences *)
D(a, b) == Cardinality({ i \in DOMAIN a : a[i] # b[i] })

(* whitelist entries comparable with q (a Hamming distance exists only for equal lengths) *)
Comparable(W, q) == { b \in DOMAIN W : DOMAIN b = DOMAIN q }

(* "assigned to a whitelisted barcode iff that barcode is within distance k and strictly closer   *)
(*  than every other whitelisted barcode; index, corrected barcode, distance are those of it"      *)
Nearest(W, k, q) ==
    LET S == Comparable(W, q)
        cand == { b \in S : D(q, b) <= k /\ \A c \in S \ {b} : D(q, c) > D(q, b) }
    IN IF cand = {} THEN None ELSE LET b == CHOOSE x \in cand : TRUE IN << W[b], b, D(q, b) >>

(* "equally close to two whitelist entries" (and nothing closer, within k) *)
Tied(W, k, q) ==
    LET S == Comparable(W, q) IN
    \E b \in S : /\ D(q, b) <= k
                 /\ \A e \in S : D(q, e) >= D(q, b)
                 /\ \E c \in S \ {b} : D(q, c) = D(q, b)
=====================================================================================================
