INIT Init
NEXT Next
CONSTANTS
  MaxContigs = 3
  MaxN = 1
  MaxStar = 1
  Modes = {"single", "multi"}
  Variant = "mut_last_task_count"
INVARIANT Inv_C05_Cover
INVARIANT Inv_C05_Multiset
INVARIANT Inv_C05_Sorted
INVARIANT Inv_PartsNonEmpty
INVARIANT Inv_PlanIsDesignPlan
CHECK_DEADLOCK FALSE
