INIT Init
NEXT Next
CONSTANTS
  Kind = "nla"
  HD = 0
  Radius = 0
  Cap = 0
  CacheSize = 4
  ReadLens = {9}
  Cells = {1}
  Contigs = {1}
  Strands = {0, 1}
  Sites = {0,1,2,3}
  Lens = {1, 4}
  Umis = {0}
  Valids = {TRUE}
  MaxFrags = 4
  Scheds = {1000, 0}
  Poolings = {1}
  Variant = "design"
INVARIANT Inv_C07_ExactlyOnce
INVARIANT Inv_C07_SamePartition
INVARIANT Inv_C07_NoPremature
CHECK_DEADLOCK FALSE
