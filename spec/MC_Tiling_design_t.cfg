INIT Init
NEXT Next
CONSTANTS
  MinCoord = 0
  MaxCoord = 6
  BinSizes = {1,2,3,4,5,7,8}
  FragSizes = {0,1,2,4}
  AllowNoFrag = TRUE
  BLPad = 1
  MaxBL = 2
  Variant = "design"
INVARIANT Inv_C17_Partition
INVARIANT Inv_C17_Size
INVARIANT Inv_C17_Clean
INVARIANT Inv_C17_Window
INVARIANT Inv_C17_Prefix
INVARIANT Inv_C17_Verdict
INVARIANT Inv_D_Monotone
INVARIANT Inv_D_BinCount
INVARIANT Inv_D_OperatorForm
INVARIANT Inv_D_Fill
INVARIANT Inv_D_Merge
CHECK_DEADLOCK FALSE
