INIT Init
NEXT Next
CONSTANTS
  SampleNames = {"a", "b", "c"}
  NoSM = TRUE
  AsgSamples = {"a", "b", "c"}
  GroupNames = {"", "g", "h"}
  MaxRecs = 3
  MaxGroups = 3
  MaxPerGroup = 1
  HeadMax = 2
  WRGs = {TRUE}
  Prefix = "P_"
  StemWithBam = FALSE
  Mode = "api"
  MaxLines = 0
  Variant = "design"
  NoCols = {FALSE}
  AddChrs = {FALSE}
  DupFlags = {FALSE}
  LowQFlags = {FALSE}
  PosMax = 1
  MapqReading = "ignored"
INVARIANT Inv_X05_NoCrash
INVARIANT Inv_X05_Refused
INVARIANT Inv_X05_Files
INVARIANT Inv_X05_ExactlyOnce
INVARIANT Inv_X05_Unselected
INVARIANT Inv_X05_Head
INVARIANT Inv_X05_Order
INVARIANT Inv_X05_Content
INVARIANT Inv_X05_RecordRG
INVARIANT Inv_X05_HeaderRG
INVARIANT Inv_X05_Closed
INVARIANT Inv_X05_Step
CHECK_DEADLOCK FALSE
