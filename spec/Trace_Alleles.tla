-------------------------------------- MODULE Trace_Alleles --------------------------------------
(* C18: recorded answers of the real AlleleResolver judged by the P-level definitions of         *)
(* AlleleRules.tla.  One event per generated VCF (see harness/drive_alleles.py):                 *)
(*   sites[i] = [c, p, ref, alts, gt]       the abstract VCF (p is 0-based)                       *)
(*   hists[h].runs[r] = [lazy, cache, phased, sel: [explicit, s], ign, raised, ops]               *)
(*   ops[o] = [op: "get"|"has"|"read"|"mol", c, p, b, ans, raised] (+ seq for "read"/"mol")         *)
(* Every expected answer is recomputed here from `sites` and the run's configuration; nothing    *)
(* computed by Python is trusted.  Clauses:                                                      *)
(*   Inv_C18_Truth   an answer is not the one the VCF dictates (for this run's configuration)    *)
(*   Inv_C18_ModeEq  on a site whose classification the statement leaves open ("either") two     *)
(*                   runs with the same configuration answered differently                      *)
(*   Inv_C18_Raised  a lookup or the constructor raised                                          *)
(* The verdict names the first failing lookup: <clause>|h=<hist>|r=<run>|o=<op>.                  *)
(* Runs with phased=False answer allele letters (U = REF, V = ALT1, ..); they are judged with the  *)
(* unphased rules UClass / UAnswerOK of AlleleRules.                                             *)
EXTENDS TraceLib, AlleleRules

VARIABLES l, hi    \* line of the log, history within the event

CfgOf(r) == [sel |-> [explicit |-> r.sel.explicit, s |-> SeqSet(r.sel.s)], ign |-> SeqSet(r.ign)]
SiteIdx(e, c, p) == { i \in DOMAIN e.sites : e.sites[i].c = c /\ e.sites[i].p = p }
HasSite(e, o) == SiteIdx(e, o.c, o.p) # {}
SiteOf(e, o) == e.sites[CHOOSE i \in SiteIdx(e, o.c, o.p) : TRUE]

(* getAllele(reads) (alternative entry path): one read aligned without gaps from o.p with bases o.seq; the result is the *)
(* union of the answers at the covered positions that consist of exactly one allele.  A read touching an "either" site *)
(* is not judged.                                                                                                      *)
ClassAt(e, r, c, p) == IF SiteIdx(e, c, p) = {} THEN "none"
                       ELSE LET site == e.sites[CHOOSE i \in SiteIdx(e, c, p) : TRUE] IN
                            IF r.phased THEN Class(site, CfgOf(r).sel, CfgOf(r).ign) ELSE UClass(site, CfgOf(r).ign)
TruthAt(e, r, c, p, b) == IF ClassAt(e, r, c, p) # "store" THEN {}
                          ELSE LET site == e.sites[CHOOSE i \in SiteIdx(e, c, p) : TRUE] IN
                               IF r.phased THEN Carriers(site, CfgOf(r).sel, b) ELSE ULetters(site, b)
ReadOK(e, r, o) ==
    \/ \E k \in DOMAIN o.seq : ClassAt(e, r, o.c, o.p + k - 1) = "either"
    \/ SeqSet(o.ans) = UNION { (IF Cardinality(TruthAt(e, r, o.c, o.p + k - 1, o.seq[k])) = 1
                                THEN TruthAt(e, r, o.c, o.p + k - 1, o.seq[k]) ELSE {}) : k \in DOMAIN o.seq }

OpOK(e, r, o) ==
    IF o.op = "read" THEN ReadOK(e, r, o)
    ELSE IF o.op = "mol" THEN TRUE        \* a library consumer of the resolver (molecule allele tags): only its effect on LATER lookups is judged
    ELSE IF ~HasSite(e, o) THEN (IF o.op = "get" THEN o.ans = <<>> ELSE o.ans = FALSE)
    ELSE IF r.phased THEN (IF o.op = "get" THEN AnswerOK(SiteOf(e, o), CfgOf(r).sel, CfgOf(r).ign, o.b, SeqSet(o.ans))
                           ELSE HasLocOK(SiteOf(e, o), CfgOf(r).sel, CfgOf(r).ign, o.ans))
    ELSE (IF o.op = "get" THEN UAnswerOK(SiteOf(e, o), CfgOf(r).ign, o.b, SeqSet(o.ans))
          ELSE UHasLocOK(SiteOf(e, o), CfgOf(r).ign, o.ans))

Judged(r) == TRUE      \* phased and unphased (phased = FALSE: allele letters, rules U* of AlleleRules) runs are judged
Run(e, t) == e.hists[t[1]].runs[t[2]]
Op(e, t)  == e.hists[t[1]].runs[t[2]].ops[t[3]]
AllRuns(e) == UNION { { <<x, r>> : r \in DOMAIN e.hists[x].runs } : x \in DOMAIN e.hists }
AllOps(e)  == UNION { { <<t[1], t[2], o>> : o \in DOMAIN Run(e, t).ops } : t \in AllRuns(e) }

(* first <<hist, run, op>> of history hh satisfying Bad *)
FirstBad(e, hh, Bad(_, _, _)) ==
    LET rs == { r \in DOMAIN e.hists[hh].runs : Judged(e.hists[hh].runs[r]) /\
                   \E o \in DOMAIN e.hists[hh].runs[r].ops : Bad(hh, r, o) } IN
    IF rs = {} THEN <<0, 0, 0>>
    ELSE LET r == MinOf(rs)
             o == MinOf({ k \in DOMAIN e.hists[hh].runs[r].ops : Bad(hh, r, k) })
         IN <<hh, r, o>>

Where(t) == "|h=" \o ToString(t[1]) \o "|r=" \o ToString(t[2]) \o "|o=" \o ToString(t[3])

(* answers on "either" sites, keyed by configuration and query *)
EitherOps(e) == { t \in AllOps(e) : /\ Judged(Run(e, t)) /\ Op(e, t).op \notin {"read", "mol"} /\ HasSite(e, Op(e, t))
                                    /\ (IF Run(e, t).phased
                                        THEN Class(SiteOf(e, Op(e, t)), CfgOf(Run(e, t)).sel, CfgOf(Run(e, t)).ign)
                                        ELSE UClass(SiteOf(e, Op(e, t)), CfgOf(Run(e, t)).ign)) = "either" }
EitherAnswers(e) == { <<<<CfgOf(Run(e, t)), Run(e, t).phased>>, Op(e, t).op, Op(e, t).c, Op(e, t).p, Op(e, t).b, Op(e, t).ans>> : t \in EitherOps(e) }

HistVerdict(e, hh) ==
    LET ctorRaised == { t \in AllRuns(e) : t[1] = hh /\ Run(e, t).raised # "none" }
        raisedAt(x, r, o) == e.hists[x].runs[r].ops[o].raised # "none"
        wrongAt(x, r, o) == ~OpOK(e, e.hists[x].runs[r], e.hists[x].runs[r].ops[o])
        fr == FirstBad(e, hh, raisedAt)
        fw == FirstBad(e, hh, wrongAt)
    IN IF ctorRaised # {} THEN "Inv_C18_Raised_constructor|h=" \o ToString(hh)
       ELSE IF fr # <<0, 0, 0>> THEN "Inv_C18_Raised" \o Where(fr)
       ELSE IF fw # <<0, 0, 0>> THEN "Inv_C18_Truth" \o Where(fw)
       ELSE "ok"

ModeEqVerdict(e) ==
    LET ea == EitherAnswers(e) IN
    IF \E x, y \in ea : x[1] = y[1] /\ x[2] = y[2] /\ x[3] = y[3] /\ x[4] = y[4] /\ x[5] = y[5] /\ x[6] # y[6]
    THEN "Inv_C18_ModeEq" ELSE "ok"

(* one step per history; the last step of an event also compares the runs of all histories on "either" sites *)
Verdict(e, hh) ==
    IF e.ev # "vcf" THEN "unknown_event"
    ELSE IF HistVerdict(e, hh) # "ok" THEN HistVerdict(e, hh)
    ELSE IF hh = Len(e.hists) THEN ModeEqVerdict(e)
    ELSE "ok"

HCount(e) == Len(e.hists)

(* D-level: histories generated by TLC from Alleles.tla carry the design's answer (`exp`) for every lookup *)
Diverges(e, hh) == \E t \in AllOps(e) : t[1] = hh /\ Has(Op(e, t), "exp") /\ Op(e, t).exp # Op(e, t).ans
Notes(line, e, hh) == IF Diverges(e, hh) THEN Note(line, e.tid, "DIVERGENCE_answer") ELSE TRUE
TInit == l = 1 /\ hi = 1
TNext == /\ l <= Len(Log) /\ Judge(l, Verdict(Log[l], hi)) /\ Notes(l, Log[l], hi)
         /\ IF hi < Len(Log[l].hists) THEN l' = l /\ hi' = hi + 1 ELSE l' = l + 1 /\ hi' = 1
TAccepted == TLCGet("stats").diameter - 1 = SumSeqF(Log, HCount)
=================================================================================================
