INIT Init
NEXT GenNext
CONSTANTS
  MaxClip = 6
  Clip3s = {0, 2}
  ReadLens = {10}
  FlankIds = {2}
  FlankPairs = "diag"
  MMBases = {"T", "N"}
  BoundaryPs = {0, 1, 2}
  XBases = {"A"}
  Protos = {"nla", "chic"}
  Variant = "design"
CONSTRAINT Emit
CHECK_DEADLOCK FALSE
