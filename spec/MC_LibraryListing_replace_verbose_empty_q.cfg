INIT Init
NEXT Next
CONSTANTS
  Schemes = {"ill"}
  LibChoice = "repl"
  NLanes = 1
  NChunks = 1
  MaxFiles = 2
  ReplIdx = {3}
  SlibIdx = {0}
  Merges = {0}
  SEs = {TRUE, FALSE}
  Ignores = {TRUE, FALSE}
  Verboses = {TRUE}
  Globs = {FALSE}
  Variant = "replace_verbose"
INVARIANT Inv_X03_Outcome
INVARIANT Inv_X03_Placement
INVARIANT Inv_X03_MateKey
INVARIANT Inv_X03_LibraryName
INVARIANT Inv_X03_LaneGrouping
INVARIANT Inv_X03_SlotOrder
INVARIANT Inv_X03_Pairing
INVARIANT Inv_X03_IgnoreWhole
INVARIANT Inv_X03_IgnoreReported
INVARIANT Inv_X03_Terminates
INVARIANT Inv_X03_OrderIndependent
CHECK_DEADLOCK FALSE
