------------------------------------ MODULE MethylationMatrixP ------------------------------------
(* X04 - vocabulary and P-level of the methylation count matrix                                      *)
(* (singlecellmultiomics/methylation/methylation.py, class MethylationCountMatrix).                  *)
(*                                                                                                 *)
(* Abstract matrix  st = [cells |-> function  <<sample, location>> -> <<unmethylated, methylated>>,   *)
(*                        sites |-> set of locations shown by the frames]                            *)
(* (the code: counts[sample][location] = [unmethylated, methylated]; `sites`).                       *)
(* Samples are integers (driver: 'sample_%02d'), locations tuples of integers                        *)
(* <<contig index, bin start, bin end>> or <<contig index, start, end, strand 0/1>> - the order of    *)
(* these tuples is the order of the real keys ('chr1' < 'chr2', '+' < '-').                          *)
(*                                                                                                 *)
(* Part 1: the meaning of every operation of the class (Apply) - used by the design model's actions *)
(*         and, folded over a recorded operation sequence, by the trace spec.                       *)
(* Part 2: the P-level clauses (no algorithm): what the matrix must hold given only the bag of       *)
(*         observations (Counted, Conserved, Apart), what the frames must show (FrameOf, BulkOf),    *)
(*         what prune leaves (PruneSpec).                                                           *)
EXTENDS Integers, Sequences, FiniteSets, TLC, Util

EmptyM == [cells |-> <<>>, sites |-> {}]
Keys(st) == DOMAIN st.cells
HasCell(st, s, loc) == <<s, loc>> \in Keys(st)
Cell(st, s, loc) == IF HasCell(st, s, loc) THEN st.cells[<<s, loc>>] ELSE <<0, 0>>
SamplesOf(st) == { k[1] : k \in Keys(st) }
CellLocs(st) == { k[2] : k \in Keys(st) }
PutCell(st, s, loc, v) ==
    [st EXCEPT !.cells = [k \in Keys(st) \cup {<<s, loc>>} |-> IF k = <<s, loc>> THEN v ELSE st.cells[k]]]
Total(st) == SumSetF(Keys(st), LAMBDA k : st.cells[k][1] + st.cells[k][2])
TotalU(st) == SumSetF(Keys(st), LAMBDA k : st.cells[k][1])
TotalM(st) == SumSetF(Keys(st), LAMBDA k : st.cells[k][2])

---------------------------------------------------------------------------------------------------
(* Part 1 - operations.  `dev` is the set of named deviations of the code that are switched on        *)
(* ({} = the documented behaviour):                                                                  *)
(*   "setitem_no_site"  (D400) __setitem__ stores the cell but does not register the location         *)
(*   "ctor_no_sites"    (D403) MethylationCountMatrix(counts=..) leaves `sites` empty                 *)
(*   "prune_none"       (D401) prune(min_samples=None) raises TypeError (get_methylation_count_matrix  *)
(*                             passes its default None)                                              *)
(* m[s, loc][meth] += 1 : __getitem__ creates [0,0] and registers the location, then the increment *)
DoObs(st, s, loc, meth) ==
    LET v == Cell(st, s, loc)
        st2 == PutCell(st, s, loc, IF meth = 1 THEN <<v[1], v[2] + 1>> ELSE <<v[1] + 1, v[2]>>)
    IN [st2 EXCEPT !.sites = @ \cup {loc}]
(* m[s, loc] read access *)
DoTouch(st, s, loc) == [PutCell(st, s, loc, Cell(st, s, loc)) EXCEPT !.sites = @ \cup {loc}]
(* m[s, loc] = [u, m] *)
DoSet(st, s, loc, v, dev) ==
    IF "setitem_no_site" \in dev THEN PutCell(st, s, loc, v) ELSE [PutCell(st, s, loc, v) EXCEPT !.sites = @ \cup {loc}]
(* a.update(b): "This does not work for regions with overlap! Those will be overwritten" *)
DoUpdate(a, b) ==
    [cells |-> [k \in Keys(a) \cup Keys(b) |-> IF k \in Keys(b) THEN b.cells[k] ELSE a.cells[k]],
     sites |-> a.sites \cup b.sites]
Overlapping(a, b) == Keys(a) \cap Keys(b) # {}
(* MethylationCountMatrix(counts=dict of a) *)
DoFromCounts(a, dev) == [cells |-> a.cells, sites |-> IF "ctor_no_sites" \in dev THEN {} ELSE CellLocs(a)]
NSamples(st, loc) == Cardinality({ s \in SamplesOf(st) : HasCell(st, s, loc) /\ Cell(st, s, loc)[1] + Cell(st, s, loc)[2] > 0 })
DoDelete(st, loc) ==
    [cells |-> [k \in { x \in Keys(st) : x[2] # loc } |-> st.cells[k]], sites |-> st.sites \ {loc}]
DeleteAll(st, L) == [cells |-> [k \in { x \in Keys(st) : x[2] \notin L } |-> st.cells[k]], sites |-> st.sites \ L]
(* prune(min_samples = k, min_variance = None (mv = -1) | 0 (mv = 0)); k = -1 stands for None.        *)
(* variance of the betas is NaN exactly when no sample has a call at the location.                   *)
PruneIsNoop(st, k, mv) == st.sites = {} \/ Keys(st) = {} \/ (k = 0 /\ mv = -1)
PruneSet(st, k, mv) == { loc \in st.sites : NSamples(st, loc) < k \/ (mv = 0 /\ NSamples(st, loc) = 0) }
KNorm(k) == IF k = -1 THEN 0 ELSE k          \* None counts as "no minimum"
DoPrune(st, k, mv) ==
    IF PruneIsNoop(st, KNorm(k), mv) THEN st ELSE DeleteAll(st, PruneSet(st, KNorm(k), mv))

---------------------------------------------------------------------------------------------------
(* Part 2 - P-level.  `B` is the bag of observations as a function                                   *)
(*   <<sample, location, meth>> -> how many times it was observed   (domain: what was observed)      *)
BagCount(B, s, loc, meth) == IF <<s, loc, meth>> \in DOMAIN B THEN B[<<s, loc, meth>>] ELSE 0
BagKeys(B) == { <<x[1], x[2]>> : x \in DOMAIN B }
BagTotal(B) == SumSetF(DOMAIN B, LAMBDA x : B[x])
(* the matrix a single, unsplit count of the bag gives *)
BagMatrix(B, T) ==
    [cells |-> [k \in BagKeys(B) \cup T |-> <<BagCount(B, k[1], k[2], 0), BagCount(B, k[1], k[2], 1)>>],
     sites |-> { k[2] : k \in BagKeys(B) \cup T }]

(* every observation is counted exactly once, in the cell of its (sample, location), methylated and  *)
(* unmethylated kept apart; nothing else is counted (T = cells that were only read, they hold 0,0)   *)
P_Counted(st, B, T) ==
    /\ Keys(st) = BagKeys(B) \cup T
    /\ \A k \in Keys(st) : st.cells[k] = <<BagCount(B, k[1], k[2], 0), BagCount(B, k[1], k[2], 1)>>
P_Conserved(st, B) ==
    /\ Total(st) = BagTotal(B)
    /\ TotalM(st) = SumSetF({ x \in DOMAIN B : x[3] = 1 }, LAMBDA x : B[x])
    /\ TotalU(st) = SumSetF({ x \in DOMAIN B : x[3] = 0 }, LAMBDA x : B[x])
(* what the frames can show: every location that holds a cell is a site *)
P_SitesCoverCells(st) == CellLocs(st) \subseteq st.sites
(* after prune(k, mv) of a matrix `before`: exactly the locations with fewer than k samples (or, with  *)
(* min_variance 0, without any call) are gone, whole; the cells of the others are untouched; samples *)
(* without a cell left are gone                                                                     *)
P_Prune(before, after, k, mv) ==
    LET gone == IF PruneIsNoop(before, KNorm(k), mv) THEN {}
                ELSE { loc \in before.sites : NSamples(before, loc) < KNorm(k) \/ (mv = 0 /\ NSamples(before, loc) = 0) }
    IN /\ after.sites = before.sites \ gone
       /\ Keys(after) = { x \in Keys(before) : x[2] \notin gone }
       /\ \A x \in Keys(after) : after.cells[x] = before.cells[x]

(* frames.  Orders: samples ascending, locations in tuple order.                                     *)
TupleLess(a, b) == \E i \in 1 .. Len(a) : i <= Len(b) /\ a[i] < b[i] /\ \A j \in 1 .. (i - 1) : a[j] = b[j]
SortedLocs(S) == SortSeq(SetToSeq(S), TupleLess)
SortedInts(S) == SortSeq(SetToSeq(S), LAMBDA x, y : x < y)
(* get_frame('methylated' | 'unmethylated'): rows = samples, columns = sites, -1 = NaN (no cell) *)
FrameOf(st, which) ==
    LET cols == SortedLocs(st.sites)  rows == SortedInts(SamplesOf(st))
    IN [cols |-> cols, rows |-> rows,
        vals |-> [i \in DOMAIN rows |-> [j \in DOMAIN cols |->
                    IF HasCell(st, rows[i], cols[j]) THEN Cell(st, rows[i], cols[j])[which] ELSE -1]]]
(* get_bulk_column(samples, loc)[unmethylated, methylated, n_samples] *)
BulkCol(st, S, loc) ==
    LET have == { s \in S : HasCell(st, s, loc) }
    IN << SumSetF(have, LAMBDA s : Cell(st, s, loc)[1]), SumSetF(have, LAMBDA s : Cell(st, s, loc)[2]),
          Cardinality({ s \in have : Cell(st, s, loc)[1] + Cell(st, s, loc)[2] > 0 }) >>
(* beta is recorded in parts per million (-1 = NaN): within rounding of methylated / total *)
BetaOk(ppm, un, met) == IF un + met = 0 THEN ppm = -1
                        ELSE ppm >= 0 /\ Abs(ppm * (un + met) - met * 1000000) <= (un + met)
=====================================================================================================
