INIT Init
NEXT Next
CONSTANTS
  SampleNames = {"a", "b", "c"}
  NoSM = TRUE
  AsgSamples = {"a", "b"}
  GroupNames = {"g", "h"}
  MaxRecs = 3
  MaxGroups = 2
  MaxPerGroup = 2
  HeadMax = 2
  WRGs = {TRUE, FALSE}
  Prefix = "P_"
  StemWithBam = FALSE
  Mode = "api"
  MaxLines = 0
  Variant = "design"
  NoCols = {FALSE}
  AddChrs = {FALSE}
  DupFlags = {FALSE}
  LowQFlags = {FALSE}
  PosMax = 1
  MapqReading = "ignored"
CONSTRAINT Emit
CHECK_DEADLOCK FALSE
