INIT Init
NEXT Next
CONSTANTS
  SampleNames = {"a", "b", "c"}
  NoSM = TRUE
  AsgSamples = {"a", "b"}
  GroupNames = {"g", "h"}
  MaxRecs = 2
  MaxGroups = 2
  MaxPerGroup = 2
  HeadMax = 1
  WRGs = {TRUE}
  Prefix = "P_"
  StemWithBam = FALSE
  Mode = "api"
  MaxLines = 0
  Variant = "first_group_wins"
  NoCols = {FALSE}
  AddChrs = {FALSE}
  DupFlags = {FALSE}
  LowQFlags = {FALSE}
  PosMax = 1
  MapqReading = "ignored"
INVARIANT Inv_X05_NoCrash
INVARIANT Inv_X05_Refused
INVARIANT Inv_X05_Files
INVARIANT Inv_X05_ExactlyOnce
INVARIANT Inv_X05_Unselected
INVARIANT Inv_X05_Head
INVARIANT Inv_X05_Order
INVARIANT Inv_X05_Content
INVARIANT Inv_X05_RecordRG
INVARIANT Inv_X05_HeaderRG
INVARIANT Inv_X05_Closed
CHECK_DEADLOCK FALSE
