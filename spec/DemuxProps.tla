---------------------------------------- MODULE DemuxProps ----------------------------------------
(* C01 - P-level: the property "demultiplexing conserves every read pair" written over an       *)
(* OBSERVATION of one finished (or crashed) demultiplexing run.  No algorithm in here.          *)
(* The same operators judge                                                                     *)
(*   - every reachable state of the design model (Demux.tla builds the observation from its     *)
(*     variables), and                                                                          *)
(*   - every recorded execution of the real loader (Trace_Demux.tla builds the observation from *)
(*     the files re-read from disk and the returned counters).                                  *)
(*                                                                                              *)
(* Observation record o:                                                                        *)
(*   o.N         number of pairs in the input library (input ids are 1..N, in file order)        *)
(*   o.n         number of pairs the run has to consume (N, or the maxReadPairs cut-off)         *)
(*   o.K         number of selected strategies                                                   *)
(*   o.mates     1 (single end) or 2 (paired end)                                                *)
(*   o.hasRej    a rejects handle was supplied                                                   *)
(*   o.raised    the loader raised instead of returning                                          *)
(*   o.acc       acc[p][k] : strategy k demultiplexes pair p (it returns records that format)    *)
(*   o.processed, o.yields[k]            the returned counters                                   *)
(*   o.logged, o.logProcessed, o.logYields[k]   the counters written to the log handle           *)
(*   o.tgt       sequence of target sinks (1 joint sink, or one per cell file pair)              *)
(*   o.rej       sequence of reject sinks (empty without a rejects handle)                       *)
(*     sink   = sequence over mates 1..o.mates of streams                                        *)
(*     stream = [wf |-> the file is a whole number of 4-line records, recs |-> sequence of recs] *)
(*     rec    = [id |-> input pair (0: not an input pair), s |-> strategy 1..K (0: unknown; real  *)
(*               records are never attributed: composite strategies emit the MX tag of the       *)
(*               demultiplexer they delegate to, which can be another selected strategy),        *)
(*               ok |-> the record itself is well formed ('@' header, |seq| = |qual|),           *)
(*               faithful |-> bases and qualities equal the original mate   (reject recs only)   *)
(*               reason   |-> a rejection reason tag is present              (reject recs only)   *)
(*               reasonGiven |-> ... and its value is not empty              (reject recs only)] *)
EXTENDS Integers, Sequences, FiniteSets, Util

Min2(a, b) == IF a < b THEN a ELSE b

NumAccepted(o, p) == Cardinality({ k \in 1 .. o.K : o.acc[p][k] })

(* number of records of pair p written to mate-stream m, summed over the sinks *)
CountId(sinks, m, p) ==
    LET f(sk) == Cardinality({ i \in DOMAIN sk[m].recs : sk[m].recs[i].id = p }) IN SumSeqF(sinks, f)
CountIdS(sinks, m, p, k) ==
    LET f(sk) == Cardinality({ i \in DOMAIN sk[m].recs : sk[m].recs[i].id = p /\ sk[m].recs[i].s = k })
    IN SumSeqF(sinks, f)
NumRecs(sinks, m) == LET f(sk) == Len(sk[m].recs) IN SumSeqF(sinks, f)
NumRecsS(sinks, m, k) ==
    LET f(sk) == Cardinality({ i \in DOMAIN sk[m].recs : sk[m].recs[i].s = k }) IN SumSeqF(sinks, f)
Attributable(sinks, m) == \A j \in DOMAIN sinks : \A i \in DOMAIN sinks[j][m].recs : sinks[j][m].recs[i].s # 0
AllStreams(o) == { <<"tgt", j, m>> : j \in DOMAIN o.tgt, m \in 1 .. o.mates }
                 \cup { <<"rej", j, m>> : j \in DOMAIN o.rej, m \in 1 .. o.mates }
StreamOf(o, x) == IF x[1] = "tgt" THEN o.tgt[x[2]][x[3]] ELSE o.rej[x[2]][x[3]]

---------------------------------------------------------------------------------------------------
(* "each input read (pair) is written exactly once: either to the demultiplexed output or ... to *)
(*  the rejects output - never both and never neither", for every selected strategy.             *)
(*  Every consumed pair p is found in the target exactly once per strategy that demultiplexes it *)
(*  and, with a rejects handle, in the rejects once per strategy that does not; pairs behind the *)
(*  cut-off are in no sink; nothing that is not an input pair is in a sink.                      *)
POnce(o) ==
    \A p \in 1 .. o.N :
        LET t == CountId(o.tgt, 1, p)
            r == CountId(o.rej, 1, p)
        IN IF p <= o.n
           THEN /\ t = NumAccepted(o, p)
                /\ r = IF o.hasRej THEN o.K - NumAccepted(o, p) ELSE 0
           ELSE t = 0 /\ r = 0

(* holds in every intermediate state as well: never twice, never in both sinks *)
PAtMostOnce(o) ==
    \A p \in 1 .. o.N :
        /\ CountId(o.tgt, 1, p) + CountId(o.rej, 1, p) <= o.K
        /\ \A k \in 1 .. o.K : CountIdS(o.tgt, 1, p, k) + CountIdS(o.rej, 1, p, k) <= 1

PNoForeign(o) ==
    /\ \A x \in AllStreams(o) : \A i \in DOMAIN StreamOf(o, x).recs : StreamOf(o, x).recs[i].id \in 1 .. o.N
    /\ (~o.hasRej => o.rej = <<>>)

(* "R1 and R2 outputs stay mate-synchronised: equal record counts, ... mates on the same index"  *)
PMateSync(o) ==
    \A sinks \in {o.tgt, o.rej} : \A j \in DOMAIN sinks : \A m \in 2 .. o.mates :
        /\ Len(sinks[j][m].recs) = Len(sinks[j][1].recs)
        /\ \A i \in DOMAIN sinks[j][1].recs :
              i \in DOMAIN sinks[j][m].recs =>
                 /\ sinks[j][m].recs[i].id = sinks[j][1].recs[i].id
                 /\ sinks[j][m].recs[i].s  = sinks[j][1].recs[i].s

(* "input order preserved" (per output file; the order of strategies within a pair is free)      *)
POrder(o) ==
    \A x \in AllStreams(o) :
        LET q == StreamOf(o, x).recs IN \A i, j \in DOMAIN q : i < j => q[i].id <= q[j].id

(* "the reported counters equal the number of records written"                                   *)
PYields(o) ==
    /\ SumSeqF(o.yields, LAMBDA y : y) = NumRecs(o.tgt, 1)
    /\ Attributable(o.tgt, 1) => \A k \in 1 .. o.K : o.yields[k] = NumRecsS(o.tgt, 1, k)
(* on a finished run: strategy k is credited with exactly the consumed pairs it demultiplexes *)
PYieldsFinal(o) == \A k \in 1 .. o.K : o.yields[k] = Cardinality({ p \in 1 .. o.n : o.acc[p][k] })
PProcessed(o) == o.processed = o.n
PLog(o) == o.logged => o.logProcessed = o.processed /\ o.logYields = o.yields
PCounters(o) == o.raised \/ (PYields(o) /\ PYieldsFinal(o) /\ PProcessed(o) /\ PLog(o))

(* the sinks are FASTQ: whole 4-line records, '@' header, one quality per base                   *)
PWellFormed(o) ==
    \A x \in AllStreams(o) : StreamOf(o, x).wf /\ \A i \in DOMAIN StreamOf(o, x).recs : StreamOf(o, x).recs[i].ok

(* "... with a rejection reason and its original bases and qualities, to the rejects output"     *)
PRejectFaithful(o) ==
    \A j \in DOMAIN o.rej : \A m \in 1 .. o.mates : \A i \in DOMAIN o.rej[j][m].recs :
        o.rej[j][m].recs[i].faithful /\ o.rej[j][m].recs[i].reason

(* "with a rejection reason": the reason is not the empty string.  Judged on runs with ONE selected   *)
(* strategy only (K = 1), where the strategy that produced a reject is known; see Trace_Demux.       *)
PRejectReasonGiven(o) ==
    \A j \in DOMAIN o.rej : \A m \in 1 .. o.mates : \A i \in DOMAIN o.rej[j][m].recs : o.rej[j][m].recs[i].reasonGiven

(* name of the first failing clause of the property on a finished run, or "ok" *)
PVerdict(o) ==
    IF ~PWellFormed(o) THEN "Inv_C01_WellFormed"
    ELSE IF ~PNoForeign(o) THEN "Inv_C01_NoForeign"
    ELSE IF ~PAtMostOnce(o) THEN "Inv_C01_AtMostOnce"
    ELSE IF ~POnce(o) THEN "Inv_C01_Once"
    ELSE IF ~PMateSync(o) THEN "Inv_C01_MateSync"
    ELSE IF ~POrder(o) THEN "Inv_C01_Order"
    ELSE IF ~PRejectFaithful(o) THEN "Inv_C01_RejectFaithful"
    ELSE IF ~PCounters(o) THEN "Inv_C01_Counters"
    ELSE "ok"

(* "with and without a rejects handle, joint and one-file-per-cell output": the demultiplexed    *)
(*  output of two runs over the same library and strategies holds the same pairs (ids up to the  *)
(*  smaller cut-off), whatever the sink configuration.                                           *)
PSameAccepted(o1, o2) ==
    \A p \in 1 .. Min2(o1.n, o2.n) : CountId(o1.tgt, 1, p) = CountId(o2.tgt, 1, p)
=====================================================================================================
