INIT Init
NEXT Next
CONSTANTS
  Variant = "design"
  LenA = 4
  LenB = 2
  BinSizes = {2}
  Bpjs = {1, 2}
  Mfss = {0, 1}
  KindSet = {"good"}
  KwargsSet = {"empty"}
  UseKeySet = {FALSE}
  NFiles = 2
  MaxRecs = 2
  Threads = 1
INVARIANT Inv_C12_Total_NoRaise
INVARIANT Inv_C12_Matrix
INVARIANT Inv_C12_Invariant
INVARIANT Inv_C12_Total
INVARIANT Inv_D_Partial
INVARIANT Inv_D_BinHasOneJob
CHECK_DEADLOCK FALSE
