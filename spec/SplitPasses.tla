-------------------------------------- MODULE SplitPasses --------------------------------------
(* C19 (second subsystem): bamProcessing/bamSplitByTag.py splits a BAM into one file per tag     *)
(* value with at most max_handles output files open; values that do not fit wait for a later     *)
(* pass over the input (the `while len(waiting) > 0` loop of the command line, l.115-127, around  *)
(* split_bam_by_tag, l.18-84).                                                                    *)
(* One action per arm of the loop body:                                                          *)
(*   SkipUntagged     `if not r.has_tag(tag): continue`                                          *)
(*   SkipDoneOrWaiting`if value in skip or value in waiting: continue`                           *)
(*   Defer            `if len(output_handles) >= max_handles: waiting.add(value); continue`      *)
(*   OpenAndWrite     AlignmentFile(.., "wb") (creates / truncates the file) + write             *)
(*   Write            write through the open handle                                              *)
(*   EndPass          close all, `skip.update(done)`, start the next pass iff somebody waits      *)
(* Variant "noskip" forgets `skip.update(done)` (mutation control: the invariants are not vacuous) *)
EXTENDS Integers, FiniteSets, Sequences, TLC, Util

CONSTANTS NValues, MaxLen, MHs, Variant
Values == 1 .. NValues

VARIABLES recs,     \* tag value of every input record, 0 = record without the tag
          maxh, pass, i, handles, waiting, skip, phase,
          out,      \* [Values -> Seq(record index)] content of the value's file
          opened    \* [Values -> Nat] number of truncating opens of the value's file
vars == <<recs, maxh, pass, i, handles, waiting, skip, phase, out, opened>>

SeqsUpTo(S, n) == UNION { [1 .. k -> S] : k \in 0 .. n }

Init == /\ recs \in SeqsUpTo(0 .. NValues, MaxLen) /\ maxh \in MHs
        /\ pass = 1 /\ i = 1 /\ handles = {} /\ waiting = {} /\ skip = {} /\ phase = "scan"
        /\ out = [v \in Values |-> <<>>] /\ opened = [v \in Values |-> 0]

Scanning == phase = "scan" /\ i <= Len(recs)
v == recs[i]
Advance == i' = i + 1 /\ UNCHANGED <<recs, maxh, pass, skip, phase>>

SkipUntagged == Scanning /\ v = 0 /\ Advance /\ UNCHANGED <<handles, waiting, out, opened>>
SkipDoneOrWaiting == Scanning /\ v # 0 /\ (v \in skip \/ v \in waiting) /\ Advance /\ UNCHANGED <<handles, waiting, out, opened>>
Defer == /\ Scanning /\ v # 0 /\ v \notin skip /\ v \notin waiting /\ v \notin handles
         /\ Cardinality(handles) >= maxh
         /\ waiting' = waiting \cup {v} /\ Advance /\ UNCHANGED <<handles, out, opened>>
OpenAndWrite == /\ Scanning /\ v # 0 /\ v \notin skip /\ v \notin waiting /\ v \notin handles
                /\ Cardinality(handles) < maxh
                /\ handles' = handles \cup {v}
                /\ out' = [out EXCEPT ![v] = <<i>>]            \* "wb": whatever the file held is gone
                /\ opened' = [opened EXCEPT ![v] = @ + 1]
                /\ Advance /\ UNCHANGED waiting
Write == /\ Scanning /\ v # 0 /\ v \notin skip /\ v \notin waiting /\ v \in handles
         /\ out' = [out EXCEPT ![v] = Append(@, i)]
         /\ Advance /\ UNCHANGED <<handles, waiting, opened>>
EndPass == /\ phase = "scan" /\ i > Len(recs)
           /\ skip' = IF Variant = "noskip" THEN skip ELSE skip \cup handles
           /\ handles' = {}
           /\ IF waiting = {} THEN phase' = "done" /\ UNCHANGED <<pass, i>>
                              ELSE phase' = "scan" /\ pass' = pass + 1 /\ i' = 1
           /\ waiting' = {}
           /\ UNCHANGED <<recs, maxh, out, opened>>

Next == SkipUntagged \/ SkipDoneOrWaiting \/ Defer \/ OpenAndWrite \/ Write \/ EndPass
Spec == Init /\ [][Next]_vars

Expected(val) == SetToSortSeq({ k \in DOMAIN recs : recs[k] = val }, LAMBDA a, b : a < b)
Inv_C19_PassesComplete == phase = "done" => \A val \in Values : out[val] = Expected(val)
Inv_C19_OpenOnce == \A val \in Values : opened[val] <= 1
Inv_C19_HandleBound == Cardinality(handles) <= maxh
Inv_C19_PassBound == pass <= NValues + 1
=================================================================================================
