-------------------------------------- MODULE SplitPasses --------------------------------------
(* C19 (second subsystem): bamProcessing/bamSplitByTag.py splits a BAM into one file per tag     *)
(* value with at most max_handles output files open; values that do not fit wait for a later     *)
(* pass over the input (the `while len(waiting) > 0` loop of the command line, l.115-127, around  *)
(* split_bam_by_tag, l.18-84).                                                                    *)
(* One action per arm of the loop body:                                                          *)
(*   SkipUntagged     `if not r.has_tag(tag): continue`                                          *)
(*   SkipDoneOrWaiting`if value in skip or value in waiting: continue`                           *)
(*   Defer            `if len(output_handles) >= max_handles: waiting.add(value); continue`      *)
(*   OpenAndWrite     AlignmentFile(.., "wb") (creates / truncates the file) + write             *)
(*   Write            write through the open handle                                              *)
(*   EndPass          close all, `skip.update(done)`, start the next pass iff somebody waits      *)
(* Distinct tag values can sanitise (get_valid_filename, l.50) to the SAME file name ('plate 1',  *)
(* 'plate_1'): fmap maps a raw value to its output file.  The code sanitises FIRST and keeps all  *)
(* its bookkeeping (skip / waiting / output_handles) per file name, so colliding values share one *)
(* handle and one pass.                                                                          *)
(* Variant "noskip" forgets `skip.update(done)`; Variant "rawkey" (seeded change C19-r2m3) keeps   *)
(* the bookkeeping per RAW value and sanitises only when building the path: colliding values get  *)
(* separate handles / passes on one path and the later "wb" open destroys the earlier records.    *)
(* Variant "skipreplace" (seeded change C19-r3m3) REPLACES skip by the values of the last pass:   *)
(* with more than 2 * max_handles values the third pass re-opens the values of the first one and  *)
(* the tool never ends (Inv_C19_PassBound, Inv_C19_OpenOnce).                                     *)
(* (mutation controls: the invariants are not vacuous)                                           *)
EXTENDS Integers, FiniteSets, Sequences, TLC, Util

CONSTANTS NValues, MaxLen, MHs, Variant
Values == 1 .. NValues

VARIABLES recs,     \* tag value of every input record, 0 = record without the tag
          fmap,     \* [Values -> Values]: output file of a raw value (canonical numbering of the collision classes)
          maxh, pass, i, handles, waiting, skip, phase,
          out,      \* [files -> Seq(record index)] content of the output file
          opened    \* [files -> Nat] number of truncating opens of the output file
vars == <<recs, fmap, maxh, pass, i, handles, waiting, skip, phase, out, opened>>

SeqsUpTo(S, n) == UNION { [1 .. k -> S] : k \in 0 .. n }

Maps == { f \in [Values -> Values] : f[1] = 1 /\ \A x \in 2 .. NValues : f[x] <= MaxOf({ f[w] : w \in 1 .. (x - 1) }) + 1 }
Init == /\ recs \in SeqsUpTo(0 .. NValues, MaxLen) /\ maxh \in MHs /\ fmap \in Maps
        /\ pass = 1 /\ i = 1 /\ handles = {} /\ waiting = {} /\ skip = {} /\ phase = "scan"
        /\ out = [v \in Values |-> <<>>] /\ opened = [v \in Values |-> 0]

Scanning == phase = "scan" /\ i <= Len(recs)
raw == recs[i]
file == fmap[raw]
v == IF Variant = "rawkey" THEN raw ELSE file        \* the key of skip / waiting / output_handles
Advance == i' = i + 1 /\ UNCHANGED <<recs, fmap, maxh, pass, skip, phase>>

SkipUntagged == Scanning /\ raw = 0 /\ Advance /\ UNCHANGED <<handles, waiting, out, opened>>
SkipDoneOrWaiting == Scanning /\ raw # 0 /\ (v \in skip \/ v \in waiting) /\ Advance /\ UNCHANGED <<handles, waiting, out, opened>>
Defer == /\ Scanning /\ raw # 0 /\ v \notin skip /\ v \notin waiting /\ v \notin handles
         /\ Cardinality(handles) >= maxh
         /\ waiting' = waiting \cup {v} /\ Advance /\ UNCHANGED <<handles, out, opened>>
OpenAndWrite == /\ Scanning /\ raw # 0 /\ v \notin skip /\ v \notin waiting /\ v \notin handles
                /\ Cardinality(handles) < maxh
                /\ handles' = handles \cup {v}
                /\ out' = [out EXCEPT ![file] = <<i>>]         \* "wb": whatever the file held is gone
                /\ opened' = [opened EXCEPT ![file] = @ + 1]
                /\ Advance /\ UNCHANGED waiting
Write == /\ Scanning /\ raw # 0 /\ v \notin skip /\ v \notin waiting /\ v \in handles
         /\ out' = [out EXCEPT ![file] = Append(@, i)]
         /\ Advance /\ UNCHANGED <<handles, waiting, opened>>
EndPass == /\ phase = "scan" /\ i > Len(recs)
           /\ skip' = CASE Variant = "noskip" -> skip
                         [] Variant = "skipreplace" -> handles      \* seeded change C19-r3m3: `skip = done`
                         [] OTHER -> skip \cup handles
           /\ handles' = {}
           /\ IF waiting = {} THEN phase' = "done" /\ UNCHANGED <<pass, i>>
                              ELSE phase' = "scan" /\ pass' = pass + 1 /\ i' = 1
           /\ waiting' = {}
           /\ UNCHANGED <<recs, fmap, maxh, out, opened>>

Next == SkipUntagged \/ SkipDoneOrWaiting \/ Defer \/ OpenAndWrite \/ Write \/ EndPass
Spec == Init /\ [][Next]_vars

(* per OUTPUT FILE: exactly the records of all values mapping to it, in input order *)
Expected(f) == SetToSortSeq({ k \in DOMAIN recs : recs[k] # 0 /\ fmap[recs[k]] = f }, LAMBDA a, b : a < b)
Inv_C19_PassesComplete == phase = "done" => \A val \in Values : out[val] = Expected(val)
Inv_C19_OpenOnce == \A val \in Values : opened[val] <= 1
Inv_C19_HandleBound == Cardinality(handles) <= maxh
Inv_C19_PassBound == pass <= NValues + 1
=================================================================================================
