-------------------------------------- MODULE Trace_Binning --------------------------------------
(* Observations of the real binning functions / count-table entry point judged by the P-level   *)
(* definitions of Binning.tla.                                                                  *)
(*   {"ev":"bins","tid":n,"src":..,"c":..,"b":..,"s":..,"bins":[[start,end],..]}                  *)
(*   {"ev":"loc","tid":n,"src":..,"c","b","s","start","end","start_id","end_id"}                  *)
(*   {"ev":"table","tid":n,"b","s","keep","reads":[{"c","w","sample","reflen"}],  reflen = length of  *)
(*                  the read's contig IN THE FILE THE READ CAME FROM (several BAMs per call)            *)
(*                  "table":[{"sample","start","end","w"}]}     weights are integers (value * 2) *)
EXTENDS TraceLib, Util

WindowIds(c, b, s) == { i \in (FloorDiv(c - b, s) - 1) .. (FloorDiv(c, s) + 1) : i * s <= c /\ c < i * s + b }
Windows(c, b, s)   == { <<i * s, i * s + b>> : i \in WindowIds(c, b, s) }
InBounds(w, keep, reflen) == keep \/ (w[1] >= 0 /\ w[2] <= reflen)

VARIABLE l

BinsVerdict(e) ==
    LET got == { <<e.bins[i][1], e.bins[i][2]>> : i \in DOMAIN e.bins } IN
    IF got # Windows(e.c, e.b, e.s) THEN "Inv_C10_Membership"
    ELSE IF Cardinality(got) # Len(e.bins) THEN "Inv_C10_Membership_duplicate_bin"
    ELSE IF e.s = e.b /\ e.bins # << << (e.c \div e.b) * e.b, (e.c \div e.b + 1) * e.b >> >> THEN "Inv_C10_Single"
    ELSE "ok"

LocVerdict(e) ==
    LET ids == WindowIds(e.c, e.b, e.s) IN
    IF ids = {} THEN (IF e.start_id <= e.end_id THEN "Inv_C10_Membership_loc_nonempty" ELSE "ok")
    ELSE IF e.start_id # MinOf(ids) \/ e.end_id # MaxOf(ids) THEN "Inv_C10_Membership_loc_ids"
    ELSE IF e.start # MinOf(ids) * e.s \/ e["end"] # MaxOf(ids) * e.s + e.b THEN "Inv_C10_Membership_loc_span"
    ELSE "ok"

TableVerdict(e) ==
    LET rows == SeqSet(e.table)
        cells == { <<r.sample, r.start, r["end"]>> : r \in rows }
        samples == { e.reads[i].sample : i \in DOMAIN e.reads }
        expcells == { <<e.reads[i].sample, w[1], w[2]>> :
                        i \in DOMAIN e.reads, w \in UNION { Windows(e.reads[j].c, e.b, e.s) : j \in DOMAIN e.reads } }
        Exp(cell) == LET g(r) == IF r.sample = cell[1] /\ <<cell[2], cell[3]>> \in Windows(r.c, e.b, e.s)
                                      /\ InBounds(<<cell[2], cell[3]>>, e.keep, r.reflen) THEN r.w ELSE 0
                     IN SumSeqF(e.reads, g)
        Got(cell) == LET g(r) == IF <<r.sample, r.start, r["end"]>> = cell THEN r.w ELSE 0 IN SumSeqF(e.table, g)
        tot == LET g(r) == r.w IN SumSeqF(e.table, g)
        exptot == LET g(r) == r.w * Cardinality({ w \in Windows(r.c, e.b, e.s) : InBounds(w, e.keep, r.reflen) })
                  IN SumSeqF(e.reads, g)
        sumw == LET g(r) == r.w IN SumSeqF(e.reads, g)
    IN IF e.raised # "" THEN "Inv_C10_Raised"     \* the entry point must not raise on a legal BAM / option set
       ELSE IF \E cell \in cells \cup expcells : Got(cell) # Exp(cell) THEN "Inv_C10_Table"
       ELSE IF tot # exptot THEN "Inv_C10_Total"
       ELSE IF e.s = e.b /\ tot > sumw THEN "Inv_C10_NoDouble"
       ELSE "ok"

Verdict(e) == CASE e.ev = "bins"  -> BinsVerdict(e)
                [] e.ev = "loc"   -> LocVerdict(e)
                [] e.ev = "table" -> TableVerdict(e)
                [] OTHER -> "unknown_event"

TInit == l = 1
TNext == l <= Len(Log) /\ Judge(l, Verdict(Log[l])) /\ l' = l + 1
TAccepted == TLCGet("stats").diameter - 1 = Len(Log)
=====================================================================================================
