INIT Init
NEXT Next
CONSTANTS
  A = 4
  L = 2
  MaxLines = 2
  Ks = {1}
  Fmts = {"bc"}
  NFiles = {1}
  Lazy = {"none", "other"}
  ProbeMax = 5
  Touches = {"lookup", "getitem"}
  Variant = "eager_expand_gated"
INVARIANT TypeOK
INVARIANT Inv_C03_Nearest
INVARIANT Inv_C03_Exact
INVARIANT Inv_C03_NoTieAssigned
INVARIANT Inv_C03_Lookup
INVARIANT Inv_C03_Parse
CHECK_DEADLOCK FALSE
