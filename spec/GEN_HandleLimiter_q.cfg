INIT Init
NEXT Next
CONSTANTS
  NPaths = 3
  Stale = {1, 2}
  Ks = {1,2}
  MHs = {1,3}
  PEs = {1,2}
  BadChoices = {0,2}
  MaxTransient = 1
  MaxOps = 4
  Variant = "design"
  Record = TRUE
CONSTRAINT Emit
CHECK_DEADLOCK FALSE
