INIT Init
NEXT Next
CONSTANTS
  MaxClip = 6
  Clip3s = {0, 2}
  ReadLens = {9, 10, 11}
  FlankIds = {1, 2, 3, 4}
  FlankPairs = "diag"
  MMBases = {"A", "C", "G", "T", "N"}
  BoundaryPs = {0, 1, 2}
  XBases = {"A", "C", "G", "T"}
  Protos = {"nla", "chic"}
  Variant = "design"
INVARIANT Inv_C09_NlaTruth
INVARIANT Inv_C09_CycleShift
INVARIANT Inv_C09_ChicTruth
INVARIANT Inv_C09_Mirror
INVARIANT Inv_C09_RejectFlag
INVARIANT Inv_Gen
CHECK_DEADLOCK FALSE
