INIT Init
NEXT Next
CONSTANTS
  ValChars = {97, 58, 59}
  MaxLy = 3
  QChars = {33, 84}
  MaxUmi = 2
  Indexes = {"single", "dual"}
  Limit = 60
  Shapes = {"rr"}
  RequireSafe = FALSE
  Variant = "design"
INVARIANT Inv_C04_QTotal
INVARIANT Inv_C04_Refuse
INVARIANT Inv_C04_NoRaise
INVARIANT Inv_C04_RoundTrip
CHECK_DEADLOCK FALSE
