------------------------------------- MODULE Trace_PseudoRead -------------------------------------
(* Observations of the real consensus writer (Molecule.deduplicate_majority and the              *)
(* `bamtagmultiome --consensus --multiprocess` command line) judged by the P-level operators of  *)
(* PseudoRead.tla.  One event per molecule:                                                      *)
(*  {"ev":"pseudo","tid":n,"via":"api"|"api_hist"|"cli"|"cli_nosrc","maxN":k (-1 = None),"chrom":"chr1",  *)
(*   "strand":b,"mol":{"SM","RX","DS":site,"TF":associated+overflow fragments,"af":associated}, *)
(*   "frag_sites":[cut site of every accepted fragment] (DS must be the outermost: min forward, max reverse),  *)
(*   "umis":[UMI of every accepted fragment],"bc":barcode,                                        *)
(*   "reads":[{"start":s,"cigar":[{"op","n"}],"seq":[..],"q":[..]},..],   every mapped read      *)
(*   "ref":{"start":s0,"seq":[..]},                     the reference over the molecule's span  *)
(*   "records":[{"chrom","start","rev","cigar":[{"op","n"}],"seq":[..],"nq":len(qualities),     *)
(*               "has_md":b,"md":[{"n":k}|{"b":"A"}|{"d":"AC"}],"tags":{SM,RX,DS,TF present}}]} *)
(*   or "raised":"<ExceptionType>" instead of "records".                                         *)
(* Coverage, blocks, MD decoding and the call (where exact) are recomputed here from the reads.   *)
EXTENDS PseudoRead, TraceLib

VARIABLE l

RECURSIVE Walk(_, _, _, _)
Walk(ops, i, qi, r) ==
    IF i > Len(ops) THEN <<>>
    ELSE LET op == ops[i].op
             n  == ops[i].n
         IN IF op \in {"M", "=", "X"} THEN [ k \in 1 .. n |-> <<qi + k, r + k - 1>> ] \o Walk(ops, i + 1, qi + n, r + n)
            ELSE IF op \in {"I", "S"} THEN Walk(ops, i + 1, qi + n, r)
            ELSE IF op \in {"D", "N"} THEN Walk(ops, i + 1, qi, r + n)
            ELSE Walk(ops, i + 1, qi, r)

(* all observations <<position, base, quality>> of the molecule's reads, then grouped by position *)
ObsOfRead(rd) == LET pairs == Walk(rd.cigar, 1, 0, rd.start)
                 IN [ k \in DOMAIN pairs |-> <<pairs[k][2], rd.seq[pairs[k][1]], rd.q[pairs[k][1]]>> ]
AllObs(reads) == FoldLeft(LAMBDA acc, rd : acc \o ObsOfRead(rd), <<>>, reads)
ConfOf(reads) ==
    LET all == AllObs(reads)
        PP  == { all[i][1] : i \in DOMAIN all }
    IN [ p \in PP |-> LET mine == SelectSeq(all, LAMBDA o : o[1] = p) IN [ k \in DOMAIN mine |-> <<mine[k][2], mine[k][3]>> ] ]

RecOf(j) == [start |-> j.start, cigar |-> j.cigar, seq |-> j.seq, nq |-> j.nq, md |-> j.md, rev |-> j.rev, tags |-> j.tags]

(* SM, DS, TF (and af when written) against the molecule; RX (and the UMI part of MI = barcode \o UMI when written)
   against the most common UMI of the accepted fragments - with a tie either *)
TagClause(rs, e) ==
    LET mol == e.mol
        modes == ModeSet(e.umis)
        bad(k) == \E i \in DOMAIN rs : ~Has(rs[i].tags, k) \/ rs[i].tags[k] # mol[k]
    IN IF bad("SM") THEN "Inv_C15_Tags_SM"
       ELSE IF \E i \in DOMAIN rs : ~Has(rs[i].tags, "RX") \/ rs[i].tags.RX \notin modes THEN "Inv_C15_Tags_RX"
       ELSE IF \E i \in DOMAIN rs : Has(rs[i].tags, "MI") /\ rs[i].tags.MI \notin { e.bc \o u : u \in modes } THEN "Inv_C15_Tags_MI"
       ELSE IF \E i \in DOMAIN rs : ~Has(rs[i].tags, "DS") \/ rs[i].tags.DS # ExpSite(e.frag_sites, e.strand) THEN "Inv_C15_Tags_DS"
       ELSE IF bad("TF") THEN "Inv_C15_Tags_TF"
       ELSE IF \E i \in DOMAIN rs : Has(rs[i].tags, "af") /\ rs[i].tags.af # mol.af THEN "Inv_C15_Tags_af" ELSE "ok"

PseudoVerdict(e) ==
    IF Has(e, "raised") THEN "Inv_C15_Exists_raised_" \o e.raised
    ELSE
    LET cf == ConfOf(e.reads)
        rs == [ i \in DOMAIN e.records |-> RecOf(e.records[i]) ]
        refAt(p) == IF p >= e.ref.start /\ p < e.ref.start + Len(e.ref.seq) THEN e.ref.seq[p - e.ref.start + 1] ELSE "?"
    IN IF ~Inv_Exists(rs, cf) THEN "Inv_C15_Exists"
       ELSE IF ~Inv_Lens(rs) THEN "Inv_C15_Lens"
       ELSE IF \E i \in DOMAIN e.records : e.records[i].chrom # e.chrom THEN "Inv_C15_Blocks_contig"
       ELSE IF ~Inv_Blocks(rs, cf) THEN "Inv_C15_Blocks"
       ELSE IF ~Inv_MaxNSpan(rs, e.maxN) THEN "Inv_C15_MaxNSpan"
       ELSE IF \E i \in DOMAIN e.records : ~e.records[i].has_md THEN "Inv_C15_MD_missing"
       ELSE IF ~Inv_MD(rs, refAt) THEN "Inv_C15_MD"
       ELSE IF ~Inv_Call(rs, cf) THEN "Inv_C15_Call"
       ELSE TagClause(rs, e)

(* via "crd": Molecule.get_consensus_read() with its defaults - not an entry the property names: observation only.
   via "cli_halfmapped": a command-line run whose BAM certainly holds a half-mapped pair - judged like every other run *)
ObservedOnly(e) == e.ev = "pseudo" /\ e.via \in {"crd"}
Verdict(e) == IF ObservedOnly(e) THEN "ok"
              ELSE IF e.ev = "pseudo" THEN PseudoVerdict(e)
              ELSE IF e.ev = "orphan" THEN "Inv_C15_Blocks_record_outside_every_molecule"
              ELSE "unknown_event"

(* informational: positions where the call rule is outside the exact-integer domain; records that are not cut
   as the design model cuts them (not part of the statement) *)
Notes(line, e) ==
    IF e.ev = "pseudo" /\ e.via = "crd" THEN Note(line, e.tid, "default_get_consensus_read_" \o PseudoVerdict(e))
    ELSE IF e.ev # "pseudo" \/ Has(e, "raised") THEN TRUE
    ELSE LET cf == ConfOf(e.reads)
             rs == [ i \in DOMAIN e.records |-> RecOf(e.records[i]) ]
             und  == { p \in DOMAIN cf : ~Decidable(cf[p]) }
             cutok == /\ (e.maxN < 0 => Len(rs) <= 1)
                      /\ \A i \in 1 .. (Len(rs) - 1) :
                            LET a == RecPositions(rs[i]) b == RecPositions(rs[i + 1])
                            IN a = <<>> \/ b = <<>> \/ b[1] - a[Len(a)] - 1 > e.maxN
         IN /\ (IF und # {} THEN Note(line, e.tid, "call_rule_not_covered positions=" \o ToString(Cardinality(und))) ELSE TRUE)
            /\ (IF ~cutok THEN Note(line, e.tid, "divergence_split_differs_from_design") ELSE TRUE)

TInit == /\ l = 1
         /\ ref = <<>> /\ maxN = 0 /\ strand = FALSE /\ nfrag = 0 /\ nreads = 0 /\ sites = <<>> /\ umis = <<>> /\ overflow = 0 /\ open = FALSE /\ conf = <<>>
         /\ pc = "trace" /\ calls = <<>> /\ cigar = <<>> /\ ix = 0 /\ refpos = 0 /\ refstart = 0 /\ refend = 0
         /\ pCigar = <<>> /\ pSeq = <<>> /\ recs = <<>> /\ raised = FALSE
TNext == /\ l <= Len(Log)
         /\ Judge(l, Verdict(Log[l]))
         /\ Notes(l, Log[l])
         /\ l' = l + 1
         /\ UNCHANGED vars
TAccepted == TLCGet("stats").diameter - 1 = Len(Log)
=====================================================================================================
