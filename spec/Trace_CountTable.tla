------------------------------------ MODULE Trace_CountTable ------------------------------------
(* Observations of the real create_count_table(args, return_df=True) judged by the P-level        *)
(* definitions of CountTable.tla (ShouldCount / MayCount, Weight, Contribs).                       *)
(*   {"ev":"bam","tid":n,"reads":[{..read record..}]}            the BAM the following runs read      *)
(*   {"ev":"table","tid":n,"opts":{..option record..},                                              *)
(*    "raised":"" | "<ExceptionType>", "table":[{"sample":s,"key":[str,..],"w":int}]}                *)
(* weights are integers: value * 24 (the driver refuses values that are not multiples of 1/24).   *)
(* The read records are the generator's abstract description (the BAM bytes are derived from it).  *)
EXTENDS TraceLib, CountTable

VARIABLES l, cur      \* cur = line of the "bam" event the current runs refer to

ReadsAt(c) == Log[c].reads

Precondition(e, rs) ==
    IF e.ev = "bam" THEN "ok"
    ELSE IF ~Legal(e.opts) THEN "outside_supported_option_combinations"
    ELSE IF \E k \in DOMAIN rs : ~WeightExact(rs[k], e.opts) THEN "weight_not_representable_over_24"
    ELSE "ok"

TableVerdict(e, rs) ==
    LET o    == e.opts
        lo   == AllContribs(rs, o, LAMBDA r : ShouldCount(r, o))
        hi   == AllContribs(rs, o, LAMBDA r : MayCount(r, o))
        got  == [k \in DOMAIN e.table |-> [sample |-> e.table[k].sample, key |-> e.table[k].key, w |-> e.table[k].w]]
        cells == { Cell(got[k]) : k \in DOMAIN got } \cup { Cell(hi[k]) : k \in DOMAIN hi }
        bad(cell) == SumAt(got, cell) < SumAt(lo, cell) \/ SumAt(got, cell) > SumAt(hi, cell)
        samples == { ColumnOf(rs[k], o) : k \in { j \in DOMAIN rs : MayCount(rs[j], o) } }
    IN IF e.raised # "" THEN "Inv_C11_Total"
       ELSE IF \E k \in DOMAIN got : got[k].sample \notin samples /\ got[k].w # 0 THEN "Inv_C11_Sample"
       ELSE IF \E cell \in cells : bad(cell) THEN
            (IF \E cell \in cells : SumAt(got, cell) > SumAt(hi, cell) THEN "Inv_C11_Table_overcount" ELSE "Inv_C11_Table_undercount")
       ELSE "ok"

Verdict(e, rs) == IF e.ev = "table" THEN TableVerdict(e, rs) ELSE IF e.ev = "bam" THEN "ok" ELSE "unknown_event"

TInit == l = 1 /\ cur = 0 /\ reads = <<>> /\ opts = 0 /\ work = <<>> /\ i = 0 /\ pc = "trace" /\ table = <<>>
TNext == /\ l <= Len(Log)
         /\ LET rs == IF Log[l].ev = "bam" THEN Log[l].reads ELSE IF cur > 0 THEN ReadsAt(cur) ELSE <<>>
                p  == Precondition(Log[l], rs)
            IN IF Log[l].ev # "bam" /\ cur = 0 THEN Reject(l, Log[l].tid, "table_event_without_bam")
               ELSE IF p # "ok" THEN Note(l, Log[l].tid, p) ELSE Judge(l, Verdict(Log[l], rs))
         /\ l' = l + 1
         /\ cur' = IF Log[l].ev = "bam" THEN l ELSE cur
         /\ UNCHANGED vars
TAccepted == TLCGet("stats").diameter - 1 = Len(Log)
=====================================================================================================
