---------------------------------------- MODULE Trace_Demux ----------------------------------------
(* Observations of the real DemultiplexingStrategyLoader.demultiplex (driven the way demux.py    *)
(* drives it, or through demux.py itself) judged by the P-level of C01 (DemuxProps.tla).         *)
(*                                                                                              *)
(* {"ev":"run","tid","grp","entry","mates","hasRej","percell","maxpairs"(0 = none),              *)
(*  "strategies":[shortName..],"N","inp":[{"id","m":[{"seq","qual"}..]}..] (file order),         *)
(*  "acc":[["A"|"N"|"E" per strategy] per pair]  (the strategy object called directly),          *)
(*  "raised":"" | exception type, "processed","yields":[per strategy],"yields_foreign",          *)
(*  "logged","logProcessed","logYields",                                                         *)
(*  "tgt":[{"sink","mates":[{"nlines","recs":[{"id","mx","c0","sl","ql"}..]}..]}..],            *)
(*  "rej":[ same, recs additionally {"seq","qual","tags":[[key,value]..]} ],                     *)
(*  optional "scn": the TLC scenario (Demux.tla, Scenario) this run replays,                       *)
(*  history of the run (informational; the sinks are always observed after the LAST run and must  *)
(*  hold exactly this run's records): "prior" ("" | "testrun": the same library demultiplexed     *)
(*  with cut-off "prior_k" into the same output prefix before | "other": another, longer library   *)
(*  with foreign ids into the same prefix before), "lanes" (1|2 calls of demultiplex through the   *)
(*  same handles, split at "lane_split"), "stale_dir" }                                            *)
(* {"ev":"same","tid","grp","N","runs":[{"n","ids":[id of every mate-1 target record]}..]}        *)
(*                                                                                              *)
(* Everything the property needs is recomputed here from the raw fields: record -> input pair    *)
(* (by id), "faithful" (string equality with the original mate), "reason" (an RR tag exists),    *)
(* record well-formedness, stream well-formedness (lines = 4 x records), the number of pairs     *)
(* that had to be consumed.  The MX tag is recorded but not used.                                *)
EXTENDS TraceLib, DemuxProps

VARIABLE l

IndexOf(q, x) == IF \E i \in DOMAIN q : q[i] = x THEN CHOOSE i \in DOMAIN q : q[i] = x ELSE 0

InpOf(e, id, m) == e.inp[id].m[m]      \* inputs are recorded in file order with id = position

TStream(e, st) ==
    [ wf   |-> st.nlines = 4 * Len(st.recs),
      recs |-> [i \in DOMAIN st.recs |->
                  [ id |-> st.recs[i].id,
                    s  |-> 0,      \* no attribution: an MX tag may name the demultiplexer a composite strategy delegates to
                    ok |-> st.recs[i].c0 = "@" /\ st.recs[i].sl = st.recs[i].ql ]] ]

RStream(e, st, m) ==
    [ wf   |-> st.nlines = 4 * Len(st.recs),
      recs |-> [i \in DOMAIN st.recs |->
                  LET r == st.recs[i] IN
                  [ id |-> r.id,
                    s  |-> 0,
                    ok |-> r.c0 = "@" /\ r.sl = r.ql,
                    faithful |-> /\ r.id \in 1 .. e.N
                                 /\ r.seq = InpOf(e, r.id, m).seq
                                 /\ r.qual = InpOf(e, r.id, m).qual,
                    reason |-> \E t \in DOMAIN r.tags : r.tags[t][1] = "RR",
                    reasonGiven |-> \E t \in DOMAIN r.tags : r.tags[t][1] = "RR" /\ r.tags[t][2] # "" ]] ]

(* a sink whose mate file is missing is reported by the driver with nlines = -1 (never well formed) *)
ObsOf(e) ==
    [ N |-> e.N,
      n |-> IF e.maxpairs = 0 THEN e.N ELSE Min2(e.N, e.maxpairs),
      K |-> Len(e.strategies), mates |-> e.mates, hasRej |-> e.hasRej,
      raised |-> e.raised # "",
      acc |-> [p \in 1 .. e.N |-> [k \in 1 .. Len(e.strategies) |-> e.acc[p][k] = "A"]],
      processed |-> e.processed, yields |-> e.yields,
      logged |-> e.logged, logProcessed |-> e.logProcessed, logYields |-> e.logYields,
      tgt |-> [j \in DOMAIN e.tgt |-> [m \in 1 .. e.mates |-> TStream(e, e.tgt[j].mates[m])]],
      rej |-> [j \in DOMAIN e.rej |-> [m \in 1 .. e.mates |-> RStream(e, e.rej[j].mates[m], m)]] ]

WellFormedEvent(e) ==
    /\ Len(e.inp) = e.N /\ Len(e.acc) = e.N
    /\ \A p \in 1 .. e.N : e.inp[p].id = p /\ Len(e.inp[p].m) = e.mates /\ Len(e.acc[p]) = Len(e.strategies)
    /\ Len(e.yields) = Len(e.strategies) /\ Len(e.logYields) = Len(e.strategies)
    /\ \A j \in DOMAIN e.tgt : Len(e.tgt[j].mates) = e.mates
    /\ \A j \in DOMAIN e.rej : Len(e.rej[j].mates) = e.mates

RunVerdict(e) ==
    IF ~WellFormedEvent(e) THEN "malformed_event"
    ELSE LET o == ObsOf(e)
             v == PVerdict(o)
         IN IF v # "ok" THEN v
            ELSE IF ~o.raised /\ e.yields_foreign # 0 THEN "Inv_C01_Counters"
            ELSE IF o.K = 1 /\ ~PRejectReasonGiven(o) THEN "Inv_C01_RejectReason"    \* K > 1: reported as a note only
            ELSE "ok"

(* spec -> code: a replayed TLC scenario predicts the id/strategy sequence of every sink; a run  *)
(* that satisfies the property but differs from the design model is reported, never rejected     *)
Diverges(e) ==
    /\ Has(e, "scn")
    /\ LET o == ObsOf(e)
           ids(q) == [i \in DOMAIN q |-> q[i].id]
           exp(q) == [i \in DOMAIN q |-> q[i][1]]
       IN \/ Len(o.tgt) # 1
          \/ ids(o.tgt[1][1].recs) # exp(e.scn.exp.tgt[1])
          \/ (e.hasRej /\ Len(o.rej) = 1 /\
                [i \in DOMAIN o.rej[1][1].recs |-> o.rej[1][1].recs[i].id] # [i \in DOMAIN e.scn.exp.rej |-> e.scn.exp.rej[i][1]])
          \/ e.processed # e.scn.exp.processed
          \/ e.yields # e.scn.exp.yields

EmptyReason(e) ==
    \E j \in DOMAIN e.rej : \E m \in 1 .. e.mates : \E i \in DOMAIN e.rej[j].mates[m].recs :
        \E t \in DOMAIN e.rej[j].mates[m].recs[i].tags :
            e.rej[j].mates[m].recs[i].tags[t] = <<"RR", "">>

SameVerdict(e) ==
    LET mk(r) == [n |-> r.n, tgt |-> << << [recs |-> [i \in DOMAIN r.ids |-> [id |-> r.ids[i]]]] >> >>]
    IN IF \A a, b \in DOMAIN e.runs : PSameAccepted(mk(e.runs[a]), mk(e.runs[b])) THEN "ok"
       ELSE "Inv_C01_SameAccepted"

Verdict(e) == CASE e.ev = "run"  -> RunVerdict(e)
                [] e.ev = "same" -> SameVerdict(e)
                [] OTHER -> "unknown_event"

Notes(line, e) ==
    /\ (e.ev = "run" /\ WellFormedEvent(e) /\ Diverges(e) => Note(line, e.tid, "DIVERGENCE sinks_differ_from_design_scenario"))
    /\ (e.ev = "run" /\ WellFormedEvent(e) /\ EmptyReason(e) => Note(line, e.tid, "empty_reject_reason"))

TInit == l = 1
TNext == l <= Len(Log) /\ Judge(l, Verdict(Log[l])) /\ Notes(l, Log[l]) /\ l' = l + 1
TAccepted == TLCGet("stats").diameter - 1 = Len(Log)
=====================================================================================================
