--------------------------------------- MODULE Trace_Codec ---------------------------------------
(* Observations of the real read-name codec (demultiplexer header -> pysam record -> tagger)      *)
(* judged by the definitions of CodecP.tla. Text = list of character codes.                       *)
(*  {"ev":"qcode","tid","c":33..126,"enc":text,"dec":text,"raised":s}                              *)
(*        phredToFastqHeaderSafeQualities(chr(c)) and fastqHeaderSafeQualitiesToPhred of it        *)
(*  {"ev":"pair","tid","strategy","hv","mode","mate","ixp" (index parser configured),                                           *)
(*   "in":{"is","rn","fc","la","ti","cx","cy","fi","cn","idx"}, "ly":text,   generator's input      *)
(*   "uq":c|0 (uniform phred character of both reads), "qmax": highest phred character in the reads, *)
(*   "umi_known":b,"umi_in":text,"umiq_in":text,        UMI bases/qualities as laid out (plain layouts) *)
(*   "raised":s,                                        exception of strategy.demultiplex             *)
(*   "dt":[[key,text]..],                               TaggedRecord.tags in order                    *)
(*   "ser_raised":s,                                    exception of str(record) other than the refusal *)
(*   "refused":b,"header":text,                         asFastq raised ValueError / the header line   *)
(*   "stored":b,                                        pysam accepted the name                       *)
(*   "digested":b,"digest_raised":s,"bt":[[key,text]..],"qname":text}   after QueryNameFlagger.digest *)
(*  {"ev":"summary",..}                                                                             *)
EXTENDS TraceLib, CodecP

VARIABLES l, lastq

Tags(x) == [ i \in DOMAIN x |-> << x[i][1], x[i][2] >> ]

(* what the BAM tag must hold when the demultiplexer wrote (k, v): phred tags are written in the letter code *)
ExpectEnc(k, v) == IF k \in PhredTags THEN DecQ(v) ELSE IF k = "Is" THEN StripAt(v) ELSE v
FirstBadKeyEnc(raw, bam) ==
    LET w == Written(raw)
        bad == { i \in DOMAIN w : ~(w[i][1] \in DOMAIN bam /\ bam[w[i][1]] = ExpectEnc(w[i][1], w[i][2])) }
    IN IF bad = {} THEN "" ELSE w[CHOOSE i \in bad : \A j \in bad : i <= j][1]

Join7(f) == f.is \o <<58>> \o f.rn \o <<58>> \o f.fc \o <<58>> \o f.la \o <<58>> \o f.ti \o <<58>> \o f.cx \o <<58>> \o f.cy

QVerdict(e) ==
    IF e.raised # "" THEN "Inv_C04_QTotal"
    ELSE IF Len(e.enc) # 1 \/ Len(e.dec) # 1 THEN "Inv_C04_QTotal_not_one_letter"
    ELSE IF ~HeaderSafe(e.enc[1]) THEN "Inv_C04_QTotal_letter_not_header_safe"
    ELSE IF e.c <= TopPhredChar /\ e.dec[1] # e.c THEN "Inv_C04_QRoundTrip"
    ELSE IF e.c > TopPhredChar /\ ~(e.dec[1] >= TopPhredChar /\ e.dec[1] <= e.c) THEN "Inv_C04_QSaturate"
    ELSE IF e.dec[1] < lastq THEN "Inv_C04_QMonotone"
    ELSE "ok"

PairVerdict(e) ==
    LET raw == Tags(e.dt)
        hlen == HeaderLen(raw)
        bam == TagFun(Tags(e.bt))
        r == TagFun(raw)
        bad == FirstBadKeyEnc(raw, bam)
    IN IF e.raised = "NonMultiplexable" THEN "outside:not_accepted"
       ELSE IF e.raised # "" THEN (IF e.qmax > TopPhredChar THEN "Inv_C04_QTotal" ELSE "Inv_C04_accepted_pair_raises")
       ELSE IF e.ser_raised # "" THEN "Inv_C04_serialising_accepted_pair_raises"      \* str(record) / asFastq raised something else than the length refusal
       ELSE IF e.refused THEN (IF hlen > BamLimit THEN "ok" ELSE "outside:refused_although_storable")
       ELSE IF hlen > BamLimit THEN "Inv_C04_Refuse"
       ELSE IF ~e.stored THEN "Inv_C04_name_not_storable_below_limit"
       ELSE IF e.digest_raised # "" THEN "Inv_C04_RoundTrip decode_raises"
       ELSE IF ~e.digested THEN "outside:other_mate_not_stored"
       ELSE IF bad # "" THEN "Inv_C04_RoundTrip " \o bad
       ELSE IF Len(e.header) # hlen THEN "Inv_C04_header_is_not_the_join_of_the_tags"
       ELSE IF Val(bam, "LY") # e.ly THEN "Inv_C04_RoundTrip LY_input"
       ELSE IF Len(e["in"].idx) > 0 /\ Val(bam, "aa") # e["in"].idx THEN "Inv_C04_RoundTrip aa_input"
       ELSE IF Len(e["in"].fi) > 0 /\ Val(bam, "Fi") # e["in"].fi THEN "Inv_C04_RoundTrip Fi_input"
       ELSE IF Len(e["in"].cn) > 0 /\ Val(bam, "CN") # e["in"].cn THEN "Inv_C04_RoundTrip CN_input"
       ELSE IF e.umi_known /\ Len(e.umi_in) > 0 /\ Val(bam, "RX") # e.umi_in THEN "Inv_C04_RoundTrip RX_input"
       ELSE IF e.umi_known /\ Len(e.umi_in) > 0 /\ Val(bam, "RQ") # Saturate(e.umiq_in) THEN "Inv_C04_RoundTrip RQ_original_phred"
       ELSE IF e.uq > 0 /\ \E i \in DOMAIN Val(bam, "RQ") : bam["RQ"][i] # Saturate(<< e.uq >>)[1] THEN "Inv_C04_RoundTrip RQ_original_phred"
       ELSE IF ~SampleOK(raw, bam) THEN "Inv_C04_Sample"
       ELSE IF "aA" \notin DOMAIN r THEN (IF e.ixp /\ Len(e["in"].idx) > 0 THEN "Inv_C04_Molecule no_index_written_although_input_has_one"
                                          ELSE "outside:no_sequencing_index")
       ELSE IF ~MoleculeOK(raw, bam) THEN "Inv_C04_Molecule"
       ELSE IF e.hv = "3dec" THEN "outside:not_an_illumina_header"
       ELSE IF e.qname # Join7(e["in"]) THEN "Inv_C04_Coordinates"
       ELSE "ok"

Verdict(e) == CASE e.ev = "qcode" -> QVerdict(e)
                [] e.ev = "pair" -> PairVerdict(e)
                [] e.ev = "summary" -> "ok"
                [] OTHER -> "unknown_event"

IsOutside(v) == v \in {"outside:not_accepted", "outside:refused_although_storable", "outside:other_mate_not_stored", "outside:no_sequencing_index", "outside:not_an_illumina_header"}

TInit == l = 1 /\ lastq = 0
TNext == /\ l <= Len(Log)
         /\ LET e == Log[l]
                v == Verdict(e)
            IN /\ IF v = "ok" THEN TRUE
                  ELSE IF IsOutside(v) THEN Note(l, e.tid, v)
                  ELSE Reject(l, e.tid, v)
               /\ lastq' = IF e.ev = "qcode" /\ e.raised = "" /\ Len(e.dec) = 1 THEN e.dec[1] ELSE lastq
         /\ l' = l + 1
TAccepted == TLCGet("stats").diameter - 1 = Len(Log)
=====================================================================================================
