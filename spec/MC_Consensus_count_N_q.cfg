INIT Init
NEXT Next
CONSTANTS
  Pos = {1, 2}
  Bases = {"A", "C", "N"}
  Quals = {1, 2}
  MaxFrags = 2
  R1Revs = {FALSE}
  QPerBase = FALSE
  KeepFrags = FALSE
  Variant = "count_N"
INVARIANT Inv_C13_Majority
INVARIANT Inv_C13_NoTie
INVARIANT Inv_C13_Order
INVARIANT Inv_C13_Dup
INVARIANT Inv_C13_MatePick
CHECK_DEADLOCK FALSE
