INIT Init
NEXT Next
CONSTANTS
  SampleNames = {"a", "b"}
  NoSM = TRUE
  AsgSamples = {"a", "b"}
  GroupNames = {"g", "h"}
  MaxRecs = 2
  MaxGroups = 2
  MaxPerGroup = 2
  HeadMax = 2
  WRGs = {TRUE, FALSE}
  Prefix = "P_"
  StemWithBam = FALSE
  Mode = "split"
  MaxLines = 2
  Variant = "design"
  NoCols = {TRUE}
  AddChrs = {FALSE}
  DupFlags = {FALSE}
  LowQFlags = {TRUE, FALSE}
  PosMax = 2
  MapqReading = "filter"
INVARIANT Inv_X05s_Refused
INVARIANT Inv_X05s_NoCrash
INVARIANT Inv_X05s_Files
INVARIANT Inv_X05s_ExactlyOnce
INVARIANT Inv_X05s_Unselected
INVARIANT Inv_X05s_Content
INVARIANT Inv_X05s_Sorted
INVARIANT Inv_X05s_Header
INVARIANT Inv_X05s_Indexed
INVARIANT Inv_X05s_Closed
CHECK_DEADLOCK FALSE
