"""C11 - count tables count exactly the reads passing the filters, at documented weights.
Spec: spec/CountTable.tla (P+D level), spec/Trace_CountTable.tla. Driver: harness/drive_counttable.py."""
import json
import os

import vlib

META = {
    'property_id': 'C11',
    'module': 'CountTable',
    'technique': 'TLA+ spec (CountTable.tla) model-checked by TLC + TLC trace validation of recorded executions of '
                 'create_count_table(args, return_df=True) against the spec\'s ShouldCount / Weight / Contribs definitions',
    'level_text': 'TLC exhaustively checks, for every read within <=2 deviating attributes of a clean read and every option set '
                  'within <=2 deviating switches (plus the two mates of a pair), that the implementation-shaped filter chain, '
                  'countToAdd chain, key construction and table update equal the fold of the property-level definitions and '
                  'never raise; four as-coded deviations are negative controls. The real create_count_table is run on random '
                  'synthetic tagged BAMs x option sets (pairwise-complete over the filter switches, all key modes); every '
                  'recorded table is recomputed by TLC from the abstract BAM description and the option record.',
    'level_note': 'Trusted: TLC/SANY, CommunityModules, the driver\'s flattening of the DataFrame (value*24 as integer, index '
                  'elements as strings), pysam as BAM writer/reader, the generator\'s abstract description of the BAM. '
                  'Small-scope bounds for the model.',
    'design_ref': '3.11',
}

CONSTS = {'Variant': 'design', 'ReadDev': 0, 'OptDev': 0, 'Scenario': 'single'}


def key_fn(ev, clause):
    """Label (not judge) a rejected observation: clause | exception | shape of the option set."""
    o = ev['opts']
    if clause == 'Inv_C11_Total':
        if ev['raised'] == 'TypeError' and (o['no_indels'] or o['no_softclips']):
            shape = 'cigar_filter_on_unmapped_record'
        elif ev['raised'] == 'IndexError' and o['split'] and o['bin'] and o['tags'] == [o['bintag']]:
            shape = 'splitFeatures+bin_with_only_the_bin_tag'
        else:
            shape = 'mode=%s,split=%s,bed=%s,bin=%s' % (o['mode'], o['split'], o['usebed'], bool(o['bin']))
        return '%s|%s|%s' % (clause, ev['raised'], shape)
    if o['mode'] == 'single' and o['split'] and o['usebed']:
        shape = 'single+splitFeatures+bedfile'
    elif o['blacklist']:
        shape = 'blacklist'
    else:
        shape = 'mode=%s,split=%s,bed=%s,bin=%s,byvalue=%s' % (o['mode'], o['split'], o['usebed'], bool(o['bin']), bool(o['byvalue']))
    return '%s|create_count_table|%s' % (clause, shape)


def what_fn(ev, clause):
    o = {k: v for k, v in ev['opts'].items() if v not in (False, 0, '', [], -1) and k not in ('reflen', 'delim', 'bintag')}
    return '%s: create_count_table with %s on BAM #%s of seed %s -> raised=%r, %d cells' % (
        clause, json.dumps(o), ev.get('bam', {}).get('bam_index'), ev.get('bam', {}).get('seed'), ev['raised'], len(ev['table']))


def _attach_bams(events):
    cur = None
    for e in events:
        if e['ev'] == 'bam':
            cur = e
        else:
            e['bam'] = cur
    return events


def run(tier):
    c = vlib.Check('C11', tier)
    vlib.sany('CountTable')
    vlib.sany('Trace_CountTable')
    acts = ['Filter', 'Assign', 'Export']
    if tier == 'quick':
        c.mc_pass('CountTable', 'MC_CountTable_design_q.cfg', actions_required=acts, workers=8, timeout=600)
        c.mc_pass('CountTable', 'MC_CountTable_designpair_q.cfg', actions_required=acts, workers=8, timeout=600)
        negs = [('impl_D8', 'Inv_C11_Total'), ('impl_blacklist_end', 'Inv_C11_Table')]
    else:
        c.mc_pass('CountTable', 'MC_CountTable_design_t.cfg', actions_required=acts, timeout=1500)
        c.mc_pass('CountTable', 'MC_CountTable_designpair_t.cfg', actions_required=acts, timeout=1500)
        c.mc_pass('CountTable', 'MC_CountTable_designtwo_t.cfg', actions_required=acts, workers=8, timeout=1500)
        negs = [('impl_D8', 'Inv_C11_Total'), ('impl_blacklist_end', 'Inv_C11_Table'), ('impl_splitkey', 'Inv_C11_Table'),
                ('impl_strayindex', 'Inv_C11_Total'), ('impl_mate_strict', 'Inv_C11_Table')]
    for v, inv in negs:
        c.mc_negative('CountTable', 'MC_CountTable_%s_q.cfg' % v, expect_inv=[inv], workers=4, timeout=600)

    trace = os.path.join(vlib.scratch(), 'counttable.ndjson')
    vlib.run_driver('drive_counttable.py', [trace, tier, c.seed])
    events = vlib.read_ndjson(trace)
    r = vlib.validate_trace('Trace_CountTable', trace, n_events=len(events), constants=CONSTS)
    _attach_bams(events)
    tables = [e for e in events if e['ev'] == 'table']
    bad = set(events[x['line'] - 1]['tid'] for x in r['rejects'])
    c.add_trace_result(r, events, key_fn, what_fn, n_traces=len([e for e in tables if e['tid'] not in set(n['tid'] for n in r['notes'])]),
                       sample_n=0)
    for e in tables[:2]:
        c.samples.append(vlib._shorten({k: v for k, v in e.items() if k != 'bam'}))
    c.samples.append(vlib._shorten(events[0]))

    # binding self-test: corrupted copies of ACCEPTED observations must be rejected by TLC
    good = None
    noted = set(n['tid'] for n in r['notes'])
    for k, e in enumerate(events):
        if e['ev'] == 'table' and e['tid'] not in bad and e['tid'] not in noted and not e['raised'] and len(e['table']) >= 2 \
                and all(x['w'] > 0 for x in e['table']) and not e['opts'].get('bulk') \
                and not e['opts']['blacklist'] and not (e['opts']['r1only'] or e['opts']['r2only']):
            good = e
            break
    if good is None:
        # no accepted base left: fine when the validation itself already rejected observations (the code under test is broken
        # broadly), a machinery problem only when nothing was rejected
        if not r['rejects']:
            raise vlib.MachineryError('no accepted non-trivial table observation available for the binding self-test')
        c.extra['binding_selftest_skipped'] = ('no accepted non-trivial observation left (%d of %d rejected by TLC)'
                                               % (len(r['rejects']), len(tables)))
    else:
        strip = lambda e: {k: v for k, v in e.items() if k != 'bam'}

        def weight_plus_one(evs):
            evs[1]['table'][0]['w'] += 1
            return evs

        def drop_cell(evs):
            evs[1]['table'] = evs[1]['table'][1:]
            return evs

        def other_sample(evs):
            evs[1]['table'][0]['sample'] = 'cellZ'
            return evs

        def fake_raise(evs):
            evs[1]['raised'] = 'TypeError'
            evs[1]['table'] = []
            return evs
        base = [strip(good['bam']), strip(good)]
        ok = vlib.validate_trace('Trace_CountTable', vlib.write_ndjson(os.path.join(vlib.scratch(), 'st_base.ndjson'), base),
                                 constants=CONSTS)
        c.selftest('uncorrupted_pair_is_accepted', not ok['rejects'])
        for name, mut in [('weight_plus_one', weight_plus_one), ('drop_cell', drop_cell), ('other_sample', other_sample),
                          ('fake_raise', fake_raise)]:
            vlib.corrupt_selftest(c, 'Trace_CountTable', base, mut, name, constants=CONSTS)

    c.assumptions += ['count-table values are exact multiples of 1/24 up to 1e-6 (the driver refuses anything else before scaling)',
                      'XA tags are written in bwa format (every alternative hit terminated by ";"): reported hits = alternatives + 1',
                      'a record with neither mate flag passes --r1only (a single-end read is read 1) and is undecided under --r2only',
                      'reads the statement does not decide (record with both mate flags under --r1only/--r2only, single-end record under --r2only; read strictly '
                      'spanning a blacklist interval) may or may not be counted: the table must lie between the two readings']
    sig = set()
    for e in tables:
        o = e['opts']
        sig.add((e['bam']['bam_index'], json.dumps({k: v for k, v in o.items() if k != 'reflen'}, sort_keys=True)))
    return c.finish(rule='one execution = one call of create_count_table(args, return_df=True) on one synthetic BAM with one '
                         'option set; counted as validated when TLC recomputed the same table from the abstract BAM '
                         'description with the P-level definitions of CountTable.tla', exhaustive=False,
                    extra_cov={'distinct_nontrivial': len(sig), 'bams': sum(1 for e in events if e['ev'] == 'bam'),
                               'raised_observations': sum(1 for e in tables if e['raised'])})


def replay(path):
    p = os.path.join(vlib.scratch(), 'replay.ndjson')
    vlib.run_driver('drive_counttable.py', [p, 'replay', os.path.abspath(path)])
    r = vlib.validate_trace('Trace_CountTable', p, constants=CONSTS)
    if r['rejects']:
        for x in r['rejects']:
            print('  rejected: %s' % x['clause'])
        print('VIOLATION property=C11 replay=%s' % path)
        return 1
    print('replay: accepted')
    return 0
