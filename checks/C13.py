"""C13 - the molecule consensus is the strict majority call and never reports a tie.
Spec: spec/Consensus.tla (P+D level), spec/Trace_Consensus.tla. Driver: harness/drive_consensus.py (+ molgen.py)."""
import concurrent.futures
import json
import os

import vlib

META = {
    'property_id': 'C13',
    'module': 'Consensus',
    'technique': 'TLA+ spec (Consensus.tla) model-checked by TLC + TLC trace validation of recorded executions of '
                 'Molecule.get_consensus (all insertion orders, doubled fragment lists, dove_safe on/off) + replay of the '
                 'TLC-enumerated fragment universe into the real code',
    'level_text': 'TLC exhaustively checks, in small constants, that the implementation-shaped vote loop (skip rule, dove-safe '
                  'window, pick_best_base_call fold, N skip, argmax + uniqueness mask) equals the brute-force strict-plurality '
                  'definition after every added fragment, is a function of the fragment multiset and is invariant under '
                  'doubling; four named deviations are negative controls. Every fragment of the bounded model is replayed into '
                  'the real code, and random realistic molecules (1..12 fragments, CIGAR gaps, N, mate ties, single-end, '
                  'dove-tailed and same-strand mates) are run in all / many insertion orders; TLC recomputes aligned pairs, calls, '
                  'votes and the expected consensus from the recorded reads.',
    'level_note': 'Trusted: TLC/SANY, CommunityModules, pysam as read container (CIGAR/MD), the driver\'s copy of the returned '
                  'dictionary. Small-scope bounds for the model (2-3 positions, bases A,C,N, 2 qualities, <= 3-4 fragments).',
    'design_ref': '3.13',
}

TRACE_CONSTANTS = {'Pos': vlib.Raw('{}'), 'Bases': vlib.Raw('{}'), 'Quals': vlib.Raw('{}'), 'MaxFrags': 0,
                   'R1Revs': vlib.Raw('{}'), 'QPerBase': False, 'KeepFrags': False, 'Variant': 'design'}
NEG = [('no_unique_mask', ['Inv_C13_Majority', 'Inv_C13_NoTie']), ('mate_tie_first', ['Inv_C13_MatePick', 'Inv_C13_Majority']),
       ('count_N', ['Inv_C13_Majority', 'Inv_C13_Order', 'Inv_C13_NoTie']), ('window_off', ['Inv_C13_Majority', 'Inv_C13_Order'])]


def shape(mol):
    forms = sorted(set(f['form'] for f in mol['frags']))
    gaps = any(len(m['cigar']) > 1 for f in mol['frags'] for m in (f.get('r1'), f.get('r2')) if m)
    return '%s%s' % ('+'.join(forms), '+gapped' if gaps else '')


def split_trace(events, k):
    """Split at "mol" boundaries into <= k chunks of similar size."""
    starts = [i for i, e in enumerate(events) if e['ev'] == 'mol']
    target = max(1, len(events) // k)
    chunks, cur = [], 0
    for s in starts[1:]:
        if s - cur >= target and len(chunks) < k - 1:
            chunks.append((cur, s))
            cur = s
    chunks.append((cur, len(events)))
    return chunks


def validate_parallel(c, events, k=4):
    mol_of, last = {}, None
    for i, e in enumerate(events):
        if e['ev'] == 'mol':
            last = e
        mol_of[i] = last

    def one(ch):
        lo, hi = ch
        p = os.path.join(vlib.scratch(), 'consensus_%d.ndjson' % lo)
        vlib.write_ndjson(p, events[lo:hi])
        r = vlib.validate_trace('Trace_Consensus', p, n_events=hi - lo, constants=TRACE_CONSTANTS, heap='4g',
                                cfg=vlib.write_cfg(os.path.join(vlib.scratch(), 'trace_consensus_%d.cfg' % lo), init='TInit',
                                                   next_='TNext', postcondition='TAccepted', constants=TRACE_CONSTANTS))
        return lo, hi, r
    chunks = split_trace(events, k)
    with concurrent.futures.ThreadPoolExecutor(max_workers=k) as ex:
        results = list(ex.map(one, chunks))
    n_rejects = 0
    for lo, hi, r in results:
        sub = events[lo:hi]
        outside = sum(1 for n in r['notes'] if n['clause'].startswith('outside_quantifier'))
        runs = sum(1 for e in sub if e['ev'] == 'cons')

        # the replay payload needs the molecule description next to the failing run
        for rej in r['rejects']:
            ev = sub[rej['line'] - 1]
            mol = mol_of[lo + rej['line'] - 1]
            key = '%s|dove=%s|%s|%s|%s' % (rej['clause'], ev.get('dove'), ev.get('path'),
                                           ('requeried_other_dove_setting' if ev.get('run_kind') == 'mixed' else 'requeried_object') if ev.get('requeried') else 'first_query', shape(mol))
            what = '%s: get_consensus(dove_safe=%s%s) after adding %s (%s) returned %s' % (
                rej['clause'], ev.get('dove'), ', with_probs_and_obs=True' if ev.get('path') == 'probs' else '', ev.get('order'),
                'same object queried before' if ev.get('requeried') else 'first query on a fresh molecule',
                json.dumps(ev.get('consensus', ev.get('raised', 'a %s of length %s (first element: %s)' % (
                    ev.get('rtype'), ev.get('rlen'), ev.get('first_type')))))[:200])
            c.violation(key, what, {'event': ev, 'mol': mol, 'clause': rej['clause'], 'line': lo + rej['line']})
        n_rejects += len(r['rejects'])
        for n in r['notes']:
            k0 = n['clause'].split(' ')[0]
            c.notes[k0] = c.notes.get(k0, 0) + 1
        c.traces += runs - outside - len(r['rejects'])
        c.events += len(sub)
    return n_rejects


def run(tier):
    c = vlib.Check('C13', tier)
    q = tier == 'quick'
    vlib.sany('Consensus')
    vlib.sany('Trace_Consensus')
    c.mc_pass('Consensus', 'MC_Consensus_design_q.cfg', actions_required=['AddFragment'], workers=4 if q else 8, timeout=900)
    if not q:
        c.mc_pass('Consensus', 'MC_Consensus_design_t.cfg', actions_required=['AddFragment'], workers=8, timeout=1500)
        c.mc_pass('Consensus', 'MC_Consensus_design_t2.cfg', actions_required=['AddFragment'], workers=8, timeout=1500)
    for v, invs in NEG:
        c.mc_negative('Consensus', 'MC_Consensus_%s_q.cfg' % v, expect_inv=invs, workers=4)
    # spec -> code: the model's fragment universe, enumerated by TLC
    g = vlib.scenarios('Consensus', 'MC_Consensus_gen_%s.cfg' % ('q' if q else 't'), timeout=900)
    scn = os.path.join(vlib.scratch(), 'consensus_scenarios.json')
    with open(scn, 'w') as f:
        json.dump(g['scenarios'], f)
    if len(g['scenarios']) < 1000:
        raise vlib.MachineryError('scenario generation produced only %d fragments' % len(g['scenarios']))
    trace = os.path.join(vlib.scratch(), 'consensus.ndjson')
    vlib.run_driver('drive_consensus.py', [trace, tier, c.seed, scn])
    events = vlib.read_ndjson(trace)
    n_rej = validate_parallel(c, events, k=4)
    c.samples.extend([vlib._shorten(e) for e in events[:2]])
    # binding self-test: flip one base of an accepted run / drop one position / swap the insertion order record
    if n_rej == 0:
        i0 = next(i for i, e in enumerate(events) if e['ev'] == 'mol' and len(e['frags']) >= 3
                  and all(f['form'] in ('pair', 'r1none') for f in e['frags'])
                  and len(events[i + 1].get('consensus', [])) >= 2)
        i1 = next(i for i in range(i0 + 1, len(events)) if events[i]['ev'] == 'mol')
        good = events[i0:i1]

        def mut_base(evs):
            x = evs[1]['consensus'][0]
            x['b'] = 'C' if x['b'] != 'C' else 'G'
            return evs

        def mut_drop(evs):
            e = next(x for x in evs if x.get('kind') == 'perm' and x.get('consensus'))
            e['consensus'] = e['consensus'][1:]
            return evs

        def mut_probs(evs):   # the with_probs_and_obs shape is judged too
            e = next(x for x in evs if x.get('path') == 'probs' and x.get('kind') == 'alt' and x.get('consensus'))
            e['consensus'][-1]['b'] = 'T' if e['consensus'][-1]['b'] != 'T' else 'A'
            return evs

        def mut_read(evs):   # corrupt an input instead of an output: the recorded reads no longer explain the result
            for f in evs[0]['frags']:
                f['r1']['start'] += 1
            return evs
        cfgp = vlib.write_cfg(os.path.join(vlib.scratch(), 'trace_consensus_self.cfg'), init='TInit', next_='TNext',
                              postcondition='TAccepted', constants=TRACE_CONSTANTS)
        vlib.corrupt_selftest(c, 'Trace_Consensus', good, mut_base, 'flip_one_base', cfg=cfgp)
        vlib.corrupt_selftest(c, 'Trace_Consensus', good, mut_drop, 'drop_one_position_in_permuted_run', cfg=cfgp)
        vlib.corrupt_selftest(c, 'Trace_Consensus', good, mut_read, 'shift_recorded_reads', cfg=cfgp)
        vlib.corrupt_selftest(c, 'Trace_Consensus', good, mut_probs, 'flip_base_in_with_probs_result', cfg=cfgp)
    c.assumptions += ['fragments handed to Molecule.add_fragment as [R1, R2] / [R1, None] lists (what MoleculeIterator builds); '
                      'one-element read lists and R2-only fragments are recorded as observations only',
                      'an N call and a quality tie between disagreeing mates contribute no vote (DESIGN 3.13)']
    mols = [e for e in events if e['ev'] == 'mol']
    return c.finish(rule='one trace = one call of Molecule.get_consensus (plain or with_probs_and_obs=True; on a freshly built molecule, or '
                         'on the same object after every further add_fragment; one insertion order, one dove_safe setting); inputs: every fragment of the TLC model universe alone, random combinations of them, '
                         'random realistic molecules in all/many insertion orders and doubled',
                    extra_cov={'distinct_nontrivial': len(set(json.dumps(m['frags'], sort_keys=True) for m in mols)),
                               'molecules': len(mols), 'tlc_generated_fragments': len(g['scenarios'])})


def replay(path):
    with open(path) as f:
        rp = json.load(f)
    case = os.path.join(vlib.scratch(), 'case.json')
    with open(case, 'w') as f:
        json.dump(rp['case'], f)
    p = os.path.join(vlib.scratch(), 'replay.ndjson')
    vlib.run_driver('drive_consensus.py', [p, 'quick', rp.get('seed', 0), '--replay', case])
    r = vlib.validate_trace('Trace_Consensus', p, constants=TRACE_CONSTANTS)
    for rej in r['rejects']:
        print('  rejected: %s' % rej['clause'])
    if r['rejects']:
        print('VIOLATION property=C13 replay=%s' % path)
        return 1
    print('replay: accepted')
    return 0
