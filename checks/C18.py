"""C18 - allele lookups agree with the VCF in every loading mode (eager / lazy / on-disk cache, any access order).
Specs: spec/AlleleRules.tla (P-level site classification + the code's decision procedure), spec/Alleles.tla (runs,
flags, lazy fetch/evict, cache files as history), spec/Trace_Alleles.tla. Driver: harness/drive_alleles.py."""
import copy
import json
import os

import vlib

META = {
    'property_id': 'C18',
    'module': 'Alleles',
    'technique': 'TLA+ specs (AlleleRules.tla, Alleles.tla) model-checked by TLC + TLC trace validation of recorded histories '
                 'of real AlleleResolver instances sharing a cache directory (Trace_Alleles recomputes every expected '
                 'answer from the abstract VCF with the P-level classification)',
    'level_text': 'TLC exhaustively checks histories of resolver instances (all flag vectors, configurations, lookups on '
                  'present/absent contigs incl. returning to an evicted contig, cache written by one run and read by a later '
                  'one, crash between temp file and rename) over all small VCFs of a genotype menu: every answer equals the '
                  'VCF truth and the eager answer; published cache files are complete; the code\'s informative-site procedure '
                  'realises the P-level classification. As-coded deviations (self.lazyLoad captured before the use_cache '
                  'override, has_location on an absent contig, cache key without ignore_conversions) are negative controls. '
                  'Generated VCFs (bgzip+tabix) x sample selections x ignored conversions x mode histories run through the '
                  'real AlleleResolver (and the TLC-generated histories of a small configuration); all recorded answers are '
                  'judged by TLC.',
    'level_note': 'Trusted: TLC/SANY, CommunityModules, pysam (tabix_compress/tabix_index and VariantFile as VCF parser), the '
                  'generator (abstract VCF first, text derived). Not covered: uglyMode (unindexed VCF), sites-only VCFs, '
                  'region_start/region_end, two records at one position, records with more than 6 alleles in unphased mode, concurrent instances writing the same cache file, '
                  'the DA tag path through Molecule (only getAllelesAt / has_location are observed).',
    'design_ref': '3.18',
}

MODE = {(False, False): 'eager', (True, False): 'lazy', (False, True): 'cache_only', (True, True): 'lazy+cache'}


def locate(ev, clause):
    """(history, run, op) named by a reject clause; total: parts a clause does not name are None.
    Clause shapes printed by Trace_Alleles: <c>|h=..|r=..|o=.. (a lookup), <c>_constructor|h=.. (history level), <c> (event level)."""
    parts = {}
    for p in clause.split('|')[1:]:
        if '=' in p:
            k, v = p.split('=', 1)
            if v.isdigit():
                parts[k] = int(v)
    h = r = o = None
    try:
        if 'h' in parts:
            h = ev['hists'][parts['h'] - 1]
        if h is not None and 'r' in parts:
            r = h['runs'][parts['r'] - 1]
        if r is not None and 'o' in parts:
            o = r['ops'][parts['o'] - 1]
    except (IndexError, KeyError, TypeError):
        pass
    return h, r, o


def key_fn(ev, clause):
    base = clause.split('|')[0]
    h, r, o = locate(ev, clause)
    if h is not None and r is None:
        # history-level clause (the constructor of some instance raised): label with the first such run (label only)
        bad = [x for x in h['runs'] if x.get('raised', 'none') != 'none']
        if bad:
            x = bad[0]
            return '|'.join([base, MODE[(x['lazy'], x['cache'])]] + ([] if x['phased'] else ['unphased']) + [str(x['raised'])])
        return base
    if r is None or o is None:
        return base
    mode = MODE[(r['lazy'], r['cache'])]
    ri = h['runs'].index(r)
    cfg = (json.dumps(r['sel']), json.dumps(r['ign']), r['phased'])
    stale = any(p['cache'] and (json.dumps(p['sel']), json.dumps(p['ign']), p['phased']) != cfg for p in h['runs'][:ri])
    contig = 'absent_contig' if o['c'] in ev['absent'] else 'known_contig'
    ans = ('ans_true' if o['ans'] else 'ans_false') if o['op'] == 'has' else ('ans_some' if o['ans'] else 'ans_none')
    if o['op'] == 'read':
        ans = 'getAllele_' + ans
    oi = [k for k, q in enumerate(r['ops']) if q is o][0]
    after_mol = any(q['op'] == 'mol' and q['c'] == o['c'] for q in r['ops'][:oi])
    return '|'.join([base, mode] + ([] if r['phased'] else ['unphased']) + [o['op'], contig, ans]
                    + (['raised_' + str(o['raised'])] if o.get('raised', 'none') != 'none' else [])
                    + (['after_other_config_used_the_cache'] if stale and r['cache'] else [])
                    + (['after_a_molecule_used_the_resolver'] if after_mol and not o['ans'] else []))


def what_fn(ev, clause):
    h, r, o = locate(ev, clause)
    if h is not None and r is None:
        bad = [x for x in h['runs'] if x.get('raised', 'none') != 'none']
        if bad:
            x = bad[0]
            return '%s: run %d of a %s history: AlleleResolver(vcf, lazyLoad=%s, use_cache=%s, phased=%s, select_samples=%s, ignore_conversions=%s) raised %s' % (
                clause, h['runs'].index(x) + 1, h['kind'], x['lazy'], x['cache'], x['phased'],
                x['sel']['s'] if x['sel']['explicit'] else None, x['ign'] or None, x['raised'])
        return clause
    if r is None or o is None:
        return clause
    site = [s for s in ev['sites'] if s['c'] == o['c'] and s['p'] == o['p']]
    ri = h['runs'].index(r)
    return '%s: run %d of a %s history, flags lazyLoad=%s use_cache=%s phased=%s select=%s ignore=%s: %s(%s,%d%s) returned %s; VCF site: %s; earlier runs: %s' % (
        clause, ri + 1, h['kind'], r['lazy'], r['cache'], r['phased'], r['sel']['s'] if r['sel']['explicit'] else None, r['ign'] or None,
        {'get': 'getAllelesAt', 'has': 'has_location', 'read': 'getAllele(read ' + ''.join(o.get('seq', [])) + ')', 'mol': 'molecule'}[o['op']], o['c'], o['p'], (',' + o['b']) if o['op'] == 'get' else '',
        o['ans'], json.dumps(site[0]) if site else 'none (contigs in VCF: %s)' % ev['contigs'],
        [[MODE[(p['lazy'], p['cache'])], p['ign'], p['phased']] for p in h['runs'][:ri]])


def run(tier):
    c = vlib.Check('C18', tier)
    for m in ('AlleleRules', 'Alleles', 'Trace_Alleles'):
        vlib.sany(m)
    if tier == 'quick':
        c.mc_pass('Alleles', 'MC_Alleles_design_q.cfg', workers=8, timeout=900)
        c.mc_pass('Alleles', 'MC_Alleles_phase_q.cfg', workers=8, timeout=900)
        c.mc_pass('Alleles', 'MC_Alleles_rules_q.cfg', workers=4, timeout=900,
                  actions_required=['StartRun', 'Query', 'FetchVCF', 'FetchAbsent', 'Answer'])
    else:
        c.mc_pass('Alleles', 'MC_Alleles_design_t.cfg', workers=12, timeout=1500)
        c.mc_pass('Alleles', 'MC_Alleles_design_t2.cfg', workers=12, timeout=1500)
        c.mc_pass('Alleles', 'MC_Alleles_design_t3.cfg', workers=8, timeout=1500)
        c.mc_pass('Alleles', 'MC_Alleles_phase_t.cfg', workers=8, timeout=900)
        c.mc_pass('Alleles', 'MC_Alleles_rules_t.cfg', workers=8, timeout=1500,
                  actions_required=['StartRun', 'Query', 'FetchVCF', 'FetchAbsent', 'Answer'])
    c.mc_negative('Alleles', 'MC_Alleles_impl_lazyflag_q.cfg', expect_inv='Inv_C18_Truth', workers=4)
    c.mc_negative('Alleles', 'MC_Alleles_impl_hasloc_q.cfg', expect_inv='Inv_C18_Truth', workers=4)
    if tier != 'quick':     # mutation controls and the D-level cache-key control: thorough tier only (quick budget)
        c.mc_negative('Alleles', 'MC_Alleles_mut_ign_listed_q.cfg', expect_inv='Inv_C18_Truth', workers=4)
        c.mc_negative('Alleles', 'MC_Alleles_mut_record_snv_q.cfg', expect_inv='Inv_C18_Truth', workers=4)
        c.mc_negative('Alleles', 'MC_Alleles_mut_unphased_alts_q.cfg', expect_inv='Inv_C18_Truth', workers=4)
        c.mc_negative('Alleles', 'MC_Alleles_impl_cachekey_q.cfg', expect_inv='Inv_C18_CacheSound', workers=4)
    c.mc_negative('Alleles', 'MC_Alleles_impl_cachekey_truth_q.cfg', expect_inv=['Inv_C18_Truth', 'Inv_C18_ModeEq'], workers=4)

    # spec -> code: random behaviours of the design (complete histories with the design's answers) for replay
    g = vlib.scenarios('Alleles', 'GEN_Alleles.cfg', simulate='num=%d' % (400 if tier == 'quick' else 12000), depth=80,
                       seed_=c.seed + 7, timeout=900)
    sp = os.path.join(vlib.scratch(), 'c18_scenarios.json')
    with open(sp, 'w') as f:
        json.dump(g['scenarios'], f)
    c.extra['scenarios_generated_by_tlc'] = len(g['scenarios'])
    trace = os.path.join(vlib.scratch(), 'alleles.ndjson')
    vlib.run_driver('drive_alleles.py', [trace, tier, c.seed, sp])
    events = vlib.read_ndjson(trace)
    r = vlib.validate_trace('Trace_Alleles', trace, n_events=len(events), heap='12g')
    n_hist = sum(len(e['hists']) for e in events)
    bad_hist = len(set((x['line'], x['clause'].split('|')[1] if '|' in x['clause'] else '') for x in r['rejects']))
    c.add_trace_result(r, events, key_fn, what_fn, n_traces=len(events), sample_n=0)
    c.traces = n_hist - bad_hist          # a trace = one history (sequence of instances over one cache directory)
    n_ops = sum(len(rn['ops']) for e in events for h in e['hists'] for rn in h['runs'])
    c.extra['lookups_judged'] = n_ops
    c.extra['histories'] = n_hist
    c.extra['vcfs'] = len(events)
    div = {k: v for k, v in c.notes.items() if k.startswith('DIVERGENCE')}
    for k, v in sorted(div.items()):
        print('DIVERGENCE: property=C18 %s in %d replayed TLC histories (design model and code differ; judged at P-level)' % (k, v))
    c.extra['divergences'] = div
    e0 = copy.deepcopy(events[0])
    e0['hists'] = e0['hists'][:1]
    e0['hists'][0]['runs'] = [dict(rn, ops=rn['ops'][:4]) for rn in e0['hists'][0]['runs'][:2]]
    c.samples.append(vlib._shorten(e0, 1500))

    # binding self-test: take one recorded non-empty answer of an eager instance FROM A HISTORY TLC ACCEPTED in the main
    # validation, check that this single observation is accepted, then corrupt it (answer dropped / has_location contradicting
    # it / the site removed from the VCF).  If the code under test is wrong and no accepted observation is left, the self-test
    # is skipped with a note (the violations are reported anyway) - a defect of the code is never a machinery failure.
    bad_hists, bad_lines = set(), set()
    for x in r['rejects']:
        parts = dict(q.split('=') for q in x['clause'].split('|')[1:] if '=' in q)
        if 'h' in parts:
            bad_hists.add((x['line'], int(parts['h'])))
        else:
            bad_lines.add(x['line'])           # event-level clause (Inv_C18_ModeEq): no history of this event is used
    cands = []
    for i, e in enumerate(events):
        if (i + 1) in bad_lines:
            continue
        for hi, h in enumerate(e['hists']):
            if (i + 1, hi + 1) in bad_hists:
                continue
            for ri, rn in enumerate(h['runs']):
                if rn['lazy'] or rn['cache'] or not rn['phased'] or rn['ign'] or rn['sel']['explicit']:
                    continue
                for oi, o in enumerate(rn['ops']):
                    site = [x for x in e['sites'] if x['c'] == o['c'] and x['p'] == o['p']]
                    # a plain SNV record without missing genotypes: its classification is unambiguous ("store")
                    plain = site and len(site[0]['ref']) == 1 and all(len(a) == 1 and a in 'ACGT' for a in site[0]['alts']) and \
                        all(a != '.' and len(a) == 1 and a in 'ACGT' for g in site[0]['gt'].values() for a in g)
                    if o['op'] == 'get' and o['ans'] and plain:
                        cands.append((i, hi, ri, oi))
                        break
                if len(cands) >= 3:
                    break
            if len(cands) >= 3:
                break
        if len(cands) >= 3:
            break
    mini = None
    for (i, hi, ri, oi) in cands:
        m = copy.deepcopy(events[i])
        rn = m['hists'][hi]['runs'][ri]
        rn['ops'] = [rn['ops'][oi]]
        m['hists'] = [{'kind': 'selftest', 'runs': [rn]}]
        pm = os.path.join(vlib.scratch(), 'selftest_c18_base_%d.ndjson' % i)
        vlib.write_ndjson(pm, [m])
        rb = vlib.validate_trace('Trace_Alleles', pm)
        if not rb['rejects']:
            mini = m
            break
    if mini is None:
        if r['rejects']:
            c.extra['binding_selftest_skipped'] = ('no observation accepted by TLC was available as base (the code under test '
                                                   'is being rejected: %d rejects); violations are reported' % len(r['rejects']))
            print('NOTE: binding self-test skipped - no accepted observation left to corrupt (violations are reported)')
        else:
            raise vlib.MachineryError('no accepted non-empty eager answer available for the binding self-test although '
                                      'TLC rejected nothing')
    else:
        c.selftest('base_observation_accepted', True, 'tid=%s' % mini.get('tid'))

        def mut_drop(evs):
            evs[0]['hists'][0]['runs'][0]['ops'][0]['ans'] = []
            return evs

        def mut_has(evs):
            o = evs[0]['hists'][0]['runs'][0]['ops'][0]
            evs[0]['hists'][0]['runs'][0]['ops'].append({'op': 'has', 'c': o['c'], 'p': o['p'], 'b': '-', 'ans': False, 'raised': 'none'})
            return evs

        def mut_site(evs):      # change the VCF instead of the answer: the recorded answer no longer fits
            o = evs[0]['hists'][0]['runs'][0]['ops'][0]
            evs[0]['sites'] = [s for s in evs[0]['sites'] if not (s['c'] == o['c'] and s['p'] == o['p'])]
            return evs

        vlib.corrupt_selftest(c, 'Trace_Alleles', [mini], mut_drop, 'answer_dropped')
        vlib.corrupt_selftest(c, 'Trace_Alleles', [mini], mut_has, 'has_location_false_on_stored_site')
        vlib.corrupt_selftest(c, 'Trace_Alleles', [mini], mut_site, 'site_removed_from_vcf')
    c.assumptions += [
        'generated VCFs have one record per position, samples with GT only, selected samples exist in the VCF and are distinct',
        'a history works on its own symlink of the compressed VCF, so its cache directory starts empty',
        'sample-centric reading: a site is judged by the alleles the SELECTED samples carry; only a site where a selected sample '
        'carries a multi-base allele next to a missing genotype accepts "nothing" or "the carriers" (same in all runs of a configuration)',
    ]
    return c.finish(rule='generated VCFs (1-4 samples, 1-4 contigs incl. names excluded from caching, haploid/diploid, phased/unphased '
                         'separators, missing and half-missing genotypes, multi-base REF/ALT, monomorphic records) x 3 kinds of '
                         'histories (all four flag vectors with one configuration; random flags; runs with other '
                         'ignore_conversions / select_samples / phased=False sharing the cache directory) x random contig access '
                         'orders with absent contigs; + histories generated by TLC -simulate from Alleles.tla (GEN_Alleles.cfg) replayed with '
                         'the design\'s answers attached; one trace = one history of 2-4 resolver instances',
                    exhaustive=False,
                    extra_cov={'distinct_nontrivial': len(set(json.dumps([e['sites'], [[(rn['lazy'], rn['cache'], rn['sel'], rn['ign'])
                                                                                       for rn in h['runs']] for h in e['hists']]])
                                                              for e in events))})


def replay(path):
    with open(path) as f:
        rp = json.load(f)
    ev = rp['case']['event']
    # re-run the recorded histories (same abstract VCF, same runs, same lookups) against the current code
    code = ('import json,sys,os,shutil\n'
            'import pysam\n'
            'import drive_alleles as d\n'
            'from singlecellmultiomics.alleleTools import AlleleResolver\n'
            'ev=json.load(open(sys.argv[1])); work=os.path.join(os.getcwd(),"c18_replay"); os.makedirs(work)\n'
            'contigs=ev["contigs"]; lines=["##fileformat=VCFv4.2"]+["##contig=<ID=%s,length=1000>"%c for c in contigs]\n'
            'lines.append(\'##FORMAT=<ID=GT,Number=1,Type=String,Description="Genotype">\')\n'
            'lines.append("\\t".join(["#CHROM","POS","ID","REF","ALT","QUAL","FILTER","INFO","FORMAT"]+ev["samples"]))\n'
            'for s in sorted(ev["sites"], key=lambda s:(contigs.index(s["c"]), s["p"])):\n'
            '    al=[s["ref"]]+s["alts"]\n'
            '    gt=["/".join("." if a=="." else str(al.index(a)) for a in s["gt"][x]) for x in ev["samples"]]\n'
            '    lines.append("\\t".join([s["c"],str(s["p"]+1),".",s["ref"],",".join(s["alts"]) or ".",".","PASS",".","GT"]+gt))\n'
            'open(work+"/v.vcf","w").write("\\n".join(lines)+"\\n")\n'
            'pysam.tabix_compress(work+"/v.vcf",work+"/v.vcf.gz",force=True); pysam.tabix_index(work+"/v.vcf.gz",preset="vcf",force=True)\n'
            'for hi,h in enumerate(ev["hists"]):\n'
            '    hd=os.path.join(work,"h%d"%hi); os.makedirs(hd); link=hd+"/v.vcf.gz"\n'
            '    os.symlink(work+"/v.vcf.gz",link); os.symlink(work+"/v.vcf.gz.tbi",link+".tbi")\n'
            '    runs=[]\n'
            '    for r in h["runs"]:\n'
            '        rr={"lazy":r["lazy"],"cache":r["cache"],"phased":r["phased"],"sel":r["sel"]["s"] if r["sel"]["explicit"] else None,\n'
            '            "ign":r["ign"] or None,"ops":[{k:o[k] for k in ("op","c","p","b","seq") if k in o} for o in r["ops"]]}\n'
            '        runs.append(d.execute_run(AlleleResolver, link, rr, ev["contigs"]+ev["absent"]))\n'
            '    h["runs"]=runs\n'
            'open(sys.argv[2],"w").write(json.dumps(ev)+"\\n"); shutil.rmtree(work)\n')
    sp = os.path.join(vlib.scratch(), 'rp_c18.py')
    with open(sp, 'w') as f:
        f.write(code)
    evp = os.path.join(vlib.scratch(), 'rp_c18_event.json')
    with open(evp, 'w') as f:
        json.dump(ev, f)
    out = os.path.join(vlib.scratch(), 'replay.ndjson')
    vlib.run_driver(sp, [evp, out])
    r = vlib.validate_trace('Trace_Alleles', out)
    if r['rejects']:
        print('VIOLATION property=C18 replay=%s  (%s)' % (path, r['rejects'][0]['clause']))
        return 1
    print('replay: accepted')
    return 0
