"""C15 - consensus pseudo-reads are well-formed and span exactly the molecule coverage.
Spec: spec/PseudoRead.tla (P+D level), spec/Trace_PseudoRead.tla. Driver: harness/drive_pseudoread.py (+ molgen.py)."""
import concurrent.futures
import json
import os

import vlib

META = {
    'property_id': 'C15',
    'module': 'PseudoRead',
    'technique': 'TLA+ spec (PseudoRead.tla) model-checked by TLC + TLC trace validation of the records produced by the real '
                 'Molecule.deduplicate_majority and by `bamtagmultiome --consensus --multiprocess` (with / without source reads), '
                 'read back from the written BAM files',
    'level_text': 'TLC exhaustively checks a model of the consensus writer (observation collection, per-position call with the coded '
                  'likelihood in exact integers, CIGAR from aligned blocks, the partial-read walk with max_N_span splitting, MD '
                  'construction) against the property operators: records exist, blocks = covered positions, lengths agree, MD '
                  'decodes to the reference over the M blocks, call = exact rule where decidable, tags; the as-coded MD (D10) and '
                  'the NumPy-2 crash (D9) are negative controls. Real molecules (gapped coverage, gaps beyond max_N_span, reverse '
                  'strand, single fragment, conflicting bases) go through the API and the command line; TLC recomputes coverage, '
                  'blocks, the MD decoding and the call from the recorded reads and reference.',
    'level_note': 'PARTIAL on the numeric call rule: decided only where it is an exact integer comparison (all informative '
                  'observations of equal quality >= 10: strict plurality, tie -> N; at most two observations with qualities in '
                  '{10,20,30}). Three or more observations of unequal quality, qualities below 10 and the emitted phred values are '
                  'NOT covered. Trusted: TLC/SANY, CommunityModules, pysam/htslib as BAM reader/writer, the driver\'s projection '
                  '(MD string tokenised by a regular expression).',
    'design_ref': '3.15',
}

TRACE_CONSTANTS = {'Pos': vlib.Raw('{}'), 'ReadBases': vlib.Raw('{}'), 'Quals': vlib.Raw('{}'), 'MaxReads': 0,
                   'Refs': vlib.Raw('{}'), 'UMIs': vlib.Raw('{}'), 'Sites': vlib.Raw('{}'), 'Cap': 0, 'MaxNs1': vlib.Raw('{}'), 'Variant': 'design'}
ACTIONS = ['AddRead', 'EndCollect', 'CallAll', 'BuildCigar', 'StepOp', 'Finish']


def shape(ev):
    if ev.get('ev') != 'pseudo':
        return ev.get('ev')
    pos = set()
    for rd in ev['reads']:
        r = rd['start']
        for o in rd['cigar']:
            if o['op'] == 'M':
                pos.update(range(r, r + o['n']))
            if o['op'] in 'MDN':
                r += o['n']
    gapped = any(p + 1 not in pos for p in pos if p != max(pos))
    return '%s|%s%s' % (ev['via'], 'gapped' if gapped else 'contiguous', '|overflow' if ev['mol']['TF'] > ev['mol'].get('af', ev['mol']['TF']) else '')


def key_fn(ev, clause):
    return '%s|%s' % (clause, shape(ev))


def what_fn(ev, clause):
    recs = ev.get('records')
    return '%s: via=%s max_N_span=%s reads=%d -> %s' % (
        clause, ev.get('via'), ev.get('maxN'), len(ev.get('reads', [])),
        ('raised ' + ev['raised']) if 'raised' in ev else json.dumps(
            [{k: r[k] for k in ('start', 'cigar', 'md', 'tags')} for r in recs])[:300])


def run(tier):
    c = vlib.Check('C15', tier)
    q = tier == 'quick'
    vlib.sany('PseudoRead')
    vlib.sany('Trace_PseudoRead')
    for cfg in (['design_q', 'design_q2', 'design_q3', 'design_q4'] if q else ['design_q', 'design_q2', 'design_q3', 'design_q4', 'design_t', 'design_t2']):
        c.mc_pass('PseudoRead', 'MC_PseudoRead_%s.cfg' % cfg, actions_required=ACTIONS, workers=4 if q else 8, timeout=1500)
    c.mc_negative('PseudoRead', 'MC_PseudoRead_impl_D9_q.cfg', expect_inv='Inv_C15_Exists', workers=4)
    c.mc_negative('PseudoRead', 'MC_PseudoRead_impl_D10_q.cfg', expect_inv='Inv_C15_MD', workers=4)
    c.mc_negative('PseudoRead', 'MC_PseudoRead_split_ge_q.cfg', expect_inv='Inv_D_Split', workers=4)
    c.mc_negative('PseudoRead', 'MC_PseudoRead_maxn_falsy_q.cfg', expect_inv='Inv_C15_MaxNSpan', workers=4)
    c.mc_negative('PseudoRead', 'MC_PseudoRead_tf_no_overflow_q.cfg', expect_inv='Inv_C15_Tags', workers=4)
    c.mc_negative('PseudoRead', 'MC_PseudoRead_umi_max_q.cfg', expect_inv='Inv_C15_Tags', workers=4)
    c.mc_negative('PseudoRead', 'MC_PseudoRead_site_leftmost_q.cfg', expect_inv='Inv_C15_Tags', workers=4)
    trace = os.path.join(vlib.scratch(), 'pseudoread.ndjson')
    vlib.run_driver('drive_pseudoread.py', [trace, tier, c.seed])
    events = vlib.read_ndjson(trace)
    # events are independent: validate chunks with parallel TLC processes
    k = 1 if q else 4
    size = (len(events) + k - 1) // k

    def one(i):
        sub = events[i * size:(i + 1) * size]
        p = vlib.write_ndjson(os.path.join(vlib.scratch(), 'pseudoread_%d.ndjson' % i), sub)
        cfg = vlib.write_cfg(os.path.join(vlib.scratch(), 'trace_pseudoread_%d.cfg' % i), init='TInit', next_='TNext',
                             postcondition='TAccepted', constants=TRACE_CONSTANTS)
        return sub, vlib.validate_trace('Trace_PseudoRead', p, n_events=len(sub), cfg=cfg, heap='4g')
    with concurrent.futures.ThreadPoolExecutor(max_workers=k) as ex:
        results = [x for x in ex.map(one, range(k)) if x[0]]
    n_rejects = 0
    for sub, r in results:
        c.add_trace_result(r, sub, key_fn, what_fn, sample_n=1)
        n_rejects += len(r['rejects'])
    if not n_rejects:
        good = [e for e in events if e['ev'] == 'pseudo' and e['via'] in ('api', 'api_hist', 'cli', 'cli_nosrc', 'cli_halfmapped')
                and len(e.get('records', [])) >= 1
                and any(o['op'] == 'N' for o in e['records'][0]['cigar'])
                and any('n' in t for t in e['records'][0]['md']) and 'TF' in e['records'][0]['tags']][:3]
        if len(good) < 3:
            raise vlib.MachineryError('no gapped accepted molecule available for the binding self-test')

        def mut(evs):
            a, b, d = evs
            a['records'][0]['seq'][0] = 'G' if a['records'][0]['seq'][0] != 'G' else 'T'       # base no longer the call / MD off
            b['records'][0]['cigar'][0]['n'] += 1                                               # blocks / lengths off
            d['records'][0]['tags']['TF'] += 1                                                  # wrong fragment count
            return evs

        def mut_md(evs):
            evs = evs[:1]
            md = evs[0]['records'][0]['md']
            k = next(i for i, t in enumerate(md) if 'n' in t)
            md[k]['n'] += 1
            return evs

        def mut_drop(evs):
            evs = evs[:1]
            evs[0]['reads'] = evs[0]['reads'] + [dict(evs[0]['reads'][0], start=evs[0]['reads'][0]['start'] + 1000)]  # a read the records do not cover
            return evs
        cfgp = vlib.write_cfg(os.path.join(vlib.scratch(), 'trace_pseudoread_self.cfg'), init='TInit', next_='TNext',
                              postcondition='TAccepted', constants=TRACE_CONSTANTS)
        for name, m in (('corrupt_base_cigar_tag', mut), ('md_run_plus_one', mut_md), ('uncovered_extra_read', mut_drop)):
            vlib.corrupt_selftest(c, 'Trace_PseudoRead', good, m, name, cfg=cfgp)
    c.assumptions += ['call rule judged only where exact (equal qualities >= 10, or <= 2 observations with qualities in {10,20,30}); '
                      'other positions are counted in observations.call_rule_not_covered; emitted phred values are not judged',
                      'harness patch: bamtagmultiome.sleep -> no-op (only removes waiting)',
                      'API molecules: the site is the one the molecule object reports (get_cut_site); CLI molecules: all fragments '
                      'share one first-mate start, site = the fragment class\'s site (site correctness is C09)',
                      'synthetic contigs are 120 kb so that the contig-per-process job plan (C05/D4) gives every contig a job']
    ps = [e for e in events if e['ev'] == 'pseudo']
    return c.finish(rule='one trace = one molecule put through the consensus writer (API call or one molecule of a command-line run); '
                         'all records of that molecule are judged together',
                    extra_cov={'distinct_nontrivial': len(set(json.dumps(e['reads'], sort_keys=True) for e in ps)),
                               'via': {v: sum(1 for e in ps if e['via'] == v) for v in ('api', 'api_hist', 'crd', 'cli', 'cli_nosrc', 'cli_halfmapped')},
                               'records': sum(len(e.get('records', [])) for e in ps),
                               'molecules_with_several_cut_sites': sum(1 for e in ps if len(set(e['frag_sites'])) > 1),
                               'molecules_with_minority_umis': sum(1 for e in ps if len(set(e['umis'])) > 1),
                               'molecules_written_through_write_pysam': sum(1 for e in ps if e.get('wp')),
                               'molecules_exceeding_max_associated_fragments': sum(1 for e in ps if e['mol']['TF'] > e['mol']['af']),
                               'molecules_split_into_several_records': sum(1 for e in ps if len(e.get('records', [])) > 1),
                               'partial': 'numeric call rule only within exact-integer bounds; phred values not covered'})


def replay(path):
    with open(path) as f:
        rp = json.load(f)
    ev = rp['case']['event']
    p = os.path.join(vlib.scratch(), 'replay.ndjson')
    if ev.get('ev') != 'pseudo':
        vlib.write_ndjson(p, [ev])
    else:
        case = os.path.join(vlib.scratch(), 'case.json')
        with open(case, 'w') as f:
            json.dump(rp['case'], f)
        vlib.run_driver('drive_pseudoread.py', [p, 'quick', rp.get('seed', 0), '--replay', case])
    r = vlib.validate_trace('Trace_PseudoRead', p, constants=TRACE_CONSTANTS)
    for rej in r['rejects']:
        print('  rejected: %s' % rej['clause'])
    if r['rejects']:
        print('VIOLATION property=C15 replay=%s' % path)
        return 1
    print('replay: accepted')
    return 0
