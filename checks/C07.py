"""C07 - the molecule partition is independent of the buffer-ejection schedule.
Spec: spec/MolAssign.tla (schedule configurations) + spec/MolAssignProps.tla, spec/Trace_MolAssign.tla.
Driver: harness/drive_molassign.py (mode c07). Shared machinery: harness/molassign_check.py."""
import os

import vlib
import molassign_check as mc

META = {
    'property_id': 'C07',
    'module': 'MolAssign',
    'technique': 'TLA+ spec of the MoleculeIterator buffers / ejection check (MolAssign.tla, schedule configurations) '
                 'model-checked by TLC; TLC-generated fragment sequences and random sorted sequences are run through the real '
                 'iterator under every check_eject_every value and both pooling methods and the recorded emission traces are '
                 'judged by TLC (Trace_MolAssign.tla) with the property operators of MolAssignProps.tla',
    'level_text': 'TLC exhaustively checks, for all sorted streams of <= 4/5 fragments, every schedule, both pooling methods and '
                  'both release orders (single-end / mate pairs), that the design ejection yields the partition of the '
                  'never-ejecting run, never emits a molecule a later identical fragment could join, and emits every fragment '
                  'once - inside the region 2*(span+radius) <= cache_size, which two further runs show to be tight within a '
                  'constant; the as-coded pop(i - j) is a negative control (fails with 3 molecules and a non-prefix ejectable '
                  'set). All final states of generator configurations are replayed into the real iterator (spec -> code) and '
                  'the recorded behaviour goes back to TLC (code -> spec).',
    'level_note': 'Trusted: TLC/SANY, CommunityModules, pysam as record container, the embedding of model coordinates into '
                  'reads (x -> 100 + 6x). Outside the verified region (and for unsorted input) observations are recorded as '
                  '@@NOTE and never alarm; pooling-method equivalence is only claimed for exact UMIs, radius 0 and '
                  'unambiguous plain anchors.',
    'design_ref': '3.7',
}

C07 = ['Inv_C07_SamePartition', 'Inv_C07_NoPremature', 'Inv_C06_Exact', 'Inv_C07_PoolingAgnostic']


def run(tier):
    c = vlib.Check('C07', tier)
    vlib.sany('MolAssign')
    vlib.sany('Trace_MolAssign')
    q = tier == 'quick'
    full = mc.ALL_TAKE + ['EjectCheck']
    if q:
        design = [('c07nla_q', full), ('c07chic_q', full), ('c07contig_q', full), ('c07tie_q', full), ('c07upstream_q', full)]
        gens = ['gen4_q', 'genchic_q', 'gentie_q', 'genupstream_q']
    else:
        design = [('c07nla_t', full), ('c07nla5_t', full), ('c07chic_t', full), ('c07plain_t', full), ('c07plain5_t', full), ('c07contig_t', full),
                  ('c07nla_q', full), ('c07chic_q', full), ('c07tie_q', full), ('c07upstream_q', full)]
        gens = ['gen4_q', 'genchic_q', 'gentie_q', 'genupstream_q', 'gen3_q', 'gen4_t', 'genplain_t', 'genplain5_t']
    negative = [('c07nla_pop', C07), ('c07chic_pop', C07), ('c07nla_beyond', C07), ('c07chic_beyond', C07)]
    mc.run_mcs(c, design, negative, workers=4, par=4)
    scn = os.path.join(vlib.scratch(), 'scenarios.json')
    n_scn = mc.gen_scenarios(gens, scn)
    if n_scn < 1000:
        raise vlib.MachineryError('scenario generation produced only %d scenarios' % n_scn)
    events, r = mc.conformance(c, 'c07', tier, mc.key_c07, scenario_file=scn)
    bad = set(x['line'] for x in r['rejects'])
    good = [e for i, e in enumerate(events, 1) if i not in bad and len(e['frags']) >= 3 and not e['model']
            and any(len(m['ids']) >= 2 for m in e['runs'][0]['emits']) and len(e['runs'][0]['emits']) >= 2][:3]
    if len(good) >= 3:
        def mut(evs):
            big = lambda run: max(range(len(run['emits'])), key=lambda k: len(run['emits'][k]['ids']))
            r0 = evs[0]['runs'][1]; k = big(r0)                       # a run with ejection: split one molecule
            x = r0['emits'][k]['ids'].pop()
            r0['emits'].append({'at': len(evs[0]['frags']), 'ids': [x]})
            r1 = evs[1]['runs'][-1]
            r1['emits'][big(r1)]['ids'].pop()                         # a fragment is never emitted
            r2 = evs[2]['runs'][2]; k = big(r2)
            r2['emits'][k]['ids'].append(r2['emits'][k]['ids'][0])    # a fragment is emitted twice
            return evs
        vlib.corrupt_selftest(c, 'Trace_MolAssign', good, mut, 'c07_split_drop_duplicate')
    elif not r['rejects']:
        raise vlib.MachineryError('no accepted sequence available for the binding self-test')
    c.assumptions += ['sequences are fed to MoleculeIterator as an iterable of (R1, R2) tuples in the order the mate-pair iterator '
                      'releases a coordinate-sorted BAM (20/300 sequences per tier go through a real BAM file instead; their emission '
                      'times cannot be observed, so NoPremature is vacuous for them); "fragments shorter than the molecule cache radius" is read as '
                      '2*(span + assignment_radius) <= cache_size, the region in which TLC verified the design']
    keys = set((e['kind'], e['hd'], e['radius'] > 0, e['cache'], e['readlen'] < 10 ** 6, len(e['frags']),
                tuple(sorted(len(m['ids']) for m in e['runs'][0]['emits']))) for e in events)
    c.extra['scenarios_from_tlc'] = n_scn
    c.extra['sequences'] = len(events)
    return c.finish(rule='directed sequences (non-prefix ejectable sets for every kind / bucket layout, other contig, reverse-strand '
                         'duplicates) + every final state of the TLC generator configurations embedded in real coordinates + random '
                         'sorted sequences mixing short and long fragments, several cells, single-end and mate-pair release order; '
                         'each run under check_eject_every in {None, 0..n} x pooling_method {0,1}; an execution is one run of the '
                         'real iterator; distinct by (kind, hd, radius>0, cache, paired, #fragments, molecule sizes)',
                    exhaustive=False, extra_cov={'distinct_nontrivial': len(keys)})


def replay(path):
    return mc.replay('C07', path)
