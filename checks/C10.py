"""C10 - binned count tables: each counted read lands in exactly the bins containing it.
Spec: spec/Binning.tla (P+D level), spec/Trace_Binning.tla. Driver: harness/drive_binning.py."""
import os

import vlib

META = {
    'property_id': 'C10',
    'module': 'Binning',
    'technique': 'TLA+ spec (Binning.tla) model-checked by TLC + TLC trace validation of recorded executions of '
                 'coordinate_to_bins / create_count_table against the spec\'s Windows definition',
    'level_text': 'TLC exhaustively checks that the closed-form window arithmetic of the design equals the set of windows '
                  'containing the coordinate and that the count-table fold conserves weights (small constants); the as-coded '
                  'ceil() variant is a negative control. The real functions (both copies) are run on an exhaustive grid and '
                  'the real create_count_table on synthetic BAMs with sites on bin boundaries; every recorded result is judged '
                  'by TLC against the P-level definition.',
    'level_note': 'Trusted: TLC/SANY, CommunityModules, the driver\'s projection of the DataFrame (value*2 as integer), pysam as '
                  'BAM writer. Small-scope bounds for the model; grid c<=120/300, b<=24/40 for the real code.',
    'design_ref': '3.10',
}


def key_fn(ev, clause):
    if ev['ev'] in ('bins', 'loc'):
        boundary = (ev['c'] - ev['b']) % ev['s'] == 0
        return '%s|%s|%s' % (clause, ev.get('src'), 'c-b_multiple_of_s' if boundary else 'other')
    return '%s|create_count_table|%s|%s' % (clause, 'sliding' if ev['s'] != ev['b'] else 'nosliding', ev.get('shape', 'one'))


def run(tier):
    c = vlib.Check('C10', tier)
    vlib.sany('Binning')
    vlib.sany('Trace_Binning')
    c.mc_pass('Binning', 'MC_Binning_design_%s.cfg' % ('q' if tier == 'quick' else 't'), actions_required=['CountRead'],
              timeout=1500)
    c.mc_negative('Binning', 'MC_Binning_impl_q.cfg', expect_inv=['Inv_C10_Membership', 'Inv_C10_Single'], workers=4)
    trace = os.path.join(vlib.scratch(), 'binning.ndjson')
    vlib.run_driver('drive_binning.py', [trace, tier, c.seed])
    events = vlib.read_ndjson(trace)
    r = vlib.validate_trace('Trace_Binning', trace, n_events=len(events))
    c.add_trace_result(r, events, key_fn)
    c.samples.extend([vlib._shorten(e) for e in events if e['ev'] == 'table'][:2])
    # binding self-test: corrupt one field / drop a bin of accepted observations -> TLC must reject
    good = [e for e in events[:50] if e['ev'] == 'bins' and e['bins']][:5]
    if not r['rejects'] and good:
        def mut(evs):
            evs[0]['bins'] = evs[0]['bins'][1:]
            evs[1]['bins'][0][1] += 1
            return evs
        vlib.corrupt_selftest(c, 'Trace_Binning', good, mut, 'drop_bin_and_shift_end')
    c.assumptions += ['count-table weights are exact multiples of 0.5 (driver asserts this before scaling by 2)']
    return c.finish(rule='exhaustive grid of (c,b,s) through both copies of coordinate_to_bins + random large coordinates '
                         'through coordinate_to_sliding_bin_locations + synthetic BAMs through create_count_table; an event is '
                         'one distinct (function, c, b, s) or one BAM/option set', exhaustive=False,
                    extra_cov={'distinct_nontrivial': len(set((e.get('src'), e.get('c'), e['b'], e['s'], e['ev']) for e in events))})


def replay(path):
    import json
    with open(path) as f:
        rp = json.load(f)
    ev = rp['case']['event']
    p = os.path.join(vlib.scratch(), 'replay.ndjson')
    if ev['ev'] in ('bins', 'loc'):
        code = ('import json,sys\n'
                'import singlecellmultiomics.bamProcessing.bamToCountTable as ct, singlecellmultiomics.utils.binning as ub\n'
                'ev=json.loads(sys.argv[1]); mod = ct if ev["src"]=="bamToCountTable" else ub\n'
                'if ev["ev"]=="bins": ev["bins"]=[[int(x),int(y)] for x,y in mod.coordinate_to_bins(ev["c"],ev["b"],ev["s"])]\n'
                'else:\n a=mod.coordinate_to_sliding_bin_locations(ev["c"],ev["b"],ev["s"]); ev.update(start=int(a[0]),end=int(a[1]),start_id=int(a[2]),end_id=int(a[3]))\n'
                'open(sys.argv[2],"w").write(json.dumps(ev)+"\\n")\n')
        sp = os.path.join(vlib.scratch(), 'rp.py')
        open(sp, 'w').write(code)
        vlib.run_driver(sp, [json.dumps(ev), p])
    else:
        vlib.write_ndjson(p, [ev])   # table events are re-judged as recorded
    r = vlib.validate_trace('Trace_Binning', p)
    if r['rejects']:
        print('VIOLATION property=C10 replay=%s' % path)
        return 1
    print('replay: accepted')
    return 0
