"""C09 - cut-site coordinates are correct and strand-symmetric.
Spec: spec/CutSite.tla (P+D level), spec/Trace_CutSite.tla. Driver: harness/drive_cutsite.py."""
import json
import os

import vlib

META = {
    'property_id': 'C09',
    'module': 'CutSite',
    'technique': 'TLA+ spec (CutSite.tla) model-checked by TLC; TLC enumerates the cut geometries (strand x single/paired x '
                 'soft clip 0..6 x motif variants x options) as scenarios that are replayed into the real NlaIIIFragment / '
                 'CHICFragment together with their mirror image; TLC trace validation judges every recorded outcome against '
                 'the ground truth of the scenario and the mirror relation',
    'level_text': 'TLC exhaustively checks that the design of identify_site (one action per arm of the code) assigns the true '
                  'cut coordinate on both strands for every bounded geometry and that the two orientations of one cut get '
                  'mirrored sites, flipped strands and mirrored dedup keys; the two as-coded deviations (reverse cycle-shift '
                  'motif test D20, cycle-shift site ignoring the clip correction D21) fail as negative controls. Every '
                  'scenario of the generator configuration is built as pysam records (on the model reference and on random '
                  'references) and run through the real fragment classes; TLC re-derives the records from the scenario and '
                  'judges DS / RS / is_valid / match_hash with the P-level definition.',
    'level_note': 'Trusted: TLC/SANY, CommunityModules, pysam as container of the alignment records, the driver\'s field copy. '
                  'The coordinate convention (which base DS names) is taken from the repository\'s own tests and tagged test '
                  'data, see docs/C09.md. Small-scope bounds for the model (reference of 24 bases, reads of 9-11 bases); '
                  'random references of 34-84 bases for the real code.',
    'design_ref': '3.9',
}

CHUNK = 8000


def _side(ev, clause):
    side = clause.rsplit(':', 1)[1] if ':' in clause else 'a'
    return ev['b'] if side == 'b' else ev['a']


def key_fn(ev, clause):
    name = clause.rsplit(':', 1)[0]
    if ev.get('ev') != 'pair':
        return '%s|%s' % (name, ev.get('ev'))
    x = _side(ev, clause)
    s, o = x['scn'], x['scn']['opts']
    key = '%s|%s|%s|%s|acs=%d' % (name, s['proto'], s['kind'], 'rev' if s['rev'] else 'fwd', o['allow_cycle_shift'])
    if s['proto'] == 'chic':
        key += '|mx=%s' % (''.join(s['mx']) or 'none')
    return key


def what_fn(ev, clause):
    x = _side(ev, clause)
    s = x['scn']
    return ('%s: %s %s cut at %d on a %d-base reference, R1 %s, clip %d/%d, options %s; read %s; observed %s'
            % (clause, s['proto'], s['kind'], s['p'], s['L'], 'reverse' if s['rev'] else 'forward', s['clip'], s['clip3'],
               json.dumps(s['opts'], sort_keys=True),
               json.dumps({'start': x['read']['start'], 'end': x['read']['end'], 'cigar': x['read']['cigar'],
                           'seq': ''.join(x['read']['seq'])}),
               json.dumps({k: v for k, v in x['out'].items() if k in ('has_ds', 'ds', 'rs', 'rz', 'rr', 'qcfail', 'valid', 'raised')},
                          sort_keys=True)))


def _scenarios(cfg):
    r = vlib.scenarios('CutSite', cfg)
    seen = {}
    for s in r['scenarios']:   # TLC prints a record's fields in varying order: canonicalise
        seen.setdefault(json.dumps(s, sort_keys=True), s)
    out = [seen[k] for k in sorted(seen)]
    if not out:
        raise vlib.MachineryError('scenario generation %s produced nothing' % cfg)
    return out


def _validate_chunks(c, trace):
    """Validate a (possibly large) ndjson trace in chunks; returns the accepted events of the first chunk."""
    events = vlib.read_ndjson(trace)
    first_ok = None
    for k in range(0, len(events), CHUNK):
        part = events[k:k + CHUNK]
        p = os.path.join(vlib.scratch(), 'chunk_%d_%d.ndjson' % (len(c.mc_runs) + c.events, k))
        vlib.write_ndjson(p, part)
        r = vlib.validate_trace('Trace_CutSite', p, n_events=len(part))
        mach = [x for x in r['rejects'] if x['clause'].startswith(('generator_mismatch', 'unknown_event'))]
        if mach:
            raise vlib.MachineryError('the generator and the specification disagree about the scenario/read (%s): %s'
                                      % (mach[0]['clause'], json.dumps(part[mach[0]['line'] - 1])[:1500]))
        c.add_trace_result(r, part, key_fn, what_fn, sample_n=1)
        if first_ok is None:
            bad = set(x['line'] for x in r['rejects'])
            first_ok = [e for i, e in enumerate(part, 1) if i not in bad]
        os.remove(p)
    return events, first_ok


def _selftest(c, good):
    """Binding self-test: corrupt one recorded field of accepted observations -> TLC must reject."""
    acc = [e for e in good if e['a']['out']['has_ds'] and e['b']['out']['has_ds']]
    nla = [e for e in acc if e['a']['scn']['proto'] == 'nla' and e['a']['scn']['kind'] == 'ok' and not e['a']['scn']['opts']['no_cigar']][:1]
    chic = [e for e in acc if e['a']['scn']['proto'] == 'chic'
            and (''.join(e['a']['scn']['mx']).startswith('scCHIC') == (e['a']['scn']['kind'] == 'trimmed'))][:1]   # judged layouts only
    rej = [e for e in good if e['a']['scn']['proto'] == 'nla' and not e['a']['out']['has_ds'] and e['a']['scn']['kind'] == 'mm'
           and e['a']['scn']['opts']['check_motif']][:1]
    if not (nla and chic and rej):
        raise vlib.MachineryError('self-test needs accepted nla, chic and rejected observations')

    def ds_off_by_one(evs):
        evs[0]['b']['out']['ds'] += 1           # site off by one on one strand only (hash left alone)
        return evs

    def chic_same_strand(evs):
        evs[0]['b']['out']['rs'] = evs[0]['a']['out']['rs']
        return evs

    def site_on_rejected(evs):
        evs[0]['a']['out']['has_ds'] = True
        evs[0]['a']['out']['ds'] = evs[0]['a']['out']['loc']
        return evs

    def dedup_key_shift(evs):
        evs[0]['a']['out']['hash']['pos'] += 4
        return evs

    import copy

    def corrupt_read(evs):
        evs[0]['a']['read']['start'] += 1       # the alignment record handed to the code is not the scenario's
        return evs

    cases = [('nla_ds_off_by_one_one_strand', nla, ds_off_by_one, 'Inv_C09'), ('chic_strand_not_flipped', chic, chic_same_strand, 'Inv_C09'),
             ('site_tag_on_rejected_fragment', rej, site_on_rejected, 'Inv_C09'), ('dedup_key_other_coordinate', nla, dedup_key_shift, 'Inv_C09_DedupKey'),
             ('corrupt_alignment_record_detected', nla, corrupt_read, 'generator_mismatch_read')]
    evs = []
    for i, (name, src, mut, _) in enumerate(cases, 1):
        e = mut(copy.deepcopy(src))[0]
        e['tid'] = i
        evs.append(e)
    p = os.path.join(vlib.scratch(), 'selftest.ndjson')
    vlib.write_ndjson(p, evs)
    r = vlib.validate_trace('Trace_CutSite', p)
    got = {x['line']: x['clause'] for x in r['rejects']}
    for i, (name, _, _, prefix) in enumerate(cases, 1):
        c.selftest(name, got.get(i, '').startswith(prefix), 'TLC said: %s' % got.get(i, 'accepted'))


def run(tier):
    c = vlib.Check('C09', tier)
    q = tier == 'quick'
    vlib.sany('CutSite')
    vlib.sany('Trace_CutSite')
    actions = ['FragInit', 'NlaNoOverhang', 'NlaAcceptMotif', 'NlaAcceptShift', 'NlaReject', 'ChicRejectOrientation', 'ChicSetSite', 'ComputeHash']
    c.mc_pass('CutSite', 'MC_CutSite_design_%s.cfg' % ('q' if q else 't'), actions_required=actions, workers=8 if q else 12,
              timeout=1500)
    c.mc_negative('CutSite', 'MC_CutSite_impl_revmotif_q.cfg', expect_inv=['Inv_C09_CycleShift', 'Inv_C09_NlaTruth', 'Inv_C09_Mirror'], workers=4)
    c.mc_negative('CutSite', 'MC_CutSite_impl_shiftclip_q.cfg', expect_inv=['Inv_C09_CycleShift', 'Inv_C09_Mirror'], workers=4)

    # spec -> code: TLC enumerates the geometry space; every scenario and its mirror image go through the real classes
    scns = _scenarios('MC_CutSite_gen_%s.cfg' % ('q' if q else 't'))
    sp = os.path.join(vlib.scratch(), 'scenarios.json')
    with open(sp, 'w') as f:
        json.dump(scns, f)
    trace = os.path.join(vlib.scratch(), 'cutsite_model.ndjson')
    vlib.run_driver('drive_cutsite.py', [trace, tier, c.seed, sp, 0])
    events, good = _validate_chunks(c, trace)
    _selftest(c, good)
    all_events = len(events)
    n_frag = 2 * len(events)
    sig = set((e['a']['scn']['proto'], e['a']['scn']['kind'], e['a']['scn']['rev'], e['a']['scn']['clip'], e['a']['scn']['clip3'],
               e['a']['scn']['r2'], json.dumps(e['a']['scn']['opts'], sort_keys=True)) for e in events)
    out_of_scope = sum(1 for e in events if e['a']['scn']['proto'] == 'nla' and not e['a']['scn']['opts']['check_motif']
                       and e['a']['scn']['kind'] != 'ok')
    os.remove(trace)

    # the same geometries on random references (random length / cut position / read length / neighbouring motifs)
    import random
    rng = random.Random(c.seed)
    sub = scns if not q else rng.sample(scns, min(len(scns), 2500))
    sp2 = os.path.join(vlib.scratch(), 'scenarios_random.json')
    with open(sp2, 'w') as f:
        json.dump(sub, f)
    trace2 = os.path.join(vlib.scratch(), 'cutsite_random.ndjson')
    vlib.run_driver('drive_cutsite.py', [trace2, tier, c.seed, sp2, 1 if q else 2, 1, 1])
    ev2, good2 = _validate_chunks(c, trace2)
    comp = [e for e in good2 if 'a2' in e and 'prepass' not in e and e['eq_a'] == 'true' and e['eq_b'] == 'true'
            and not e['a']['scn']['opts']['no_cigar'] and e['a']['scn']['opts']['check_motif'] and e['a']['out']['has_ds']][:1]
    if not comp:
        raise vlib.MachineryError('no accepted companion observation for the dedup self-test')

    def unequal_in_one_orientation(evs):
        evs[0]['eq_b'] = 'false'
        return evs
    vlib.corrupt_selftest(c, 'Trace_CutSite', comp, unequal_in_one_orientation, 'same_cut_not_equal_in_one_orientation')
    all_events += len(ev2)
    n_frag += sum((4 if 'a2' in e else 2) if e['ev'] == 'pair' else 1 for e in ev2)
    os.remove(trace2)

    c.assumptions += ['DS convention taken from the repository: NlaIII DS = coordinate of the C of CATG on the forward reference '
                      'for both strands; scCHIC DS = first genomic base - 2 (forward) / last genomic base + 2 (reverse)',
                      'with no_umi_cigar_processing and a soft-clipped read start both the true site and the site anchored at '
                      'the aligned read end are accepted (the option switches the clip correction off)',
                      'reads without CATG under check_motif=False and CHIC fragments whose mates map to the same strand are '
                      'outside the statement: recorded, not judged (%d of the model events)' % out_of_scope]
    return c.finish(rule='one event = both orientations of one simulated cut (scenario from TLC, mirror image built on the '
                         'reverse-complemented reference), each through the real NlaIIIFragment/CHICFragment; model reference and '
                         'random references', exhaustive=False,
                    extra_cov={'distinct_nontrivial': len(sig), 'scenarios_from_tlc': len(scns), 'pairs_run': all_events,
                               'fragments_constructed': n_frag, 'out_of_scope_events': out_of_scope})


def replay(path):
    with open(path) as f:
        rp = json.load(f)
    ev = rp['case']['event']
    sp = os.path.join(vlib.scratch(), 'replay_scn.json')
    with open(sp, 'w') as f:
        json.dump([ev['a']['scn']], f)
    p = os.path.join(vlib.scratch(), 'replay.ndjson')
    vlib.run_driver('drive_cutsite.py', [p, 'quick', 0, sp, 0])
    r = vlib.validate_trace('Trace_CutSite', p)
    for x in r['rejects']:
        print('  %s' % x['clause'])
    if r['rejects']:
        print('VIOLATION property=C09 replay=%s' % path)
        return 1
    print('replay: accepted')
    return 0
