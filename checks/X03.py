"""X03 (extension, not a listed property): libraryDetection.sequencingLibraryListing.SequencingLibraryLister.detect groups FASTQ
paths into library -> lane -> mate slots: every file in exactly one slot (or ignored/reported), mates of a lane pair up in the
same order, --ignore drops incomplete lanes whole, an inconsistent listing terminates instead of returning a partial pairing,
and the mapping does not depend on the order of the file list.
Spec: spec/LibraryListingP.tla (P-level clauses), spec/LibraryListing.tla (design model + named deviations), spec/Trace_LibraryListing.tla;
driver harness/drive_liblisting.py.  Not registered in MANIFEST.json (properties.jsonl is fixed)."""
import concurrent.futures
import json
import os
import random

import vlib

EXTENSION = True

ACTIONS = ['Start', 'Place', 'EndPlace', 'SomeInspect', 'Finish']
DESIGN_Q = ['pair_q', 'name_q', 'lane_q']
DESIGN_T = ['design_t', 'name_t', 'merge_t']
NEG = [('replace_verbose_q', ['Inv_X03_Outcome']),
       ('replace_verbose_empty_q', ['Inv_X03_LibraryName']),
       ('merge_nojoin_q', ['Inv_X03_LibraryName']),
       ('slib_suffix_q', ['Inv_X03_LibraryName']),
       ('slib_merged_q', ['Inv_X03_LibraryName']),
       ('glob_unsorted_q', ['Inv_X03_Pairing']),
       ('mut_half_lane_q', ['Inv_X03_IgnoreWhole']),
       ('mut_partial_return_q', ['Inv_X03_Terminates']),
       ('mut_prepend_q', ['Inv_X03_SlotOrder', 'Inv_X03_Pairing']),
       ('impl_q', ['Inv_X03_LibraryName']),
       ('impl_asfound_q', ['Inv_X03_Outcome'])]
# generator cfg -> how many scenarios of its exhaustive set are replayed (quick, thorough); None = all
GEN = [('gen_pair', 2000, None), ('gen_pairsfx', 0, 12000), ('gen_name', 2000, 25000), ('gen_nameverbose', 200, None),
       ('gen_lane', 1200, 12000), ('gen_lane4', 0, 12000), ('gen_merge', 800, None)]

def key_fn(ev, clause):
    """the clause string is computed by TLC and already names the deviation it recognised; other clauses get the option shape"""
    head = clause.split('|')[0]
    if head in ('LibraryName', 'Pairing') or head.startswith('Outcome'):
        return clause
    o = ev['opts']
    return '%s|se%d|ignore%d' % (clause, o['se'], o['ignore'])


def what_fn(ev, clause):
    return '%s: detect(%s) options %s -> %s %s' % (clause, [f['name'] for f in ev['files']][:8], json.dumps(ev['opts']), ev['outcome'],
                                                   json.dumps(ev['slots'])[:300])


def _parallel_mc(c, jobs):
    """several small TLC runs side by side (JVM start-up dominates); results are folded in afterwards, in order"""
    def one(j):
        kind, cfg, inv, workers = j
        if kind == 'design':
            return vlib.mc('LibraryListing', cfg, expect='pass', actions_required=ACTIONS, workers=workers, heap='6g', timeout=1500)
        return vlib.mc('LibraryListing', cfg, expect='fail', expect_inv=inv, workers=workers, heap='2g')
    with concurrent.futures.ThreadPoolExecutor(max_workers=4) as ex:
        res = list(ex.map(one, jobs))
    for j, r in zip(jobs, res):
        c.add_mc(r, 'design' if j[0] == 'design' else 'negative_control')


def _selftests(c, events):
    import copy
    good = [e for e in events if e['outcome'] == 'returned' and len(e['slots']) >= 2 and len(e['files']) >= 4
            and not e['opts']['ignore'] and any(len(s['fs']) >= 2 for s in e['slots'])]
    good_ign = [e for e in events if e['outcome'] == 'returned' and e['opts']['ignore'] and e['slots']
                and len(e['files']) > sum(len(s['fs']) for s in e['slots'])]
    good_exit = [e for e in events if e['outcome'] == 'exit']
    if not good or not good_ign or not good_exit:
        raise vlib.MachineryError('no accepted call rich enough for the binding self-tests')
    e0, e1, e2 = good[0], good_ign[0], good_exit[0]

    def swap(e):            # two files of one slot change places
        s = [s for s in e['slots'] if len(s['fs']) >= 2][0]
        s['fs'][0], s['fs'][1] = s['fs'][1], s['fs'][0]

    def libname(e):
        e['slots'][0]['lib'] += 'x'

    def dropfile(e):
        s = [s for s in e['slots'] if len(s['fs']) >= 2][0]
        s['fs'].pop()

    def mate(e):
        e['slots'][0]['mate'] = 'R2' if e['slots'][0]['mate'] == 'R1' else 'R1'

    def half(e):            # --ignore returned only half of a complete lane
        e['slots'].pop()
        e['nlanes'] = len(set((s['lib'], s['lane']) for s in e['slots']))
        e['nlibs'] = len(set(s['lib'] for s in e['slots']))

    def returned(e):        # an inconsistent listing came back as if it were fine
        e['outcome'] = 'returned'

    def truth(e):           # the abstract description says another mate than the name that went through detect()
        e['files'][e['slots'][0]['fs'][0] - 1]['mate'] = 3 - e['files'][e['slots'][0]['fs'][0] - 1]['mate']
    muts = [('swap_files_in_slot', e0, swap), ('corrupt_library_name', e0, libname), ('drop_file_from_slot', e0, dropfile),
            ('corrupt_mate_key', e0, mate), ('ignore_returns_half_lane', e1, half), ('inconsistent_returned', e2, returned),
            ('corrupt_truth_mate', e0, truth)]
    evs = []
    for k, (name, src, m) in enumerate(muts):
        e = copy.deepcopy(src)
        e['tid'], e['grp'] = 1000 + k, 0
        m(e)
        evs.append(e)
    evs.append(dict(copy.deepcopy(e0), tid=2000, grp=0))
    # order dependence: the same group, the second call returns another mapping (both individually well formed is not required)
    a, b = copy.deepcopy(e0), copy.deepcopy(e0)
    a['tid'], b['tid'], a['grp'], b['grp'] = 3000, 3001, 77, 77
    evs += [a, b]
    # ... and two accepted calls with different mappings passed off as the same set of files
    fset = lambda e: sorted(json.dumps({k: v for k, v in f.items() if k != 'name'}, sort_keys=True) for f in e['files'])
    d, g = copy.deepcopy(e0), copy.deepcopy([e for e in good if fset(e) != fset(e0)][0])
    d['tid'], g['tid'], d['grp'], g['grp'] = 4000, 4001, 78, 78
    evs += [d, g]
    p = os.path.join(vlib.scratch(), 'selftest_liblisting.ndjson')
    vlib.write_ndjson(p, evs)
    r = vlib.validate_trace('Trace_LibraryListing', p, n_events=len(evs))
    hit = {x['tid']: x['clause'] for x in r['rejects']}
    for k, (name, src, m) in enumerate(muts):
        c.selftest(name, (1000 + k) in hit, hit.get(1000 + k, 'NOT REJECTED'))
    c.selftest('order_dependent_result', 4001 in hit, hit.get(4001, 'NOT REJECTED'))
    c.selftest('untouched_copies_accepted', not any(t in hit for t in (2000, 3000, 3001)), str({t: hit.get(t) for t in (2000, 3000, 3001)}))


def run(tier):
    c = vlib.Check('X03', tier)
    q = tier == 'quick'
    for m in ('LibraryListingP', 'LibraryListing', 'Trace_LibraryListing'):
        vlib.sany(m)
    jobs = [('design', 'MC_LibraryListing_%s.cfg' % n, None, 4) for n in DESIGN_Q]
    jobs += [('neg', 'MC_LibraryListing_%s.cfg' % n, inv, 2) for n, inv in NEG]
    if not q:
        jobs = [('design', 'MC_LibraryListing_%s.cfg' % n, None, 4) for n in DESIGN_T] + jobs      # the long ones first
    _parallel_mc(c, jobs)
    # spec -> code: TLC enumerates the listings of the bounded model; a seeded sample (quick) / all (thorough) are replayed
    rng = random.Random(c.seed)
    chosen, pool_n = [], 0
    use = [(name, nq if q else nt) for name, nq, nt in GEN if (nq if q else nt) != 0]
    with concurrent.futures.ThreadPoolExecutor(max_workers=3) as ex:
        pools = list(ex.map(lambda x: vlib.scenarios('LibraryListing', 'MC_LibraryListing_%s.cfg' % x[0],
                                                     env={'JAVA_TOOL_OPTIONS': '-Xmx3g'})['scenarios'], use))
    for (name, n), g in zip(use, pools):
        if len(g) < 500:
            raise vlib.MachineryError('scenario generation %s gave only %d listings' % (name, len(g)))
        pool_n += len(g)
        if n is not None and n < len(g):
            # keep whole order-groups together: sample sets of files, take every order of a sampled set
            groups = {}
            for s in g:
                groups.setdefault(json.dumps([sorted(json.dumps(f, sort_keys=True) for f in s['files']), s['opts']], sort_keys=True), []).append(s)
            keys = sorted(groups)
            rng.shuffle(keys)
            got = []
            for k in keys:
                if len(got) >= n:
                    break
                got += groups[k]
            g = got
        chosen += g
    scn_path = os.path.join(vlib.scratch(), 'x03_scenarios.json')
    with open(scn_path, 'w') as f:
        json.dump(chosen, f)
    trace = os.path.join(vlib.scratch(), 'liblisting.ndjson')
    vlib.run_driver('drive_liblisting.py', [trace, tier, c.seed, scn_path], timeout=3000)
    events = vlib.read_ndjson(trace)
    r = vlib.validate_trace('Trace_LibraryListing', trace, n_events=len(events), heap='8g')
    c.add_trace_result(r, events, key_fn, what_fn, n_traces=len(events), sample_n=2)
    c.samples.append({'note': 'one event = one call of the real detect()', 'calls': len(events),
                      'scenario_calls': sum(1 for e in events if e['src'] == 'scenario'),
                      'random_calls': sum(1 for e in events if e['src'] == 'random'),
                      'exit_outcomes': sum(1 for e in events if e['outcome'] == 'exit'),
                      'raised_outcomes': sum(1 for e in events if e['outcome'] == 'raised'),
                      'glob_calls': sum(1 for e in events if e['opts']['glob']),
                      'max_files': max(len(e['files']) for e in events)})
    c.assumptions += ['library names are "_"-joined tokens; -replace origins are whole tokens that are not substrings of any other token',
                      'glob mode: glob.glob of the module under test is wrapped to return its real matches in a chosen (directory) order',
                      'SRR names are SRR<digits>_<mate>; Illumina-style names whose library starts with "SRR" are outside the modelled schemes']
    accepted_tids = set(e['tid'] for e in events) - set(x['tid'] for x in r['rejects'])
    if not c.violations:     # with open violations the run exits 1 anyway; never turn that into a machinery failure
        _selftests(c, [e for e in events if e['tid'] in accepted_tids])
    return c.finish(rule='TLC-enumerated listings (<= 4 files: every order, options replace/slib/merge/se/ignore/verbose, list and glob mode) '
                         '+ directed + random listings of up to ~100 files in 2-3 orders each, kwargs and args= calling conventions',
                    extra_cov={'distinct_nontrivial': len(set(json.dumps([e['files'], e['opts']], sort_keys=True) for e in events)),
                               'scenario_pool': pool_n})


def replay(path):
    """./check X03 --replay <file>: run the recorded listing (abstract files + options) through detect() again"""
    with open(path) as f:
        case = json.load(f)['case']['event']
    c = vlib.Check('X03', 'replay')
    scn = os.path.join(vlib.scratch(), 'replay_scn.json')
    with open(scn, 'w') as f:
        json.dump([{'files': [{k: v for k, v in x.items() if k != 'name'} for x in case['files']], 'opts': case['opts']}], f)
    trace = os.path.join(vlib.scratch(), 'replay.ndjson')
    vlib.run_driver('drive_liblisting.py', [trace, 'replay', c.seed, scn])
    events = vlib.read_ndjson(trace)
    r = vlib.validate_trace('Trace_LibraryListing', trace, n_events=len(events))
    for x in r['rejects']:
        print('VIOLATION property=X03 replay=%s clause=%s' % (path, x['clause']))
    if not r['rejects']:
        print('X03 replay: accepted')
    return vlib.EXIT_VIOLATION if r['rejects'] else vlib.EXIT_OK
