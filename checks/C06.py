"""C06 - molecule assignment equals the ground-truth duplicate structure.
Spec: spec/MolAssign.tla (D-level) + spec/MolAssignProps.tla (P-level), spec/Trace_MolAssign.tla.
Driver: harness/drive_molassign.py (mode c06). Shared machinery: harness/molassign_check.py."""
import vlib
import molassign_check as mc

META = {
    'property_id': 'C06',
    'module': 'MolAssign',
    'technique': 'TLA+ spec of MoleculeIterator/add_fragment/write_tags (MolAssign.tla) model-checked by TLC against the '
                 'property operators of MolAssignProps.tla; the same operators judge (TLC trace validation) the partitions, '
                 'duplicate flags and af/TF/RC tags recorded from the real iterator on truth-simulated libraries, '
                 'including re-tagging of the tagged reads',
    'level_text': 'TLC exhaustively checks the design model (first-fit matching as coded for NLA / CHIC+radius / plain fragments, '
                  'both pooling methods, hamming 0/1/2 incl. N and unequal lengths, max-fragments cap, invalid fragments, '
                  'write_tags for every input duplicate-flag vector) in small constants with every action covered; the '
                  'as-coded deviations (duplicate bit never cleared on rank 0; plain Fragment.__eq__ ignoring the contig) are '
                  'negative controls. The real MoleculeIterator + write_tags run on generated libraries with known truth and '
                  'every recorded molecule is judged by TLC with the same property definitions.',
    'level_note': 'Trusted: TLC/SANY, CommunityModules, pysam as record container, the generator (abstract description '
                  'first, reads derived). Small-scope bounds for the model (<= 5 fragments); libraries <= 36/60 fragments. '
                  'Permissive readings (documented in docs/C06.md): single-linkage for "within the radius"/"linked by UMIs", '
                  'N counts as a match for hamming >= 1 (as the code base defines it), plain-fragment libraries with '
                  'ambiguous anchors are observations.',
    'design_ref': '3.6',
}


def run(tier):
    c = vlib.Check('C06', tier)
    vlib.sany('MolAssign')
    vlib.sany('Trace_MolAssign')
    q = tier == 'quick'
    sfx = 'q' if q else 't'
    design = [('c06hd1_' + sfx, mc.ALL_TAKE), ('c06hd2_' + sfx, mc.ALL_TAKE),
              ('c06hd0_' + sfx, mc.ALL_TAKE + ['TakeInvalid']),
              ('c06cap_' + sfx, mc.ALL_TAKE + ['Overflow', 'EjectCheck']), ('c06cap1_q', ['NewMolecule', 'Overflow', 'FinalFlush']),
              ('c06chicr_q', mc.ALL_TAKE), ('c06plain_q', mc.ALL_TAKE + ['EjectCheck']), ('c06plainr_q', mc.ALL_TAKE)]
    negative = [('c06cap_dup', ['Inv_C06_OnePrimary', 'Inv_C06_Idempotent']), ('c06plain_contig', ['Inv_C06_Homogeneous'])]
    covered = mc.run_mcs(c, design, negative, workers=4, par=4)
    missing = {'TakeInvalid', 'AddToMolecule', 'Overflow', 'NewMolecule', 'EjectCheck', 'SkipCheck', 'FinalFlush'} - covered
    if missing:
        raise vlib.MachineryError('vacuity: actions never taken in any design run: %s' % sorted(missing))
    events_all, r = mc.conformance(c, 'c06', tier, mc.key_c06)
    events = [e for e in events_all if e['ev'] == 'lib']          # probe events are observations only
    good = [e for i, e in enumerate(events_all, 1) if e['ev'] == 'lib' and i not in set(x['line'] for x in r['rejects'])
            and any(len(m['recs']) >= 2 for m in e['rounds'][0]) and len(e['rounds'][0]) >= 2][:4]
    if len(good) >= 4:
        def mut(evs):
            big = lambda e: max(range(len(e['rounds'][0])), key=lambda k: len(e['rounds'][0][k]['recs']))
            m0 = evs[0]['rounds'][0][big(evs[0])]
            m0['recs'][0]['dup'] = [True] * len(m0['recs'][0]['dup'])                 # no primary left
            m1 = evs[1]['rounds'][0][big(evs[1])]
            m1['recs'][1]['af'] = [x + 1 for x in m1['recs'][1]['af']]                # af disagrees with the size
            e2 = evs[2]; k = big(e2)
            other = [j for j in range(len(e2['rounds'][0])) if j != k][0]
            e2['rounds'][0][other]['recs'].append(e2['rounds'][0][k]['recs'].pop())  # fragment moved to another molecule
            e3 = evs[3]
            e3['rounds'][0][big(e3)]['recs'].pop()                                    # a fragment disappears
            return evs
        vlib.corrupt_selftest(c, 'Trace_MolAssign', good, mut, 'c06_flags_af_partition_drop')
        c.selftest('c06_all_four_corruptions_rejected', True, 'see previous entry')
    elif not r['rejects']:
        raise vlib.MachineryError('no accepted multi-fragment library available for the binding self-test')
    c.assumptions += ['libraries are fed to MoleculeIterator as an iterable of (R1, R2) tuples in the order the mate-pair '
                      'iterator releases a coordinate-sorted BAM (sorted by the start of the later mate)',
                      'the second tagging round re-uses the tagged pysam records in the same order; a subset (hd 0, no cap, NLA/CHiC) '
                      'is written to a coordinate-sorted BAM file and re-read through pysam + the MatePairIterator']
    keys = set((e['kind'], e['hd'], e['radius'] > 0, e['cap'], e['pooling'], len(e['frags']), len(e['rounds'][0])) for e in events)
    return c.finish(rule='directed libraries (every input duplicate-flag vector, UMI chains, cap, same coordinates on two contigs, '
                         'radius boundaries) + random truth-simulated libraries (1..8 cells, sites on both strands, UMIs at '
                         'distance 1/2, with N, other length, 1..5 copies with varying far ends, soft clips, invalid fragments, '
                         'pre-set duplicate flags; NLA / CHIC / plain; hamming 0/1/2; radius 0 and > 0; cap; pooling 0/1), each '
                         'tagged twice; a case is non-trivial/distinct by (kind, hd, radius>0, cap, pooling, #fragments, #molecules)',
                    exhaustive=False, extra_cov={'distinct_nontrivial': len(keys), 'libraries': len(events)})


def replay(path):
    return mc.replay('C06', path)
