"""C01 - demultiplexing conserves every read pair (demultiplexed XOR rejected).
Spec: spec/DemuxProps.tla (P-level), spec/Demux.tla (D-level), spec/Trace_Demux.tla. Driver: harness/drive_demux.py."""
import copy
import json
import os
from concurrent.futures import ThreadPoolExecutor

import vlib

META = {
    'property_id': 'C01',
    'module': 'Demux',
    'technique': 'TLA+ spec of the demultiplexer loader loop and its sinks (Demux.tla, property operators in DemuxProps.tla) '
                 'model-checked by TLC; the real DemultiplexingStrategyLoader.demultiplex / demux.py entry path is run on '
                 'generated FASTQ libraries, the sinks are re-read from disk and TLC judges every run with the same property '
                 'operators (Trace_Demux.tla); TLC-generated scenarios of the design are replayed into the real loader',
    'level_text': 'TLC exhaustively checks the design of the loop (one action per arm: accept, reject via base demultiplexer, raw '
                  'reject, base demultiplexer failure, generic error, cut-off, finish) against the conservation property for all '
                  'outcome matrices of 2-3 pairs x 2 strategies, all flag combinations; the six as-coded deviations (D2, D101, '
                  'D102, D103, D104, all) are negative controls. Real code: all 28 registered strategies, paired / single end, with / '
                  'without rejects handle, joint / per-cell sinks (real HandleLimiter), maxReadPairs, several lanes, an earlier run into the same output prefix, every phred 0..93, 13 '
                  'header classes; every run is judged by TLC.',
    'level_note': 'Trusted: TLC/SANY, CommunityModules, the driver\'s lexical projection of the output files (4-line grouping, '
                  'header split on ; and :, id token regex), stdlib gzip as reader. "Demultiplexable" is what the strategy object '
                  'itself returns for the identical records when called directly.'
                  ' HandleLimiter fault handling is C19.',
    'design_ref': '3.1',
}

NEG = [('D2', ['Inv_C01_Once', 'Inv_C01_Counters']), ('D101', ['Inv_C01_WellFormed']), ('D102', ['Inv_C01_Once']),
       ('D103', ['Inv_C01_Once']), ('D104', ['Inv_C01_Once']),
       ('S_append_existing', ['Inv_C01_AtMostOnce', 'Inv_C01_Counters']), ('impl', ['Inv_C01_Once', 'Inv_C01_Counters', 'Inv_C01_WellFormed'])]
CELL_ACTIONS_Q = ['ReadPair', 'WriteAccepted', 'RejectViaBase', 'HandleError', 'Finish']   # per-cell configs: fewer classes
CELL_ACTIONS_T = ['ReadPair', 'WriteAccepted', 'RejectViaBase', 'RejectRaw', 'Finish']


def _count(ev, kind, p):
    return sum(1 for sk in ev[kind] for r in sk['mates'][0]['recs'] if r['id'] == p) if ev[kind] else 0


def key_fn(ev, clause):
    """label of the failing case (never a verdict): clause | entry | shape of the offending pairs | sink configuration"""
    if ev['ev'] == 'same':
        a = ev['runs']
        return '%s|%d_configs|%s' % (clause, len(a), 'single' if len(ev['strategies']) == 1 else 'multi')
    if clause == 'Inv_C01_RejectReason':       # K = 1: the strategy that gave no reason is known
        return '%s|%s|%s' % (clause, ev['strategies'][0], 'paired_end_input' if ev['mates'] == 2 else 'single_end_input')
    cfg = 'rej' if ev['hasRej'] else 'norej'
    n = ev['N'] if not ev['maxpairs'] else min(ev['N'], ev['maxpairs'])
    sign = lambda d: '-' if d < 0 else ('+' if d > 0 else '0')
    shape = []
    if ev['raised']:
        shape.append('raised=' + ev['raised'])
    if clause in ('Inv_C01_Once', 'Inv_C01_AtMostOnce'):
        k = len(ev['strategies'])
        for p in range(1, ev['N'] + 1):          # the first offending pair names the case
            t, r, a = _count(ev, 'tgt', p), _count(ev, 'rej', p), ev['acc'][p - 1].count('A')
            et, er = (a, (k - a) if ev['hasRej'] else 0) if p <= n else (0, 0)
            if (t, r) != (et, er):
                shape.append('acc=%s:target%s,rejects%s' % (''.join(sorted(set(ev['acc'][p - 1]))), sign(t - et), sign(r - er)))
                break
        if ev['percell']:
            shape.append('percell')
    elif clause == 'Inv_C01_WellFormed':
        streams = [(kind, m) for kind in ('tgt', 'rej') for sk in ev[kind] for m in sk['mates']]
        broken = [kind for kind, m in streams if m['nlines'] != 4 * len(m['recs']) or any(r['c0'] != '@' for r in m['recs'])]
        if broken:
            raw = any(any(t[0] == 'Rr' for t in r.get('tags', [])) for sk in ev['rej'] for m in sk['mates'] for r in m['recs'])
            shape.append('rejects_glued_after_raw_fallback' if raw and 'rej' in broken else 'not_4_line_records_in_' + broken[0])
        else:
            last = all(i == len(m['recs']) - 1 for _, m in streams for i, r in enumerate(m['recs']) if r['sl'] != r['ql'])
            shape.append('seq_qual_length_differs' + ('_last_record_only' if last else ''))
        if ev.get('nofinalnl'):
            shape.append('input_without_final_newline')
    elif clause == 'Inv_C01_Counters':
        nt = sum(len(sk['mates'][0]['recs']) for sk in ev['tgt'])
        shape.append('yields%swritten' % {'-': '<', '+': '>', '0': '='}[sign(sum(ev['yields']) - nt)])
        if any('E' in row for row in ev['acc']):
            shape.append('error_arm')
    if ev.get('prior'):
        cfg += '+after_%s_into_same_prefix' % ev['prior']
    if ev.get('lanes', 1) > 1:
        cfg += '+lanes' + (':cutoff_' + ev['shape'] if ev.get('shape') else '')
    if clause == 'Inv_C01_NoForeign' and ev['percell']:
        shape.append('percell')
    return '%s|%s|%s|%s' % (clause, ev['entry'], ','.join(shape)[:120] or '-', cfg)


def what_fn(ev, clause):
    if ev['ev'] == 'same':
        return '%s: demultiplexed output differs between sink configurations %s of the same library, strategies %s' % (
            clause, [x['cfg'] for x in ev['runs']], ev['strategies'])
    return '%s fails: strategies=%s entry=%s mates=%d rejects=%s percell=%s maxpairs=%d N=%d raised=%r processed=%d yields=%s' % (
        clause, ev['strategies'], ev['entry'], ev['mates'], ev['hasRej'], ev['percell'], ev['maxpairs'], ev['N'], ev['raised'],
        ev['processed'], ev['yields'])


def _validate_chunks(c, events, tag):
    """split a big trace into files of bounded size, validate them (3 TLC processes side by side)"""
    chunks, cur, size = [], [], 0
    for e in events:
        s = len(json.dumps(e, separators=(',', ':')))
        if cur and size + s > 12_000_000:
            chunks.append(cur)
            cur, size = [], 0
        cur.append(e)
        size += s
    if cur:
        chunks.append(cur)

    def one(i):
        p = os.path.join(vlib.scratch(), '%s_%03d.ndjson' % (tag, i))
        vlib.write_ndjson(p, chunks[i])
        return vlib.validate_trace('Trace_Demux', p, n_events=len(chunks[i]), timeout=3000)
    with ThreadPoolExecutor(3) as ex:
        results = list(ex.map(one, range(len(chunks))))
    return list(zip(chunks, results))


def _selftest(c, events):
    """binding self-test: every clause of the property must be able to reject a corrupted copy of an accepted run"""
    good = None
    for e in events:
        if (e['ev'] == 'run' and e['mates'] == 2 and e['hasRej'] and not e['percell'] and not e['raised'] and len(e['strategies']) == 1 and e['logged']
                and len(e['tgt'][0]['mates'][0]['recs']) >= 3 and len(e['rej'][0]['mates'][0]['recs']) >= 2):
            good = e
            break
    if good is None:
        raise vlib.MachineryError('no accepted run suitable for the binding self-test')
    muts = []

    def mut(name, expect):
        def deco(f):
            e = copy.deepcopy(good)
            f(e)
            e['tid'] = len(muts) + 1
            muts.append((name, expect, e))
        return deco

    @mut('control_unchanged', 'ok')
    def _(e):
        pass

    @mut('drop_target_record_of_mate2', 'Inv_C01_WellFormed')
    def _(e):
        e['tgt'][0]['mates'][1]['recs'].pop()

    @mut('drop_target_record_and_its_lines_mate2', 'Inv_C01_MateSync')
    def _(e):
        e['tgt'][0]['mates'][1]['recs'].pop()
        e['tgt'][0]['mates'][1]['nlines'] -= 4

    @mut('lose_one_pair_from_both_mates', 'Inv_C01_Once')
    def _(e):
        for m in e['tgt'][0]['mates']:
            m['recs'].pop()
            m['nlines'] -= 4

    @mut('duplicate_reject_record', 'Inv_C01_AtMostOnce')
    def _(e):
        for m in e['rej'][0]['mates']:
            m['recs'].append(copy.deepcopy(m['recs'][-1]))
            m['nlines'] += 4

    @mut('swap_two_target_records', 'Inv_C01_Order')
    def _(e):
        for m in e['tgt'][0]['mates']:
            m['recs'][0], m['recs'][1] = m['recs'][1], m['recs'][0]

    @mut('alter_reject_quality', 'Inv_C01_RejectFaithful')
    def _(e):
        r = e['rej'][0]['mates'][1]['recs'][0]
        r['qual'] = r['qual'][:-1] + ('!' if r['qual'][-1:] != '!' else '#') if r['qual'] else '!'
        r['ql'] = len(r['qual'])
        r['sl'] = r['ql']

    @mut('strip_reject_reason', 'Inv_C01_RejectFaithful')
    def _(e):
        r = e['rej'][0]['mates'][0]['recs'][0]
        r['tags'] = [t for t in r['tags'] if t[0] != 'RR']

    @mut('empty_reject_reason', 'Inv_C01_RejectReason')
    def _(e):
        for m in e['rej'][0]['mates']:
            m['recs'][0]['tags'] = [[t[0], '' if t[0] == 'RR' else t[1]] for t in m['recs'][0]['tags']]

    @mut('yield_counter_plus_one', 'Inv_C01_Counters')
    def _(e):
        e['yields'][0] += 1

    @mut('log_counter_differs', 'Inv_C01_Counters')
    def _(e):
        e['logProcessed'] += 1

    @mut('mate_ids_shifted', 'Inv_C01_MateSync')
    def _(e):
        recs = e['tgt'][0]['mates'][1]['recs']
        recs[0]['id'], recs[1]['id'] = recs[1]['id'], recs[0]['id']

    @mut('foreign_record', 'Inv_C01_NoForeign')
    def _(e):
        for m in e['tgt'][0]['mates']:
            m['recs'][0]['id'] = 0

    @mut('stale_records_of_an_earlier_run_left_in_sink', 'Inv_C01_NoForeign')
    def _(e):
        for m in e['tgt'][0]['mates']:
            m['recs'].insert(0, dict(m['recs'][0], id=e['N'] + 1))
            m['nlines'] += 4

    @mut('records_of_an_earlier_test_run_appended_to', 'Inv_C01_AtMostOnce')
    def _(e):
        for m in e['tgt'][0]['mates']:
            m['recs'].insert(0, dict(m['recs'][0]))
            m['nlines'] += 4

    @mut('glued_record', 'Inv_C01_WellFormed')
    def _(e):
        e['rej'][0]['mates'][0]['nlines'] -= 1

    p = os.path.join(vlib.scratch(), 'selftest_demux.ndjson')
    vlib.write_ndjson(p, [m[2] for m in muts])
    r = vlib.validate_trace('Trace_Demux', p, n_events=len(muts))
    got = {x['tid']: x['clause'] for x in r['rejects']}
    for i, (name, expect, _) in enumerate(muts, start=1):
        c.selftest(name, got.get(i, 'ok') == expect, 'expected %s, TLC said %s' % (expect, got.get(i, 'ok')))


def run(tier):
    c = vlib.Check('C01', tier)
    for m in ('DemuxProps', 'Demux', 'Trace_Demux'):
        vlib.sany(m)
    q = tier == 'quick'
    # exhaustive model checking: design variants pass with every action covered, every as-coded deviation fails
    jobs = [('pass', 'MC_Demux_design_q.cfg', None, None), ('pass', 'MC_Demux_design_cells_q.cfg', None, CELL_ACTIONS_Q)]
    if not q:
        jobs += [('pass', 'MC_Demux_design_t.cfg', None, None), ('pass', 'MC_Demux_design_cells_t.cfg', None, CELL_ACTIONS_T)]
    jobs += [('fail', 'MC_Demux_%s_q.cfg' % d, inv, None) for d, inv in NEG]

    def mc(job):
        kind, cfg, inv, acts = job
        big = cfg.endswith('_t.cfg')
        if kind == 'pass':
            return kind, vlib.mc('Demux', cfg, expect='pass', workers=8 if big else 3, timeout=1500, actions_required=acts,
                                 heap='6g' if big else '2g')
        return kind, vlib.mc('Demux', cfg, expect='fail', expect_inv=inv, workers=2, timeout=600, heap='2g')
    with ThreadPoolExecutor(4) as ex:
        for kind, r in ex.map(mc, jobs):
            c.add_mc(r, 'design' if kind == 'pass' else 'negative_control')

    # spec -> code: every finished behaviour of the (realisable) design model is a scenario for the real loader
    g = vlib.scenarios('Demux', 'MC_Demux_gen_%s.cfg' % ('q' if q else 't'), timeout=900)
    scns = g['scenarios']
    if not scns:
        raise vlib.MachineryError('the generator configuration produced no scenario')
    rng_pick = scns if q else scns
    if q and len(scns) > 150:
        import random
        rng_pick = random.Random(c.seed).sample(scns, 150)
    sp = os.path.join(vlib.scratch(), 'scenarios.json')
    with open(sp, 'w') as f:
        json.dump(rng_pick, f)

    trace = os.path.join(vlib.scratch(), 'demux.ndjson')
    vlib.run_driver('drive_demux.py', [trace, tier, c.seed, sp], timeout=3000)
    events = vlib.read_ndjson(trace)
    runs = [e for e in events if e['ev'] == 'run']
    n_rej = 0
    for chunk, r in _validate_chunks(c, events, 'demux'):
        c.add_trace_result(r, chunk, key_fn, what_fn, sample_n=0)
        n_rej += len(r['rejects'])
    # a rejected "same" event is replayed from the runs of its group
    by_grp = {}
    for e in runs:
        by_grp.setdefault(e['grp'], []).append(e)
    for v in c.violations:
        ev = v['payload']['event']
        v['payload']['runs'] = by_grp.get(ev['grp'], []) if ev['ev'] == 'same' else [ev]
        v['payload']['event'] = {k: x for k, x in ev.items() if k not in ('inp', 'tgt', 'rej', 'acc', 'classes')}
    c.samples.extend([vlib._shorten({k: e[k] for k in ('ev', 'entry', 'strategies', 'mates', 'hasRej', 'percell', 'maxpairs', 'N',
                                                        'raised', 'processed', 'yields', 'logProcessed', 'logYields')})
                      for e in runs[:2] + [e for e in runs if e['entry'] == 'cli'][:1] + [e for e in runs if 'scn' in e][:1]])
    if n_rej == 0:
        _selftest(c, events)
    else:
        # the binding is still demonstrated on an accepted run, if there is one
        rejected_tids = set(v['payload']['event']['tid'] for v in c.violations)
        ok_events = [e for e in events if e['tid'] not in rejected_tids]
        pth = os.path.join(vlib.scratch(), 'accepted_subset.ndjson')
        cand = [e for e in ok_events if e['ev'] == 'run' and e['mates'] == 2 and e['hasRej'] and not e['percell']][:40]
        if cand:
            vlib.write_ndjson(pth, cand)
            rr = vlib.validate_trace('Trace_Demux', pth, n_events=len(cand))
            bad = set(x['tid'] for x in rr['rejects'])
            try:
                _selftest(c, [e for e in cand if e['tid'] not in bad])
            except vlib.MachineryError as ex:
                if 'no accepted run' not in str(ex):
                    raise
    acc_stats = {}
    for e in runs:
        for row in e['acc']:
            for nme, a in zip(e['strategies'], row):
                acc_stats.setdefault(nme, {'A': 0, 'N': 0, 'E': 0})[a] += 1
    distinct = set()
    for e in runs:
        for cl, row in zip(e['classes'], e['acc']):
            distinct.add((tuple(e['strategies']), e['mates'], e['hasRej'], e['percell'], bool(e['maxpairs']), cl[0],
                          cl[1].split('(')[0], tuple(row)))
    c.assumptions += ['"demultiplexable" = the strategy object, called directly on the identical FastqRecord tuple, returns records '
                      'that format (recorded as acc)',
                      'maxReadPairs >= 1 (demux.py never passes 0)',
                      'a final record without trailing newline at the very end of a file is not treated as malformed']
    return c.finish(rule='one trace = one real execution of DemultiplexingStrategyLoader.demultiplex (or of demux.py) on a generated '
                         'library under one sink configuration, sinks re-read from disk; plus one event per library comparing the '
                         'demultiplexed ids of its configurations', exhaustive=False,
                    extra_cov={'distinct_nontrivial': len(distinct), 'real_runs': len(runs),
                               'pair_strategy_executions': sum(e['N'] * len(e['strategies']) for e in runs),
                               'scenarios_replayed': len([e for e in runs if 'scn' in e]),
                               'cli_runs': len([e for e in runs if e['entry'] == 'cli']),
                               'runs_after_earlier_run_into_same_prefix': len([e for e in runs if e.get('prior')]),
                               'runs_with_two_lanes': len([e for e in runs if e.get('lanes', 1) > 1]),
                               'cli_runs_autodetected_strategy': len([e for e in runs if e.get('cli_auto')]),
                               'runs_input_without_final_newline': len([e for e in runs if e.get('nofinalnl')]),
                               'runs_crlf_input': len([e for e in runs if e.get('eol') == 'crlf']),
                               'runs_long_library_name': len([e for e in runs if len(e['lib']) > 50]),
                               'runs_empty_library_name': len([e for e in runs if e['lib'] == '']),
                               'runs_low_rlimit_nofile': len([e for e in runs if e.get('nofile')]),
                               'oracle_outcomes_per_strategy': acc_stats,
                               'divergences': c.notes.get('DIVERGENCE', 0)})


def replay(path):
    with open(path) as f:
        rp = json.load(f)
    case = os.path.join(vlib.scratch(), 'case.json')
    with open(case, 'w') as f:
        json.dump({'runs': rp['case']['runs']}, f)
    p = os.path.join(vlib.scratch(), 'replay.ndjson')
    vlib.run_driver('drive_demux.py', [p, 'replay', case])
    r = vlib.validate_trace('Trace_Demux', p)
    for x in r['rejects']:
        print('  rejected: %s (tid %d)' % (x['clause'], x['tid']))
    if r['rejects']:
        print('VIOLATION property=C01 replay=%s' % path)
        return 1
    print('replay: accepted')
    return 0
