"""X04 (extension, not a listed property): methylation.MethylationCountMatrix - a stream of (sample, location, methylated?)
observations is counted exactly once each into the cell of its (sample, bin), methylated and unmethylated apart, totals
conserved, independent of the order of the stream and of how it is split into jobs / worker processes and merged with update();
prune / delete_location / item assignment / frames (get_frame, get_bulk_frame incl. threads, get_bulk_column) show exactly
that matrix.  Also the producer bamToMethylationCalls.get_methylation_count_matrix (count_methylation_binned per job) on
synthetic BAM files.  Numeric parts (variance, sample distance matrix) are left out.
Spec: spec/MethylationMatrixP.tla, spec/MethylationMatrix.tla, spec/Trace_MethylationMatrix.tla; driver harness/drive_methmatrix.py.
Not registered in MANIFEST.json (properties.jsonl is fixed)."""
import concurrent.futures
import json
import os
import random

import vlib

EXTENSION = True

DESIGN_Q = [('count_q', ['Observe', 'Touch', 'EndCount', 'SomeMerge', 'EndMerge', 'Finish']),
            ('dyad_q', ['Observe', 'EndCount', 'SomeMerge', 'EndMerge', 'Finish']),
            ('prune_q', ['Observe', 'Touch', 'EndCount', 'SomeMerge', 'EndMerge', 'Finish']),
            ('post_q', ['Observe', 'Touch', 'EndCount', 'SomeMerge', 'EndMerge', 'SetItem', 'PruneM', 'Delete', 'FromCounts', 'Finish'])]
DESIGN_T = [('count_t', DESIGN_Q[0][1]), ('dyad_t', DESIGN_Q[1][1]), ('post_t', DESIGN_Q[3][1]), ('span4_t', DESIGN_Q[0][1])]
NEG = [('dyad_after_bounds_q', ['Inv_X04_Counted', 'Inv_X04_SplitIndependent', 'Inv_X04_Conserved']),
       ('setitem_no_site_q', ['Inv_X04_SitesCoverCells', 'Inv_X04_PostOp']),
       ('ctor_no_sites_q', ['Inv_X04_SitesCoverCells', 'Inv_X04_PostOp']),
       ('prune_none_q', ['Inv_X04_NoCrash']),
       ('unaligned_q', ['Inv_X04_Counted', 'Inv_X04_SplitIndependent', 'Inv_X04_Conserved']),
       ('mut_swap_um_q', ['Inv_X04_Counted']),
       ('mut_prune_le_q', ['Inv_X04_SplitIndependent', 'Inv_X04_JobPrune', 'Inv_X04_PostOp']),
       ('impl_q', ['Inv_X04_Counted', 'Inv_X04_SplitIndependent', 'Inv_X04_Conserved']),
       ('impl_asfound_q', ['Inv_X04_SitesCoverCells', 'Inv_X04_PostOp', 'Inv_X04_NoCrash'])]
GEN = [('gen_count', 500, 6000), ('gen_prune', 300, 4000), ('gen_post', 600, 8000), ('gen_post2', 300, 4000)]   # (cfg, quick sample, thorough sample)


def key_fn(ev, clause):
    """clause strings come from TLC and carry the diagnosis (which named deviation reproduces the observation)"""
    if ev['ev'] == 'api':
        return 'api|%s' % clause
    return 'bam|%s' % clause


def what_fn(ev, clause):
    if ev['ev'] == 'api':
        return '%s: operations %s (jobk=%s jobmv=%s) raised_at=%s %s' % (clause, json.dumps(ev['ops'])[:400], ev['jobk'], ev['jobmv'],
                                                                        ev['raised_at'], ev['exc'])
    return '%s: %d reads on contigs %s, runs %s' % (clause, len(ev['reads']), ev['contigs'],
                                                  json.dumps([{k: v for k, v in r.items() if k not in ('cells', 'sites')} for r in ev['runs']])[:600])


def _parallel_mc(c, jobs):
    def one(j):
        kind, cfg, arg, workers = j
        if kind == 'design':
            return vlib.mc('MethylationMatrix', cfg, expect='pass', actions_required=arg, workers=workers, heap='3g')
        return vlib.mc('MethylationMatrix', cfg, expect='fail', expect_inv=arg, workers=workers, heap='2g')
    with concurrent.futures.ThreadPoolExecutor(max_workers=4) as ex:
        res = list(ex.map(one, jobs))
    for j, r in zip(jobs, res):
        c.add_mc(r, 'design' if j[0] == 'design' else 'negative_control')


def _selftests(c, events):
    import copy
    api = [e for e in events if e['ev'] == 'api' and not e['raised_at'] and e['dumps'] and len(e['dumps'][0]['cells']) >= 2
           and e['dumps'][0]['counted'] and e['dumps'][0]['fm']['outcome'] == 'ok' and e['jobk'] == 0 and e['jobmv'] == -1
           and len(e['dumps'][0]['bulk']['rows']) >= 1]
    bam = [e for e in events if e['ev'] == 'bam' and any(r['outcome'] == 'ok' and len(r['cells']) >= 2 for r in e['runs'])]
    if not api or not bam:
        raise vlib.MachineryError('no accepted execution rich enough for the binding self-tests')
    a0, b0 = api[0], bam[0]

    def cell(e):
        e['dumps'][0]['cells'][0][3] += 1

    def swap(e):            # methylated and unmethylated swapped in one cell
        cl = [x for x in e['dumps'][0]['cells'] if x[2] != x[3]]
        cl[0][2], cl[0][3] = cl[0][3], cl[0][2]

    def frame(e):
        v = e['dumps'][0]['fm']['vals']
        v[0][0] = 7 if v[0][0] != 7 else 8

    def bulk(e):
        e['dumps'][0]['bulk']['rows'][0]['met'] += 1

    def site(e):
        e['dumps'][0]['sites'].pop()

    def dropobs(e):         # the description loses an observation the code has counted
        i = [k for k, o in enumerate(e['ops']) if o['op'] == 'obs'][0]
        e['ops'][i]['op'] = 'touch'

    def bcell(e):
        r = [r for r in e['runs'] if r['outcome'] == 'ok' and len(r['cells']) >= 2][0]
        r['cells'][0][2] += 1

    def bcall(e):           # the description says another call than the XM tag that went through the code
        for rd in e['reads']:
            for i, ch in enumerate(rd['calls']):
                if ch in 'Zz' and not rd['dup'] and not rd['qcfail'] and rd['mapq'] >= 30:
                    rd['calls'][i] = 'z' if ch == 'Z' else 'Z'
                    return
        e['reads'][0]['calls'][0] = 'Z' if e['reads'][0]['calls'][0] != 'Z' else 'z'
    muts = [('corrupt_cell', a0, cell), ('swap_methylated_unmethylated', [e for e in api if any(x[2] != x[3] for x in e['dumps'][0]['cells'])][0], swap),
            ('corrupt_frame_value', a0, frame), ('corrupt_bulk_row', a0, bulk), ('drop_site', a0, site),
            ('drop_observation_from_description', a0, dropobs), ('corrupt_bam_cell', b0, bcell), ('corrupt_bam_call', b0, bcall)]
    evs = []
    for k, (name, src, m) in enumerate(muts):
        e = copy.deepcopy(src)
        e['tid'] = 1000 + k
        m(e)
        evs.append(e)
    evs += [dict(copy.deepcopy(a0), tid=2000), dict(copy.deepcopy(b0), tid=2001)]
    p = os.path.join(vlib.scratch(), 'selftest_methmatrix.ndjson')
    vlib.write_ndjson(p, evs)
    r = vlib.validate_trace('Trace_MethylationMatrix', p, n_events=len(evs))
    hit = {x['tid']: x['clause'] for x in r['rejects']}
    for k, (name, src, m) in enumerate(muts):
        c.selftest(name, (1000 + k) in hit, hit.get(1000 + k, 'NOT REJECTED'))
    c.selftest('untouched_copies_accepted', 2000 not in hit and 2001 not in hit, str({t: hit.get(t) for t in (2000, 2001)}))


def run(tier):
    c = vlib.Check('X04', tier)
    q = tier == 'quick'
    for m in ('MethylationMatrixP', 'MethylationMatrix', 'Trace_MethylationMatrix'):
        vlib.sany(m)
    jobs = [('design', 'MC_MethylationMatrix_%s.cfg' % n, acts, 2) for n, acts in DESIGN_Q]
    jobs += [('neg', 'MC_MethylationMatrix_%s.cfg' % n, inv, 2) for n, inv in NEG]
    if not q:
        jobs += [('design', 'MC_MethylationMatrix_%s.cfg' % n, acts, 4) for n, acts in DESIGN_T]
    _parallel_mc(c, jobs)
    rng = random.Random(c.seed)
    use = [('%s_%s' % (name, 'q' if q else 't'), nq if q else nt) for name, nq, nt in GEN]
    with concurrent.futures.ThreadPoolExecutor(max_workers=2) as ex:
        pools = list(ex.map(lambda x: vlib.scenarios('MethylationMatrix', 'MC_MethylationMatrix_%s.cfg' % x[0],
                                                     env={'JAVA_TOOL_OPTIONS': '-Xmx3g'})['scenarios'], use))
    chosen, pool_n = [], 0
    for (name, n), g in zip(use, pools):
        if len(g) < 300:
            raise vlib.MachineryError('scenario generation %s gave only %d operation sequences' % (name, len(g)))
        pool_n += len(g)
        if n is not None and n < len(g):
            rng.shuffle(g)
            g = g[:n]
        chosen += g
    scn_path = os.path.join(vlib.scratch(), 'x04_scenarios.json')
    with open(scn_path, 'w') as f:
        json.dump(chosen, f)
    trace = os.path.join(vlib.scratch(), 'methmatrix.ndjson')
    vlib.run_driver('drive_methmatrix.py', [trace, tier, c.seed, scn_path], timeout=3000)
    events = vlib.read_ndjson(trace)
    r = vlib.validate_trace('Trace_MethylationMatrix', trace, n_events=len(events), heap='8g')
    bam = [e for e in events if e['ev'] == 'bam']
    c.add_trace_result(r, events, key_fn, what_fn, n_traces=len(events), sample_n=1)
    c.samples.append({'note': 'api event = one operation sequence through MethylationCountMatrix objects; bam event = one BAM file through '
                              'get_methylation_count_matrix under several (bin_size, bp_per_job, threads, stranded, dyad, min_samples)',
                      'api_sequences': len(events) - len(bam), 'scenario_sequences': sum(1 for e in events if e['src'] == 'scenario'),
                      'dumps': sum(len(e.get('dumps', [])) for e in events), 'bam_files': len(bam),
                      'get_methylation_count_matrix_runs': sum(len(e['runs']) for e in bam),
                      'runs_with_2_processes': sum(1 for e in bam for x in e['runs'] if x['threads'] == 2)})
    c.assumptions += ['beta is compared within 1e-6 of methylated/(methylated+unmethylated); variance only as NaN <=> no sample has a call; '
                      'get_sample_distance_matrix is not covered',
                      'XM holds one letter per aligned base (the convention of the repository\'s own TAPS tagger)',
                      'reads are pure M with optional soft clips; no known-variants VCF, no contexts_to_capture, no alt_spans']
    rejected = set(x['tid'] for x in r['rejects'])
    if not c.violations:
        _selftests(c, [e for e in events if e['tid'] not in rejected])
    return c.finish(rule='TLC-enumerated operation sequences (<= 3 observations + touch, 2 jobs, every merge order, per-job prune, one or two '
                         'post operations) + random sequences of up to 60 observations over 1-4 jobs in two stream orders + random BAM files '
                         'through get_methylation_count_matrix for 6-8 splits each',
                    extra_cov={'distinct_nontrivial': len(set(json.dumps(e.get('ops', e.get('reads')), sort_keys=True) for e in events)),
                               'scenario_pool': pool_n})


def replay(path):
    with open(path) as f:
        case = json.load(f)['case']['event']
    if case['ev'] != 'api':
        print('X04: bam cases are regenerated from the seed: re-run ./check X04 with VERIF_SEED of the replay file')
        return 0
    c = vlib.Check('X04', 'replay')
    scn = os.path.join(vlib.scratch(), 'replay_scn.json')
    with open(scn, 'w') as f:
        json.dump([{'ops': case['ops'], 'njobs': case['njobs'], 'jobk': case['jobk'], 'jobmv': case['jobmv']}], f)
    trace = os.path.join(vlib.scratch(), 'replay.ndjson')
    vlib.run_driver('drive_methmatrix.py', [trace, 'replay', c.seed, scn])
    events = vlib.read_ndjson(trace)
    r = vlib.validate_trace('Trace_MethylationMatrix', trace, n_events=len(events))
    for x in r['rejects']:
        print('VIOLATION property=X04 replay=%s clause=%s' % (path, x['clause']))
    if not r['rejects']:
        print('X04 replay: accepted')
    return vlib.EXIT_VIOLATION if r['rejects'] else vlib.EXIT_OK
