"""C03 - barcode correction assigns the unique nearest whitelisted barcode or nothing.
Spec: spec/Barcode.tla (D-level) + spec/BarcodeP.tla (P-level), spec/Trace_Barcode.tla. Driver: harness/drive_barcode.py."""
import json
import os
from concurrent.futures import ThreadPoolExecutor

import vlib

META = {
    'property_id': 'C03',
    'module': 'Barcode',
    'technique': 'TLA+ spec of the barcode file parser / Hamming expansion / lookup (Barcode.tla) model-checked by TLC against the '
                 'nearest-neighbour definition (BarcodeP.tla); every initial state of the model (barcode directory + constructor '
                 'arguments) is replayed into the real BarcodeParser and all strings are looked up; shipped whitelists are '
                 'queried on members, neighbours and tie points; TLC judges every recorded answer with BarcodeP!Nearest',
    'level_text': 'Exhaustive in small constants (alphabet 3-5 letters, length 2-3, <= 3 whitelist lines, k in 0..2, three file '
                  'formats, eager and lazy loading): Lookup = UniqueNearest in every loaded state; four edits of the algorithm '
                  'and the as-coded two-files-per-alias staleness fail as negative controls. Real code: exhaustive replay of '
                  'the small scenarios (all 5^L queries each) and sampled queries on the shipped 6-17 nt whitelists.',
    'level_note': 'Trusted: TLC/SANY, CommunityModules, the 15-line independent whitelist reader of the driver, the letter coding. '
                  'Beyond the small constants the evidence is the sampled shipped-whitelist queries.',
    'design_ref': '3.3',
}

NEG = [('tie_first', 'Inv_C03_Nearest'), ('tie_same_index', 'Inv_C03_NoTieAssigned'), ('circle_noN', 'Inv_C03_Nearest'), ('idx_line', 'Inv_C03_Nearest'),
       ('falsy_index', 'Inv_C03_Exact'), ('getitem_noexpand', 'Inv_C03_Nearest'), ('eager_expand_gated', 'Inv_C03_Nearest'),
       ('stale_ext', 'Inv_C03_Nearest')]
NEG_INVS = ['Inv_C03_Nearest', 'Inv_C03_NoTieAssigned', 'Inv_C03_Exact', 'Inv_C03_Lookup', 'Inv_C03_Parse']


def key_fn(ev, clause):
    c = clause.split(' ')[0]
    if ev['ev'] == 'small':
        return '%s|small|k=%d|%s|%s|%s|n=%d' % (c, ev['k'], ev['via'], ('lazy_' + ev.get('touch', 'lookup')) if ev['lazy'] else 'eager_lazyLoad=' + ev.get('lazyarg', 'none'), '+'.join(ev['fmt']),
                                                len(ev['wl']))
    return '%s|shipped|%s|k=%s|first_touch=%s' % (c, ev.get('alias'), ev.get('k'), ev.get('touch'))


def what_fn(ev, clause):
    if ev['ev'] == 'small':
        return '%s (whitelist %s, lazy=%s via=%s)' % (clause, json.dumps(ev['wl']), ev['lazy'], ev['via'])
    return '%s fails on %s' % (clause, json.dumps(ev)[:300])


def _split_groups(events, max_events):
    """Chunks of whole groups (a 'wl' event and its 'q' events stay together; 'small' events are independent)."""
    chunks, cur = [], []
    for e in events:
        if len(cur) >= max_events and e['ev'] in ('small', 'wl'):
            chunks.append(cur)
            cur = []
        cur.append(e)
    if cur:
        chunks.append(cur)
    return chunks


def _validate_parallel(c, events, max_events, par):
    sc = vlib.scratch()
    chunks = _split_groups(events, max_events)
    jobs = []
    for i, ch in enumerate(chunks):
        p = os.path.join(sc, 'c03_chunk_%d.ndjson' % i)
        vlib.write_ndjson(p, ch)
        cfg = os.path.join(sc, 'c03_chunk_%d.cfg' % i)
        vlib.write_cfg(cfg, init='TInit', next_='TNext', postcondition='TAccepted')
        jobs.append((p, cfg, ch))
    with ThreadPoolExecutor(max_workers=par) as ex:
        res = list(ex.map(lambda j: vlib.validate_trace('Trace_Barcode', j[0], cfg=j[1], n_events=len(j[2]), heap='3g'), jobs))
    rejects = 0
    for (p, cfg, ch), r in zip(jobs, res):
        # a trace = one real execution: a small scenario (constructor + all lookups) or one shipped lookup
        c.add_trace_result(r, ch, key_fn, what_fn, n_traces=sum(1 for e in ch if e['ev'] != 'wl') - len(r['notes']), sample_n=0)
        rejects += len(r['rejects'])
    return rejects


def run(tier):
    c = vlib.Check('C03', tier)
    quick = tier == 'quick'
    vlib.scratch()
    vlib.sany('Barcode')
    vlib.sany('Trace_Barcode')
    acts = ['Construct', 'Detect', 'ParseLine', 'CircleStep', 'Resolve', 'NextFile', 'Lookup', 'Answer', 'GetItem']
    # negative controls in parallel with the design run (small models, 2 workers each)
    with ThreadPoolExecutor(max_workers=8) as ex:
        negs = [ex.submit(vlib.mc, 'Barcode', 'MC_Barcode_%s.cfg' % v, expect='fail', expect_inv=NEG_INVS, workers=2, coverage=False)
                for v, _ in NEG]
        c.mc_pass('Barcode', 'MC_Barcode_design_q.cfg', actions_required=acts, workers=8 if quick else None, timeout=600)
        for n in negs:
            c.add_mc(n.result(), 'negative_control')
    if not quick:
        c.mc_pass('Barcode', 'MC_Barcode_design_2files.cfg', actions_required=acts[:6] + ['Lookup'], timeout=900)
        c.mc_pass('Barcode', 'MC_Barcode_design_t5.cfg', actions_required=acts, timeout=900)
        c.mc_pass('Barcode', 'MC_Barcode_design_t3.cfg', actions_required=acts, timeout=1500)
        c.mc_pass('Barcode', 'MC_Barcode_design_t.cfg', actions_required=acts, timeout=1800)

    # spec -> code: every initial state of the model is a scenario for the real parser
    scn = []
    for g in (['q', 'qo', 'qg', '2f'] if quick else ['t', 't3', 'qo', 'qg', '2f']):
        scn += vlib.scenarios('Barcode', 'MC_Barcode_gen_%s.cfg' % g, timeout=900)['scenarios']
    if not scn:
        raise vlib.MachineryError('no scenarios generated')
    sc = vlib.scratch()
    sf = os.path.join(sc, 'c03_scenarios.json')
    with open(sf, 'w') as f:
        json.dump(scn, f)
    trace = os.path.join(sc, 'barcode.ndjson')
    vlib.run_driver('drive_barcode.py', [trace, tier, c.seed, sf, 'both'])
    events = vlib.read_ndjson(trace)
    n_small = sum(1 for e in events if e['ev'] == 'small')
    if n_small != len(scn):
        raise vlib.MachineryError('driver replayed %d of %d scenarios' % (n_small, len(scn)))
    rejects = _validate_parallel(c, events, 2500 if quick else 6000, 4)
    c.samples.append(vlib._shorten([e for e in events if e['ev'] == 'small'][len(scn) // 2], 700))
    c.samples += [vlib._shorten(e) for e in events if e['ev'] == 'q' and not e['none'][0]][:2]
    c.samples += [vlib._shorten(e) for e in events if e['ev'] == 'q' and e['none'][0]][:1]

    # binding self-tests: corrupt recorded answers of accepted observations -> TLC must reject
    if not rejects:
        smalls = [e for e in events if e['ev'] == 'small' and e['nfiles'] == 1 and e['k'] == 1 and len(e['wl']) == 2][:3]

        def mut_small(evs):
            a = next(x for x in evs[0]['ans'] if not x['none'][0] and x['d'] == 1)
            a['d'] = 0                                      # wrong distance
            b = next(x for x in evs[1]['ans'] if x['none'][0])
            b.update(none=[False, False, False], idx=evs[1]['wl'][0][1], bc=evs[1]['wl'][0][0], d=2)   # assigned beyond k / on a tie
            evs[2]['ans'] = evs[2]['ans'][1:]               # dropped observation
            return evs
        i0 = next(i for i, e in enumerate(events) if e['ev'] == 'wl' and e['k'] == 1)
        grp = [events[i0]] + [e for e in events[i0 + 1:i0 + 150] if e['ev'] == 'q']

        def mut_q(evs):
            hit = next(x for x in evs[1:] if not x['none'][0] and x['d'] == 1)
            other = next(en for en in evs[0]['entries'] if en[0] != hit['bc'])
            hit['idx'] = other[1]                           # index of another cell
            return evs
        # one TLC run for both groups: the 3 corrupted small events and the corrupted shipped lookup must all be rejected
        import copy
        bad = mut_small(copy.deepcopy(smalls)) + mut_q(copy.deepcopy(grp))
        r = vlib.validate_trace('Trace_Barcode', vlib.write_ndjson(os.path.join(vlib.scratch(), 'c03_selftest.ndjson'), bad))
        c.selftest('wrong_distance+assign_unassigned+dropped_answer+index_of_other_cell', len(r['rejects']) == 4,
                   '%d of 4 corrupted observations rejected' % len(r['rejects']))
    c.assumptions += ['whitelist files contain no exact duplicate barcodes and one file per alias (other cases are recorded as '
                      'observations, not judged)',
                      'index tokens are compared as text (str(index)); index tokens without leading zeros']
    nq = sum(1 for e in events if e['ev'] == 'q')
    return c.finish(rule='every initial state of the bounded model replayed into the real BarcodeParser with all 5^L strings looked '
                         'up (one trace per scenario) + sampled queries on shipped whitelists (one trace per lookup)',
                    exhaustive=False,
                    extra_cov={'distinct_nontrivial': n_small + nq, 'small_scenarios_replayed': n_small,
                               'small_lookups': sum(len(e['ans']) for e in events if e['ev'] == 'small'),
                               'shipped_lookups': nq,
                               'shipped_whitelists': sorted(set(e['alias'] for e in events if e['ev'] == 'wl'))})


def replay(path):
    with open(path) as f:
        rp = json.load(f)
    ev = rp['case']['event']
    sc = vlib.scratch()
    evf = os.path.join(sc, 'replay_event.json')
    with open(evf, 'w') as f:
        json.dump(ev, f)
    p = os.path.join(sc, 'replay.ndjson')
    vlib.run_driver('drive_barcode.py', [p, 'replay', 0, evf])
    r = vlib.validate_trace('Trace_Barcode', p)
    if r['rejects']:
        for x in r['rejects']:
            print('  ' + x['clause'][:300])
        print('VIOLATION property=C03 replay=%s' % path)
        return 1
    print('replay: accepted')
    return 0
