"""X01 (extension, not a listed property): utils.BlockZip lookups return the last written datum for any lookup history.
Spec: spec/BlockZip.tla, spec/Trace_BlockZip.tla. Not registered in MANIFEST.json (properties.jsonl is fixed)."""
import os
import vlib

EXTENSION = True


def run(tier):
    c = vlib.Check('X01', tier)
    vlib.sany('BlockZip'); vlib.sany('Trace_BlockZip')
    c.mc_pass('BlockZip', 'MC_BlockZip_design.cfg', actions_required=['Write', 'CloseAndReopen', 'Get'], workers=8)
    c.mc_negative('BlockZip', 'MC_BlockZip_mixed.cfg', expect_inv='Inv_X01_Lookup', workers=4)
    c.mc_negative('BlockZip', 'MC_BlockZip_region.cfg', expect_inv='Inv_X01_Lookup', workers=4)
    trace = os.path.join(vlib.scratch(), 'bz.ndjson')
    vlib.run_driver('drive_blockzip.py', [trace, tier, c.seed])
    events = vlib.read_ndjson(trace)
    r = vlib.validate_trace('Trace_BlockZip', trace, n_events=len(events))
    c.add_trace_result(r, events, lambda ev, cl: '%s|%s' % (cl, 'read_all' if ev['read_all'] else 'lazy'))
    good = [e for e in events if e['gets'] and len(set(w['c'] for w in e['writes'])) >= 1][:3]

    def mut(evs):
        evs[0]['gets'][0]['a'] = 'corrupted'
        return evs
    vlib.corrupt_selftest(c, 'Trace_BlockZip', good, mut, 'corrupt_answer')
    return c.finish(rule='random contig-contiguous (90%) and mixed (10%, observation only) write sequences + lookup histories, lazy and read_all',
                    extra_cov={'distinct_nontrivial': len(set(vlib.json.dumps(e['writes']) for e in events))})


def replay(path):
    print('X01: re-run the check with the recorded seed'); return 0
