"""X02 (extension, not a listed property): the whole pipeline FASTQ -> demultiplex -> (abstract aligner) -> tag -> count table
conserves read pairs and their identity end to end (E1 conservation, E2 identity, E3 deduplicated counts = true molecules,
E4 rejects stay out).  Spec: spec/Pipeline.tla (stage machine + P-level invariants, 7 negative controls),
spec/Trace_Pipeline.tla; driver harness/drive_pipeline.py (real loader / demux.py, real tagger CLI single and --multiprocess,
real create_count_table, chained through files re-read from disk).  Not registered in MANIFEST.json (properties.jsonl is fixed)."""
import json
import os
import random

import vlib

EXTENSION = True

INVS = ['Inv_X02_E1_Conservation', 'Inv_X02_E2_Identity', 'Inv_X02_E3_Counts', 'Inv_X02_E4_Rejects']
ACTIONS = ['Sequence', 'StartDemux', 'Demux', 'DemuxDone', 'Align', 'AlignDone', 'Tag', 'Count']
NEG = [('reject_also_demuxed', ['Inv_X02_E1_Conservation', 'Inv_X02_E4_Rejects']),
       ('decoder_drops_umi', ['Inv_X02_E2_Identity']),
       ('duplicates_counted', ['Inv_X02_E3_Counts']),
       ('molecule_ignores_cell', ['Inv_X02_E3_Counts']),
       ('multi_drops_unmapped', ['Inv_X02_E1_Conservation']),
       ('raw_cell', ['Inv_X02_E2_Identity']),
       ('mate_weight', ['Inv_X02_E3_Counts'])]


def key_fn(ev, clause):
    """clause|tagger mode (from the clause) | demultiplexer entry, barcode distance: a different failure gives a different key"""
    cfg = ev.get('cfg', {})
    return '%s|%s|hd%s' % (clause, cfg.get('entry', ''), cfg.get('hd', ''))


def what_fn(ev, clause):
    lib = ev.get('lib', {})
    return '%s: library %s (%d pairs, %d lanes, source %s) cfg=%s' % (clause, lib.get('name'), len(lib.get('pairs', [])),
                                                                       lib.get('lanes', 0), ev.get('src'), json.dumps(ev.get('cfg')))


def _judge(c, trace, events):
    r = vlib.validate_trace('Trace_Pipeline', trace, n_events=len(events), heap='8g')
    mach = [x for x in r['rejects'] if x['clause'].startswith('machinery_')]
    if mach:       # the harness' own abstract aligner did not place a read where the generator put it: not a verdict on the code
        raise vlib.MachineryError('abstract aligner disagrees with the generator: %r' % mach[:3])
    return r


def _selftests(c, events):
    """corrupt-a-field / drop-an-event binding self-tests on accepted executions"""
    wl = events[0]
    good = [e for e in events[1:] if e['runs'] and all(len(r['recs']) > 4 and r['tables'] for r in e['runs'])
            and e['demux']['r1'] and any(t['dup'] for t in e['runs'][0]['recs'])]
    if not good:
        raise vlib.MachineryError('no accepted execution rich enough for the binding self-tests')
    e0 = good[0]

    def mk(mutate):
        def f(evs):
            mutate(evs[1])
            return evs
        return f

    def sm(e):
        e['runs'][-1]['recs'][3]['SM'] = e['lib']['name'] + '_0'

    def drop(e):
        e['runs'][0]['recs'].pop(2)

    def cnt(e):
        t = [t for t in e['runs'][0]['tables'] if t['dedup']][0]
        t['rows'][0]['w2'] += 2

    def dup(e):
        [x for x in e['runs'][0]['recs'] if x['dup'] and x['mate'] == 1][0]['dup'] = False

    def ds(e):
        [x for x in e['runs'][-1]['recs'] if x['hasDS'] and not x['unmapped']][0]['DS'] += 1

    def rej(e):     # a rejected pair shows up among the demultiplexed ones as well
        for k in ('d1', 'd2'):
            e['demux'][k].append(dict(e['demux'][k][0], cx=e['demux']['r1'][0]['cx']))

    def truth(e):   # the generator's description says another UMI than the one that travelled through the pipeline
        p = e['lib']['pairs'][0]
        p['umi'] = ['T', 'T', 'T'] if p['umi'] != ['T', 'T', 'T'] else ['A', 'A', 'A']

    muts = [('corrupt_SM', sm), ('drop_tagged_record', drop), ('corrupt_count', cnt), ('clear_duplicate_flag', dup),
            ('corrupt_DS', ds), ('reject_also_demultiplexed', rej), ('corrupt_truth_umi', truth)]
    import copy
    evs = [wl]
    for k, (name, m) in enumerate(muts):
        e = copy.deepcopy(e0)
        e['tid'] = 1000 + k
        m(e)
        evs.append(e)
    evs.append(dict(copy.deepcopy(e0), tid=2000))          # the untouched execution must still be accepted
    p = os.path.join(vlib.scratch(), 'selftest_pipeline.ndjson')
    vlib.write_ndjson(p, evs)
    r = vlib.validate_trace('Trace_Pipeline', p, n_events=len(evs))
    hit = {x['tid']: x['clause'] for x in r['rejects']}
    for k, (name, m) in enumerate(muts):
        c.selftest(name, (1000 + k) in hit, hit.get(1000 + k, 'NOT REJECTED'))
    c.selftest('untouched_copy_accepted', 2000 not in hit, hit.get(2000, 'accepted'))


def run(tier):
    c = vlib.Check('X02', tier)
    q = tier == 'quick'
    vlib.sany('Pipeline')
    vlib.sany('Trace_Pipeline')
    c.mc_pass('Pipeline', 'MC_Pipeline_design_q.cfg', actions_required=ACTIONS, workers=4, heap='4g')
    if not q:
        c.mc_pass('Pipeline', 'MC_Pipeline_design_t.cfg', actions_required=ACTIONS, workers=8, heap='8g', timeout=1500)
        c.mc_pass('Pipeline', 'MC_Pipeline_design_t2.cfg', actions_required=ACTIONS, workers=8, heap='8g', timeout=1500)
    for name, inv in NEG:
        c.mc_negative('Pipeline', 'MC_Pipeline_%s_q.cfg' % name, expect_inv=inv, workers=4, heap='2g')
    # spec -> code: TLC prints every small library of the bounded model; a seeded sample is replayed through the real chain
    rng = random.Random(c.seed)
    gen = vlib.scenarios('Pipeline', 'MC_Pipeline_gen_q.cfg', env={'JAVA_TOOL_OPTIONS': '-Xmx4g'})
    pool = gen['scenarios']
    if len(pool) < 1000:
        raise vlib.MachineryError('scenario generation gave only %d libraries' % len(pool))
    small = [s for s in pool if len(s['lib']) <= 1]                  # the empty library and every single-pair library
    rest = [s for s in pool if len(s['lib']) > 1]
    rng.shuffle(rest)
    if q:
        chosen = [s for s in small if not s['lib'] or s['lib'][0]['bc'] != 'ok'] + rest[:70]
    else:
        chosen = small + rest[:1500]
    if not q:
        sim = vlib.scenarios('Pipeline', 'MC_Pipeline_gen_t.cfg', simulate='num=1200', depth=8, seed_=c.seed,
                             env={'JAVA_TOOL_OPTIONS': '-Xmx4g'})
        chosen += sim['scenarios']
    scn_path = os.path.join(vlib.scratch(), 'x02_scenarios.json')
    with open(scn_path, 'w') as f:
        json.dump(chosen, f)
    trace = os.path.join(vlib.scratch(), 'pipeline.ndjson')
    vlib.run_driver('drive_pipeline.py', [trace, tier, c.seed, scn_path], timeout=3400)
    events = vlib.read_ndjson(trace)
    r = _judge(c, trace, events)
    c.add_trace_result(r, events, key_fn, what_fn, n_traces=len(events) - 1, sample_n=0)
    runs = [x for e in events[1:] for x in e['runs']]
    c.samples.append({'note': 'one event = one library through demux -> align -> tag(single, multi) -> count tables',
                      'libraries': len(events) - 1, 'scenario_libraries': sum(1 for e in events[1:] if e['src'] == 'scenario'),
                      'read_pairs': sum(len(e['lib']['pairs']) for e in events[1:]), 'tagger_runs': len(runs),
                      'count_tables': sum(len(x['tables']) for x in runs)})
    c.assumptions += ['the aligner is abstract and trusted: exact-match placement of the demultiplexed sequences on a synthetic reference',
                      'bamtagmultiome.sleep is patched to a no-op (removes the 5 s wait of --multiprocess)',
                      'UMIs are pairwise at Hamming distance >= 2 and barcodes contain no N: the true molecule is unambiguous']
    if not r['rejects']:
        _selftests(c, events)
    rc = c.finish(rule='TLC-generated small libraries (<= 3 pairs exhaustive sample, 4 pairs simulated in thorough) + random libraries of '
                       '20..120 pairs; hd 0/1, API and demux.py entry, 1-2 lanes, 1-4 contigs, single and --multiprocess tagging, '
                       'count tables x {--dedup} x {--r1only} x {-bin}',
                  extra_cov={'distinct_nontrivial': len(set(json.dumps(e['gen']['payload'], sort_keys=True) + str(e['cfg']['hd'])
                                                            for e in events[1:])),
                             'tagger_runs': len(runs), 'scenario_pool': len(pool)})
    return rc


def replay(path):
    """./check X02 --replay <file>: regenerate the recorded library (kind, payload, seed) and run the chain again"""
    c = vlib.Check('X02', 'replay')
    trace = os.path.join(vlib.scratch(), 'replay.ndjson')
    vlib.run_driver('drive_pipeline.py', [trace, 'replay', os.path.abspath(path)])
    events = vlib.read_ndjson(trace)
    r = _judge(c, trace, events)
    for x in r['rejects']:
        print('VIOLATION property=X02 replay=%s clause=%s' % (path, x['clause']))
    if not r['rejects']:
        print('X02 replay: accepted')
    return vlib.EXIT_VIOLATION if r['rejects'] else vlib.EXIT_OK
