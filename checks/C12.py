"""C12 - binned molecule counting is independent of how the genome is split into jobs.
Spec: spec/BinCounts.tla (P+D level), spec/Trace_BinCounts.tla. Driver: harness/drive_bincounts.py."""
import json
import os

import vlib

META = {
    'property_id': 'C12',
    'module': 'BinCounts',
    'technique': 'TLA+ spec (BinCounts.tla) model-checked by TLC over all job partitions and worker schedules + TLC-generated '
                 'scenarios replayed into the real code + TLC trace validation of recorded executions of '
                 'obtain_counts(generate_commands(..)) and get_binned_counts',
    'level_text': 'TLC exhaustively explores every interleaving of worker completions and parent merges for every bins-per-job / '
                  'bin size / max-fragment-size of the bounded model and checks that the merged matrix equals one count per '
                  'qualifying record in the bin of its site, equals the serial one-bin-per-job result, and that no job raises; '
                  'three deviations (default kwargs=None, fetch start reused as ownership bound, precondition dropped) are '
                  'negative controls. Every initial state of a generator model is built as a BAM and run through the real code; '
                  'random BAMs are run for many bins-per-job, completion orders (seeded in-process pool) and real pools of '
                  '1/2/4 workers; TLC recomputes every matrix from the abstract BAM description.',
    'level_note': 'Trusted: TLC/SANY, CommunityModules, the driver\'s flattening of the result dict / DataFrame, pysam, the '
                  'generator\'s abstract description of the BAM, the in-process pool used to choose completion orders.',
    'design_ref': '3.12',
}

CONSTS = {'Variant': 'design', 'LenA': 1, 'LenB': 1, 'BinSizes': set(), 'Bpjs': set(), 'Mfss': set(), 'KindSet': set(),
          'KwargsSet': set(), 'UseKeySet': set(), 'NFiles': 1, 'MaxRecs': 0, 'Threads': 1}


def key_fn(ev, clause):
    if ev['ev'] == 'run':
        if clause == 'Inv_C12_Total_NoRaise':
            return '%s|%s|generate_commands(kwargs=%s)' % (clause, ev['raised'], 'None' if ev['cfg']['kwargs'] == 'none' else '{}')
        return '%s|obtain_counts|pool=%s,usekey=%s,bams=%s,kwargs=%s%s' % (clause, ev['pool'], ev['cfg']['usekey'], ev.get('bam', {}).get('nfiles', 1),
                                                                  ev['cfg']['kwargs'], ',differing_headers' if ev.get('bam', {}).get('hetero') else '')
    improper = any(not r['proper'] for r in ev.get('bam', {}).get('recs', []))
    return '%s|regions=%s|%s' % (clause, ev['regions'], 'improper_pairs_present' if improper else 'proper_pairs_only')


def what_fn(ev, clause):
    b = ev.get('bam', {})
    if ev['ev'] == 'run':
        return '%s: obtain_counts(generate_commands(%s), threads=%s, pool=%s) on BAM #%s (%s) -> raised=%r, %d cells' % (
            clause, json.dumps(ev['cfg']), ev['threads'], ev['pool'], b.get('bam_index'), b.get('source'), ev['raised'],
            len(ev['counts']))
    return '%s: get_binned_counts(bin=%s, regions=%s) on BAM #%s -> raised=%r, %d cells' % (
        clause, ev['bin'], ev['region_list'] or None, b.get('bam_index'), ev['raised'], len(ev['counts']))


def _attach(events):
    cur, first = None, None
    for e in events:
        if e['ev'] == 'bam':
            cur, first = e, None
        else:
            e['bam'] = cur
            if e['ev'] == 'run':
                if first is None or first['group'] != e['group']:
                    first = e
                elif first is not e:
                    e['first'] = {k: first[k] for k in ('cfg', 'pool', 'threads', 'order_seed')}
    return events


def run(tier):
    c = vlib.Check('C12', tier)
    vlib.sany('BinCounts')
    vlib.sany('Trace_BinCounts')
    acts = ['Run', 'Merg', 'Finish']
    q = 'q' if tier == 'quick' else 't'
    c.mc_pass('BinCounts', 'MC_BinCounts_design_%s.cfg' % q, actions_required=acts, workers=8, timeout=1500)
    # several BAMs of different cells: a bin id is reported by several jobs and must be merged per cell
    c.mc_pass('BinCounts', 'MC_BinCounts_designfiles_%s.cfg' % q, actions_required=acts, workers=8, timeout=1500)
    if tier != 'quick':
        c.mc_pass('BinCounts', 'MC_BinCounts_design2_t.cfg', actions_required=acts, workers=8, timeout=1500)
    c.mc_negative('BinCounts', 'MC_BinCounts_impl_plain_update_q.cfg', expect_inv=['Inv_C12_Matrix', 'Inv_C12_Invariant', 'Inv_C12_Total'],
                  workers=4)
    c.mc_negative('BinCounts', 'MC_BinCounts_impl_r1only_read2_q.cfg', expect_inv=['Inv_C12_Matrix', 'Inv_C12_Invariant', 'Inv_C12_Total'],
                  workers=4)
    c.mc_negative('BinCounts', 'MC_BinCounts_impl_ignore_qcfail_q.cfg', expect_inv=['Inv_C12_Matrix', 'Inv_C12_Invariant', 'Inv_C12_Total'],
                  workers=4)
    c.mc_negative('BinCounts', 'MC_BinCounts_impl_kwargs_none_q.cfg', expect_inv=['Inv_C12_Total_NoRaise'], workers=4)
    c.mc_negative('BinCounts', 'MC_BinCounts_impl_own_fetch_q.cfg', expect_inv=['Inv_C12_Matrix', 'Inv_C12_Invariant', 'Inv_C12_Total'],
                  workers=4)
    c.mc_negative('BinCounts', 'MC_BinCounts_impl_no_precond_q.cfg', expect_inv=['Inv_C12_Matrix', 'Inv_C12_Invariant', 'Inv_C12_Total'],
                  workers=4)

    # spec -> code: every initial state of the bounded generator model becomes a BAM + a run of the real code
    g = vlib.scenarios('BinCounts', 'MC_BinCounts_gen_%s.cfg' % q)
    if not g['scenarios']:
        raise vlib.MachineryError('the generator model produced no scenarios')
    sp = os.path.join(vlib.scratch(), 'scenarios.json')
    with open(sp, 'w') as f:
        json.dump(g['scenarios'], f)
    c.extra['tlc_scenarios_replayed'] = len(g['scenarios'])

    trace = os.path.join(vlib.scratch(), 'bincounts.ndjson')
    vlib.run_driver('drive_bincounts.py', [trace, tier, c.seed, sp])
    events = vlib.read_ndjson(trace)
    r = vlib.validate_trace('Trace_BinCounts', trace, n_events=len(events), constants=CONSTS)
    _attach(events)
    runs = [e for e in events if e['ev'] != 'bam']
    noted = set(n['tid'] for n in r['notes'])
    bad = set(events[x['line'] - 1]['tid'] for x in r['rejects'])
    judged = [e for e in runs if e['tid'] not in noted]
    c.add_trace_result(r, events, key_fn, what_fn, n_traces=len(judged), sample_n=0)
    c.notes = {}
    for n in r['notes']:
        c.notes[n['clause']] = c.notes.get(n['clause'], 0) + 1
    for e in judged[:2] + [e for e in judged if e['ev'] == 'gbc'][:1]:
        c.samples.append(vlib._shorten({k: v for k, v in e.items() if k not in ('bam', 'first')}))

    # binding self-test on an accepted, non-trivial run
    good = None
    for e in judged:
        if e['ev'] == 'run' and e['tid'] not in bad and not e['raised'] and len(e['counts']) >= 2 and 'first' not in e:
            good = e
            break
    if good is None:
        if not r['rejects']:
            raise vlib.MachineryError('no accepted non-trivial run available for the binding self-test')
        c.extra['binding_selftest_skipped'] = ('no accepted non-trivial run left (%d of %d judged executions rejected by TLC)'
                                               % (len(r['rejects']), len(judged)))
    else:
        strip = lambda e: {k: v for k, v in e.items() if k not in ('bam', 'first')}
        base = [strip(good['bam']), strip(good)]
        ok = vlib.validate_trace('Trace_BinCounts', vlib.write_ndjson(os.path.join(vlib.scratch(), 'st_base.ndjson'), base),
                                 constants=CONSTS)
        c.selftest('uncorrupted_pair_is_accepted', not ok['rejects'] and not ok['notes'])

        def count_plus_one(evs):
            evs[1]['counts'][0]['n'] += 1
            return evs

        def drop_cell(evs):
            evs[1]['counts'] = evs[1]['counts'][1:]
            return evs

        def shift_bin(evs):
            evs[1]['counts'][0]['bin'][2] += evs[1]['cfg']['bin']
            evs[1]['counts'][0]['bin'][3] += evs[1]['cfg']['bin']
            return evs

        def second_run_differs(evs):       # same group, another partition, one count moved: Inv_C12_Invariant / Matrix
            e2 = json.loads(json.dumps(evs[1]))
            e2['tid'] += 1
            e2['counts'][0]['sample'] = 'cellZ'
            return evs + [e2]
        for name, mut in [('count_plus_one', count_plus_one), ('drop_cell', drop_cell), ('shift_bin', shift_bin),
                          ('second_run_differs', second_run_differs)]:
            vlib.corrupt_selftest(c, 'Trace_BinCounts', base, mut, name, constants=CONSTS)

    c.assumptions += [
        'precondition made explicit: a qualifying record\'s site lies inside its contig and within max_fragment_size of its '
        'alignment (otherwise the owning job never fetches it); runs on BAMs violating it are recorded as observations only',
        'completion orders are chosen by replacing multiprocessing.Pool in the driver process by an in-process pool with a '
        'seeded shuffle; a subset of runs uses the real pool with 1/2/4 workers',
        'get_binned_counts has no mapping-quality / mappability argument: records excluded only by those clauses may or may '
        'not be counted; user-supplied adjacent regions (D15) are outside the quantifier of C12 and reported as observations',
        'unpaired, read-2-only and unmapped records are never read-1 records for obtain_counts; get_binned_counts may or may '
        'not count an unpaired record (it feeds single-end reads through the R1 slot)']
    sig = set((e['bam'].get('source'), e['bam'].get('bam_index'), json.dumps(e.get('cfg', e.get('region_list')), sort_keys=True),
               e.get('pool'), e.get('order_seed')) for e in judged)
    return c.finish(rule='one execution = one call of obtain_counts(generate_commands(..)) or get_binned_counts on one synthetic '
                         'BAM; validated when TLC recomputed the same matrix from the abstract BAM description (and found it '
                         'equal to the first run of its group)', exhaustive=False,
                    extra_cov={'distinct_nontrivial': len(sig), 'bams': sum(1 for e in events if e['ev'] == 'bam'),
                               'multi_bam_runs': sum(1 for e in judged if e['bam'].get('nfiles', 1) > 1),
                               'real_pool_runs': sum(1 for e in judged if e.get('pool') == 'real'),
                               'outside_precondition_runs': sum(1 for e in runs if e['tid'] in noted and e['ev'] == 'run')})


def replay(path):
    p = os.path.join(vlib.scratch(), 'replay.ndjson')
    vlib.run_driver('drive_bincounts.py', [p, 'replay', os.path.abspath(path)])
    r = vlib.validate_trace('Trace_BinCounts', p, constants=CONSTS)
    if r['rejects']:
        for x in r['rejects']:
            print('  rejected: %s' % x['clause'])
        print('VIOLATION property=C12 replay=%s' % path)
        return 1
    print('replay: accepted')
    return 0
