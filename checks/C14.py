"""C14 - TAPS methylation calls reflect reference context and observed conversion.
Spec: spec/Taps.tla (P+D level), spec/Trace_Taps.tla. Driver: harness/drive_taps.py."""
import concurrent.futures as cf
import copy
import json
import os

import vlib

META = {
    'property_id': 'C14',
    'module': 'Taps',
    'technique': 'TLA+ spec (Taps.tla) model-checked by TLC + TLC trace validation of real TAPSNlaIIIMolecule/TAPSCHICMolecule '
                 'executions against the spec\'s Target/Ctx/ExpLetters/ConsAt/Totals definitions + TLC-enumerated scenarios '
                 '(reference window x strand x convention x observed base; mate geometries) replayed into the real code',
    'level_text': 'TLC exhaustively checks the implementation-shaped model (target selection, per-fragment safe-span consensus, '
                  'majority, position_to_context with the explicit context table, XM/count tags) against the clauses of C14 for '
                  'every reference window of length 4/5 over {A,C,G,T,N} (both strands, both conventions, unconverted / converted '
                  '/ third base) and for every placement of two mates on a window of 3/4 bases (dove-tails, disjoint, single-end, '
                  'quality ties, two fragments, dove distances); twelve named deviations are negative controls. Every scenario of those models is '
                  'replayed into the real classes and, together with random molecules (gapped reads, soft clips, 1-4 fragments, '
                  'non-ACGT / soft-masked references, contig ends), judged by TLC from raw observations.',
    'level_note': 'Trusted: TLC/SANY, CommunityModules, pysam as record/FASTA container, the driver\'s projection (copies fields). '
                  'MD tags are written by the driver from the same reference as the FASTA file (MD/FASTA disagreement is out of '
                  'scope). Completeness of the call set is not part of the statement: missing calls are reported as divergence.',
    'design_ref': '3.14',
}

NEGATIVES = [
    ('target_ignores_convention', ['Inv_C14_OnTarget']),
    ('context_not_reverse_complemented', ['Inv_C14_Letter']),
    ('context_complement_only', ['Inv_C14_Letter']),
    ('context_offset', ['Inv_C14_Letter']),
    ('chg_table_entry_wrong', ['Inv_C14_Letter']),
    ('case_swapped', ['Inv_C14_Case']),
    ('mc_omits_chh', ['Inv_C14_Totals']),
    ('safe_end_off_by_one', ['Inv_C14_DoveSafe']),
    ('dove_unsafe', ['Inv_C14_DoveSafe']),
    ('dove_distance_sign', ['Inv_C14_DoveSafe']),
    ('totals_per_read', ['Inv_C14_Totals']),
    ('xm_only_calls', ['Inv_C14_XMLen']),
]
JVM_ENV = {'JAVA_TOOL_OPTIONS': '-Xss16m'}   # deep (non-tail) evaluation of nested definitions on long reads
ACTIONS = ['SelectTarget', 'FragmentConsensus', 'Majority', 'CallPosition', 'CallsDone', 'TagRead', 'Finish']


def key_fn(ev, clause):
    shape = 'frags=%d' % min(len(ev.get('frags', [])), 2)
    return '%s|%s|conv=%s|strand=%s|%s' % (clause, ev.get('cls'), ev.get('conv'), ev.get('strand'), shape)


def what_fn(ev, clause):
    return '%s on molecule tid=%s src=%s cls=%s conv=%s strand=%s contig=%s ref=%s calls=%s' % (
        clause, ev.get('tid'), ev.get('src'), ev.get('cls'), ev.get('conv'), ev.get('strand'), ev.get('contig'),
        ''.join(ev.get('ref', []))[:80], json.dumps(ev.get('calls'))[:300])


def _validate_chunks(c, events, n_chunks):
    """split the events over n_chunks trace files, validate them concurrently, fold the verdicts in (line numbers per chunk)"""
    chunks = [c_ for c_ in (events[i::n_chunks] for i in range(n_chunks)) if c_]   # round-robin: the expensive molecules spread evenly
    paths = []
    for i, ch in enumerate(chunks):
        p = os.path.join(vlib.scratch(), 'taps_chunk_%d.ndjson' % i)
        vlib.write_ndjson(p, ch)
        paths.append(p)
    with cf.ThreadPoolExecutor(max_workers=n_chunks) as ex:
        results = list(ex.map(lambda a: vlib.validate_trace('Trace_Taps', a[0], n_events=len(a[1]), heap='3g', timeout=3000, env=JVM_ENV),
                              zip(paths, chunks)))
    rejects = 0
    for r, ch in zip(results, chunks):
        c.add_trace_result(r, ch, key_fn, what_fn)
        rejects += len(r['rejects'])
    return rejects


def _selftests(c, events):
    """binding self-tests: corrupted copies of accepted observations must each be rejected with the expected clause"""
    def first(pred):
        for e in events:
            if e['ev'] == 'mol' and not e['raised'] and not e['pre'] and pred(e):
                return copy.deepcopy(e)
        raise vlib.MachineryError('no accepted event available for a self-test')

    def flip(ch):
        return ch.lower() if ch.isupper() else ch.upper()

    muts = []
    e = first(lambda e: any(x['letter'] != '.' for x in e['calls']))
    k = [i for i, x in enumerate(e['calls']) if x['letter'] != '.'][0]
    e['calls'][k]['letter'] = flip(e['calls'][k]['letter'])
    muts.append(('flip_case_of_call', e, 'Inv_C14_Case'))

    e = first(lambda e: any(x['letter'] in 'zZ' for x in e['calls']))
    k = [i for i, x in enumerate(e['calls']) if x['letter'] in 'zZ'][0]
    e['calls'][k]['letter'] = 'h' if e['calls'][k]['letter'] == 'z' else 'H'
    muts.append(('wrong_context_letter', e, 'Inv_C14_Letter'))

    e = first(lambda e: any(x['letter'] != '.' for x in e['calls']) and len(e['ref']) > 4)
    k = [i for i, x in enumerate(e['calls']) if x['letter'] != '.'][0]
    t = ''.join(e['ref']).upper()[e['calls'][k]['p']]
    others = [p for p in range(len(e['ref'])) if e['ref'][p].upper() != t and p not in [x['p'] for x in e['calls']]]
    e['calls'][k]['p'] = others[0]
    muts.append(('call_moved_off_target', e, 'Inv_C14_OnTarget'))

    e = first(lambda e: any(len(r['xm']) > 1 for f in e['frags'] for r in f['reads']))
    r = [r for f in e['frags'] for r in f['reads'] if len(r['xm']) > 1][0]
    r['xm'] = r['xm'][1:]
    muts.append(('xm_one_character_short', e, 'Inv_C14_XMLen'))

    e = first(lambda e: e['frags'] and e['frags'][0]['reads'])
    e['frags'][0]['reads'][0]['tot']['sZ'] += 1
    muts.append(('sZ_total_plus_one', e, 'Inv_C14_Totals'))

    e = first(lambda e: any('.' in r['xm'] and any(x['letter'] != '.' for x in e['calls']) for f in e['frags'] for r in f['reads']))
    letter = [x['letter'] for x in e['calls'] if x['letter'] != '.'][0]
    called = set(x['p'] for x in e['calls'])
    done = False
    for f in e['frags']:
        for r in f['reads']:
            if done or any(op != 0 for op, _ in r['cigar']):
                continue
            for i, ch in enumerate(r['xm']):
                if ch == '.' and (r['start'] + i) not in called:
                    r['xm'][i] = letter
                    done = True
                    break
    if not done:
        raise vlib.MachineryError('self-test xm_letter_on_uncalled_base could not be built')
    muts.append(('xm_letter_on_uncalled_base', e, 'Inv_C14_XM_'))

    # a call outside the mate-overlap-safe span: cut the forward mate's start / reverse mate's end back behind a call
    def has_edge_call(e):
        if len(e['frags']) != 1 or len(e['frags'][0]['reads']) != 2:
            return False
        rs = e['frags'][0]['reads']
        fwd = [r for r in rs if not r['rev']]
        if len(fwd) != 1 or any(op != 0 for r in rs for op, _ in r['cigar']):
            return False
        return any(x['letter'] != '.' and x['p'] == fwd[0]['start'] for x in e['calls']) and len(fwd[0]['seq']) > 1
    e = first(has_edge_call)
    fwd = [r for r in e['frags'][0]['reads'] if not r['rev']][0]
    # the forward mate now starts one base later: the called position is covered by the reverse mate only (a dove tail)
    fwd['start'] += 1
    fwd['seq'], fwd['qual'], fwd['xm'] = fwd['seq'][1:], fwd['qual'][1:], fwd['xm'][1:]
    fwd['cigar'] = [[0, len(fwd['seq'])]]
    muts.append(('call_left_outside_safe_span', e, 'Inv_C14_DoveSafe'))

    evs = []
    for i, (name, e, clause) in enumerate(muts):
        e['tid'] = i + 1
        evs.append(e)
    p = os.path.join(vlib.scratch(), 'taps_selftest.ndjson')
    vlib.write_ndjson(p, evs)
    r = vlib.validate_trace('Trace_Taps', p, n_events=len(evs), env=JVM_ENV)
    got = {rej['line']: rej['clause'] for rej in r['rejects']}
    for i, (name, e, clause) in enumerate(muts):
        c.selftest(name, got.get(i + 1, '').startswith(clause), 'TLC said %r, expected %s*' % (got.get(i + 1), clause))
    # dropping the evidence of a call (the event loses a read) must not be accepted silently either: totals stay, reads go
    return len(muts)


def run(tier):
    c = vlib.Check('C14', tier)
    q = tier == 'quick'
    vlib.scratch()   # created before any worker thread needs it
    vlib.sany('Taps')
    vlib.sany('Trace_Taps')
    designs = [('MC_Taps_design_q.cfg', 6), ('MC_Taps_geom_q.cfg', 6)] if q else \
              [('MC_Taps_design_t.cfg', 8), ('MC_Taps_geom_t.cfg', 4), ('MC_Taps_geom2_t.cfg', 8)]
    gens = [('context', 'MC_Taps_gen_context_q.cfg'), ('geometry', 'MC_Taps_gen_geom_q.cfg')] if q else \
           [('context', 'MC_Taps_gen_context_t.cfg'), ('geometry', 'MC_Taps_gen_geom_t.cfg'), ('geometry', 'MC_Taps_gen_geom2_t.cfg')]
    with cf.ThreadPoolExecutor(max_workers=4 if q else 3) as ex:
        fd = [ex.submit(vlib.mc, 'Taps', cfg, expect='pass', workers=w, actions_required=ACTIONS, timeout=1500, heap='4g')
              for cfg, w in designs]
        fg = [ex.submit(vlib.scenarios, 'Taps', cfg, timeout=900) for _, cfg in gens]
        fn = [ex.submit(vlib.mc, 'Taps', 'MC_Taps_neg_%s.cfg' % v, expect='fail', expect_inv=inv, workers=2, timeout=600, heap='2g')
              for v, inv in NEGATIVES]
        for f in fd:
            c.add_mc(f.result(), 'design')
        for f in fn:
            c.add_mc(f.result(), 'negative_control')
        scn_files, n_scn = [], 0
        for (src, cfg), f in zip(gens, fg):
            r = f.result()
            if not r['scenarios']:
                raise vlib.MachineryError('scenario generator %s produced nothing' % cfg)
            p = os.path.join(vlib.scratch(), 'scn_%s' % cfg.replace('.cfg', '.json'))
            with open(p, 'w') as fh:
                json.dump({'src': src, 'cfg': cfg, 'scenarios': r['scenarios']}, fh)
            scn_files.append(p)
            n_scn += len(r['scenarios'])
    trace = os.path.join(vlib.scratch(), 'taps.ndjson')
    vlib.run_driver('drive_taps.py', [trace, tier, c.seed] + scn_files)
    events = vlib.read_ndjson(trace)
    rejects = _validate_chunks(c, events, 4 if q else 6)
    c.samples = [vlib._shorten(e, 900) for e in events if e['src'] == 'random' and e['calls']][:2] + [e for e in events if e['ev'] == 'ctx'][:1] + \
                [vlib._shorten(e, 600) for e in events if e['src'] in ('context', 'geometry') and e['calls']][:2]
    if not rejects:
        _selftests(c, events)
    div = {k: v for k, v in c.notes.items() if k.startswith('divergence')}
    for k, v in sorted(div.items()):
        print('DIVERGENCE: property=C14 %s (%d molecules) - outside the statement, informational' % (k, v))
    c.extra['scenarios_replayed'] = n_scn
    c.extra['divergences'] = div
    c.assumptions += ['MD tags of the synthetic reads are derived from the same reference as the FASTA file',
                      'default configuration (allow_unsafe_base_calls=False); taps_strand F and R; NlaIII and CHIC molecule classes',
                      'an entry of methylation_call_dict is a call; an entry whose letter is "." is "no call" and is only rejected '
                      'where the statement requires a letter (target base, consensus defined, complete ACGT context)']

    def shape(e):
        if e['ev'] == 'ctx':
            return ('ctx', e['symbol'], e['obs'])
        return (e['src'], e['cls'], e['conv'], e['strand'], len(e['frags']), tuple(sorted(set(x['letter'] for x in e['calls']))))
    return c.finish(rule='one event = one molecule built with the real classes: random molecules on random references + every scenario '
                         'enumerated by TLC from the context and geometry models; distinct_nontrivial counts distinct '
                         '(source, class, convention, strand, #fragments, set of call letters) shapes', exhaustive=False,
                    extra_cov={'distinct_nontrivial': len(set(shape(e) for e in events))})


def replay(path):
    with open(path) as f:
        rp = json.load(f)
    ev = rp['case']['event']
    evp = os.path.join(vlib.scratch(), 'replay_event.json')
    with open(evp, 'w') as f:
        json.dump(ev, f)
    p = os.path.join(vlib.scratch(), 'replay.ndjson')
    vlib.run_driver('drive_taps.py', ['--replay', evp, p])
    r = vlib.validate_trace('Trace_Taps', p, env=JVM_ENV)
    if r['rejects']:
        print('replay: TLC rejects with %s' % r['rejects'][0]['clause'])
        print('VIOLATION property=C14 replay=%s' % path)
        return 1
    print('replay: accepted')
    return 0
