"""C02 - demultiplexed records contain exactly the bases the protocol layout prescribes.
Spec: spec/Layout.tla (P-level layout table + property, D-level constructor arithmetic and demultiplex() steps),
spec/Trace_Layout.tla. Driver: harness/drive_layout.py (generator fed by the layouts TLC prints from the table)."""
import collections
import json
import os

import vlib

META = {
    'property_id': 'C02',
    'module': 'Layout',
    'technique': 'TLA+ spec (Layout.tla) model-checked by TLC on provenance tokens for every read length + TLC trace validation '
                 'of recorded executions of strategy.demultiplex() of every registered strategy against the pinned layout table',
    'level_text': 'TLC exhaustively checks, for every strategy in the pinned layout table and all read lengths 0..MaxL per mate, that '
                  'the modelled constructor arithmetic and demultiplex() steps (D-level, on provenance tokens <<mate,index>>) produce '
                  'exactly the tags/emitted stretches of the table (Inv_C02_Refines) and that every input position up to the end of '
                  'the emitted stretch is emitted or tagged, none invented, none used twice unless named (Inv_C02_Accounting); the '
                  'as-coded constructor arguments / return statement (D18, D201, D202) are negative controls. The layouts are printed by '
                  'TLC as scenarios, the driver places whitelist barcodes at the table positions, calls the real public '
                  'strategy.demultiplex(records, library=..) of every strategy registered by DemultiplexingStrategyLoader and TLC '
                  'recomputes every tag and emitted slice from the recorded inputs with the same P-level operator.',
    'level_note': 'Trusted: TLC/SANY, CommunityModules, the driver\'s projection (str -> character codes), the hand transcription of the '
                  'layout table from descriptions/constructor arguments (spec/Layout.tla, L). Small-scope: MaxL 40 / 100 (cross pairing) '
                  'and 30 (all pairs) in the model; real reads up to 178 bases.',
    'design_ref': '3.2',
}

CONSTS = {'MaxL': 0, 'Variant': 'design', 'Pairing': 'cross', 'Only': vlib.Raw('{}')}
NEGATIVE = [('MC_Layout_impl_D18_Refines.cfg', 'Inv_C02_Refines'), ('MC_Layout_impl_D18_Accounting.cfg', 'Inv_C02_Accounting'),
            ('MC_Layout_impl_D201_Refines.cfg', 'Inv_C02_Refines'), ('MC_Layout_impl_D201_Accounting.cfg', 'Inv_C02_Accounting'),
            ('MC_Layout_impl_D202_Refines.cfg', 'Inv_C02_Refines')]
ACTIONS = ['LigationSlice', 'BaseTag', 'SliceBarcode', 'Lookup', 'SlicePrimer', 'SliceUmi', 'TagRecords', 'Capture',
           'AddLigationTags', 'Post', 'PostReject']
CHUNK = 4000


def key_fn(ev, clause):
    if ev.get('ev') != 'demux':
        return '%s|%s' % (clause, ev.get('ev'))
    return '%s|%s|%s' % (clause, ev['s'], 'user_whitelist' if ev.get('inj') else 'shipped_whitelist')


def what_fn(ev, clause):
    def txt(x):
        return ''.join(map(chr, x))
    out = [{'seq': txt(o['seq'])[:40], 'tags': {k: txt(v) for k, v in o['tags'].items()}} for o in ev.get('out', [])]
    return '%s: strategy %s nm=%d R1=%s.. R2=%s.. -> %s' % (clause, ev.get('s'), ev.get('nm', 0), txt(ev.get('r1', []))[:40],
                                                           txt(ev.get('r2', []))[:30], json.dumps(out)[:500])


def validate(c, events):
    """chunked trace validation; returns all rejects (with global line numbers)"""
    rejects, notes = [], []
    for k in range(0, len(events), CHUNK):
        chunk = events[k:k + CHUNK]
        p = os.path.join(vlib.scratch(), 'layout_%d.ndjson' % k)
        vlib.write_ndjson(p, chunk)
        r = vlib.validate_trace('Trace_Layout', p, n_events=len(chunk), constants=CONSTS)
        c.add_trace_result(r, chunk, key_fn, what_fn, n_traces=sum(1 for e in chunk if e['ev'] == 'demux' and e['acc']), sample_n=0)
        rejects += [dict(x, line=x['line'] + k) for x in r['rejects']]
        notes += r['notes']
    return rejects, notes


def selftest(c, events, rejected_lines):
    """corrupt single recorded fields of accepted observations; TLC must reject each corrupted event"""
    import copy
    bad = set(rejected_lines)
    good = [e for i, e in enumerate(events) if (i + 1) not in bad and e['ev'] == 'demux' and e['acc'] and e['nm'] == 2
            and e['out'] and 'RX' in e['out'][0]['tags'] and len(e['out'][0]['seq']) > 3 and len(e['out'][1]['seq']) > 3
            and e['s'] not in ('TCHIC', 'CHICTV', 'DamAndT', 'DamID2andT_3u4b3u4b', 'DamID2andT_3u4b3u6b')]
    if len(good) < 5:
        raise vlib.MachineryError('no accepted observations available for the binding self-test')
    m = [copy.deepcopy(e) for e in good[:5]]
    m[0]['out'][0]['tags']['bc'][0] += 1                                             # barcode tag
    m[1]['out'][1]['seq'] = m[1]['out'][1]['seq'][1:]                                # emitted stretch of mate 2 starts one base late
    m[1]['out'][1]['qual'] = m[1]['out'][1]['qual'][1:]
    m[2]['out'][1]['tags']['RQ'][-1] = 97 if m[2]['out'][1]['tags']['RQ'][-1] != 97 else 98   # UMI quality letter
    m[3]['out'][0]['qual'][2], m[3]['out'][0]['qual'][1] = m[3]['out'][0]['qual'][1], m[3]['out'][0]['qual'][2] + 1   # qualities not aligned
    m[4]['r1'], m[4]['r2'] = m[4]['r2'], m[4]['r1']                                  # mates swapped in the recorded input
    p = os.path.join(vlib.scratch(), 'selftest_layout.ndjson')
    vlib.write_ndjson(p, m)
    r = vlib.validate_trace('Trace_Layout', p, n_events=len(m), constants=CONSTS)
    got = {x['line']: x['clause'] for x in r['rejects']}
    c.selftest('corrupt_bc_emitstart_RQ_qual_swapmates', set(got) == {1, 2, 3, 4, 5}, json.dumps(got))


def run(tier):
    c = vlib.Check('C02', tier)
    vlib.sany('Layout')
    vlib.sany('Trace_Layout')
    q = tier == 'quick'
    c.mc_pass('Layout', 'MC_Layout_design_%s.cfg' % ('q' if q else 't'), actions_required=ACTIONS, timeout=1500)
    if not q:
        c.mc_pass('Layout', 'MC_Layout_design_full.cfg', actions_required=ACTIONS, timeout=1500)
    for cfg, inv in NEGATIVE:
        c.mc_negative('Layout', cfg, expect_inv=inv, workers=4)
    # spec -> code: the layouts of the table, printed by TLC, drive the generator
    sc = vlib.scenarios('Layout', 'MC_Layout_gen.cfg')
    if not sc['scenarios']:
        raise vlib.MachineryError('TLC printed no layout scenarios')
    scn = os.path.join(vlib.scratch(), 'layout_scenarios.json')
    with open(scn, 'w') as f:
        json.dump(sc['scenarios'], f)
    trace = os.path.join(vlib.scratch(), 'layout.ndjson')
    vlib.run_driver('drive_layout.py', [trace, tier, c.seed, scn])
    events = vlib.read_ndjson(trace)
    rejects, notes = validate(c, events)
    acc = [e for e in events if e['ev'] == 'demux' and e['acc']]
    per = collections.Counter(e['s'] for e in acc)
    for st in sorted(per)[:3]:
        c.samples.append(vlib._shorten(next(e for e in acc if e['s'] == st), 700))
    selftest(c, events, [x['line'] for x in rejects])
    c.assumptions += ['texts are recorded as character codes; RQ/lq/QT/eq letters are compared with string.ascii_letters[phred] '
                      'computed in TLA+ (qualities 0..51 only, as the quantifier says; the clamp for phred>=52 is D1 / C04)',
                      'where a description and the constructor disagree about WHICH END carries the random primer or how long the '
                      'second scattered barcode is (DamID2_3u4b3u6b is registered with a 4 bp second barcode and the 8 bp whitelist), '
                      'the table follows the constructor; see docs/C02.md']
    extra = {
        'distinct_nontrivial': len(set((e['s'], tuple(e['r1']), tuple(e['r2'])) for e in acc)),
        'accepted_pairs_per_strategy': dict(sorted(per.items())),
        'strategies_registered': next((e['strategies'] for e in events if e['ev'] == 'registry'), []),
        'unreachable_strategies': sorted(set(n['clause'].split(' ', 1)[1] for n in notes if n['clause'].startswith('unreachable_strategies'))),
        'table_notes': sorted(set(n['clause'] for n in notes if not n['clause'].startswith('unreachable_strategies'))),
        'layout_scenarios_from_tlc': len(sc['scenarios']),
    }
    return c.finish(rule='for every strategy branch of the pinned table (printed by TLC) the generator draws a whitelist barcode (20% with '
                         'one mismatch), read lengths on/next to every slice boundary or boundary + insert 0..150, qualities 0..51, N '
                         'bases, stale already-demultiplexed headers, lower case, keyword variants (probe/library) and the content recipes of the '
                         'content-dependent strategies; plus a pass feeding the same records to every registered strategy and a pass '
                         'through FASTQ files (plain/gz/CRLF/no final newline) + the real loader loop; an evaluation is one call of '
                         'strategy.demultiplex; distinct_nontrivial counts distinct ACCEPTED (strategy, R1, R2) inputs', exhaustive=False,
                    extra_cov=extra)


def replay(path):
    with open(path) as f:
        rp = json.load(f)
    ev = rp['case']['event']
    evp = os.path.join(vlib.scratch(), 'replay_event.json')
    with open(evp, 'w') as f:
        json.dump(ev, f)
    p = os.path.join(vlib.scratch(), 'replay.ndjson')
    vlib.run_driver('drive_layout.py', [p, 'replay', 0, evp])
    r = vlib.validate_trace('Trace_Layout', p, constants=CONSTS)
    if r['rejects']:
        print('  %s' % r['rejects'][0]['clause'])
        print('VIOLATION property=C02 replay=%s' % path)
        return 1
    print('replay: accepted')
    return 0
