"""X05 (extension, not a listed property): bamProcessing/bamExtractSamples.py - extract_samples() and the module's command line
(sample/group file parsing) route the records of a BAM file to one output file per group: every record of a selected sample is
written exactly once, to the file of its sample's group and to no other, in input order; records of unselected samples and
records without SM tag are written nowhere; head=N writes exactly the first N selected records in total; with write_group_rg
every written record has RG = prefix+group and the file's header exactly that @RG; a sample assigned to two groups is refused
(ValueError, no record written); a legal input never makes the tool raise.
Second tool, same P-level clauses: bamProcessing/split_bam_by_cluster.py main() (mode "split": annotation file sample -> cluster,
one coordinate-sorted, indexed <bname>.<cluster>.sorted.bam per cluster, --add_chr_prefix renames the contigs of the header).
Spec: spec/SampleRoutingP.tla (P-level clauses), spec/SampleRouting.tla (design model of the loop + named deviations),
spec/Trace_SampleRouting.tla; driver harness/drive_samplerouting.py.  Not registered in MANIFEST.json (properties.jsonl is fixed)."""
import concurrent.futures
import copy
import json
import os
import random

import vlib

EXTENSION = True

META = {
    'property_id': 'X05',
    'module': 'SampleRouting',
    'technique': 'TLA+ spec (SampleRoutingP/SampleRouting.tla) model-checked by TLC + TLC trace validation of recorded executions of '
                 'bamExtractSamples.extract_samples and of the module command line on synthetic BAM files (TLC-generated and random)',
    'level_text': 'TLC checks exhaustively (small constants) that the design of the routing loop satisfies every clause of the property '
                  'and that fifteen named deviations each violate one; the real function / command line is run on BAM files derived '
                  'from TLC-enumerated scenarios and random descriptions, the output directory is re-read from disk and TLC recomputes '
                  'the demanded files from the recorded inputs.',
    'level_note': 'Trusted: TLC/SANY, CommunityModules, pysam as writer of the inputs and reader of the outputs, the driver\'s projection '
                  '(record fingerprint = md5 of the SAM line without RG). samtools is absent: indexing is not observed.',
    'design_ref': '8',
}

ACTIONS_API = ['OpenHandle', 'MapSample', 'Route', 'CloseHandle']
ACTIONS_CLI = ['ParseLine'] + ACTIONS_API
ACTIONS_SPLIT = ['ParseRow', 'OpenCluster', 'RouteSplit', 'FinishCluster', 'CleanCluster']
DESIGN_Q = [('design_api_q', ACTIONS_API), ('design_norg_q', ACTIONS_API), ('design_cli_q', ACTIONS_CLI), ('design_bam_q', ACTIONS_API),
            ('design_split_q', ACTIONS_SPLIT), ('design_splitmq_q', ACTIONS_SPLIT)]
DESIGN_T = [('design_api_t', ACTIONS_API), ('design_cli_t', ACTIONS_CLI), ('design_3groups_t', ACTIONS_API),
            ('design_split_t', ACTIONS_SPLIT), ('design_split3_t', ACTIONS_SPLIT)]
NEG = [('missing_sm_crash_q', ['Inv_X05_NoCrash']), ('replace_all_bam_q', ['Inv_X05_Files']), ('dup_same_group_q', ['Inv_X05_NoCrash']),
       ('head_after_write_q', ['Inv_X05_Head']), ('head_per_group_q', ['Inv_X05_Head']), ('head_off_by_one_q', ['Inv_X05_Head']),
       ('first_group_wins_q', ['Inv_X05_Refused']), ('last_group_wins_q', ['Inv_X05_Refused']),
       ('write_before_rg_q', ['Inv_X05_RecordRG']), ('rg_without_prefix_q', ['Inv_X05_RecordRG']),
       ('header_rg_kept_q', ['Inv_X05_HeaderRG']), ('unselected_to_first_q', ['Inv_X05_Unselected']),
       ('cli_no_clean_q', ['Inv_X05_NoCrash', 'Inv_X05_Files', 'Inv_X05_ExactlyOnce']), ('cli_group_as_sample_q', ['Inv_X05_ExactlyOnce']),
       ('impl_q', ['Inv_X05_NoCrash', 'Inv_X05_Head', 'Inv_X05_Files']),
       ('split_skip_always_q', ['Inv_X05s_Files', 'Inv_X05s_ExactlyOnce']), ('split_skip_never_q', ['Inv_X05s_Files']),
       ('split_dup_last_wins_q', ['Inv_X05s_Refused']), ('split_keep_dups_q', ['Inv_X05s_Unselected']),
       ('split_no_missing_name_q', ['Inv_X05s_ExactlyOnce']), ('split_no_sort_q', ['Inv_X05s_Sorted']),
       ('split_no_cleanup_q', ['Inv_X05s_Files']), ('split_no_index_q', ['Inv_X05s_Indexed']),
       ('split_prefix_some_q', ['Inv_X05s_Header']), ('split_first_cluster_all_q', ['Inv_X05s_Unselected'])]
# quick runs 18 of the 25 controls (one per clause at least); these near-duplicates of a kept control run in the thorough tier only
NEG_THOROUGH_ONLY = {'head_off_by_one_q', 'last_group_wins_q', 'rg_without_prefix_q', 'cli_group_as_sample_q', 'split_no_cleanup_q',
                     'split_first_cluster_all_q', 'split_skip_always_q'}
# generator cfg -> number of its scenarios replayed into the real code (None = all)
GEN_Q = [('gen_api_q', 900), ('gen_bam_q', 150), ('gen_cli_q', 500), ('gen_split_q', 250)]
GEN_T = [('gen_api_t', 12000), ('gen_bam_q', None), ('gen_cli_t', 8000), ('gen_split_t', 3000)]
OBSERVED = ('ev', 'tid', 'in_obs', 'in_sq', 'in_sqn', 'raised', 'files', 'other', 'index_cmds')


def key_fn(ev, clause):
    """clause strings come from TLC; the ones that carry a diagnosis (third field not 'other') are the signature themselves"""
    if ev['mode'] == 'split':
        return 'split|%s|chr%d|nocol%d' % (clause, int(ev['chr']), int(ev['nocol']))
    if not clause.endswith('other') and '|' in clause:
        return clause
    return '%s|%s|wrg%d|head%s' % (clause, ev['mode'], int(ev['wrg']), 'none' if ev['head'] == -1 else 'set')


def what_fn(ev, clause):
    if ev['mode'] == 'split':
        return '%s: split_bam_by_cluster; %d records %s; rows %s; nocol=%s add_chr_prefix=%s mapq=%s tagid=%s -> raised=%r files=%s other=%s' % (
            clause, len(ev['recs']), json.dumps([[r['sm'], int(r['dup']), r['ci'], r['pos']] for r in ev['recs']][:12]),
            json.dumps([[x['s'], ''.join(x['c'])] for x in ev['rows']])[:300], ev['nocol'], ev['chr'], ev['mapq'], ev['tagid'], ev['raised'],
            json.dumps([[f['name'], [x[0] for x in f['sqn']], [r['id'] for r in f['recs']]] for f in ev['files']])[:300], ev['other'][:6])
    sel = ev['asg'] if ev['mode'] == 'api' else ev['lines']
    return '%s: %s via %s; %d records %s; assignment %s; head=%s wrg=%s prefix=%r path=%s.bam -> raised=%r files=%s' % (
        clause, ev['mode'], ev['via'], len(ev['recs']), json.dumps([r['sm'] for r in ev['recs']][:12]), json.dumps(sel)[:300], ev['head'],
        ev['wrg'], ev['prefix'], ''.join(ev['stem']), ev['raised'],
        json.dumps([[f['name'], f['rgids'], [r['id'] for r in f['recs']]] for f in ev['files']])[:300])


def _parallel_mc(c, jobs):
    def one(j):
        kind, cfg, arg, workers = j
        if kind == 'design':
            return vlib.mc('SampleRouting', cfg, expect='pass', actions_required=arg, workers=workers, heap='4g', timeout=1500)
        return vlib.mc('SampleRouting', cfg, expect='fail', expect_inv=arg, workers=workers, heap='2g')
    with concurrent.futures.ThreadPoolExecutor(max_workers=4) as ex:
        res = list(ex.map(one, jobs))
    for j, r in zip(jobs, res):
        c.add_mc(r, 'design' if j[0] == 'design' else 'negative_control')


def _selftests(c, events):
    """corrupt one recorded field of an execution TLC accepted: every corruption must be rejected, untouched copies accepted"""
    split = [e for e in events if e['mode'] == 'split']
    events = [e for e in events if e['mode'] != 'split']
    ok = [e for e in events if e['raised'] == '']
    rich = [e for e in ok if e['wrg'] and len([f for f in e['files'] if len(f['recs']) >= 1]) >= 2
            and any(len(f['recs']) >= 2 for f in e['files']) and e['head'] == -1 and e['prefix'] != '']
    cut = [e for e in ok if e['head'] >= 2 and sum(len(f['recs']) for f in e['files']) == e['head']]
    refused = [e for e in events if e['raised'] == 'ValueError' and e['files'] and e['mode'] == 'api'
               and all(len(a['ss']) == len(set(a['ss'])) for a in e['asg'])]
    if not rich or not cut or not refused:
        raise vlib.MachineryError('no accepted execution rich enough for the binding self-tests (rich=%d cut=%d refused=%d)'
                                  % (len(rich), len(cut), len(refused)))
    a0, h0, r0 = rich[0], cut[0], refused[0]

    def two(e):
        return [f for f in e['files'] if len(f['recs']) >= 2][0]

    def move(e):
        src = two(e)
        dst = [f for f in e['files'] if f is not src][0]
        dst['recs'].append(src['recs'].pop())

    def drop(e):
        two(e)['recs'].pop(0)

    def dup(e):
        f = two(e)
        f['recs'].append(dict(f['recs'][0]))

    def swap(e):
        f = two(e)
        f['recs'][0], f['recs'][1] = f['recs'][1], f['recs'][0]

    def rg(e):
        two(e)['recs'][0]['rg'] = 'old'

    def hdr(e):
        two(e)['rgids'].append('old')

    def dg(e):
        two(e)['recs'][1]['dg'] = '000000000000'

    def unselect(e):          # the description says the record belonged to a sample nobody selected
        rid = two(e)['recs'][0]['id']
        for r, o in zip(e['recs'], e['in_obs']):
            if r['id'] == rid:
                r['sm'] = o['sm'] = 'nobody'
        for f in e['files']:
            for r in f['recs']:
                if r['id'] == rid:
                    r['sm'] = 'nobody'

    def rename(e):
        e['files'][0]['name'] = 'elsewhere.bam'

    def crash(e):
        e['raised'] = 'KeyError'

    def head(e):
        e['head'] -= 1

    def notraised(e):
        e['raised'] = ''

    muts = [('record_in_wrong_file', a0, move), ('record_dropped', a0, drop), ('record_twice', a0, dup), ('records_swapped', a0, swap),
            ('record_rg_not_set', a0, rg), ('header_rg_extra', a0, hdr), ('record_content_changed', a0, dg),
            ('description_sample_unselected', a0, unselect), ('file_renamed', a0, rename), ('raised_on_legal_input', a0, crash),
            ('head_limit_lowered_in_description', h0, head), ('conflict_not_refused', r0, notraised)]
    evs = []
    for k, (name, src, m) in enumerate(muts):
        e = copy.deepcopy(src)
        e['tid'] = 1000 + k
        m(e)
        evs.append(e)
    # split_bam_by_cluster: an accepted run with two cluster files, one of them holding records at two different coordinates
    def spread(f):
        return len(set((r['tid'], r['pos']) for r in f['recs'] if r['tid'] >= 0)) >= 2 and all(r['tid'] >= 0 for r in f['recs'])
    srich = [e for e in split if e['raised'] == '' and e['chr'] and len([f for f in e['files'] if f['recs']]) >= 2
             and any(spread(f) for f in e['files'])]
    srefused = [e for e in split if e['raised'] != '' and not e['files']]
    if not srich or not srefused:
        raise vlib.MachineryError('no accepted split execution rich enough for the binding self-tests (rich=%d refused=%d)'
                                  % (len(srich), len(srefused)))
    s0, sr0 = srich[0], srefused[0]

    def sfile(e):
        return [f for f in e['files'] if spread(f)][0]

    def smove(e):
        src = sfile(e)
        dst = [f for f in e['files'] if f is not src and f['recs']][0]
        dst['recs'].append(src['recs'].pop())

    def sdrop(e):
        sfile(e)['recs'].pop()

    def sunsorted(e):
        f = sfile(e)
        f['recs'].reverse()

    def ssq(e):
        e['files'][0]['sqn'][0][0] = e['in_sqn'][0][0]

    def sbai(e):
        e['other'] = [x for x in e['other'] if x != e['files'][0]['name'] + '.bai']

    def stmp(e):
        e['files'].append(dict(copy.deepcopy(e['files'][0]), name=e['files'][0]['name'].replace('.sorted.', '.unsorted.')))

    def sdupwritten(e):          # the description says a written record carried the duplicate flag
        rid = sfile(e)['recs'][0]['id']
        for r, o in zip(e['recs'], e['in_obs']):
            if r['id'] == rid:
                r['dup'] = o['dup'] = True
        for r in sfile(e)['recs']:
            if r['id'] == rid:
                r['dup'] = True

    def snotrefused(e):
        e['raised'] = ''

    smuts = [('split_record_in_wrong_file', s0, smove), ('split_record_dropped', s0, sdrop), ('split_file_not_sorted', s0, sunsorted),
             ('split_contig_not_renamed', s0, ssq), ('split_index_missing', s0, sbai), ('split_unsorted_file_left', s0, stmp),
             ('split_duplicate_written', s0, sdupwritten), ('split_duplicated_sample_not_refused', sr0, snotrefused)]
    n0 = len(muts)
    muts += smuts
    for k, (name, src, m) in enumerate(smuts):
        e = copy.deepcopy(src)
        e['tid'] = 1000 + n0 + k
        m(e)
        evs.append(e)
    evs += [dict(copy.deepcopy(x), tid=2000 + i) for i, x in enumerate((a0, h0, r0, s0, sr0))]
    p = os.path.join(vlib.scratch(), 'selftest_samplerouting.ndjson')
    vlib.write_ndjson(p, evs)
    r = vlib.validate_trace('Trace_SampleRouting', p, n_events=len(evs))
    hit = {x['tid']: x['clause'] for x in r['rejects']}
    for k, (name, src, m) in enumerate(muts):
        c.selftest(name, (1000 + k) in hit, hit.get(1000 + k, 'NOT REJECTED'))
    c.selftest('untouched_copies_accepted', not any(t in hit for t in range(2000, 2005)), str({t: hit.get(t) for t in range(2000, 2005)}))


def run(tier):
    c = vlib.Check('X05', tier)
    q = tier == 'quick'
    for m in ('SampleRoutingP', 'SampleRouting', 'Trace_SampleRouting'):
        vlib.sany(m)
    jobs = [('design', 'MC_SampleRouting_%s.cfg' % n, acts, 4) for n, acts in DESIGN_Q]
    jobs += [('neg', 'MC_SampleRouting_%s.cfg' % n, inv, 2) for n, inv in NEG if not (q and n in NEG_THOROUGH_ONLY)]
    if not q:
        jobs += [('design', 'MC_SampleRouting_%s.cfg' % n, acts, 4) for n, acts in DESIGN_T]
    _parallel_mc(c, jobs)
    rng = random.Random(c.seed)
    use = GEN_Q if q else GEN_T
    with concurrent.futures.ThreadPoolExecutor(max_workers=4) as ex:
        pools = list(ex.map(lambda x: vlib.scenarios('SampleRouting', 'MC_SampleRouting_%s.cfg' % x[0],
                                                     env={'JAVA_TOOL_OPTIONS': '-Xmx3g'})['scenarios'], use))
    chosen, pool_n = [], 0
    for (name, n), g in zip(use, pools):
        if len(g) < 100:   # every generator configuration yields hundreds of scenarios
            raise vlib.MachineryError('scenario generation %s gave only %d scenarios' % (name, len(g)))
        pool_n += len(g)
        if n is not None and n < len(g):
            rng.shuffle(g)
            g = g[:n]
        chosen += g
    given = os.path.join(vlib.scratch(), 'x05_scenarios.json')
    with open(given, 'w') as f:
        json.dump({'scenarios': chosen}, f)
    trace = os.path.join(vlib.scratch(), 'samplerouting.ndjson')
    vlib.run_driver('drive_samplerouting.py', [trace, tier, c.seed, given], timeout=3000)
    events = vlib.read_ndjson(trace)
    r = vlib.validate_trace('Trace_SampleRouting', trace, n_events=len(events), heap='8g')
    c.add_trace_result(r, events, key_fn, what_fn, n_traces=len(events), sample_n=1)
    c.samples.append({'note': 'one event = one execution of extract_samples / the command line on one synthetic BAM file, output directory re-read',
                      'executions': len(events), 'from_tlc_scenarios': sum(1 for e in events if e['src'] == 'scenario'),
                      'api_calls': sum(1 for e in events if e['mode'] == 'api'),
                      'split_bam_by_cluster_runs': sum(1 for e in events if e['mode'] == 'split'),
                      'cli_runpy': sum(1 for e in events if e['via'] == 'runpy' and e['mode'] == 'cli'), 'cli_subprocess': sum(1 for e in events if e['via'] == 'subprocess'),
                      'with_head': sum(1 for e in events if e.get('head', -1) != -1), 'with_write_group_rg': sum(1 for e in events if e.get('wrg')),
                      'refusals': sum(1 for e in events if e['raised'] in ('ValueError', 'Exception')),
                      'records_in': sum(len(e['recs']) for e in events), 'records_out': sum(len(f['recs']) for e in events for f in e['files'])})
    c.assumptions += ['samtools is not installed: the tool\'s `os.system("samtools index ...")` fails; in-process runs replace os.system by a '
                      'stub that returns 127 (no fork), child-process runs leave it alone; index files are not part of the property',
                      'record identity = read name r<id>; record content = md5 of the SAM line without its RG tag',
                      'preconditions (noted, not judged): API group names are clean file names; write_group_rg names a non-empty read group; '
                      'the output path ends with .bam (always the case here)',
                      'split_bam_by_cluster: -mapq is parsed and never used by the tool; both readings (no effect / filter) are admitted; records '
                      'flagged duplicate are dropped and records without the tag are looked up as sample "Missing", as coded (noted)',
                      'split_bam_by_cluster precondition: tab separated annotation rows with >= 2 cells, no blank lines, cluster names are clean file names']
    rejected = set(x['tid'] for x in r['rejects'])
    if not c.violations:
        skip = set(n['tid'] for n in r['notes'] if 'refused' not in n['clause'] and not n['clause'].startswith('split_'))
        _selftests(c, [e for e in events if e['tid'] not in rejected and e['tid'] not in skip])
    else:
        c.notes['selftests_skipped_violations_reported'] = 1
    return c.finish(rule='TLC-enumerated scenarios (<= 3 records over samples a,b,c + no SM; <= 2 groups with <= 2 listed samples incl. the same '
                         'sample twice / in two groups; head none,0..2; write_group_rg; path with a second .bam; sample files of <= 3 lines '
                         'with group texts that need cleaning) + random BAM files of up to 120 records with 0-4 groups, through the function, '
                         'the command line in-process and as a child process; split_bam_by_cluster main() in-process on TLC-enumerated (<= 2 '
                         'records with duplicate flag / two positions, <= 2-3 annotation rows incl. "Missing", header line or not, chr prefix or not) '
                         'and random cases (up to 120 records on 2-3 contigs, unsorted inputs, 1-4 clusters, -tagid SM/XC)',
                    extra_cov={'distinct_nontrivial': len(set(json.dumps([e['recs'], e.get('asg'), e.get('lines'), e.get('rows'), e.get('head'), e.get('wrg'), e.get('stem'), e.get('chr')],
                                                                          sort_keys=True) for e in events)),
                               'scenario_pool': pool_n})


def replay(path):
    with open(path) as f:
        ev = json.load(f)['case']['event']
    case = {k: v for k, v in ev.items() if k not in OBSERVED}
    given = os.path.join(vlib.scratch(), 'replay_case.json')
    with open(given, 'w') as f:
        json.dump({'cases': [case]}, f)
    trace = os.path.join(vlib.scratch(), 'replay.ndjson')
    vlib.run_driver('drive_samplerouting.py', [trace, 'replay', 0, given])
    events = vlib.read_ndjson(trace)
    r = vlib.validate_trace('Trace_SampleRouting', trace, n_events=len(events))
    for x in r['rejects']:
        print('VIOLATION property=X05 replay=%s clause=%s' % (path, x['clause']))
    if not r['rejects']:
        print('X05 replay: accepted')
    return vlib.EXIT_VIOLATION if r['rejects'] else vlib.EXIT_OK
