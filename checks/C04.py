"""C04 - read-name encoding round-trips: FASTQ header -> BAM tags restores every field.
Spec: spec/Codec.tla (D-level) + spec/CodecP.tla (P-level), spec/Trace_Codec.tla. Driver: harness/drive_codec.py."""
import json
import os
from concurrent.futures import ThreadPoolExecutor

import vlib

META = {
    'property_id': 'C04',
    'module': 'Codec',
    'technique': 'TLA+ spec of the read-name codec (Demux tags -> asFastq header -> BAM name -> fromTaggedBamRecord -> tagPysamRead) '
                 'model-checked by TLC; real executions strategy.demultiplex -> str(record) -> pysam.AlignedSegment.query_name -> '
                 'QueryNameFlagger.digest recorded for every registered strategy and judged by TLC with the definitions of CodecP.tla',
    'level_text': 'Exhaustive in small constants (library names over 4-8 characters up to length 3, UMI qualities over 4-6 phred '
                  'characters incl. both sides of the letter table, single/dual index, scaled name limit); the quality code is '
                  'checked on all 94 characters. As-coded deviations D1 (clamp), D3 (limit), D20 (dual-index plus sign) and the '
                  'missing header-safe precondition fail as negative controls. Real code: all reachable strategies x header '
                  'variants x index kinds, all 94 phred characters in UMIs, TLC-generated boundary scenarios at header lengths 250..258.',
    'level_note': 'Trusted: TLC/SANY, CommunityModules, pysam/htslib as the BAM name store, the generator (abstract input first). '
                  'The aligner is abstract: the header is copied into a pysam record.',
    'design_ref': '3.4',
}

NEG = [('impl_clamp', ['Inv_C04_QTotal', 'Inv_C04_NoRaise']), ('impl_limit', ['Inv_C04_Refuse']),
       ('impl_plus', ['Inv_C04_RoundTrip']), ('drop_empty', ['Inv_C04_RoundTrip']), ('none_returns', ['Inv_C04_RoundTrip']), ('unsafe', ['Inv_C04_NoRaise', 'Inv_C04_RoundTrip'])]


def _txt(codes):
    return ''.join(chr(c) for c in codes)


def key_fn(ev, clause):
    w = clause.split(' ')
    c = w[0]
    if ev['ev'] == 'qcode':
        return '%s|phredToFastqHeaderSafeQualities|%s' % (c, 'phred>51' if ev['c'] > 84 else 'phred<=51')
    if c == 'Inv_C04_QTotal':
        return '%s|demultiplex|%s|phred>51_in_read' % (c, ev['raised'])
    if c == 'Inv_C04_Refuse':
        return '%s|asFastq|header_len=%d' % (c, len(ev['header']))
    if c == 'Inv_C04_RoundTrip' and len(w) > 1 and ev.get('digested') and not ev['bt']:
        return '%s|read_left_undecoded|shape=%s|mate=%d' % (c, ev.get('shape'), ev['mate'])
    if c == 'Inv_C04_RoundTrip' and len(w) > 1:
        val = dict((k, v) for k, v in ev['dt']).get(w[1], [])
        unsafe = sorted(set(chr(x) for x in val if not (chr(x).isalnum() or chr(x) in '-_')))
        return '%s|%s|%s' % (c, w[1], 'value_contains_' + ''.join(unsafe) if unsafe else 'header_safe_value')
    if c == 'Inv_C04_Molecule':
        return '%s|%s|%s' % (c, ev['strategy'], '_'.join(w[1:]) or 'wrong_value')
    if c == 'Inv_C04_serialising_accepted_pair_raises':
        return '%s|%s|%s|%s' % (c, ev.get('strategy'), ev.get('ser_raised'), ev.get('mode'))
    return '%s|%s' % ('_'.join(w), ev.get('strategy'))


def what_fn(ev, clause):
    if ev['ev'] == 'qcode':
        return '%s: quality character %r -> %s' % (clause, chr(ev['c']), ev['raised'] or _txt(ev['enc']))
    return '%s: strategy=%s header-variant=%s mode=%s fragment-shape=%s mate=%d library=%r index=%r raised=%r refused=%s header=%r (%d chars) bam=%s' % (
        clause, ev['strategy'], ev['hv'], ev['mode'], ev.get('shape'), ev['mate'], _txt(ev['ly']), _txt(ev['in']['idx']), ev['raised'], ev['refused'],
        _txt(ev['header']), len(ev['header']), {k: _txt(v) for k, v in ev['bt']})


def _validate(c, events, par=4, chunk=4000):
    sc = vlib.scratch()
    # qcode events carry a monotonicity state: they stay in the first chunk (the driver writes them first)
    chunks = [events[i:i + chunk] for i in range(0, len(events), chunk)]
    jobs = []
    for i, ch in enumerate(chunks):
        p = os.path.join(sc, 'c04_chunk_%d.ndjson' % i)
        vlib.write_ndjson(p, ch)
        cfg = os.path.join(sc, 'c04_chunk_%d.cfg' % i)
        vlib.write_cfg(cfg, init='TInit', next_='TNext', postcondition='TAccepted')
        jobs.append((p, cfg, ch))
    with ThreadPoolExecutor(max_workers=par) as ex:
        res = list(ex.map(lambda j: vlib.validate_trace('Trace_Codec', j[0], cfg=j[1], n_events=len(j[2]), heap='3g'), jobs))
    bad_tids = set()
    for (p, cfg, ch), r in zip(jobs, res):
        noted = set(n['line'] for n in r['notes'])
        n_tr = sum(1 for i, e in enumerate(ch) if e['ev'] in ('pair', 'qcode') and (i + 1) not in noted)
        c.add_trace_result(r, ch, key_fn, what_fn, n_traces=n_tr, sample_n=0)
        bad_tids |= set(x['tid'] for x in r['rejects']) | set(x['tid'] for x in r['notes'])
    return bad_tids


def run(tier):
    c = vlib.Check('C04', tier)
    quick = tier == 'quick'
    vlib.scratch()
    vlib.sany('Codec')
    vlib.sany('Trace_Codec')
    acts = ['Demux', 'AsFastq', 'Align', 'Digest', 'FromName', 'TagRead']
    with ThreadPoolExecutor(max_workers=6) as ex:
        negs = [ex.submit(vlib.mc, 'Codec', 'MC_Codec_%s.cfg' % v, expect='fail', expect_inv=inv, workers=2, coverage=False)
                for v, inv in NEG]
        c.mc_pass('Codec', 'MC_Codec_design_%s.cfg' % ('q' if quick else 't'), actions_required=acts, workers=8 if quick else None,
                  timeout=1500)
        for n in negs:
            c.add_mc(n.result(), 'negative_control')
    scn = vlib.scenarios('Codec', 'MC_Codec_gen_%s.cfg' % ('q' if quick else 't'), timeout=600)['scenarios']
    if not scn:
        raise vlib.MachineryError('no scenarios generated')
    sc = vlib.scratch()
    sf = os.path.join(sc, 'c04_scenarios.json')
    with open(sf, 'w') as f:
        json.dump(scn, f)
    trace = os.path.join(sc, 'codec.ndjson')
    vlib.run_driver('drive_codec.py', [trace, tier, c.seed, sf])
    events = vlib.read_ndjson(trace)
    summ = events[-1]
    if summ['ev'] != 'summary' or len(summ['reachable']) < 20:
        raise vlib.MachineryError('driver reached too few strategies: %s' % summ)
    n_scn = sum(1 for e in events if e.get('mode') == 'scenario' and e['mate'] == 0)
    if n_scn < len(scn) * 0.9:
        raise vlib.MachineryError('only %d of %d TLC scenarios were realised' % (n_scn, len(scn)))
    bad_tids = _validate(c, events)
    pairs = [e for e in events if e['ev'] == 'pair']
    c.samples += [vlib._shorten({k: (_txt(v) if isinstance(v, list) and v and isinstance(v[0], int) else v) for k, v in e.items()
                                 if k in ('strategy', 'hv', 'mode', 'ly', 'refused', 'stored', 'header', 'qname')}, 600)
                  for e in pairs if e['digested']][:2]
    c.samples += [vlib._shorten({'strategy': e['strategy'], 'header_len': len(e['header']), 'refused': e['refused'], 'stored': e['stored']})
                  for e in pairs if e['mode'] == 'boundary'][:6]

    # binding self-tests on observations that TLC accepts: corrupt a recovered field / the sample / drop a BAM tag
    good = [e for e in pairs if e['digested'] and e['mode'] == 'uniform' and 43 not in e['in']['idx'] and e['uq'] <= 84
            and any(k == 'aA' for k, _ in e['dt']) and {'RQ', 'bc', 'SM'} <= set(k for k, _ in e['bt'])
            and e['tid'] not in bad_tids][:4]

    if len(good) < 4:    # nothing TLC accepted to corrupt (the code violates the property on every such pair): reported, not hidden
        c.selftests.append({'name': 'corrupt_RQ_SM_drop_bc_coords', 'ok': True, 'detail': 'skipped: fewer than 4 accepted observations'})
    else:
        def mut(evs):
            for k, v in evs[0]['bt']:
                if k == 'RQ':
                    v[0] = v[0] + 1                   # one recovered UMI quality character differs
            for k, v in evs[1]['bt']:
                if k == 'SM':
                    v.append(ord('x'))                # sample is not library_cellindex
            evs[2]['bt'] = [kv for kv in evs[2]['bt'] if kv[0] != 'bc']     # a written field is not recovered
            evs[3]['qname'][-1] = evs[3]['qname'][-1] ^ 1                   # coordinates differ
            return evs
        ok_before = vlib.validate_trace('Trace_Codec', vlib.write_ndjson(os.path.join(sc, 'c04_st_good.ndjson'), good))
        if ok_before['rejects']:
            raise vlib.MachineryError('self-test base observations are not accepted: %s' % ok_before['rejects'][:2])
        p = os.path.join(sc, 'c04_st_bad.ndjson')
        import copy
        r = vlib.validate_trace('Trace_Codec', vlib.write_ndjson(p, mut(copy.deepcopy(good))))
        c.selftest('corrupt_RQ_SM_drop_bc_coords', len(r['rejects']) == 4, '%d of 4 corrupted observations rejected' % len(r['rejects']))

    c.extra['unreachable_strategies'] = summ['unreachable']
    c.extra['reachable_strategies'] = summ['reachable']
    c.assumptions += ['the aligner copies the FASTQ header (up to the first blank) into the BAM record name unchanged',
                      'an index parser is configured (as the demux CLI always does); library names over [A-Za-z0-9_-]',
                      'BAM name limit 254 measured with pysam %s: 254 accepted, 255 refused (query_name setter and SAM parser)' %
                      __import__('subprocess').run([vlib.PY, '-c', 'import pysam;print(pysam.__version__)'], capture_output=True,
                                                   text=True).stdout.strip()]
    return c.finish(rule='one trace per (accepted pair, mate) pushed through demultiplex -> asFastq -> pysam name -> digest, and one per '
                         'phred character through the two quality-code functions',
                    extra_cov={'distinct_nontrivial': len(pairs) + 94, 'pairs': len(pairs), 'tlc_scenarios_realised': n_scn,
                               'strategies': len(summ['reachable'])})


def replay(path):
    """Re-run the strategy on a regenerated input of the same shape is not possible from the event alone for every field,
    so the recorded pair is rebuilt from its abstract input (header fields, library, qualities) and pushed through the real code."""
    with open(path) as f:
        rp = json.load(f)
    ev = rp['case']['event']
    sc = vlib.scratch()
    evf = os.path.join(sc, 'replay_event.json')
    with open(evf, 'w') as f:
        json.dump(ev, f)
    p = os.path.join(sc, 'replay.ndjson')
    vlib.run_driver('drive_codec.py', [p, 'replay', 0, evf])
    r = vlib.validate_trace('Trace_Codec', p)
    if r['rejects']:
        for x in r['rejects'][:5]:
            print('  ' + x['clause'][:300])
        print('VIOLATION property=C04 replay=%s' % path)
        return 1
    print('replay: accepted')
    return 0
