"""C19 - per-cell file splitting loses no record under handle limits and open() failures.
Specs: spec/HandleLimiter.tla (P+D level, fault model), spec/SplitPasses.tla (bamSplitByTag pass protocol),
spec/Trace_HandleLimiter.tla. Driver: harness/drive_handlelimiter.py (fault-injecting open wrappers)."""
import json
import os

import vlib

META = {
    'property_id': 'C19',
    'module': 'HandleLimiter',
    'technique': 'TLA+ specs (HandleLimiter.tla: write() as EnsureEntry/TryOpen/OpenFailed_CloseOthers/OpenFailed_Raise/DoWrite/'
                 'Prune/Close against an OS descriptor-limit fault model; SplitPasses.tla: the waiting/skip pass protocol) '
                 'model-checked by TLC; TLC-generated write+fault behaviours replayed into the real HandleLimiter / FastqHandle '
                 'with gzip.open/open replaced by a fault-injecting wrapper; the recorded runs are judged by TLC '
                 '(Trace_HandleLimiter) with the property\'s TLA+ definitions',
    'level_text': 'TLC exhaustively checks the design (3/4 paths, K,maxHandles,pruneEvery in 1..3, permanent + transient faults, '
                  '5/6 calls): content = write log, raise only with nothing open, no leak, no truncation, prune bound. The '
                  'as-coded failure path (close() pops the entry being opened; half-made entry left behind) is a negative '
                  'control. Every complete behaviour of a generator configuration (and -simulate samples of a larger one) is '
                  'replayed against the real code; open-handle sets after each call, raised exceptions and the decompressed '
                  'content of every file (all gzip members) are compared by TLC. Random runs over 1..200 files and '
                  'bamSplitByTag multi-pass runs on synthetic BAMs are judged at P-level.',
    'level_note': 'Trusted: TLC/SANY, CommunityModules, zlib/gzip and pysam as observers of container validity, the open() wrapper '
                  '(descriptor accounting: open until close() is called). Harness patches: handlelimiter.gzip/open/time names; '
                  'multiprocessing.Pool -> serial stand-in for the .bai step of in-process bamSplitByTag runs.',
    'design_ref': '3.19',
}


def shape(ev, clause):
    if ev['ev'] != 'run':
        fm = ev.get('fmap', [])
        empty = any(f == len(fm) + 1 for f in fm)
        return 'split|%s|%s' % (('tag_value_cleans_to_empty_name' if empty else 'colliding_tag_values') if len(set(fm)) < len(fm) or empty else 'distinct_tag_values',
                                'tool_does_not_end' if ev.get('raised') == 'Hang' else 'passes=%s' % min(ev.get('passes', 0), 3))
    if clause == 'Inv_C19_Content' and ev.get('stale'):
        for f in ev['final']:
            if f['p'] in ev['stale'] and 0 in f['recs'] and len(f['recs']) > 1:
                return 'stale_file_appended_to|method=%s' % ev.get('method')
    if clause.startswith('Inv_C19_Raise'):
        for i, o in enumerate(ev['ops']):
            if o['op'] == 'w' and o['raised'] != 'none':
                att = o['att']
                if o['raised'] == 'Hang':
                    return 'Hang|write_keeps_retrying_open'
                if att and (not att[-1]['ok']) and att[-1]['nopen'] == 0:
                    continue
                if not att:
                    return '%s|no_open_attempt' % o['raised']
                if att[-1]['ok']:
                    return '%s|raised_after_successful_open' % o['raised']
                return '%s|raised_with_%s_open' % (o['raised'], 'others')
        return 'close'
    return 'method=%s' % ev.get('method')


def key_fn(ev, clause):
    return '%s|%s' % (clause, shape(ev, clause))


def what_fn(ev, clause):
    if ev['ev'] == 'run':
        small = {k: ev[k] for k in ('src', 'method', 'K', 'mh', 'pe', 'bad', 'tfs', 'stale')}
        small['ops'] = [[o['op'], o['p'], o['x'], o['raised']] for o in ev['ops']][:12]
        return '%s: %s' % (clause, json.dumps(small))
    return '%s: %s' % (clause, json.dumps(ev)[:300])


def gen_scenarios(tier, c):
    scns = []
    if tier == 'quick':
        r = vlib.scenarios('HandleLimiter', 'GEN_HandleLimiter_q.cfg', timeout=300)
        scns += r['scenarios'][::2]
        n_gen = len(r['scenarios'])
    else:
        r = vlib.scenarios('HandleLimiter', 'GEN_HandleLimiter_t.cfg', timeout=900)
        scns += r['scenarios']
        n_gen = len(r['scenarios'])
        r2 = vlib.scenarios('HandleLimiter', 'GEN_HandleLimiter_sim.cfg', simulate='num=4000', depth=100, seed_=c.seed + 1,
                            timeout=900)
        scns += r2['scenarios']
        n_gen += len(r2['scenarios'])
    c.extra['scenarios_generated_by_tlc'] = n_gen
    c.extra['scenarios_replayed'] = len(scns)
    for s in scns:          # keep only what the replay needs (+ the design's prediction)
        s['tfs'] = sorted(s['tfs'])
        for o in s['ops']:
            o['open'] = sorted(o['open'])
    return scns


def run(tier):
    c = vlib.Check('C19', tier)
    for m in ('HandleLimiter', 'SplitPasses', 'Trace_HandleLimiter'):
        vlib.sany(m)
    q = 'q' if tier == 'quick' else 't'
    c.mc_pass('HandleLimiter', 'MC_HandleLimiter_design_%s.cfg' % q, workers=8, timeout=1500)
    c.mc_pass('SplitPasses', 'MC_SplitPasses_design_%s.cfg' % q, workers=4, timeout=600)
    c.mc_negative('HandleLimiter', 'MC_HandleLimiter_impl_q.cfg', expect_inv=['Inv_C19_Raise', 'Inv_C19_Content'], workers=4)
    c.mc_negative('HandleLimiter', 'MC_HandleLimiter_impl_closeall_q.cfg', expect_inv='Inv_C19_Raise', workers=4)
    c.mc_negative('HandleLimiter', 'MC_HandleLimiter_impl_closeall_leak_q.cfg', expect_inv='Inv_C19_NoLeak', workers=4)
    c.mc_negative('HandleLimiter', 'MC_HandleLimiter_impl_partial_q.cfg', expect_inv='Inv_C19_Raise', workers=4)
    c.mc_negative('HandleLimiter', 'MC_HandleLimiter_mut_seen_early_q.cfg', expect_inv='Inv_C19_Content', workers=4)
    c.mc_negative('SplitPasses', 'MC_SplitPasses_rawkey_q.cfg', expect_inv='Inv_C19_PassesComplete', workers=4)
    c.mc_negative('SplitPasses', 'MC_SplitPasses_skipreplace_q.cfg', expect_inv=['Inv_C19_PassBound', 'Inv_C19_OpenOnce'], workers=4)
    c.mc_negative('SplitPasses', 'MC_SplitPasses_noskip_q.cfg', expect_inv='Inv_C19_OpenOnce', workers=4)

    scns = gen_scenarios(tier, c)
    sp = os.path.join(vlib.scratch(), 'c19_scenarios.json')
    with open(sp, 'w') as f:
        json.dump(scns, f)
    trace = os.path.join(vlib.scratch(), 'handlelimiter.ndjson')
    vlib.run_driver('drive_handlelimiter.py', [trace, tier, c.seed, sp])
    events = vlib.read_ndjson(trace)
    r = vlib.validate_trace('Trace_HandleLimiter', trace, n_events=len(events), heap='12g')
    c.add_trace_result(r, events, key_fn, what_fn, sample_n=1)
    c.samples.extend([vlib._shorten(e, 700) for e in events if e['ev'] == 'split'][:1])
    c.samples.extend([vlib._shorten(e, 700) for e in events if e.get('src') == 'fq'][:1])
    div = {k: v for k, v in c.notes.items() if k.startswith('DIVERGENCE')}
    for k, v in sorted(div.items()):
        print('DIVERGENCE: property=C19 %s in %d replayed behaviours (design model and code differ; judged at P-level)' % (k, v))
    c.extra['divergences'] = div
    c.extra['by_source'] = {s: sum(1 for e in events if e.get('src', e['ev']) == s) for s in ('gen', 'fq', 'rand', 'fqrand', 'split')}

    # binding self-tests: corrupted copies of observations TLC ACCEPTED in the main validation must be rejected by TLC.
    # When the code under test is wrong and no accepted observation of a kind is left, that part is skipped with a note
    # (the violations are reported anyway) - a defect of the code is never a machinery failure.
    import copy
    bad_lines = set(x['line'] for x in r['rejects'])
    good = [e for i, e in enumerate(events) if (i + 1) not in bad_lines and e['ev'] == 'run'
            and any(f['recs'] and f['recs'] != [0] for f in e['final'])
            and all(o['raised'] == 'none' for o in e['ops'])][:3]
    goodsplit = [e for i, e in enumerate(events) if (i + 1) not in bad_lines and e['ev'] == 'split' and e['out']
                 and any(len(o['idx']) > 1 for o in e['out'])][:1]
    skipped = []

    def skip_or_fail(what):
        if r['rejects']:
            skipped.append(what)
            print('NOTE: binding self-test (%s) skipped - no accepted observation left to corrupt (violations are reported)' % what)
        else:
            raise vlib.MachineryError('no accepted %s observations available for the binding self-test although TLC rejected nothing' % what)

    if len(good) == 3:
        def mut(evs):
            f = [x for x in evs[0]['final'] if x['recs'] and x['recs'] != [0]][0]
            f['recs'] = f['recs'][:-1]                                        # a lost record
            w = [o for o in evs[1]['ops'] if o['op'] == 'w'][-1]
            w['raised'] = 'KeyError'                                          # an unjustified raise (also: record then missing)
            [x for x in evs[2]['final'] if x['recs']][0]['ok'] = False        # invalid gzip
            return evs

        p = os.path.join(vlib.scratch(), 'selftest_c19.ndjson')
        vlib.write_ndjson(p, mut(copy.deepcopy(good)))
        rr = vlib.validate_trace('Trace_HandleLimiter', p)
        got = sorted((x['line'], x['clause']) for x in rr['rejects'])
        want = [(1, 'Inv_C19_Content'), (2, 'Inv_C19_Raise'), (3, 'Inv_C19_ValidGzip')]
        c.selftest('corrupt_content_raise_gzip', got == want, 'rejects=%s' % got)
    else:
        skip_or_fail('run')
    if goodsplit:
        def muts(evs):
            o = [x for x in evs[0]['out'] if len(x['idx']) > 1][0]
            o['idx'] = o['idx'][::-1]                                         # order of a split file reversed
            return evs

        p = os.path.join(vlib.scratch(), 'selftest_c19_split.ndjson')
        vlib.write_ndjson(p, muts(copy.deepcopy(goodsplit)))
        rr = vlib.validate_trace('Trace_HandleLimiter', p)
        got = sorted((x['line'], x['clause']) for x in rr['rejects'])
        c.selftest('corrupt_split_order', got == [(1, 'Inv_C19_PassesComplete')], 'rejects=%s' % got)
    else:
        skip_or_fail('split')
    if skipped:
        c.extra['binding_selftest_skipped'] = skipped
    c.assumptions += [
        'descriptor accounting of the injected open(): a handle is open from a successful open() until close() is called on it',
        'handlelimiter.time is a strictly increasing counter in replayed TLC behaviours (real clock in half of the random runs)',
        'in-process bamSplitByTag runs use a serial stand-in for multiprocessing.Pool (only builds .bai files); one run per 40 '
        'uses the unmodified command line in a child process',
        'records are distinct integers written as one line each; FastqHandle is driven with stand-in records exposing .tags and str() '
        '(bi = integer barcode index starting at 0 or a string, MX = "mx" or the integer 0)',
    ]
    return c.finish(rule='every complete behaviour of GEN_HandleLimiter_%s.cfg%s replayed into HandleLimiter (4/5) and '
                         'FastqHandle(single_cell) (1/5), + random runs over 1..200 files, + bamSplitByTag command-line runs; '
                         'one event = one whole scenario (all calls, all open() attempts, all produced files)'
                         % (q, '' if tier == 'quick' else ' (every 1st) and 4000 -simulate behaviours of GEN_HandleLimiter_sim.cfg'),
                    exhaustive=False,
                    extra_cov={'distinct_nontrivial': len(set(json.dumps([e.get('K'), e.get('mh'), e.get('pe'), e.get('bad'), e.get('tfs'), e.get('stale'),
                                                                          e.get('src'), e.get('method'),
                                                                          [[o['op'], o['p']] for o in e.get('ops', [])],
                                                                          e.get('recs'), e.get('max_handles')]) for e in events))})


def replay(path):
    with open(path) as f:
        rp = json.load(f)
    ev = rp['case']['event']
    out = os.path.join(vlib.scratch(), 'replay.ndjson')
    if ev['ev'] == 'run':
        scn = {'K': ev['K'], 'mh': ev['mh'], 'pe': ev['pe'], 'bad': ev['bad'], 'tfs': ev['tfs'], 'stale': ev.get('stale', []),
               'ops': [{'op': o['op'], 'p': o['p'], 'x': o['x']} for o in ev['ops']]}
        code = ('import json,sys,os\n'
                'import drive_handlelimiter as d\n'
                'import singlecellmultiomics.pyutils.handlelimiter as hl, singlecellmultiomics.fastqProcessing.fastqHandle as fh\n'
                'ev=json.loads(sys.argv[1]); scn=json.loads(sys.argv[2])\n'
                'obs=d.run_scenario(hl,fh,os.path.join(os.getcwd(),"c19_replay"),scn,ev["src"],ev["method"],True)\n'
                'ev.update(obs); ev["exp"]={"has":False,"ops":[],"disk":[]}\n'
                'open(sys.argv[3],"w").write(json.dumps(ev)+"\\n")\n')
        sp = os.path.join(vlib.scratch(), 'rp_c19.py')
        with open(sp, 'w') as f:
            f.write(code)
        vlib.run_driver(sp, [json.dumps(ev), json.dumps(scn), out])
    else:
        vlib.write_ndjson(out, [ev])     # split events are re-judged as recorded
    r = vlib.validate_trace('Trace_HandleLimiter', out)
    if r['rejects']:
        print('VIOLATION property=C19 replay=%s' % path)
        return 1
    print('replay: accepted')
    return 0
