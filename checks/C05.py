"""C05 - tagging conserves alignment records: every input record appears exactly once.
Specs: spec/JobPlan.tla (plan / run / merge, P+D level), spec/TagPipeline.tla (sort / re-header / index steps),
spec/TagRecords.tla (P-level vocabulary on observed records), spec/Trace_JobPlan.tla.
Driver: harness/drive_jobplan.py (+ tagger_gen.py, tagger_hooks.py)."""
import json
import os
import random

import vlib

META = {
    'property_id': 'C05',
    'module': 'JobPlan',
    'technique': 'TLA+ specs (JobPlan.tla, TagPipeline.tla) model-checked by TLC; TLC-generated contig layouts are turned into '
                 'synthetic BAMs and run through the real tagger CLI (single process and --multiprocess); the recorded job plan '
                 'and the input/output records are judged by TLC (Trace_JobPlan.tla) with the P-level definitions',
    'level_text': 'TLC exhaustively checks the design of the contig-per-process job plan, job execution in every completion '
                  'order, merge, sort and index for all layouts of up to 4 (quick) / 7 (thorough) contigs: every bin fetched exactly '
                  'once, output multiset = input multiset, sorted + indexed. The as-coded plan (bamtagmultiome.py:331-347) and each '
                  'of its three deviations are negative controls. Every layout of the bounded model is replayed into the real plan '
                  'code, and real tagging runs (nla/chic/qflag x single/multi x 1..4 workers x --no_rejects, layouts up to 12 '
                  'contigs with half-mapped pairs, orphans, invalid fragments, unplaced reads) are compared record by record by TLC.',
    'level_note': 'Trusted: TLC/SANY, CommunityModules, pysam as BAM reader/writer of the observations, the generator\'s ground '
                  'truth (valid fragment / mate number promised). Small-scope bounds for the model; the region-tiling plan is not '
                  'reachable from the CLI (--multiprocess forces one contig per process) and belongs to C08/C17.',
    'design_ref': '3.5',
}

MUT = [('mut_last_task_count', 'MC_JobPlan_mut_last_task_count_q.cfg', 'Inv_C05_Multiset'),
       ('mut_stats_ignore_unmapped', 'MC_JobPlan_mut_stats_ignore_unmapped_q.cfg', 'Inv_C05_Cover')]
NEG = [('impl', 'MC_JobPlan_impl_q.cfg'), ('impl_big_after_smalls', 'MC_JobPlan_impl_big_after_smalls_q.cfg'),
       ('impl_lone_small', 'MC_JobPlan_impl_lone_small_q.cfg'), ('impl_star_in_loop', 'MC_JobPlan_impl_star_in_loop_q.cfg')]


MUTATION_ONLY_ACTIONS = {'SortGiveUp', 'WSwallow', 'LoopInterruptSwallowed', 'AddRGSwallowed', 'IndexErrorSwallowed'}      # enabled only under Mutation # "none" (negative controls)


def _mc_design(c, module, cfg, **kw):
    """Design run with coverage: every action must be taken, except the ones that only exist for the mutation controls."""
    r = vlib.mc(module, cfg, expect='pass', actions_required=[], **kw)
    zero = [a for a, n in r.get('coverage', {}).items() if n == 0 and a != 'Init' and a not in MUTATION_ONLY_ACTIONS]
    if zero or not r.get('coverage'):
        raise vlib.MachineryError('vacuity: actions never taken in %s/%s: %s' % (module, cfg, zero))
    return c.add_mc(r, 'design')


def key_fn(ev, clause):
    """Specific signature of a failing case: clause | pipeline | what kind of bin / method is affected."""
    if ev['ev'] == 'plan':
        flat = [c for j in ev['jobs'] for c in j]
        if clause == 'Inv_C05_Cover_dropped':
            dropped = [c for c in ev['need'] if c not in flat]
            small = set(ev.get('small', []))
            um = set(ev.get('um_only', []))
            kinds = sorted(set('unmapped_only_contig' if c in um else 'small_contig' if c in small else ('unplaced' if c == '*' else 'big_contig')
                               for c in dropped))
            return '%s|contig_per_process_plan|%s' % (clause, '+'.join(kinds))
        if clause == 'Inv_C05_Cover_twice':
            twice = sorted(set(c for c in flat if flat.count(c) > 1))
            return '%s|contig_per_process_plan|%s' % (clause, 'unplaced' if twice == ['*'] else 'contig')
        return '%s|contig_per_process_plan' % clause
    detail = ev['method'] if clause in ('Inv_C05_raised', 'Inv_C05_no_output') else ('no_rejects' if ev['no_rejects'] else 'default')
    if ev.get('extra'):
        detail += ':' + '_'.join(ev['extra'])
    if clause == 'Inv_C05_raised':
        detail += ':' + ev.get('raised', '')
    return '%s|%s|%s' % (clause, ev['mode'], detail)


def what_fn(ev, clause):
    if ev['ev'] == 'plan':
        return '%s: contigs with records %s (small: %s), plan %s' % (clause, ev['need'], ev.get('small'), ev['jobs'])
    return '%s: %s %s threads=%s no_rejects=%s layout=%s: %d primary input records, %d output records, raised=%r' % (
        clause, ev['method'], ev['mode'], ev['threads'], ev['no_rejects'], json.dumps(ev['layout'])[:600] + (' history=' + ev['history'] if ev.get('history') else ''),
        sum(1 for r in ev['in'] if not r['sec']), len(ev['out']), ev['raised'])


def _interesting(s):
    """Counterexample shapes of the as-coded plan (must always be among the full runs)."""
    cs = [('B' if c['big'] else 's') for c in s['contigs'] if c['n'] > 0]
    sh = ''.join(cs) + ('*' if s['nstar'] else '')
    return sh in ('ssB', 'ssB*', 'sB', 'Bs', 's', 's*', 'sBs*', 'B', 'B*', 'ss', 'BB*', 'sss*', 'ssBs', 'sBB', '*') and all(
        c['n'] in (0, 2) for c in s['contigs'])


def run(tier):
    c = vlib.Check('C05', tier)
    q = tier == 'quick'
    for m in ('TagRecords', 'JobPlan', 'TagPipeline', 'Trace_JobPlan'):
        vlib.sany(m)
    _mc_design(c, 'JobPlan', 'MC_JobPlan_design_%s.cfg' % ('q' if q else 't'), workers=8, timeout=1500)
    _mc_design(c, 'TagPipeline', 'MC_TagPipeline_design_%s.cfg' % ('q' if q else 't'), workers=4 if q else 8, timeout=1500)
    for name, cfg in NEG:
        c.mc_negative('JobPlan', cfg, expect_inv=['Inv_C05_Cover'], workers=4)
    for name, cfg, inv in MUT:
        c.mc_negative('JobPlan', cfg, expect_inv=[inv], workers=4)
    # spec -> code: the layouts of the bounded model
    rp = vlib.scenarios('JobPlan', 'MC_JobPlan_gen_plan.cfg')
    rr = vlib.scenarios('JobPlan', 'MC_JobPlan_gen_run.cfg')
    rng = random.Random(c.seed)

    def um(s):
        return any(x.get('um') for x in s['contigs'])
    plans = rp['scenarios']
    if q:   # all layouts of <= 3 contigs, all 4-contig layouts of mapped reads, a sample of the 4-contig ones with unmapped-only contigs
        rest4 = [s for s in plans if len(s['contigs']) == 4 and um(s)]
        rng.shuffle(rest4)
        plans = [s for s in plans if len(s['contigs']) < 4 or not um(s)] + rest4[:150]
    pool = rr['scenarios']
    chosen = [s for s in pool if _interesting(s) and not um(s)]
    rest = [s for s in pool if not (_interesting(s) and not um(s))]
    rng.shuffle(rest)
    chosen += rest[:8 if q else 700]
    scn_path = os.path.join(vlib.scratch(), 'c05_scenarios.json')
    with open(scn_path, 'w') as f:
        json.dump({'plan': plans, 'run': chosen}, f)
    trace = os.path.join(vlib.scratch(), 'jobplan.ndjson')
    vlib.run_driver('drive_jobplan.py', [trace, tier, c.seed, scn_path], timeout=3000)
    events = vlib.read_ndjson(trace)
    meta = json.load(open(trace + '.meta'))
    r = vlib.validate_trace('Trace_JobPlan', trace, n_events=len(events))
    c.add_trace_result(r, events, key_fn, what_fn, n_traces=len(set(e['tid'] for e in events)))
    c.samples.extend([vlib._shorten(e, 700) for e in events if e['ev'] == 'run'][:2])
    # binding self-test: corrupt accepted observations -> TLC must reject each
    rejected = set(x['line'] for x in r['rejects'])
    good_runs = [e for k, e in enumerate(events) if e['ev'] == 'run' and (k + 1) not in rejected and len(e['out']) >= 3][:3]
    good_plans = [e for k, e in enumerate(events) if e['ev'] == 'plan' and (k + 1) not in rejected and len(e['jobs']) >= 2][:2]
    if len(good_runs) == 3:
        def mut(evs):
            evs[0]['out'] = evs[0]['out'][1:]                      # drop a record
            evs[1]['out'][0]['seq'] = evs[1]['out'][0]['seq'][:-1] + ('A' if evs[1]['out'][0]['seq'][-1] != 'A' else 'C')
            evs[2]['out'].append(dict(evs[2]['out'][-1]))           # a record twice
            return evs
        ev2 = mut(json.loads(json.dumps(good_runs)))
        p = os.path.join(vlib.scratch(), 'selftest_c05_runs.ndjson')
        vlib.write_ndjson(p, ev2)
        rs = vlib.validate_trace('Trace_JobPlan', p)
        c.selftest('drop_record/alter_base/duplicate_record', len(rs['rejects']) == 3,
                   '%d of 3 corrupted run observations rejected: %s' % (len(rs['rejects']), [x['clause'] for x in rs['rejects']]))
    elif not r['rejects']:
        raise vlib.MachineryError('no accepted run observation available for the binding self-test')
    else:   # TLC already rejected observations of this tree and no accepted run is left to corrupt
        c.extra['binding_selftest_skipped'] = 'only %d accepted run observations (3 needed), %d observations rejected' % (len(good_runs), len(r['rejects']))
    if len(good_plans) == 2:
        def mutp(evs):
            evs[0]['jobs'] = evs[0]['jobs'][:-1] if evs[0]['jobs'][-1] != ['*'] else evs[0]['jobs'][1:]
            evs[1]['jobs'].append(list(evs[1]['jobs'][-1]))
            return evs
        ev2 = mutp(json.loads(json.dumps(good_plans)))
        p = os.path.join(vlib.scratch(), 'selftest_c05_plans.ndjson')
        vlib.write_ndjson(p, ev2)
        rs = vlib.validate_trace('Trace_JobPlan', p)
        c.selftest('drop_job/duplicate_job', len(rs['rejects']) == 2, '%d of 2 corrupted plans rejected' % len(rs['rejects']))
    c.assumptions += ['bamtagmultiome.sleep is replaced by a no-op in the driver (only removes the 5 s wait before temp-folder cleanup)',
                      'samtools is not installed: merge_bams / replace_bam_header take their pysam branches',
                      'the mate-pairing library (pysamiterators) is taken as given: secondary/supplementary records are outside the '
                      'claim; "both mates present" = both mates are records of the input file (also half-mapped, cross-contig, unmapped pairs)',
                      '--no_rejects is judged for nla and chic (qflag forces yield_invalid and defines no invalid fragments)',
                      'read names: inputs carry SM/RX/... tags already, so the query-name flagger does not rewrite names (C04 covers the codec)']
    runs = [e for e in events if e['ev'] == 'run']
    return c.finish(rule='plan events: every layout of JobPlan (<=4 contigs, n<=1) through the real plan code; run events: one real CLI '
                         'execution per (layout, BAM seed, method, mode, workers, no_rejects); distinct_nontrivial counts distinct '
                         '(shape, mode, method, no_rejects) of run events with at least one record plus distinct plan shapes',
                    extra_cov={'distinct_nontrivial': len(set((e['shape'], e['mode'], e['method'], e['no_rejects']) for e in runs if e['in']))
                               + len(set(e['shape'] for e in events if e['ev'] == 'plan')),
                               'real_cli_runs': len(runs), 'plan_observations': len(events) - len(runs), 'driver_cases': meta['cases']})


def replay(path):
    with open(path) as f:
        rp = json.load(f)
    ev = rp['case']['event']
    case = {k: ev.get(k) for k in ('layout', 'method', 'mode', 'threads', 'no_rejects', 'bamseed', 'ev', 'extra', 'index_state')}
    case['plan_only'] = False
    cp = os.path.join(vlib.scratch(), 'replay_case.json')
    json.dump(case, open(cp, 'w'))
    sp = os.path.join(vlib.scratch(), 'none.json')
    json.dump({'plan': [], 'run': []}, open(sp, 'w'))
    trace = os.path.join(vlib.scratch(), 'replay.ndjson')
    vlib.run_driver('drive_jobplan.py', [trace, 'quick', rp.get('seed', 0), sp, cp])
    r = vlib.validate_trace('Trace_JobPlan', trace)
    if r['rejects']:
        for x in r['rejects']:
            print('  rejected: %s' % x['clause'])
        print('VIOLATION property=C05 replay=%s' % path)
        return 1
    print('replay: accepted')
    return 0
